// Package explore is Engine A: explicit-state breadth-first search over REAL
// implementation objects. A state is represented by the shortest operation path
// that reaches it; a successor is computed by building a fresh instance,
// replaying the path and applying one more operation. States are deduplicated
// by a structural fingerprint; violating states are reported and not expanded.
package explore

import (
	"fmt"
	"runtime"
	"sort"
	"sync"
	"sync/atomic"
	"time"

	"verif/report"
)

// Viol is an oracle failure observed in a state or on a transition.
type Viol struct {
	Kind, Site, Detail string
	// Expand: report the violation but still expand the state. Only for findings
	// of a destructive end-of-state probe that did not pollute the state itself
	// (the probed instance is discarded; successors are computed by replay).
	// A state is expanded only if ALL its violations are marked Expand.
	Expand bool
}

// System is one fresh instance of the implementation under test plus its
// reference model / monitors.
type System interface {
	// Ops lists the operations enabled in the current state (small finite menu).
	Ops() []string
	// Apply executes one operation on the real implementation and returns an
	// observation string (used only for evidence / traces).
	Apply(op string) string
	// Fingerprint canonically identifies the state (called before Check).
	Fingerprint() string
	// Check evaluates the oracle; it may be destructive (the instance is
	// discarded afterwards). It also returns violations accumulated by monitors
	// during Apply.
	Check() []Viol
}

type Model struct {
	Name   string
	Config string
	New    func() System
	Depth  int
	// NoDedupDepth: additionally explore the full tree without deduplication to
	// this depth (cross-check against an over-coarse fingerprint). 0 = skip.
	NoDedupDepth int
	// Exec wraps one execution (e.g. in a synctest bubble). nil = direct call.
	Exec func(body func())
	// Classify assigns v.Class (root-cause class) — may be nil.
	Classify func(v *report.Violation)
	// Workers: parallelism (default NumCPU).
	Workers int
	// Budget: wall-clock cap; when hit the run ends with exhaustive=false.
	Budget time.Duration
	// MaxStates caps the number of distinct states (0 = none).
	MaxStates int
}

type node struct {
	parent *node
	op     string
	depth  int
}

func (n *node) path() []string {
	p := make([]string, n.depth)
	for x := n; x != nil && x.depth > 0; x = x.parent {
		p[x.depth-1] = x.op
	}
	return p
}

type result struct {
	fp    string
	obs   string
	viols []Viol
	ops   []string
	panic string
}

func (m *Model) exec(path []string, op string, wantOps bool) (res result) {
	body := func() {
		defer func() {
			if r := recover(); r != nil {
				buf := make([]byte, 4096)
				n := runtime.Stack(buf, false)
				res.panic = fmt.Sprintf("%v\n%s", r, buf[:n])
			}
		}()
		sys := m.New()
		for _, p := range path {
			sys.Apply(p)
		}
		if op != "" {
			res.obs = sys.Apply(op)
		}
		res.fp = sys.Fingerprint()
		if wantOps {
			res.ops = sys.Ops()
		}
		res.viols = sys.Check()
	}
	if m.Exec != nil {
		m.Exec(body)
	} else {
		body()
	}
	return
}

// Replay re-executes a trace and returns the violations of the final state.
func (m *Model) Replay(trace []string) ([]Viol, string) {
	if len(trace) == 0 {
		r := m.exec(nil, "", false)
		return r.viols, r.panic
	}
	r := m.exec(trace[:len(trace)-1], trace[len(trace)-1], false)
	return r.viols, r.panic
}

// Run explores the model and records coverage and violations in run.
func (m *Model) Run(run *report.Run) report.Part {
	part := m.search(run, m.Depth, true)
	if m.NoDedupDepth > 0 {
		p2 := m.search(run, m.NoDedupDepth, false)
		part.Note += fmt.Sprintf(" nodedup-crosscheck depth=%d transitions=%d", m.NoDedupDepth, p2.Transitions)
		part.Transitions += p2.Transitions
		if !p2.Exhaustive {
			part.Exhaustive = false
		}
	}
	run.AddPart(part)
	return part
}

func (m *Model) search(run *report.Run, depth int, dedup bool) report.Part {
	start := time.Now()
	workers := m.Workers
	if workers <= 0 {
		workers = runtime.NumCPU()
	}
	part := report.Part{Name: m.Name + "[" + m.Config + "]", Engine: "A:bfs-replay", Exhaustive: true}
	seen := map[string]bool{}
	outcomes := map[string]bool{}
	root := &node{}
	r0 := m.exec(nil, "", true)
	if r0.panic != "" {
		run.Violation(report.Violation{Part: part.Name, Kind: "panic", Site: "init", Detail: r0.panic, Config: m.Config})
		return part
	}
	seen[r0.fp] = true
	part.States = 1
	m.reportViols(run, part.Name, r0.viols, nil, "")
	type item struct {
		n   *node
		ops []string
	}
	frontier := []item{{root, r0.ops}}
	maxDepth := 0
	var trans int64
	for d := 0; d < depth && len(frontier) > 0; d++ {
		// build job list
		type job struct {
			parent int
			op     string
		}
		var jobs []job
		for i, it := range frontier {
			for _, op := range it.ops {
				jobs = append(jobs, job{i, op})
			}
		}
		results := make([]result, len(jobs))
		var next int64 = -1
		var wg sync.WaitGroup
		var timedOut atomic.Bool
		for w := 0; w < workers; w++ {
			wg.Add(1)
			go func() {
				defer wg.Done()
				for {
					j := atomic.AddInt64(&next, 1)
					if int(j) >= len(jobs) {
						return
					}
					if m.Budget > 0 && time.Since(start) > m.Budget {
						timedOut.Store(true)
						return
					}
					jb := jobs[j]
					results[j] = m.exec(frontier[jb.parent].n.path(), jb.op, true)
				}
			}()
		}
		wg.Wait()
		if timedOut.Load() {
			part.Exhaustive = false
			part.Note += fmt.Sprintf(" budget hit at depth %d (complete to depth %d)", d+1, d)
			break
		}
		var nextFrontier []item
		for j, res := range results {
			jb := jobs[j]
			trans++
			pn := frontier[jb.parent].n
			path := append(pn.path(), jb.op)
			outcomes[jb.op+"=>"+res.obs] = true
			if res.panic != "" {
				v := report.Violation{Part: part.Name, Kind: "panic", Site: opSite(jb.op), Detail: res.panic, Config: m.Config, Trace: path}
				if m.Classify != nil {
					m.Classify(&v)
				}
				run.Violation(v)
				continue
			}
			if len(res.viols) > 0 {
				m.reportViols(run, part.Name, res.viols, path, jb.op)
				expand := true
				for _, v := range res.viols {
					expand = expand && v.Expand
				}
				if !expand {
					continue // violating states are not expanded
				}
			}
			if dedup {
				if seen[res.fp] {
					continue
				}
				seen[res.fp] = true
			}
			part.States++
			if d+1 > maxDepth {
				maxDepth = d + 1
			}
			if part.States <= 3 || (part.States%997 == 0) {
				run.Sample(map[string]any{"part": part.Name, "trace": path, "obs": res.obs})
			}
			nextFrontier = append(nextFrontier, item{&node{parent: pn, op: jb.op, depth: pn.depth + 1}, res.ops})
			if m.MaxStates > 0 && int(part.States) >= m.MaxStates {
				break
			}
		}
		frontier = nextFrontier
		if m.MaxStates > 0 && int(part.States) >= m.MaxStates {
			part.Exhaustive = false
			part.Note += fmt.Sprintf(" state cap %d hit at depth %d", m.MaxStates, d+1)
			break
		}
	}
	fix := ""
	if len(frontier) == 0 {
		fix = " fixed-point"
	}
	part.Transitions = trans
	part.Outcomes = int64(len(outcomes))
	part.Bound = fmt.Sprintf("depth<=%d dedup=%v maxdepth-reached=%d%s", depth, dedup, maxDepth, fix)
	return part
}

func opSite(op string) string {
	for i, c := range op {
		if c == '(' || c == ':' || c == ' ' {
			return op[:i]
		}
	}
	return op
}

func (m *Model) reportViols(run *report.Run, part string, vs []Viol, path []string, op string) {
	sort.SliceStable(vs, func(i, j int) bool { return vs[i].Kind < vs[j].Kind })
	for _, v := range vs {
		site := v.Site
		if site == "" {
			site = opSite(op)
		}
		rv := report.Violation{Part: part, Kind: v.Kind, Site: site, Detail: v.Detail, Config: m.Config, Trace: path}
		if m.Classify != nil {
			m.Classify(&rv)
		}
		run.Violation(rv)
	}
}
