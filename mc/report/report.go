// Package report collects what a check covered, classifies violations against
// /verif/known_findings.json, writes replay files and /verif/evidence/<id>.json
// and decides the exit code: 0 held (known findings printed), 1 VIOLATION,
// 2 harness error.
package report

import (
	"encoding/json"
	"flag"
	"fmt"
	"os"
	"path/filepath"
	"sort"
	"strconv"
	"strings"
	"sync"
	"time"
)

var (
	FlagTier   = flag.String("tier", envOr("VERIF_TIER", "quick"), "quick|thorough")
	FlagReplay = flag.String("replay", "", "replay file to re-execute")
	FlagProp   = flag.String("prop", "", "property id override")
	FlagPart   = flag.String("part", "", "run only the named part(s) of the check (comma separated)")
)

func envOr(k, d string) string {
	if v := os.Getenv(k); v != "" {
		return v
	}
	return d
}

func Root() string { return envOr("VERIF_ROOT", "/verif") }

// evidenceDir: runs against a scratch copy of the repository (VERIF_REPO set to something other than /repo, i.e. a
// mutant demonstration) must not overwrite the evidence of the real tree.
func evidenceDir() string {
	if r := os.Getenv("VERIF_REPO"); r != "" && r != "/repo" {
		return filepath.Join(Root(), ".work", "alt-evidence")
	}
	return filepath.Join(Root(), "evidence")
}

// Violation is one broken-oracle observation.
type Violation struct {
	Property string   `json:"property"`
	Part     string   `json:"part"`   // sub-check / adapter / scenario name
	Kind     string   `json:"kind"`   // which clause of the property broke
	Site     string   `json:"site"`   // API call / handler returning the offending observation
	Detail   string   `json:"detail"` // human-readable
	Config   string   `json:"config,omitempty"`
	Trace    []string `json:"trace"` // operation list or schedule that reaches it
	// Class is the root-cause class assigned by the harness's coded matcher
	// ("" = unclassified). Only classes listed as status "known" in
	// known_findings.json are suppressed.
	Class string `json:"class,omitempty"`
	// Extra: anything needed to replay (opaque to this package).
	Extra map[string]any `json:"extra,omitempty"`
}

type Finding struct {
	Property    string `json:"property"`
	ID          string `json:"id"`
	Status      string `json:"status"` // "known" | "fixed"
	Kind        string `json:"kind,omitempty"`
	Site        string `json:"site,omitempty"`
	Predicate   string `json:"predicate,omitempty"`
	Description string `json:"description"`
	Commit      string `json:"commit,omitempty"`
}

type Part struct {
	Name        string `json:"name"`
	Engine      string `json:"engine"`
	Bound       string `json:"bound"`
	States      int64  `json:"states"`
	Transitions int64  `json:"transitions"`
	Executions  int64  `json:"executions,omitempty"`
	Outcomes    int64  `json:"distinct_outcomes,omitempty"`
	Exhaustive  bool   `json:"exhaustive"`
	Note        string `json:"note,omitempty"`
}

type Run struct {
	mu          sync.Mutex
	Property    string
	Level       string
	Tier        string
	Seed        int64
	start       time.Time
	parts       []Part
	samples     []any
	violations  []Violation
	knownHits   map[string]int
	known       map[string]Finding
	Assumptions []string
	Rule        string
	extra       map[string]any
	harnessErr  []string
	evals       int64
	nontrivial  int64
	capped      bool
}

func New(property, level string) *Run {
	if *FlagProp != "" {
		property = *FlagProp
	}
	seed, _ := strconv.ParseInt(os.Getenv("VERIF_SEED"), 10, 64)
	r := &Run{Property: property, Level: level, Tier: *FlagTier, Seed: seed, start: time.Now(),
		knownHits: map[string]int{}, known: map[string]Finding{}, extra: map[string]any{}}
	files := []string{filepath.Join(Root(), "known_findings.json")}
	frag, _ := filepath.Glob(filepath.Join(Root(), "findings.d", "*.json"))
	files = append(files, frag...)
	for _, kf := range files {
		b, err := os.ReadFile(kf)
		if err != nil {
			continue
		}
		var fs struct {
			Findings []Finding `json:"findings"`
		}
		if err := json.Unmarshal(b, &fs); err != nil {
			r.HarnessError(kf + ": " + err.Error())
		}
		for _, f := range fs.Findings {
			if f.Property == property && f.Status == "known" {
				r.known[f.ID] = f
			}
		}
	}
	return r
}

func (r *Run) Thorough() bool { return r.Tier == "thorough" }

// WantPart reports whether the named part is selected by -part.
func (r *Run) WantPart(name string) bool {
	if *FlagPart == "" {
		return true
	}
	for _, p := range strings.Split(*FlagPart, ",") {
		if p == name || strings.HasPrefix(name, p) {
			return true
		}
	}
	return false
}

func (r *Run) AddPart(p Part) {
	r.mu.Lock()
	defer r.mu.Unlock()
	r.parts = append(r.parts, p)
	if !p.Exhaustive {
		r.capped = true
	}
}

func (r *Run) AddEvals(n, nontrivial int64) {
	r.mu.Lock()
	r.evals += n
	r.nontrivial += nontrivial
	r.mu.Unlock()
}

func (r *Run) Sample(s any) {
	r.mu.Lock()
	defer r.mu.Unlock()
	if len(r.samples) < 12 {
		r.samples = append(r.samples, s)
	}
}

func (r *Run) SetExtra(k string, v any) {
	r.mu.Lock()
	r.extra[k] = v
	r.mu.Unlock()
}

func (r *Run) HarnessError(msg string) {
	r.mu.Lock()
	r.harnessErr = append(r.harnessErr, msg)
	r.mu.Unlock()
	fmt.Printf("HARNESS-ERROR property=%s %s\n", r.Property, msg)
}

// Violation records v. Returns true if it is a new (unsuppressed) violation.
func (r *Run) Violation(v Violation) bool {
	r.mu.Lock()
	defer r.mu.Unlock()
	v.Property = r.Property
	if v.Class != "" {
		if _, ok := r.known[v.Class]; ok {
			r.knownHits[v.Class]++
			return false
		}
	}
	// dedupe on (part, kind, site, class): keep the first (shortest) witness of each
	for _, o := range r.violations {
		if o.Part == v.Part && o.Kind == v.Kind && o.Site == v.Site && o.Class == v.Class {
			return false
		}
	}
	r.violations = append(r.violations, v)
	return true
}

func (r *Run) NumViolations() int {
	r.mu.Lock()
	defer r.mu.Unlock()
	return len(r.violations)
}

// racePass folds the result of the separate free-running -race pass (run by bin/check before the harness) into the run.
func (r *Run) racePass() {
	res := os.Getenv("VERIF_RACE_RESULT")
	if res == "" {
		return
	}
	parts := strings.SplitN(res, ":", 3)
	n, _ := strconv.ParseInt(func() string {
		if len(parts) > 1 {
			return parts[1]
		}
		return "0"
	}(), 10, 64)
	switch parts[0] {
	case "ok":
		note := "no data race between repository code reported, end-state invariants held"
		if len(parts) > 2 {
			note += " (race reports: " + parts[2] + "; harness = a side of the race is harness bookkeeping, outofscope = listed in race_out_of_scope.json)"
		}
		r.AddPart(Part{Name: "free-running -race pass", Engine: "go test -race (real goroutines, real sync)", Bound: "samples schedules; supplements the controlled exploration, decides nothing", Executions: n, Exhaustive: true, Note: note})
	case "fail":
		log := ""
		if len(parts) > 2 {
			log = parts[2]
		}
		r.Violation(Violation{Part: "free-running -race pass", Kind: "data-race-or-invariant", Site: "race detector", Detail: "the free-running -race pass reported a data race or a failed end-state invariant; log: " + log})
	case "buildfail":
		r.HarnessError("-race build of the harness failed or the free-running pass crashed")
	}
}

// Finish writes evidence + replay files, prints verdict lines and returns the exit code.
func (r *Run) Finish() int {
	r.racePass()
	r.mu.Lock()
	defer r.mu.Unlock()
	wall := time.Since(r.start).Seconds()
	evdir := evidenceDir()
	_ = os.MkdirAll(filepath.Join(evdir, "replay"), 0o755)

	// known findings
	ids := make([]string, 0, len(r.knownHits))
	for id := range r.knownHits {
		ids = append(ids, id)
	}
	sort.Strings(ids)
	for _, id := range ids {
		f := r.known[id]
		fmt.Printf("KNOWN-FINDING: property=%s %s: %s (%d witnesses)\n", r.Property, id, f.Description, r.knownHits[id])
	}

	replayPaths := []string{}
	if *FlagReplay == "" {
		old, _ := filepath.Glob(filepath.Join(evdir, "replay", r.Property+"-*.json"))
		for _, o := range old {
			os.Remove(o)
		}
	}
	for i, v := range r.violations {
		p := filepath.Join(evdir, "replay", fmt.Sprintf("%s-%d.json", r.Property, i+1))
		if *FlagReplay != "" {
			p = *FlagReplay
		} else {
			b, _ := json.MarshalIndent(v, "", " ")
			_ = os.WriteFile(p, b, 0o644)
		}
		replayPaths = append(replayPaths, p)
		fmt.Printf("VIOLATION property=%s replay=%s\n", r.Property, p)
		fmt.Printf("  part=%s kind=%s site=%s class=%q\n  detail: %s\n  trace: %s\n", v.Part, v.Kind, v.Site, v.Class, v.Detail, strings.Join(v.Trace, " ; "))
	}

	var states, trans, execs, outcomes int64
	exhaustive := !r.capped
	for _, p := range r.parts {
		states += p.States
		trans += p.Transitions
		execs += p.Executions
		outcomes += p.Outcomes
	}
	cov := map[string]any{
		"parts":      r.parts,
		"samples":    r.samples,
		"exhaustive": exhaustive,
		"rule":       r.Rule,
	}
	if len(r.samples) == 0 {
		cov["samples"] = []any{"(none recorded)"}
	}
	if r.Level == "model_checking" {
		if states < 1 {
			states = 1
		}
		if trans < 1 {
			trans = 1
		}
		cov["states"] = states
		cov["transitions"] = trans
		cov["traces_validated_against_impl"] = trans + execs
		cov["schedules"] = execs
		cov["distinct_outcomes"] = outcomes
		if r.evals > 0 {
			cov["evaluations"] = r.evals
			cov["distinct_nontrivial"] = r.nontrivial
		}
	} else {
		cov["evaluations"] = r.evals + trans + execs
		cov["distinct_nontrivial"] = r.nontrivial + states
	}
	for k, v := range r.extra {
		cov[k] = v
	}
	kf := []string{}
	for _, id := range ids {
		kf = append(kf, id)
	}
	cov["known_findings_hit"] = kf
	ev := map[string]any{
		"property_id": r.Property,
		"tier":        r.Tier,
		"seed":        r.Seed,
		"level":       r.Level,
		"coverage":    cov,
		"assumptions": r.Assumptions,
		"wall_s":      wall,
		"violations":  len(r.violations),
	}
	if len(r.harnessErr) > 0 {
		ev["harness_errors"] = r.harnessErr
	}
	if *FlagReplay == "" && *FlagPart == "" {
		b, _ := json.MarshalIndent(ev, "", " ")
		if err := os.WriteFile(filepath.Join(evdir, r.Property+".json"), b, 0o644); err != nil {
			fmt.Printf("HARNESS-ERROR cannot write evidence: %v\n", err)
			return 2
		}
	}
	fmt.Printf("SUMMARY property=%s tier=%s states=%d transitions=%d executions=%d evals=%d violations=%d known=%d exhaustive=%v wall=%.1fs\n",
		r.Property, r.Tier, states, trans, execs, r.evals, len(r.violations), len(ids), exhaustive, wall)
	if len(r.violations) > 0 {
		return 1
	}
	if len(r.harnessErr) > 0 {
		return 2
	}
	return 0
}

// LoadReplay reads a replay file.
func LoadReplay(path string) (Violation, error) {
	var v Violation
	b, err := os.ReadFile(path)
	if err != nil {
		return v, err
	}
	err = json.Unmarshal(b, &v)
	return v, err
}
