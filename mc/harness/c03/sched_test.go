package c03

// Engine B part "sched:*": "after a lease is released, declined or expired in userspace the fast path no longer
// answers for it" when the events that end a binding race with the events that renew it. The DHCP server handles
// every packet on its own goroutine and the expiry sweep on another; each scenario runs a sequential prefix and
// then 2 logical threads (one packet each, or the sweep) under every schedule up to the preemption bound
// (scheduling points: every lock operation of the rewritten dhcp package). At the end of every schedule the
// real kernel program is run on a DISCOVER and a renewing REQUEST of the client: if it answers, the userspace
// server must still hold a lease for that client.

import (
	"bytes"
	"encoding/binary"
	"fmt"
	"net"
	"strings"
	"time"

	"github.com/codelaboratoryltd/bng/pkg/ebpf"
	"github.com/insomniacslk/dhcp/dhcpv4"

	"verif/harness/dhcpdrv"
	"verif/nativebpf"
	"verif/report"
	"verif/sched"
)

type bscen struct {
	name    string
	expired bool     // the prefix's leases are already expired when the threads start (pool lease time -1 s during the prefix)
	pre     []string // history ops (Engine A syntax) executed sequentially
	threads []string // "R:m1" renewal, "L:m1" release, "X:m1" decline, "sweep"
}

func bscenarios(thorough bool) []bscen {
	s := []bscen{
		{"renew(m1)|sweep, lease lapsed", true, []string{"D:m1", "R:m1"}, []string{"Rn:m1", "sweep"}},
		{"release(m1)|sweep, lease lapsed", true, []string{"D:m1", "R:m1"}, []string{"L:m1", "sweep"}},
		{"release(m1)|renew(m1)", false, []string{"D:m1", "R:m1"}, []string{"L:m1", "Rn:m1"}},
		{"decline(m1)|renew(m1)", false, []string{"D:m1", "R:m1"}, []string{"X:m1", "Rn:m1"}},
		// a renewal overtaken by the client starting over: release, new DISCOVER + REQUEST (which gets another address)
		{"renew(m1)|release,discover,request(m1)", false, []string{"D:m1", "R:m1"}, []string{"Rn:m1", "L:m1,D:m1,Rq:m1"}},
	}
	if thorough {
		s = append(s,
			bscen{"renew(m2 relayed)|sweep, lease lapsed", true, []string{"D:m2", "R:m2"}, []string{"Rn:m2", "sweep"}},
			bscen{"release(m2 relayed)|renew(m2)", false, []string{"D:m2", "R:m2"}, []string{"L:m2", "Rn:m2"}},
		)
	}
	return s
}

var bcfg = config{"/24 1dns lease10m serverid=gw", "10.1.1.0/24", "10.1.1.1", "", []string{"8.8.8.8"}, 10 * time.Minute}

type bstate struct {
	w *world
}

func (e *env) bscenario(sc bscen) *sched.Scenario {
	return &sched.Scenario{
		Name: sc.name,
		Setup: func(x *sched.Exec) {
			clearMaps(e.k)
			l := e.loader()
			cfg := bcfg
			if sc.expired {
				cfg.lease = -time.Second // time is real in this part: leases handed out by the prefix are born expired
			}
			d := dhcpdrv.NewV4(dhcpdrv.V4Config{Network: cfg.network, Gateway: cfg.gateway, ServerIP: cfg.serverIP, Lease: cfg.lease, Loader: l, DNS: cfg.dns})
			w := &world{d: d, offered: map[string]net.IP{}, leased: map[string]net.IP{}, ended: map[string]bool{}, byE: map[string]bool{}}
			l.SetServerConfig(srvMAC, w.d.ServerIP(), 2)
			for _, op := range sc.pre {
				w.apply(cfg, op)
			}
			d.Pool.LeaseTime = bcfg.lease // from now on a renewal produces an unexpired lease
			x.Data = &bstate{w: w}
			for ti, op := range sc.threads {
				ti, op := ti, op
				x.Thread(fmt.Sprintf("T%d", ti), func() {
					if op == "sweep" {
						d.Cleanup()
						x.Obs("T%d:sweep", ti)
						return
					}
					var offer net.IP
					for _, one := range strings.Split(op, ",") {
						kind, name, _ := strings.Cut(one, ":")
						var c client
						for _, q := range clients {
							if q.name == name {
								c = q
							}
						}
						m := dhcpdrv.Msg{CHAddr: c.mac, GIAddr: c.giaddr, CircuitID: c.circuit}
						own := w.leased[name]
						switch kind {
						case "Rn":
							m.Type, m.CIAddr = dhcpv4.MessageTypeRequest, own
						case "L":
							m.Type, m.CIAddr, m.ServerID = dhcpv4.MessageTypeRelease, own, d.ServerIP()
						case "X":
							m.Type, m.ReqIP, m.ServerID = dhcpv4.MessageTypeDecline, own, d.ServerIP()
						case "D":
							m.Type = dhcpv4.MessageTypeDiscover
						case "Rq": // selecting REQUEST for the address this thread was just offered
							m.Type, m.ReqIP, m.ServerID = dhcpv4.MessageTypeRequest, offer, d.ServerIP()
						}
						var o []string
						for _, r := range d.Send(m) {
							o = append(o, r.String())
							if r.Type == dhcpv4.MessageTypeOffer {
								offer = r.YIAddr
							}
						}
						x.Obs("T%d:%s=%s", ti, one, strings.Join(o, ","))
					}
				})
			}
		},
		Check: func(x *sched.Exec) []sched.Viol {
			w := x.Data.(*bstate).w
			var vs []sched.Viol
			holds := map[string]bool{}
			for _, ls := range w.d.Leases() {
				holds[ls.MAC.String()] = true
				// the MAC-keyed cache entry, if any, must carry the address of the lease the server holds NOW
				key := make([]byte, 8)
				binary.LittleEndian.PutUint64(key, ebpf.MACToUint64(ls.MAC))
				if raw, err := e.k.Coll.Maps["subscriber_pools"].LookupBytes(key); err == nil && len(raw) >= 8 {
					if got, want := binary.LittleEndian.Uint32(raw[4:8]), ebpf.IPToUint32(ls.IP); got != want {
						vs = append(vs, sched.Viol{Kind: "cache-entry-differs-from-lease", Site: "subscriber_pools",
							Detail: fmt.Sprintf("the server's lease for %s is %s, the fast path entry for that MAC carries allocated_ip %#08x (the control plane writes %#08x for %s)", ls.MAC, ls.IP, got, want, ls.IP)})
					}
				}
			}
			for _, c := range clients[:2] {
				for _, pn := range []string{"DISCOVER", "REQUEST-renew-ciaddr"} {
					p := probe{pn, dhcpv4.MessageTypeDiscover, "", "", false, false, "53first", 80, 5}
					if pn != "DISCOVER" {
						p.mtype, p.ciOwn = dhcpv4.MessageTypeRequest, true
					}
					in := frame(c, dhcpPayload(w, c, p), 5)
					verdict, out, err := e.k.Run("dhcp_fastpath_prog", in)
					e.evals++
					if err != nil {
						continue
					}
					if verdict != nativebpf.XDP_TX {
						if !bytes.Equal(in, out) {
							vs = append(vs, sched.Viol{Kind: "pass-modified", Site: "dhcp_fastpath_prog", Detail: "probe=" + pn + " from " + c.name + ": frame handed on differs from the frame received"})
						}
						continue
					}
					e.tx++
					if !holds[c.mac.String()] {
						vs = append(vs, sched.Viol{Kind: "answers-after-binding-ended", Site: "dhcp_fastpath_prog",
							Detail: fmt.Sprintf("probe=%s from %s: the fast path answers (cache entry present) but the userspace server holds no lease for %s any more", pn, c.name, c.mac)})
					}
				}
			}
			return vs
		},
	}
}

func runSched(run *report.Run, k *nativebpf.Kernel) {
	bound := 2
	if run.Thorough() {
		bound = 3
	}
	e := &env{run: run, k: k, cfg: bcfg}
	for _, sc := range bscenarios(run.Thorough()) {
		name := "sched:" + sc.name
		if !run.WantPart(name) {
			continue
		}
		ex := &sched.Explorer{Bound: bound, Budget: 3 * time.Minute}
		res := ex.Explore(e.bscenario(sc))
		run.AddPart(report.Part{Name: name, Engine: "B:sched-dfs", Bound: fmt.Sprintf("preemptions<=%d completed=%d maxpoints=%d", bound, res.Bound, res.MaxPoints),
			Executions: res.Executions, Outcomes: int64(len(res.Outcomes)), Exhaustive: res.Exhaustive, States: int64(len(res.Outcomes))})
		for _, f := range res.Failures {
			x1 := sched.RunOnce(e.bscenario(sc), f.Choices)
			x2 := sched.RunOnce(e.bscenario(sc), f.Choices)
			if strings.Join(x1.Log, "|") != strings.Join(x2.Log, "|") || strings.Join(x1.Log, "|") != strings.Join(f.Log, "|") {
				run.HarnessError("non-deterministic replay of schedule in " + name)
				continue
			}
			for _, v := range f.Viols {
				tr := append([]string{"pre=" + strings.Join(sc.pre, ","), "threads=" + fmt.Sprint(sc.threads)}, f.Schedule...)
				run.Violation(report.Violation{Part: name, Kind: v.Kind, Site: v.Site, Detail: v.Detail + " | observations: " + strings.Join(f.Log, " "), Trace: tr,
					Extra: map[string]any{"choices": f.Choices}})
			}
		}
	}
	run.AddEvals(e.evals, e.tx)
}

func replaySched(run *report.Run, k *nativebpf.Kernel, v report.Violation) int {
	e := &env{run: run, k: k, cfg: bcfg}
	for _, sc := range bscenarios(true) {
		if "sched:"+sc.name != v.Part {
			continue
		}
		var choices []int
		if cs, ok := v.Extra["choices"].([]any); ok {
			for _, c := range cs {
				choices = append(choices, int(c.(float64)))
			}
		}
		s := e.bscenario(sc)
		x := sched.RunOnce(s, choices)
		vs := s.Check(x)
		if x.PanicText != "" {
			vs = append(vs, sched.Viol{Kind: "panic", Detail: x.PanicText})
		}
		if x.Deadlock {
			vs = append(vs, sched.Viol{Kind: "deadlock", Detail: strings.Join(x.Schedule(), ",")})
		}
		for _, q := range vs {
			fmt.Printf("VIOLATION property=C03 replay=%s\n  kind=%s site=%s detail=%s\n", *report.FlagReplay, q.Kind, q.Site, q.Detail)
		}
		if len(vs) > 0 {
			return 1
		}
		fmt.Println("replay: no violation")
		return 0
	}
	fmt.Println("HARNESS-ERROR unknown part", v.Part)
	return 2
}
