//go:build verif

package c03

// Two further history-tree parts over the same evalState / checkReply oracle as fastpath[...]:
//
// ctl[cfg]  "every cache state produced by driving the userspace server" includes the control plane: the history
//           alphabet gets the PoolManager calls a running BNG sees on a configuration reload — AddPool with an id
//           that is in use and DIFFERENT parameters (rejected), AddPool / SetDefaultPool / RemovePool of a second
//           pool (accepted or rejected depending on the history), RemovePool of the serving pool — interleaved with
//           client messages. Whatever a call returned, in the state it leaves behind every fast-path reply must
//           carry the values the userspace server sends at that moment (a rejected call changed nothing in
//           userspace, so it must have changed nothing the fast path answers from).
//
// cid[cfg]  option-82 circuit-id lengths around the kernel key length (32): four relayed clients with distinct
//           MACs whose circuit-ids are 31, 32, 33 and 40 bytes long and share a 31-byte prefix (the 33- and 40-byte
//           ones share their first 32 bytes). The userspace server tells all four apart (lease table by MAC, index
//           by the FULL circuit-id); the fast path must not answer one of them with another one's address.
//
// Both parts are replayable on their own: --replay re-executes exactly the recorded history and probe family.

import (
	"fmt"
	"net"
	"strings"
	"testing"
	"time"

	"github.com/codelaboratoryltd/bng/pkg/dhcp"
	"github.com/codelaboratoryltd/bng/pkg/ebpf"

	"verif/nativebpf"
	"verif/report"
)

// ---- control-plane alphabet

const (
	ctlAddDup   = "ctl:AddPool(1,other-params)" // same id as the serving pool, different mask / router / DNS / lease time
	ctlAdd2     = "ctl:AddPool(2)"
	ctlDefault2 = "ctl:SetDefaultPool(2)"
	ctlRemove2  = "ctl:RemovePool(2)"
	ctlRemove1  = "ctl:RemovePool(1)"
)

// otherPool1: a pool with the serving pool's id whose every reply-relevant parameter differs from cfg's
func otherPool1(cfg config) (*dhcp.Pool, error) {
	dns := []string{"9.9.9.9"}
	if len(cfg.dns) == 1 {
		dns = []string{"9.9.9.9", "1.0.0.1"}
	}
	return dhcp.NewPool(dhcp.PoolConfig{ID: 1, Name: "p1-reloaded", Network: "10.1.1.128/25", Gateway: "10.1.1.129",
		DNSServers: dns, LeaseTime: cfg.lease + 7*time.Minute, ClientClass: dhcp.ClientClassResidential})
}

func pool2(cfg config) (*dhcp.Pool, error) {
	return dhcp.NewPool(dhcp.PoolConfig{ID: 2, Name: "p2", Network: "10.2.2.0/26", Gateway: "10.2.2.1",
		DNSServers: []string{"8.8.4.4"}, LeaseTime: 2*cfg.lease + time.Minute, ClientClass: dhcp.ClientClassResidential})
}

func (w *world) ctl(cfg config, op string) {
	pm := w.d.PoolMgr
	var err error
	switch op {
	case ctlAddDup:
		var p *dhcp.Pool
		if p, err = otherPool1(cfg); err == nil {
			err = pm.AddPool(p)
		}
	case ctlAdd2:
		var p *dhcp.Pool
		if p, err = pool2(cfg); err == nil {
			err = pm.AddPool(p)
		}
	case ctlDefault2:
		err = pm.SetDefaultPool(2)
	case ctlRemove2:
		err = pm.RemovePool(2)
	case ctlRemove1:
		err = pm.RemovePool(1)
	default:
		panic("c03: unknown control-plane op " + op)
	}
	res := "accepted"
	if err != nil {
		res = "rejected (" + err.Error() + ")"
	}
	w.notes = append(w.notes, strings.TrimPrefix(op, "ctl:")+" "+res)
}

// ---- circuit-id length clients

const cidPrefix31 = "OLT-ACCESS-NODE-LONDON-EAST-01/"

var cidRelay = net.IPv4(10, 9, 9, 1).To4()

// cidClients: circuit-id lengths 31, 32 (= the key length), 33, 40. c31's id is a proper prefix of all others; c32
// differs from the long ones in byte 32; c33 and c40 agree on their first 32 bytes and differ after them. No id of
// at most 32 bytes equals the first 32 bytes of a longer one (that pair shares a key by construction of
// ebpf.MakeCircuitIDKey: recorded under C20-K1, not the subject here).
var cidClients = []client{
	{"c31", net.HardwareAddr{0x02, 0, 0, 0, 1, 0x31}, cidRelay, cidPrefix31},
	{"c32", net.HardwareAddr{0x02, 0, 0, 0, 1, 0x32}, cidRelay, cidPrefix31 + "A"},
	{"c33", net.HardwareAddr{0x02, 0, 0, 0, 1, 0x33}, cidRelay, cidPrefix31 + "B" + "1"},
	{"c40", net.HardwareAddr{0x02, 0, 0, 0, 1, 0x40}, cidRelay, cidPrefix31 + "B" + "2:100:20"},
}

// sharesKeyPrefix: another client whose circuit-id differs from c's but agrees with it on the first CircuitIDKeyLen
// bytes holds a lease (informational mark in the violation detail; nothing is classified by it)
func sharesKeyPrefix(w *world, c client) bool {
	for _, o := range w.cls() {
		if o.name == c.name || o.circuit == c.circuit || w.leased[o.name] == nil {
			continue
		}
		if ebpf.MakeCircuitIDKey([]byte(o.circuit)) == ebpf.MakeCircuitIDKey([]byte(c.circuit)) {
			return true
		}
	}
	return false
}

const keyPrefixMark = " [another client with a DIFFERENT circuit-id that agrees on the first 32 bytes holds a lease]"

// ---- the parts

type extra struct {
	kind    string // part name prefix
	cl      []client
	ops     []string
	noClock bool
	depth   func(thorough bool, cfgIndex int) int
	bases   []hist // further start states (each explored to len(base)+depth-1)
}

func extras() []extra {
	var cidOps []string
	for _, c := range cidClients {
		for _, m := range []string{"D", "R", "L"} {
			cidOps = append(cidOps, m+":"+c.name)
		}
	}
	return []extra{
		{kind: "ctl", cl: clients[:2], noClock: true,
			ops:   []string{"D:m1", "R:m1", "L:m1", "D:m2", "R:m2", ctlAddDup, ctlAdd2, ctlDefault2, ctlRemove2, ctlRemove1},
			depth: func(th bool, _ int) int { return map[bool]int{false: 3, true: 4}[th] },
			// both clients cached: room for two control-plane calls and a renewal
			bases: []hist{{"D:m1", "R:m1", "D:m2", "R:m2"}}},
		{kind: "cid", cl: cidClients, ops: cidOps,
			// both long-id clients cached (their truncated keys coincide), both short-id clients cached (one id is a prefix of the other)
			bases: []hist{{"D:c33", "R:c33", "D:c40", "R:c40"}, {"D:c31", "R:c31", "D:c32", "R:c32"}},
			// thorough: depth 4 under the first configuration only (12^4 histories x 4 clients x the probe family)
			depth: func(th bool, ci int) int {
				if th && ci == 0 {
					return 4
				}
				return 3
			}},
	}
}

func extraPart(name string) bool {
	for _, x := range extras() {
		if strings.HasPrefix(name, x.kind+"[") {
			return true
		}
	}
	return false
}

// extraProbes: the request family of these parts. quick: the frames that reach each lookup stage and each of the two
// option-82 positions the program parses (directly after option 53; after options 50/53/54), untagged and tagged;
// thorough: additionally QinQ / IHL 6 / the non-answerable message types / requests naming another address or server /
// short options areas.
func extraProbes(thorough bool) []probe {
	all := probes(thorough)
	want := map[string]bool{"DISCOVER/53first": true, "DISCOVER-bcast/lib": true, "REQUEST-selecting-own/53first": true, "REQUEST-selecting-own/lib": true,
		"REQUEST-renew-ciaddr/53first": true, "REQUEST-renew-ciaddr/lib": true, "DISCOVER-vlan/53first": true, "REQUEST-selecting-own-qinq/53first": true}
	if thorough {
		for _, n := range []string{"DISCOVER-qinq/53first", "REQUEST-selecting-own-vlan/lib", "DISCOVER-ihl6/53first", "REQUEST-ihl6/53first", "REQUEST-other-address/53first",
			"REQUEST-other-server/lib", "RELEASE/53first", "INFORM/lib", "DISCOVER-short-options/53first", "DISCOVER-opts64/53first"} {
			want[n] = true
		}
	}
	var ps []probe
	for _, p := range all {
		if want[p.name+"/"+p.layout] {
			ps = append(ps, p)
		}
	}
	return ps
}

func checkCidClients(run *report.Run) bool {
	want := []int{31, 32, 33, 40}
	for i, c := range cidClients {
		if len(c.circuit) != want[i] {
			run.HarnessError(fmt.Sprintf("cid part: circuit-id of %s is %d bytes, meant to be %d", c.name, len(c.circuit), want[i]))
			return false
		}
	}
	if ebpf.CircuitIDKeyLen != 32 {
		run.HarnessError(fmt.Sprintf("cid part: written for a 32-byte circuit-id key, ebpf.CircuitIDKeyLen is %d", ebpf.CircuitIDKeyLen))
		return false
	}
	return true
}

func runExtra(run *report.Run, k *nativebpf.Kernel, nd *nativebpf.Driver, t *testing.T, cfgs []config) {
	if !checkCidClients(run) {
		return
	}
	ps := extraProbes(run.Thorough())
	for _, x := range extras() {
		for ci, cfg := range cfgs {
			e := &env{run: run, k: k, cfg: cfg, t: t, d: nd, part: x.kind, cl: x.cl, noClock: x.noClock}
			if !run.WantPart(e.partName()) {
				continue
			}
			depth := x.depth(run.Thorough(), ci)
			budget, t0, complete := 3*time.Minute, time.Now(), true
			if run.Thorough() {
				budget = 6 * time.Minute
			}
			// level order (all histories of length n before any of length n+1): the first witness kept is a shortest one
			explore := func(base hist, limit int) {
				level := []hist{base}
				for {
					for _, h := range level {
						if time.Since(t0) > budget { // wall-clock budget: ends the part as not exhaustive, never as a violation
							complete = false
							return
						}
						e.evalState(h, ps)
					}
					if len(level[0]) >= limit {
						return
					}
					var next []hist
					for _, h := range level {
						for _, op := range x.ops {
							next = append(next, append(append(hist{}, h...), op))
						}
					}
					level = next
				}
			}
			explore(nil, depth)
			maxd := depth
			for _, b := range x.bases {
				explore(b, len(b)+depth-1)
				if len(b)+depth-1 > maxd {
					maxd = len(b) + depth - 1
				}
			}
			run.AddPart(report.Part{Name: e.partName(), Engine: "A:history-tree + C:kernel-test-run",
				Bound:  fmt.Sprintf("history depth<=%d over %d ops (from the empty server: <=%d; %d further start states), %d probes x %d clients per state", maxd, len(x.ops), depth, len(x.bases), len(ps), len(x.cl)),
				States: e.states, Transitions: e.evals, Outcomes: e.tx, Exhaustive: complete, Note: fmt.Sprintf("%d fast-path replies compared with the userspace server", e.tx)})
			run.AddEvals(e.evals, e.tx)
		}
	}
	run.Sample(map[string]any{"part": "ctl", "history": []string{"D:m1", "R:m1", ctlAddDup}, "part cid clients": func() []string {
		var n []string
		for _, c := range cidClients {
			n = append(n, fmt.Sprintf("%s circuit-id %q (%d bytes)", c.name, c.circuit, len(c.circuit)))
		}
		return n
	}()})
}

// replayExtra re-executes the recorded history of a ctl[...] / cid[...] violation and its probe family; the
// violation, if it reproduces, is reported through run (exit 1 + VIOLATION line naming the replay file).
func replayExtra(run *report.Run, k *nativebpf.Kernel, nd *nativebpf.Driver, t *testing.T, cfgs []config, v report.Violation) {
	if !checkCidClients(run) {
		return
	}
	for _, x := range extras() {
		if !strings.HasPrefix(v.Part, x.kind+"[") {
			continue
		}
		for _, cfg := range cfgs {
			if cfg.name != v.Config {
				continue
			}
			var h hist
			for _, s := range v.Trace {
				if !strings.HasPrefix(s, "probe ") {
					h = append(h, s)
				}
			}
			e := &env{run: run, k: k, cfg: cfg, t: t, d: nd, part: x.kind, cl: x.cl, noClock: x.noClock}
			ps := extraProbes(true)
			e.evalState(h, ps)
			run.AddPart(report.Part{Name: e.partName(), Engine: "replay", Bound: "history " + strings.Join(h, " ; "), States: e.states, Transitions: e.evals, Outcomes: e.tx, Exhaustive: true})
			run.AddEvals(e.evals, e.tx)
			if run.NumViolations() == 0 {
				fmt.Println("replay: no violation")
			}
			return
		}
	}
	run.HarnessError("replay: unknown part/config " + v.Part + " / " + v.Config)
}
