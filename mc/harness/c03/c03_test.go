//go:build verif

// C03 — Kernel DHCP fast path answers exactly as the userspace server would.
//
// Differential, executed: the REAL userspace server (dhcp.Server through the
// dhcpdrv driver) is driven through every message history to the stated depth
// with its ebpf.Loader writing into REAL kernel maps created from the compiled
// object; in every reached cache state a finite family of request frames per
// client is executed as real BPF bytecode in the kernel (BPF_PROG_TEST_RUN).
//
//	verdict TX  => reply well formed AND its yiaddr / server-id / mask / router /
//	               DNS / lease time / message type equal those of the reply a
//	               fresh userspace server (same history replayed) gives to the
//	               same DHCP message;
//	verdict !TX => frame bytes identical to the input;
//	after RELEASE / DECLINE / expiry+cleanup of a client the fast path does not
//	answer for it by MAC or circuit-id.
package c03

import (
	"bytes"
	"encoding/binary"
	"errors"
	"fmt"
	"net"
	"os"
	"path/filepath"
	"strings"
	"syscall"
	"testing"
	"testing/synctest"
	"time"

	cebpf "github.com/cilium/ebpf"
	"github.com/codelaboratoryltd/bng/pkg/ebpf"
	"github.com/insomniacslk/dhcp/dhcpv4"
	"go.uber.org/zap"

	"verif/harness/dhcpdrv"
	"verif/nativebpf"
	"verif/report"
)

type config struct {
	name     string
	network  string
	gateway  string
	serverIP string
	dns      []string
	lease    time.Duration
}

var srvMAC = net.HardwareAddr{0x02, 0xaa, 0xbb, 0xcc, 0xdd, 0xee}

type client struct {
	name    string
	mac     net.HardwareAddr
	giaddr  net.IP
	circuit string
}

var clients = []client{
	{"m1", net.HardwareAddr{0x02, 0, 0, 0, 0, 0x01}, nil, ""},
	{"m2", net.HardwareAddr{0x02, 0, 0, 0, 0, 0x02}, net.IPv4(10, 9, 9, 1).To4(), "c1"},
	{"m3", net.HardwareAddr{0x02, 0, 0, 0, 0, 0x03}, net.IPv4(10, 9, 9, 1).To4(), "c1"}, // second MAC behind the same line (CPE swap)
}

// ---- history alphabet (userspace side)

type hist []string

func allOps() []string {
	var o []string
	for _, c := range clients {
		for _, m := range []string{"D", "R", "L", "X"} {
			o = append(o, m+":"+c.name)
		}
		if c.name == "m2" {
			o = append(o, "Q:"+c.name) // renewal whose option 82 carries a remote-id but no circuit-id
		}
	}
	return append(o, "T", "E")
}

type world struct {
	d       *dhcpdrv.V4
	cl      []client          // the clients of this world (nil: the default set `clients`)
	notes   []string          // outcome of every control-plane call of the history (parts ctl[...])
	offered map[string]net.IP // last offer per client
	leased  map[string]net.IP // last ACKed address per client (nil after release/decline/expiry)
	ended   map[string]bool   // the client HAD a binding and it ended (release/decline/expiry) with nothing since
	byE     map[string]bool   // ... and it ended by running out on the userspace clock with no sweep since ("E")
}

// cls: the client set of this world
func (w *world) cls() []client {
	if w.cl != nil {
		return w.cl
	}
	return clients
}

func (w *world) apply(cfg config, op string) {
	if strings.HasPrefix(op, "ctl:") {
		w.ctl(cfg, op)
		return
	}
	if op == "E" {
		// every lease runs out on the userspace clock; the once-a-minute sweep has NOT run yet
		w.d.Advance(cfg.lease + time.Second)
		for k := range w.leased {
			delete(w.leased, k)
			w.ended[k] = true
			w.byE[k] = true
		}
		return
	}
	if op == "T" {
		w.byE = map[string]bool{}
		w.d.Advance(cfg.lease + time.Second)
		w.d.Advance(61 * time.Second)
		for k := range w.leased {
			delete(w.leased, k)
			w.ended[k] = true
		}
		return
	}
	parts := strings.SplitN(op, ":", 2)
	var c client
	for _, x := range w.cls() {
		if x.name == parts[1] {
			c = x
		}
	}
	m := dhcpdrv.Msg{CHAddr: c.mac, GIAddr: c.giaddr, CircuitID: c.circuit}
	switch parts[0] {
	case "D":
		m.Type = dhcpv4.MessageTypeDiscover
	case "R":
		m.Type = dhcpv4.MessageTypeRequest
		if ip := w.offered[c.name]; ip != nil {
			m.ReqIP = ip
		} else if ip := w.leased[c.name]; ip != nil {
			m.ReqIP = ip
		} else {
			m.ReqIP = net.IPv4(10, 1, 1, 77)
			for _, o := range w.cls() {
				if o.name != c.name && c.circuit != "" && o.circuit == c.circuit && w.leased[o.name] != nil {
					m.ReqIP = w.leased[o.name] // the line's address
				}
			}
		}
		m.ServerID = w.d.ServerIP()
	case "Q":
		m.Type = dhcpv4.MessageTypeRequest
		m.CIAddr = w.leased[c.name]
		m.CircuitID = ""
		m.RemoteID = "ri"
	case "L":
		m.Type = dhcpv4.MessageTypeRelease
		m.CIAddr = w.leased[c.name]
		m.ServerID = w.d.ServerIP()
	case "X":
		m.Type = dhcpv4.MessageTypeDecline
		m.ReqIP = w.leased[c.name]
		m.ServerID = w.d.ServerIP()
	}
	for _, r := range w.d.Send(m) {
		switch r.Type {
		case dhcpv4.MessageTypeOffer:
			w.offered[c.name] = r.YIAddr
		case dhcpv4.MessageTypeAck:
			w.leased[c.name] = r.YIAddr
			delete(w.offered, c.name)
			delete(w.ended, c.name)
			delete(w.byE, c.name)
		}
	}
	if parts[0] == "L" || parts[0] == "X" {
		if w.leased[c.name] != nil { // otherwise the message named no address and changed nothing
			w.ended[c.name] = true
			delete(w.byE, c.name)
		}
		delete(w.leased, c.name)
	}
}

func newWorld(cfg config, loader *ebpf.Loader) *world {
	d := dhcpdrv.NewV4(dhcpdrv.V4Config{Network: cfg.network, Gateway: cfg.gateway, ServerIP: cfg.serverIP, Lease: cfg.lease, Loader: loader, DNS: cfg.dns,
		Sleep: func(x time.Duration) { time.Sleep(x); synctest.Wait() }})
	return &world{d: d, offered: map[string]net.IP{}, leased: map[string]net.IP{}, ended: map[string]bool{}, byE: map[string]bool{}}
}

// unswept: the client, or a client on the same circuit-id, has a lease that ran out on the userspace clock and has
// not been swept, renewed, released or declined since
func (w *world) unswept(c client) bool {
	for _, o := range w.cls() {
		if (o.name == c.name || (c.circuit != "" && o.circuit == c.circuit)) && w.byE[o.name] {
			return true
		}
	}
	return false
}

// ---- probe frames

type probe struct {
	name    string
	mtype   dhcpv4.MessageType
	reqIP   string // "", "own", "other"
	srvID   string // "", "ours", "other"
	ciOwn   bool
	bcast   bool
	layout  string // "53first" | "lib"
	padOpts int    // pad the options area with zeros to at least this many bytes
	ihl     int
}

// tags: number of VLAN tags of the probe frame (by name suffix): -vlan = one 802.1Q tag, -qinq = 802.1ad outer + 802.1Q inner
func (p probe) tags() int {
	switch {
	case strings.HasSuffix(p.name, "-qinq"):
		return 2
	case strings.HasSuffix(p.name, "-vlan"):
		return 1
	}
	return 0
}

func probes(thorough bool) []probe {
	var ps []probe
	for _, lay := range []string{"53first", "lib"} {
		ps = append(ps,
			probe{"DISCOVER", dhcpv4.MessageTypeDiscover, "", "", false, false, lay, 80, 5},
			probe{"DISCOVER-bcast", dhcpv4.MessageTypeDiscover, "", "", false, true, lay, 80, 5},
			probe{"REQUEST-selecting-own", dhcpv4.MessageTypeRequest, "own", "ours", false, false, lay, 80, 5},
			probe{"REQUEST-renew-ciaddr", dhcpv4.MessageTypeRequest, "", "", true, false, lay, 80, 5},
			probe{"REQUEST-other-address", dhcpv4.MessageTypeRequest, "other", "ours", false, false, lay, 80, 5},
			probe{"REQUEST-other-server", dhcpv4.MessageTypeRequest, "own", "other", false, false, lay, 80, 5},
			probe{"RELEASE", dhcpv4.MessageTypeRelease, "", "ours", true, false, lay, 80, 5},
			probe{"INFORM", dhcpv4.MessageTypeInform, "", "", true, false, lay, 80, 5},
			probe{"DISCOVER-short-options", dhcpv4.MessageTypeDiscover, "", "", false, false, lay, 0, 5},
		)
	}
	for n := 40; n <= 70; n++ {
		ps = append(ps, probe{fmt.Sprintf("DISCOVER-opts%d", n), dhcpv4.MessageTypeDiscover, "", "", false, false, "53first", n, 5})
	}
	// tagged access: the MAC-keyed cache entry answers 802.1Q and QinQ frames too; the reply keeps the tags
	ps = append(ps, probe{"DISCOVER-vlan", dhcpv4.MessageTypeDiscover, "", "", false, false, "53first", 80, 5},
		probe{"DISCOVER-qinq", dhcpv4.MessageTypeDiscover, "", "", false, false, "53first", 80, 5},
		probe{"REQUEST-selecting-own-vlan", dhcpv4.MessageTypeRequest, "own", "ours", false, false, "lib", 80, 5},
		probe{"REQUEST-selecting-own-qinq", dhcpv4.MessageTypeRequest, "own", "ours", false, false, "53first", 80, 5})
	ps = append(ps, probe{"DISCOVER-ihl6", dhcpv4.MessageTypeDiscover, "", "", false, false, "53first", 80, 6},
		probe{"REQUEST-ihl6", dhcpv4.MessageTypeRequest, "own", "ours", false, false, "53first", 80, 6})
	if thorough {
		ps = append(ps, probe{"DISCOVER-300", dhcpv4.MessageTypeDiscover, "", "", false, false, "53first", 312, 5},
			probe{"DISCOVER-ihl15", dhcpv4.MessageTypeDiscover, "", "", false, false, "53first", 80, 15},
			probe{"REQUEST-pad63", dhcpv4.MessageTypeRequest, "own", "ours", false, false, "53first", 63, 5},
			probe{"REQUEST-pad64", dhcpv4.MessageTypeRequest, "own", "ours", false, false, "53first", 64, 5})
	}
	return ps
}

// dhcpPayload builds the BOOTP+options bytes for a probe of client c in world w.
func dhcpPayload(w *world, c client, p probe) []byte {
	b := make([]byte, 240)
	b[0], b[1], b[2] = 1, 1, 6
	binary.BigEndian.PutUint32(b[4:], 0x1234abcd)
	if p.bcast {
		b[10] = 0x80
	}
	own := w.leased[c.name]
	if own == nil {
		own = w.offered[c.name]
	}
	if p.ciOwn && own != nil {
		copy(b[12:], own.To4())
	}
	if c.giaddr != nil {
		copy(b[24:], c.giaddr)
	}
	copy(b[28:], c.mac)
	copy(b[236:], []byte{0x63, 0x82, 0x53, 0x63})
	var req net.IP
	switch p.reqIP {
	case "own":
		req = own
	case "other":
		req = net.IPv4(10, 1, 1, 99).To4()
	}
	var sid net.IP
	switch p.srvID {
	case "ours":
		sid = w.d.ServerIP()
	case "other":
		sid = net.IPv4(192, 0, 2, 1).To4()
	}
	mt := []byte{53, 1, byte(p.mtype)}
	var rest []byte
	if req != nil {
		rest = append(rest, 50, 4)
		rest = append(rest, req.To4()...)
	}
	if sid != nil {
		rest = append(rest, 54, 4)
		rest = append(rest, sid.To4()...)
	}
	var o82 []byte
	if c.circuit != "" {
		o82 = append(o82, 82, byte(2+len(c.circuit)+4), 1, byte(len(c.circuit)))
		o82 = append(o82, c.circuit...)
		o82 = append(o82, 2, 2, 'r', 'i')
	}
	var opts []byte
	if p.layout == "53first" {
		opts = append(append(append(opts, mt...), o82...), rest...) // option 82 directly after the message type (fixed position 3)
	} else {
		opts = append(append(append(opts, rest...), mt...), o82...) // code order as the client library emits (50 < 53 < 54 < 82)
		if sid != nil {
			opts = nil
			if req != nil {
				opts = append(opts, 50, 4)
				opts = append(opts, req.To4()...)
			}
			opts = append(opts, mt...)
			opts = append(opts, 54, 4)
			opts = append(opts, sid.To4()...)
			opts = append(opts, o82...)
		}
	}
	opts = append(opts, 255)
	for len(opts) < p.padOpts {
		opts = append(opts, 0)
	}
	return append(b, opts...)
}

func frame(c client, payload []byte, ihl int, tags ...int) []byte {
	f := append([]byte{}, 0xff, 0xff, 0xff, 0xff, 0xff, 0xff)
	src := c.mac
	sip, dip := net.IPv4zero.To4(), net.IPv4bcast.To4()
	if c.giaddr != nil {
		src = net.HardwareAddr{0x02, 0x99, 0, 0, 0, 0x01} // relay agent
		sip = c.giaddr
		dip = net.IPv4(10, 1, 1, 1).To4()
	}
	f = append(f, src...)
	if len(tags) > 0 && tags[0] == 2 {
		f = append(f, 0x88, 0xa8, 0x00, 100, 0x81, 0x00, 0x00, 10)
	} else if len(tags) > 0 && tags[0] == 1 {
		f = append(f, 0x81, 0x00, 0x00, 100)
	}
	f = append(f, 0x08, 0x00)
	ip := make([]byte, ihl*4)
	ip[0] = 0x40 | byte(ihl)
	binary.BigEndian.PutUint16(ip[2:], uint16(ihl*4+8+len(payload)))
	ip[8], ip[9] = 64, 17
	copy(ip[12:], sip)
	copy(ip[16:], dip)
	for i := 20; i < ihl*4; i++ {
		ip[i] = 1 // NOP options
	}
	binary.BigEndian.PutUint16(ip[10:], ipsum(ip))
	f = append(f, ip...)
	u := make([]byte, 8)
	sp, dp := uint16(68), uint16(67)
	if c.giaddr != nil {
		sp = 67
	}
	binary.BigEndian.PutUint16(u[0:], sp)
	binary.BigEndian.PutUint16(u[2:], dp)
	binary.BigEndian.PutUint16(u[4:], uint16(8+len(payload)))
	f = append(f, u...)
	return append(f, payload...)
}

func ipsum(h []byte) uint16 {
	var s uint32
	for i := 0; i+1 < len(h); i += 2 {
		if i == 10 {
			continue
		}
		s += uint32(binary.BigEndian.Uint16(h[i:]))
	}
	for s>>16 != 0 {
		s = (s & 0xffff) + (s >> 16)
	}
	return ^uint16(s)
}

func rev(ip net.IP) net.IP {
	ip = ip.To4()
	if ip == nil {
		return nil
	}
	return net.IPv4(ip[3], ip[2], ip[1], ip[0]).To4()
}

type env struct {
	run     *report.Run
	d       *nativebpf.Driver // natively compiled program with a harness-controlled kernel clock (nil: not available)
	ntx     int64
	k       *nativebpf.Kernel
	cfg     config
	evals   int64
	tx      int64
	states  int64
	t       *testing.T
	viaLine bool
	unswept bool
	// parts over another client set / alphabet (parts_test.go); zero values = the fastpath[...] parts
	part    string   // part name prefix ("" = "fastpath")
	cl      []client // client set (nil = clients)
	noClock bool     // skip the native expired-clock pass
	note    string   // appended to every violation detail of the state being evaluated
	mark    string   // informational mark of the probe being judged (see sharesKeyPrefix)
}

func (e *env) cls() []client {
	if e.cl != nil {
		return e.cl
	}
	return clients
}

func (e *env) partName() string {
	if e.part != "" {
		return e.part + "[" + e.cfg.name + "]"
	}
	return "fastpath[" + e.cfg.name + "]"
}

// world builds a fresh server for this part's client set
func (e *env) world(loader *ebpf.Loader) *world {
	w := newWorld(e.cfg, loader)
	w.cl = e.cl
	return w
}

func (e *env) viol(kind, site, detail string, h hist, c client, p probe) {
	if e.viaLine {
		detail += " [another MAC holds a lease on the same circuit-id]"
	}
	if e.unswept {
		detail += unsweptMark
	}
	detail += e.mark + e.note
	v := report.Violation{Part: e.partName(), Kind: kind, Site: site, Detail: detail, Config: e.cfg.name,
		Trace: append(append([]string{}, h...), fmt.Sprintf("probe %s from %s", p.name, c.name))}
	classify(&v)
	e.run.Violation(v)
}

const revMark = " [confirmed: exact byte reversal]"
const unsweptMark = " [the lease ran out on the userspace clock and has not been swept yet]"

func classify(v *report.Violation) {
	// C03-K4: between the moment a lease runs out on the userspace clock and the next once-a-minute sweep the fast path
	// still answers for it: the program's own expiry check compares seconds since boot with a Unix timestamp.
	if (v.Kind == "answers-after-binding-ended" || v.Kind == "answers-where-userspace-does-not" || v.Kind == "value-differs") && strings.Contains(v.Detail, unsweptMark) {
		v.Class = "C03-K4-expiry-clock-domain"
		return
	}
	// C03-K1-<site>: IPv4 values reach the reply byte-reversed (root cause recorded under C06-K1-dhcp-*).
	if v.Kind == "value-differs" && strings.Contains(v.Detail, revMark) {
		v.Class = "C03-K1-" + v.Site
	}
	// C03-K3: option-82 circuit-id identifies the subscriber LINE in the fast path: a MAC that holds nothing is answered
	// from the cache entry of another MAC's lease on the same circuit-id, with that lease's address; the userspace
	// server keys its lease table by MAC and refuses / treats the new MAC separately (same root cause as
	// C02-K-v4-circuit-id-shared-binding).
	if v.Class == "" && strings.Contains(v.Detail, "[another MAC holds a lease on the same circuit-id]") && (v.Kind == "answers-where-userspace-does-not" || v.Kind == "value-differs") {
		v.Class = "C03-K3-circuit-id-identifies-line"
		return
	}
	// C03-K2: the fast path answers REQUESTs from the cache without looking at the requested address or the
	// server identifier, where the userspace server refuses or ignores the request.
	if v.Kind == "answers-where-userspace-does-not" && (strings.Contains(v.Detail, "probe=REQUEST-other-address") || strings.Contains(v.Detail, "probe=REQUEST-other-server")) {
		v.Class = "C03-K2-request-not-validated"
	}
}

func clearMaps(k *nativebpf.Kernel) {
	for _, n := range []string{"subscriber_pools", "vlan_subscriber_pools", "ip_pools", "server_config", "circuit_id_map", "circuit_id_subscribers"} {
		k.ClearMap(n)
	}
}

func (e *env) loader() *ebpf.Loader {
	l, _ := ebpf.NewLoader("lo", zap.NewNop())
	l.VerifSetMaps(e.k.Coll.Maps)
	return l
}

// evalState replays h on a kernel-map-backed server and probes the fast path.
func (e *env) evalState(h hist, ps []probe) {
	type txCase struct {
		c           client
		p           probe
		pl, in, out []byte
		viaLine     bool // another MAC holds a lease on this client's circuit-id: the line's cache entry is whoever was ACKed last
		unswept     bool
		mark        string
	}
	var pending []txCase
	defer func() {
		// reference replays run in their own bubbles (bubbles do not nest)
		for _, x := range pending {
			e.viaLine, e.unswept, e.mark = x.viaLine, x.unswept, x.mark
			e.checkReply(h, nil, x.c, x.p, x.pl, x.in, x.out)
		}
		e.viaLine, e.unswept, e.mark = false, false, ""
	}()
	synctest.Test(e.t, func(*testing.T) {
		clearMaps(e.k)
		l := e.loader()
		w := e.world(l)
		l.SetServerConfig(srvMAC, w.d.ServerIP(), 2) // what Server.Start writes
		for _, op := range h {
			w.apply(e.cfg, op)
		}
		e.states++
		e.note = ""
		if len(w.notes) > 0 {
			e.note = " [control-plane calls: " + strings.Join(w.notes, "; ") + "]"
		}
		for _, c := range e.cls() {
			gone := w.ended[c.name]
			// another MAC currently holds a lease on this client's circuit-id (the line is shared)
			lineShared := false
			for _, o := range e.cls() {
				if o.name != c.name && c.circuit != "" && o.circuit == c.circuit && w.leased[o.name] != nil {
					lineShared = true
				}
			}
			for _, p := range ps {
				pl := dhcpPayload(w, c, p)
				in := frame(c, pl, p.ihl, p.tags())
				verdict, out, err := e.k.Run("dhcp_fastpath_prog", in)
				e.evals++
				if err != nil {
					if errors.Is(err, syscall.EINVAL) {
						continue
					}
					e.run.HarnessError(err.Error())
					return
				}
				if verdict != nativebpf.XDP_TX {
					if !bytes.Equal(in, out) {
						e.viol("pass-modified", "dhcp_fastpath_prog", fmt.Sprintf("probe=%s verdict %d but the frame handed on differs from the frame received", p.name, verdict), h, c, p)
					}
					continue
				}
				e.tx++
				e.unswept = w.unswept(c)
				e.mark = ""
				if sharesKeyPrefix(w, c) {
					e.mark = keyPrefixMark
				}
				if gone && !lineShared {
					e.viol("answers-after-binding-ended", "dhcp_fastpath_prog", fmt.Sprintf("probe=%s: the client's binding was released/declined/expired in userspace, the fast path still answers", p.name), h, c, p)
					e.unswept, e.mark = false, ""
					continue
				}
				pending = append(pending, txCase{c, p, pl, in, out, lineShared, e.unswept, e.mark})
				e.unswept, e.mark = false, ""
			}
		}
		e.expiredClock(h, w, ps)
	})
}

// expiredClock: the "kernel clock values" dimension. The cache state the userspace server produced is copied into
// the natively compiled program, the kernel clock is set past every entry's lease_expiry, and the request probes
// are run again: an entry whose lease time has run out on the kernel's clock must not be answered from, whichever
// lookup stage (VLAN, circuit-id, MAC) finds it.
func (e *env) expiredClock(h hist, w *world, ps []probe) {
	if e.d == nil || e.noClock {
		return
	}
	if err := e.d.Clear(); err != nil {
		e.run.HarnessError("native driver: " + err.Error())
		e.d = nil
		return
	}
	var maxExp uint64
	for _, mn := range []string{"subscriber_pools", "vlan_subscriber_pools", "ip_pools", "server_config", "circuit_id_map", "circuit_id_subscribers"} {
		m, ok := e.k.Coll.Maps[mn]
		if !ok || e.d.Map(mn) == nil {
			continue
		}
		it := m.Iterate()
		var key, val []byte
		for it.Next(&key, &val) {
			if _, err := e.d.Update(mn, key, val, 0); err != nil {
				e.run.HarnessError("native driver: " + err.Error())
				e.d = nil
				return
			}
			// struct pool_assignment is packed: lease_expiry is the u64 at offset 13 (layout checked by C06)
			if (mn == "subscriber_pools" || mn == "circuit_id_subscribers" || mn == "vlan_subscriber_pools") && len(val) >= 21 {
				if x := binary.LittleEndian.Uint64(val[13:21]); x > maxExp {
					maxExp = x
				}
			}
		}
	}
	if maxExp == 0 {
		return // nothing cached
	}
	if err := e.d.SetTime((maxExp + 2) * 1000000000); err != nil {
		e.run.HarnessError("native driver: " + err.Error())
		e.d = nil
		return
	}
	pi := e.d.ProgIndex("dhcp_fastpath_prog")
	for _, c := range e.cls() {
		for _, p := range ps {
			if p.mtype != dhcpv4.MessageTypeDiscover && p.mtype != dhcpv4.MessageTypeRequest {
				continue
			}
			in := frame(c, dhcpPayload(w, c, p), p.ihl, p.tags())
			r, err := e.d.Run(pi, 0, in)
			e.evals++
			if err != nil {
				e.run.HarnessError("native driver: " + err.Error())
				e.d = nil
				return
			}
			if r.Verdict == nativebpf.XDP_TX {
				e.ntx++
				e.viol("answers-after-expiry", "dhcp_fastpath_prog", fmt.Sprintf("probe=%s: kernel clock %d s is past the lease_expiry (%d) of every cache entry, the fast path still answers", p.name, maxExp+2, maxExp), h, c, p)
				return
			}
		}
	}
}

// endsWithEND walks the options and reports whether an END (255) option is reached inside the frame.
func endsWithEND(o []byte) bool {
	for i := 0; i < len(o); {
		if o[i] == 255 {
			return true
		}
		if o[i] == 0 {
			i++
			continue
		}
		if i+1 >= len(o) {
			return false
		}
		i += 2 + int(o[i+1])
	}
	return false
}

// headerSweep: the reply is built in place, so the request's IP id / tos / fragment fields stay in the reply's
// header and feed its checksum. One cached client, one DISCOVER, every value of the 16-bit id and of the tos byte
// (positional basis of the checksum's inputs): every transmitted reply must carry a valid IP header checksum.
func (e *env) headerSweep() {
	synctest.Test(e.t, func(*testing.T) {
		clearMaps(e.k)
		l := e.loader()
		w := newWorld(e.cfg, l)
		l.SetServerConfig(srvMAC, w.d.ServerIP(), 2)
		h := hist{"D:m1", "R:m1"}
		for _, op := range h {
			w.apply(e.cfg, op)
		}
		c := clients[0]
		p := probe{"DISCOVER-header-sweep", dhcpv4.MessageTypeDiscover, "", "", false, false, "53first", 80, 5}
		base := frame(c, dhcpPayload(w, c, p), 5)
		bad := 0
		try := func(set func(ip []byte), what string) {
			f := append([]byte{}, base...)
			ip := f[14:34]
			set(ip)
			binary.BigEndian.PutUint16(ip[10:], ipsum(ip))
			verdict, out, err := e.k.Run("dhcp_fastpath_prog", f)
			e.evals++
			if err != nil || verdict != nativebpf.XDP_TX || len(out) < 34 {
				return
			}
			e.tx++
			oh := out[14:34]
			if got, want := binary.BigEndian.Uint16(oh[10:]), ipsum(oh); got != want && bad < 3 {
				bad++
				e.viol("malformed-reply", "ip-checksum", fmt.Sprintf("probe=%s %s: IP header checksum %04x, correct value %04x", p.name, what, got, want), h, c, p)
			}
		}
		for id := 0; id < 65536; id++ {
			try(func(ip []byte) { binary.BigEndian.PutUint16(ip[4:], uint16(id)) }, fmt.Sprintf("ip.id=%#04x", id))
		}
		for tos := 0; tos < 256; tos++ {
			try(func(ip []byte) { ip[1] = byte(tos); binary.BigEndian.PutUint16(ip[4:], 0xffff) }, fmt.Sprintf("ip.tos=%#02x id=0xffff", tos))
		}
		for _, fo := range []uint16{0x4000, 0x2000, 0x1fff, 0xffff} {
			try(func(ip []byte) { binary.BigEndian.PutUint16(ip[6:], fo); binary.BigEndian.PutUint16(ip[4:], 0xfffe) }, fmt.Sprintf("ip.frag_off=%#04x", fo))
		}
		// message-type sweep: every value of option 53 x {untagged, 802.1Q, QinQ} for a cached subscriber: the fast path
		// replies to DISCOVER and REQUEST only ("OFFER for DISCOVER and ACK for REQUEST"); anything else goes to
		// userspace untouched
		for tags, suffix := range []string{"", "-vlan", "-qinq"} {
			for mt := 0; mt < 256; mt++ {
				pp := p
				pp.mtype, pp.name = dhcpv4.MessageType(mt), fmt.Sprintf("TYPE-%d%s", mt, suffix)
				f := frame(c, dhcpPayload(w, c, pp), 5, tags)
				verdict, out, err := e.k.Run("dhcp_fastpath_prog", f)
				e.evals++
				if err != nil {
					continue
				}
				if verdict == nativebpf.XDP_TX {
					e.tx++
					if mt != int(dhcpv4.MessageTypeDiscover) && mt != int(dhcpv4.MessageTypeRequest) {
						e.viol("answers-non-request", "dhcp_fastpath_prog", fmt.Sprintf("probe=%s: a frame with DHCP message type %d was answered from the cache; only DISCOVER and REQUEST are", pp.name, mt), h, c, pp)
					}
				} else if !bytes.Equal(f, out) {
					e.viol("pass-modified", "dhcp_fastpath_prog", fmt.Sprintf("probe=%s verdict %d but the frame handed on differs from the frame received", pp.name, verdict), h, c, pp)
				}
			}
		}
	})
}

func opt(o []byte, code byte) []byte {
	for i := 0; i+1 < len(o); {
		if o[i] == 255 {
			return nil
		}
		if o[i] == 0 {
			i++
			continue
		}
		l := int(o[i+1])
		if i+2+l > len(o) {
			return nil
		}
		if o[i] == code {
			return o[i+2 : i+2+l]
		}
		i += 2 + l
	}
	return nil
}

func (e *env) checkReply(h hist, w *world, c client, p probe, payload, in, out []byte) {
	bad := func(kind, site, f string, a ...any) {
		e.viol(kind, site, "probe="+p.name+": "+fmt.Sprintf(f, a...), h, c, p)
	}
	l2 := 14 + 4*p.tags()
	ihl := int(in[l2]&0xf) * 4
	if len(out) < l2+ihl+8+240+4 {
		bad("malformed-reply", "length", "reply is %d bytes", len(out))
		return
	}
	if !bytes.Equal(out[12:l2], in[12:l2]) {
		bad("malformed-reply", "vlan-tags", "the reply's VLAN tags %x differ from the request's %x", out[12:l2], in[12:l2])
		return
	}
	ip := out[l2 : l2+ihl]
	// well-formedness
	if !bytes.Equal(out[6:12], srvMAC) {
		bad("malformed-reply", "eth-src", "Ethernet source %x, server MAC %x", out[6:12], []byte(srvMAC))
	}
	if out[l2-2] != 0x08 || out[l2-1] != 0x00 {
		bad("malformed-reply", "ethertype", "ethertype %x", out[l2-2:l2])
	}
	if int(ip[0]&0xf)*4 != ihl {
		bad("malformed-reply", "ihl", "IHL changed")
	}
	if got, want := binary.BigEndian.Uint16(ip[10:]), ipsum(ip); got != want {
		bad("malformed-reply", "ip-checksum", "IP header checksum %04x, correct value over the %d-byte header %04x", got, ihl, want)
	}
	if tl := int(binary.BigEndian.Uint16(ip[2:])); tl != len(out)-l2 {
		bad("malformed-reply", "ip-tot-len", "ip.tot_len=%d, frame carries %d bytes after the %d-byte Ethernet/VLAN header", tl, len(out)-l2, l2)
	}
	udp := out[l2+ihl:]
	if ul := int(binary.BigEndian.Uint16(udp[4:])); ul != len(out)-l2-ihl {
		bad("malformed-reply", "udp-len", "udp.len=%d, frame carries %d bytes after the IP header", ul, len(out)-l2-ihl)
	}
	wantDport := uint16(68)
	if c.giaddr != nil {
		wantDport = 67
	}
	if binary.BigEndian.Uint16(udp[0:]) != 67 || binary.BigEndian.Uint16(udp[2:]) != wantDport {
		bad("malformed-reply", "udp-ports", "ports %d->%d", binary.BigEndian.Uint16(udp[0:]), binary.BigEndian.Uint16(udp[2:]))
	}
	bp := udp[8:]
	if bp[0] != 2 {
		bad("malformed-reply", "bootp-op", "op=%d", bp[0])
	}
	if !bytes.Equal(bp[4:8], payload[4:8]) || !bytes.Equal(bp[28:44], payload[28:44]) {
		bad("malformed-reply", "xid-chaddr", "transaction id or chaddr not copied")
	}
	if !bytes.Equal(bp[236:240], []byte{0x63, 0x82, 0x53, 0x63}) {
		bad("malformed-reply", "magic", "magic cookie %x", bp[236:240])
	}
	opts := bp[240:]
	if !endsWithEND(opts) {
		bad("malformed-reply", "options-end", "the options area of the reply is not terminated by an END option inside the frame")
	}
	mt := opt(opts, 53)
	wantMT := byte(dhcpv4.MessageTypeOffer)
	if p.mtype == dhcpv4.MessageTypeRequest {
		wantMT = byte(dhcpv4.MessageTypeAck)
	}
	if len(mt) != 1 || mt[0] != wantMT {
		bad("malformed-reply", "message-type", "reply message type %v for a %s", mt, p.mtype)
	}
	// userspace reference: same history on a fresh userspace-only server, same DHCP message
	var ref []dhcpdrv.Reply
	synctest.Test(e.t, func(*testing.T) {
		u := e.world(nil)
		for _, op := range h {
			u.apply(e.cfg, op)
		}
		req, err := dhcpv4.FromBytes(payload)
		if err != nil {
			e.run.HarnessError("probe does not parse: " + err.Error())
			return
		}
		ref = u.d.Deliver(req)
	})
	var r *dhcpv4.DHCPv4
	for _, x := range ref {
		if x.Type == dhcpv4.MessageTypeOffer || x.Type == dhcpv4.MessageTypeAck {
			r = x.Pkt
		}
	}
	if r == nil {
		what := "does not reply"
		if len(ref) > 0 {
			what = "replies " + ref[0].Type.String()
		}
		bad("answers-where-userspace-does-not", "dhcp_fastpath_prog", "the fast path transmits a %s, the userspace server %s", dhcpv4.MessageType(wantMT), what)
		return
	}
	if byte(r.MessageType()) != wantMT {
		bad("value-differs", "message-type", "fast path %v, userspace %s", mt, r.MessageType())
	}
	cmp := func(site string, fast []byte, user net.IP) {
		user = user.To4()
		if len(fast) >= 4 && user != nil && net.IP(fast[:4]).Equal(user) {
			return
		}
		d := fmt.Sprintf("fast path %v, userspace %v", net.IP(fast), user)
		if len(fast) >= 4 && user != nil && net.IP(fast[:4]).Equal(rev(user)) && !rev(user).Equal(user) {
			d += revMark
		}
		bad("value-differs", site, "%s", d)
	}
	cmp("yiaddr", bp[16:20], r.YourIPAddr)
	cmp("server-id", opt(opts, 54), r.ServerIdentifier())
	if m := r.SubnetMask(); m != nil {
		if f := opt(opts, 1); !bytes.Equal(f, []byte(m)) {
			bad("value-differs", "subnet-mask", "fast path %v, userspace %v", net.IP(f), net.IP(m))
		}
	}
	if rt := r.Router(); len(rt) > 0 {
		cmp("router", opt(opts, 3), rt[0])
	}
	udns := r.DNS()
	fdns := opt(opts, 6)
	if len(fdns) != 4*len(udns) {
		bad("value-differs", "dns-count", "fast path lists %d DNS servers, userspace %d", len(fdns)/4, len(udns))
	} else {
		for i, d := range udns {
			cmp("dns", fdns[4*i:4*i+4], d)
		}
	}
	ul := r.IPAddressLeaseTime(0)
	if f := opt(opts, 51); len(f) != 4 || time.Duration(binary.BigEndian.Uint32(f))*time.Second != ul {
		bad("value-differs", "lease-time", "fast path %x, userspace %v", f, ul)
	}
}

var cfgThorough = config{"/28 0dns lease1d", "10.1.1.0/28", "10.1.1.1", "", []string{}, 24 * time.Hour}

func TestCheck(t *testing.T) {
	run := report.New("C03", "exploration")
	run.Rule = "cache states = every userspace message history over {DISCOVER,REQUEST,RELEASE,DECLINE} x {direct client m1, relayed client m2 with option 82} + lease expiry with cleanup, to the stated depth, on the real dhcp.Server writing real kernel maps; per state and client a family of request frames {DISCOVER, REQUEST selecting/renew/other-address/other-server, RELEASE, INFORM} x {msg type first, library option order} x broadcast flag x short/long options x IHL {5,6(,15)}; executed in-kernel; non-trivial = frames the fast path answered (XDP_TX); parts ctl[...]: the same with PoolManager calls in the history alphabet (AddPool of an id in use with other parameters, AddPool/SetDefaultPool/RemovePool of a second pool, RemovePool of the serving pool; accepted or rejected as the history dictates); parts cid[...]: four relayed clients whose circuit-ids are 31/32/33/40 bytes long with a shared 31-byte (33/40: 32-byte) prefix"
	run.Assumptions = []string{"fast path executed as real BPF bytecode via BPF_PROG_TEST_RUN (kernel clock = uptime)", "userspace reference = a fresh server on which the same history is replayed (virtual time via testing/synctest)", "VLAN-keyed cache entries are not produced by the userspace server in these histories"}
	dir, err := os.MkdirTemp(filepath.Join(nativebpf.Root(), ".work"), "c03-")
	if err != nil {
		os.MkdirAll(filepath.Join(nativebpf.Root(), ".work"), 0o755)
		dir, err = os.MkdirTemp(filepath.Join(nativebpf.Root(), ".work"), "c03-")
	}
	if err != nil {
		run.HarnessError(err.Error())
		os.Exit(run.Finish())
	}
	fin := func() { os.RemoveAll(dir); os.Exit(run.Finish()) }
	if err := nativebpf.KernelBuild(dir); err != nil {
		run.HarnessError(err.Error())
		fin()
	}
	k, err := nativebpf.KernelLoad(dir, "dhcp_fastpath", 4096)
	if err != nil {
		var ve *cebpf.VerifierError
		if errors.As(err, &ve) {
			run.Violation(report.Violation{Part: "kernel-verifier", Kind: "kernel-verifier-reject", Site: "dhcp_fastpath", Detail: err.Error()})
		} else {
			run.HarnessError("cannot load dhcp_fastpath object: " + err.Error())
		}
		fin()
	}
	defer k.Close()
	if *report.FlagReplay != "" {
		if v, err := report.LoadReplay(*report.FlagReplay); err == nil && strings.HasPrefix(v.Part, "sched:") {
			rc := replaySched(run, k, v)
			os.RemoveAll(dir)
			os.Exit(rc)
		}
	}
	var nd *nativebpf.Driver
	if err := nativebpf.BuildOne(dir, "dhcp_fastpath"); err == nil {
		if nd, err = nativebpf.Start(dir, "dhcp_fastpath", false); err != nil {
			run.HarnessError("native driver: " + err.Error())
			nd = nil
		}
	} else {
		run.HarnessError(err.Error())
	}
	if nd != nil {
		defer nd.Close()
	}
	depth := 3
	cfgs := []config{
		{"/24 1dns lease10m serverid=gw", "10.1.1.0/24", "10.1.1.1", "", []string{"8.8.8.8"}, 10 * time.Minute},
		{"/30 2dns lease1m serverid-set", "10.1.1.0/30", "10.1.1.1", "10.1.1.1", []string{"8.8.8.8", "1.2.3.4"}, time.Minute},
	}
	if run.Thorough() {
		depth = 4
		cfgs = append(cfgs, cfgThorough)
	}
	ps := probes(run.Thorough())
	ops := allOps()
	if *report.FlagReplay != "" {
		if v, err := report.LoadReplay(*report.FlagReplay); err == nil && extraPart(v.Part) {
			all := append(append([]config{}, cfgs...), cfgThorough) // a replay file may come from either tier
			replayExtra(run, k, nd, t, all, v)
			fin()
		}
	}
	for _, cfg := range cfgs {
		if !run.WantPart("fastpath[" + cfg.name + "]") {
			continue
		}
		e := &env{run: run, k: k, cfg: cfg, t: t, d: nd}
		var rec func(h hist)
		rec = func(h hist) {
			e.evalState(h, ps)
			if len(h) < depth {
				for _, op := range ops {
					rec(append(append(hist{}, h...), op))
				}
			}
		}
		// start from the empty server and from a state that histories of this depth cannot reach: two MACs
		// holding leases behind one circuit-id (CPE swap), plus a direct client
		rec(nil)
		base := hist{"D:m2", "R:m2", "D:m3", "R:m3", "D:m1", "R:m1"}
		depth0 := depth
		depth = len(base) + depth0 - 1
		rec(base)
		// ... and from a single relayed client holding a lease (room for renewals with odd option 82 contents + teardown)
		base2 := hist{"D:m2", "R:m2"}
		depth = len(base2) + depth0 - 1
		rec(base2)
		depth = depth0
		e.headerSweep()
		run.AddPart(report.Part{Name: "fastpath[" + cfg.name + "]", Engine: "A:history-tree + C:kernel-test-run", Bound: fmt.Sprintf("history depth<=%d over %d ops, %d probes x %d clients per state", depth, len(ops), len(ps), len(clients)),
			States: e.states, Transitions: e.evals, Outcomes: e.tx, Exhaustive: true, Note: fmt.Sprintf("%d fast-path replies compared with the userspace server", e.tx)})
		run.AddEvals(e.evals, e.tx)
	}
	runExtra(run, k, nd, t, cfgs)
	runSched(run, k)
	run.Sample(map[string]any{"history": []string{"D:m1", "R:m1", "D:m2"}, "probes": func() []string {
		var n []string
		for _, p := range ps {
			n = append(n, p.name+"/"+p.layout)
		}
		return n
	}()})
	fin()
}
