package c17

import (
	"fmt"
	"sort"
	"strings"
	"time"

	"verif/report"
	"verif/sched"
)

// Part 4 (Engine B): overlapping membership changes on ONE PeerPool. Every
// schedule up to the preemption bound; at the end of each schedule the
// membership-history differential oracle (msys.Check) is applied: owners,
// ranking and PeerCount must equal those of a PeerPool freshly configured with
// the final membership (set semantics: the ops commute on the membership set
// because they concern different peers, or are idempotent duplicates).
type mscen struct {
	name    string
	full    bool       // start configured with all peers (else self only)
	pre     []string   // sequential prefix
	threads [][]string // "A x" = AddPeer(x), "R x" = RemovePeer(x)
}

const mSelf = "node-10"

var mOthers = []string{"a", "ab", "b", "node-1", "node-2"}

func mscenarios(thorough bool) []mscen {
	s := []mscen{
		{"AddPeer(a)|AddPeer(node-2)", false, []string{"A b"}, [][]string{{"A a"}, {"A node-2"}}},
		{"AddPeer(a)|RemovePeer(b)", false, []string{"A b", "A node-1"}, [][]string{{"A a"}, {"R b"}}},
		{"RemovePeer(a)|RemovePeer(node-1)", true, nil, [][]string{{"R a"}, {"R node-1"}}},
		{"AddPeer(a)|AddPeer(a)", false, []string{"A b"}, [][]string{{"A a"}, {"A a"}}},
	}
	if thorough {
		s = append(s,
			mscen{"AddPeer(a)|AddPeer(ab)|RemovePeer(b)", true, []string{"R a", "R ab"}, [][]string{{"A a"}, {"A ab"}, {"R b"}}},
			mscen{"RemovePeer(a),AddPeer(a)|RemovePeer(ab)", true, nil, [][]string{{"R a", "A a"}, {"R ab"}}},
			mscen{"RemovePeer(a)|RemovePeer(a)|AddPeer(a)", true, nil, [][]string{{"R a"}, {"R a"}, {"A ab"}}},
		)
	}
	return s
}

func mApply(s *msys, op string) {
	if op[0] == 'A' {
		s.Apply("AddPeer " + op[2:])
	} else {
		s.Apply("RemovePeer " + op[2:])
	}
}

func (sc mscen) scenario() *sched.Scenario {
	return &sched.Scenario{
		Name: sc.name,
		Setup: func(x *sched.Exec) {
			s := newMsys(mSelf, mOthers, sc.full)
			x.Data = s
			for _, op := range sc.pre {
				mApply(s, op)
			}
			for ti, ops := range sc.threads {
				ti, ops := ti, ops
				x.Thread(fmt.Sprintf("T%d", ti), func() {
					for _, op := range ops {
						// the harness's membership set is updated outside the pool call: no scheduling point in between matters, the set is commutative
						mApply(s, op)
						x.Obs("T%d:%s", ti, op)
					}
				})
			}
		},
		Check: func(x *sched.Exec) []sched.Viol { return mCheck(x) },
	}
}

func mCheck(x *sched.Exec) []sched.Viol {
	s := x.Data.(*msys)
	var vs []sched.Viol
	for _, v := range s.Check() {
		vs = append(vs, sched.Viol{Kind: v.Kind, Site: v.Site, Detail: v.Detail})
	}
	x.Obs("end:members=%s count=%d", strings.Join(s.memberList(), ","), s.p.Stats().PeerCount)
	return vs
}

func runSched(run *report.Run) {
	bound := 2
	for _, sc := range mscenarios(run.Thorough()) {
		name := "sched:" + sc.name
		if !run.WantPart(name) {
			continue
		}
		e := &sched.Explorer{Bound: bound, Budget: 3 * time.Minute}
		res := e.Explore(sc.scenario())
		run.AddPart(report.Part{Name: name, Engine: "B:sched-dfs", Bound: fmt.Sprintf("preemptions<=%d completed=%d maxpoints=%d", bound, res.Bound, res.MaxPoints),
			Executions: res.Executions, Outcomes: int64(len(res.Outcomes)), Exhaustive: res.Exhaustive, States: int64(len(res.Outcomes))})
		for _, f := range res.Failures {
			x1 := sched.RunOnce(sc.scenario(), f.Choices)
			mCheck(x1)
			x2 := sched.RunOnce(sc.scenario(), f.Choices)
			mCheck(x2)
			if strings.Join(x1.Log, "|") != strings.Join(x2.Log, "|") || strings.Join(x1.Log, "|") != strings.Join(f.Log, "|") {
				run.HarnessError("non-deterministic replay of schedule in " + name)
				continue
			}
			for _, v := range f.Viols {
				tr := append([]string{"pre=" + strings.Join(sc.pre, ",")}, f.Schedule...)
				rv := report.Violation{Part: name, Kind: v.Kind, Site: v.Site, Detail: v.Detail + " | observations: " + strings.Join(f.Log, " "), Config: fmt.Sprintf("startFull=%v", sc.full), Trace: tr,
					Extra: map[string]any{"choices": f.Choices}}
				classify(&rv)
				run.Violation(rv)
			}
		}
		if len(res.Failures) == 0 {
			var o []string
			for k := range res.Outcomes {
				o = append(o, k)
			}
			sort.Strings(o)
			if len(o) > 3 {
				o = o[:3]
			}
			run.Sample(map[string]any{"part": name, "executions": res.Executions, "outcomes(sample)": o})
		}
	}
}

func replaySched(run *report.Run, v report.Violation) int {
	for _, sc := range mscenarios(true) {
		if "sched:"+sc.name != v.Part {
			continue
		}
		var choices []int
		if cs, ok := v.Extra["choices"].([]any); ok {
			for _, c := range cs {
				choices = append(choices, int(c.(float64)))
			}
		}
		x := sched.RunOnce(sc.scenario(), choices)
		var vs []sched.Viol
		if x.PanicText != "" {
			vs = append(vs, sched.Viol{Kind: "panic", Detail: x.PanicText})
		} else if x.Deadlock {
			vs = append(vs, sched.Viol{Kind: "deadlock", Detail: strings.Join(x.Schedule(), ",")})
		} else {
			vs = mCheck(x)
		}
		for _, f := range vs {
			fmt.Printf("VIOLATION property=C17 replay=%s\n  kind=%s site=%s detail=%s\n  observations: %s\n", *report.FlagReplay, f.Kind, f.Site, f.Detail, strings.Join(x.Log, " "))
		}
		if len(vs) > 0 {
			return 1
		}
		fmt.Println("replay: no violation")
		return 0
	}
	fmt.Println("HARNESS-ERROR unknown scenario", v.Part)
	return 2
}
