// C17 — All peers agree on who owns a subscriber.
//
// Part 1 (bounded-exhaustive inputs): pool.PeerPool's owner / ranking / healthy
// owner functions over every non-empty subset of 8 order-stressing peer names,
// every configuration order and AddPeer order (all permutations for size <= 5),
// a stated finite set of subscriber ids, every RemovePeer and every health vector.
// Part 2 (Engine A): 3 real PeerPools joined by an in-memory transport — see system_test.go.
package c17

import (
	"fmt"
	"os"
	"runtime"
	"sort"
	"strings"
	"sync"
	"sync/atomic"
	"testing"
	"time"

	"github.com/codelaboratoryltd/bng/pkg/pool"

	"verif/explore"
	"verif/report"
)

var names = []string{"a", "ab", "b", "node-1", "node-10", "node-2", "Node-1", "10.0.0.1:8081"}

func subscriberIDs() []string {
	ids := []string{""}
	alpha := "ab01:"
	prev := []string{""}
	for l := 1; l <= 3; l++ {
		var cur []string
		for _, p := range prev {
			for _, c := range alpha {
				cur = append(cur, p+string(c))
			}
		}
		ids = append(ids, cur...)
		prev = cur
	}
	for i := 0; i < 512; i++ {
		ids = append(ids, fmt.Sprintf("02:%02x:%02x:5e:%02x:%02x", (i*7)&0xff, (i>>3)&0xff, (i*131)&0xff, i&0xff))
	}
	return ids
}

func mkPool(node string, peers []string) *pool.PeerPool {
	// NewPeerPool sorts (and may append to) the slice it is given: every node gets its own copy.
	p, err := pool.NewPeerPool(pool.PeerPoolConfig{NodeID: node, Peers: append([]string(nil), peers...), Network: "10.99.0.0/29", Gateway: "10.99.0.1", LeaseTime: time.Hour})
	if err != nil {
		panic(err)
	}
	return p
}

func subsetOf(mask int) []string {
	var s []string
	for i, n := range names {
		if mask&(1<<i) != 0 {
			s = append(s, n)
		}
	}
	return s
}

func permutations(s []string) [][]string {
	if len(s) <= 1 {
		return [][]string{append([]string(nil), s...)}
	}
	var out [][]string
	for i := range s {
		rest := append(append([]string(nil), s[:i]...), s[i+1:]...)
		for _, p := range permutations(rest) {
			out = append(out, append([]string{s[i]}, p...))
		}
	}
	return out
}

// orders: every permutation for size <= 5, otherwise sorted, reversed and all rotations.
func orders(s []string) [][]string {
	if len(s) <= 5 {
		return permutations(s)
	}
	srt := append([]string(nil), s...)
	sort.Strings(srt)
	rev := make([]string, len(srt))
	for i, x := range srt {
		rev[len(srt)-1-i] = x
	}
	out := [][]string{srt, rev}
	for r := 1; r < len(s); r++ {
		out = append(out, append(append([]string(nil), s[r:]...), s[:r]...))
	}
	return out
}

func without(s []string, x string) []string {
	var out []string
	for _, y := range s {
		if y != x {
			out = append(out, y)
		}
	}
	return out
}

type pureCtx struct {
	run   *report.Run
	ids   []string
	part  string
	evals atomic.Int64
	nontr atomic.Int64
	viols atomic.Int64
}

func (c *pureCtx) viol(kind, site, detail string, trace []string) {
	c.viols.Add(1)
	v := report.Violation{Part: c.part, Kind: kind, Site: site, Detail: detail, Trace: trace, Config: "pure"}
	classify(&v)
	c.run.Violation(v)
}

// checkSubset runs every pure check for one peer set.
func (c *pureCtx) checkSubset(S []string) {
	k := len(S)
	ids := c.ids
	sorted := append([]string(nil), S...)
	sort.Strings(sorted)
	refPool := mkPool(sorted[0], sorted)
	ref := make([]string, len(ids))
	for i, id := range ids {
		ref[i] = refPool.GetOwner(id)
	}
	c.evals.Add(int64(len(ids)))
	member := map[string]bool{}
	for _, n := range S {
		member[n] = true
	}
	// (A) every node, every configuration order, with and without the node itself in its peer list
	for _, ord := range orders(S) {
		for _, n := range S {
			for _, peers := range [][]string{ord, without(ord, n)} {
				p := mkPool(n, peers)
				for i, id := range ids {
					o := p.GetOwner(id)
					if o != ref[i] {
						c.viol("agreement", "GetOwner", fmt.Sprintf("peer set %q: node %q configured with peers %q says subscriber %q belongs to %q; node %q configured with %q says %q", S, n, peers, id, o, sorted[0], sorted, ref[i]),
							[]string{"set=" + strings.Join(S, ","), "node=" + n, "peers=" + strings.Join(peers, ","), "id=" + id})
						break
					}
					if p.IsLocalOwner(id) != (o == n) {
						c.viol("agreement", "IsLocalOwner", fmt.Sprintf("node %q: IsLocalOwner(%q)=%v but GetOwner=%q", n, id, p.IsLocalOwner(id), o), []string{"set=" + strings.Join(S, ","), "node=" + n, "id=" + id})
						break
					}
				}
				c.evals.Add(int64(len(ids)))
				if k > 1 {
					c.nontr.Add(int64(len(ids)))
				}
			}
		}
	}
	// (B) every AddPeer order (all permutations of the other peers for size <= 5)
	if k <= 5 {
		for _, n := range S {
			for _, ord := range permutations(without(S, n)) {
				p := mkPool(n, nil)
				for _, x := range ord {
					p.AddPeer(x)
				}
				for i, id := range ids {
					if o := p.GetOwner(id); o != ref[i] {
						c.viol("agreement", "AddPeer", fmt.Sprintf("peer set %q: node %q after AddPeer in order %q says subscriber %q belongs to %q, configured nodes say %q", S, n, ord, id, o, ref[i]),
							[]string{"set=" + strings.Join(S, ","), "node=" + n, "addpeer=" + strings.Join(ord, ","), "id=" + id})
						break
					}
				}
				c.evals.Add(int64(len(ids)))
			}
		}
	}
	// (C) ranking: a permutation of the peer set, head = owner, identical on every node
	var refRank [][]string
	for ni, n := range S {
		p := mkPool(n, sorted)
		for i, id := range ids {
			r := p.VerifC17Ranked(id)
			rs := append([]string(nil), r...)
			sort.Strings(rs)
			if strings.Join(rs, "\x00") != strings.Join(sorted, "\x00") {
				c.viol("ranking", "rendezvousRanked", fmt.Sprintf("peer set %q node %q: ranking for %q is %q, not a permutation of the peer set", S, n, id, r), []string{"set=" + strings.Join(S, ","), "node=" + n, "id=" + id})
				break
			}
			if r[0] != ref[i] {
				c.viol("ranking", "rendezvousRanked", fmt.Sprintf("peer set %q node %q: ranking for %q starts with %q but the owner is %q", S, n, id, r[0], ref[i]), []string{"set=" + strings.Join(S, ","), "node=" + n, "id=" + id})
				break
			}
			if ni == 0 {
				refRank = append(refRank, r)
			} else if i < len(refRank) && strings.Join(r, "\x00") != strings.Join(refRank[i], "\x00") {
				c.viol("agreement", "rendezvousRanked", fmt.Sprintf("peer set %q: nodes %q and %q rank %q differently: %q vs %q", S, S[0], n, id, refRank[i], r), []string{"set=" + strings.Join(S, ","), "node=" + n, "id=" + id})
				break
			}
		}
		c.evals.Add(int64(len(ids)))
	}
	// (C') a ranking that was handed out stays that subscriber's ranking: it must not change when another subscriber is ranked
	if k >= 2 {
		p := mkPool(sorted[0], sorted)
		for i := 0; i+1 < len(ids); i += 2 {
			held := p.VerifC17RankedShared(ids[i])
			was := strings.Join(held, "\x00")
			p.VerifC17RankedShared(ids[i+1])
			if now := strings.Join(held, "\x00"); now != was {
				c.viol("ranking", "rendezvousRanked", fmt.Sprintf("peer set %q: the ranking returned for %q was %q and reads %q after an unrelated lookup of %q", S, ids[i], strings.Split(was, "\x00"), strings.Split(now, "\x00"), ids[i+1]),
					[]string{"set=" + strings.Join(S, ","), "node=" + sorted[0], "id=" + ids[i], "then=" + ids[i+1]})
				break
			}
		}
		c.evals.Add(int64(len(ids) / 2))
	}
	if k < 2 || k > 5 {
		return
	}
	// (D) RemovePeer(p) on every other node: ownership changes only for subscribers p owned
	for _, rm := range S {
		var afterRef []string
		for _, n := range S {
			if n == rm {
				continue
			}
			p := mkPool(n, sorted)
			p.RemovePeer(rm)
			after := make([]string, len(ids))
			for i, id := range ids {
				after[i] = p.GetOwner(id)
				switch {
				case ref[i] != rm && after[i] != ref[i]:
					c.viol("minimal-disruption", "RemovePeer", fmt.Sprintf("peer set %q node %q: removing %q moved subscriber %q from %q to %q", S, n, rm, id, ref[i], after[i]), []string{"set=" + strings.Join(S, ","), "node=" + n, "remove=" + rm, "id=" + id})
				case after[i] == rm || !member[after[i]]:
					c.viol("minimal-disruption", "RemovePeer", fmt.Sprintf("peer set %q node %q: after removing %q subscriber %q belongs to %q", S, n, rm, id, after[i]), []string{"set=" + strings.Join(S, ","), "node=" + n, "remove=" + rm, "id=" + id})
				case afterRef != nil && afterRef[i] != after[i]:
					c.viol("agreement", "RemovePeer", fmt.Sprintf("peer set %q: after removing %q nodes disagree on %q: %q vs %q (node %q)", S, rm, id, afterRef[i], after[i], n), []string{"set=" + strings.Join(S, ","), "node=" + n, "remove=" + rm, "id=" + id})
				default:
					continue
				}
				break
			}
			if afterRef == nil {
				afterRef = after
			}
			c.evals.Add(int64(len(ids)))
			c.nontr.Add(int64(len(ids)))
		}
	}
	// (E) all 2^k health vectors on every node
	nv := 1 << k
	ho := make([][][]string, k) // [node][vector][id]
	for ni, n := range S {
		p := mkPool(n, sorted)
		ho[ni] = make([][]string, nv)
		for v := 0; v < nv; v++ {
			for j, x := range S {
				p.VerifC17SetPeerHealth(x, v&(1<<j) == 0)
			}
			row := make([]string, len(ids))
			for i, id := range ids {
				row[i] = p.VerifC17HealthyOwner(id)
			}
			ho[ni][v] = row
		}
		c.evals.Add(int64(nv * len(ids)))
		c.nontr.Add(int64((nv - 1) * len(ids)))
	}
	idx := map[string]int{}
	for j, x := range S {
		idx[x] = j
	}
	for ni, n := range S {
		for v := 0; v < nv; v++ {
			tr := func(i int, extra string) []string {
				var un []string
				for j, x := range S {
					if v&(1<<j) != 0 {
						un = append(un, x)
					}
				}
				return []string{"set=" + strings.Join(S, ","), "node=" + n, "unhealthy=" + strings.Join(un, ","), extra, "id=" + ids[i]}
			}
			for i := range ids {
				o := ho[ni][v][i]
				oj, ok := idx[o]
				if !ok {
					c.viol("minimal-disruption", "getHealthyOwner", fmt.Sprintf("node %q routes %q to %q which is not a peer", n, ids[i], o), tr(i, ""))
					break
				}
				if o != n && v&(1<<oj) != 0 {
					c.viol("minimal-disruption", "getHealthyOwner", fmt.Sprintf("node %q routes %q to %q which it considers unhealthy", n, ids[i], o), tr(i, ""))
					break
				}
				if v == 0 && o != ref[i] {
					c.viol("agreement", "getHealthyOwner", fmt.Sprintf("node %q, all peers healthy: routes %q to %q but the owner is %q", n, ids[i], o, ref[i]), tr(i, ""))
					break
				}
				// marking one more peer unhealthy moves only what that peer owned
				bad := false
				for j, pj := range S {
					if v&(1<<j) != 0 || pj == n {
						continue
					}
					o2 := ho[ni][v|(1<<j)][i]
					if (o != pj && o2 != o) || (o == pj && o2 == pj) {
						c.viol("minimal-disruption", "getHealthyOwner", fmt.Sprintf("peer set %q node %q: marking %q unhealthy moved subscriber %q from %q to %q", S, n, pj, ids[i], o, o2), tr(i, "mark="+pj))
						bad = true
						break
					}
				}
				if bad {
					break
				}
				// nodes that are themselves healthy in this vector agree
				if v&(1<<ni) == 0 {
					for mi := range S {
						if mi != ni && v&(1<<mi) == 0 && ho[mi][v][i] != o {
							c.viol("agreement", "getHealthyOwner", fmt.Sprintf("peer set %q: nodes %q and %q (both healthy) route %q to %q and %q", S, n, S[mi], ids[i], o, ho[mi][v][i]), tr(i, ""))
							bad = true
							break
						}
					}
				}
				if bad {
					break
				}
			}
		}
	}
}

func runPure(run *report.Run) {
	name := "pure:owner-ranking-health"
	if !run.WantPart(name) {
		return
	}
	c := &pureCtx{run: run, ids: subscriberIDs(), part: name}
	start := time.Now()
	masks := make(chan int, 256)
	for m := 1; m < 256; m++ {
		masks <- m
	}
	close(masks)
	var wg sync.WaitGroup
	for w := 0; w < runtime.NumCPU(); w++ {
		wg.Add(1)
		go func() {
			defer wg.Done()
			for m := range masks {
				func() {
					// a crash inside the code under test (or of a check tripping over its output) is a finding, never a harness exit
					defer func() {
						if r := recover(); r != nil {
							buf := make([]byte, 2048)
							buf = buf[:runtime.Stack(buf, false)]
							c.viol("panic", "pure", fmt.Sprintf("peer set %q: %v\n%s", subsetOf(m), r, buf), []string{"set=" + strings.Join(subsetOf(m), ",")})
						}
					}()
					c.checkSubset(subsetOf(m))
				}()
			}
		}()
	}
	wg.Wait()
	run.AddEvals(c.evals.Load(), c.nontr.Load())
	run.AddPart(report.Part{Name: name, Engine: "D:bounded-exhaustive", Exhaustive: true, Executions: c.evals.Load(),
		Bound:  fmt.Sprintf("255 peer sets from %d names; all permutations (config and AddPeer order) for size<=5, sorted/reversed/rotations above; %d subscriber ids (len<=3 over {a,b,0,1,:} + 512 MAC-shaped); RemovePeer of every peer and all 2^n health vectors for n<=5", len(names), len(c.ids)),
		States: 255, Outcomes: 255,
		Note: fmt.Sprintf("wall=%.1fs", time.Since(start).Seconds())})
	run.Sample(map[string]any{"part": name, "evaluations": c.evals.Load(), "peer_names": names, "ids_sample": c.ids[150:160]})
}

func classify(v *report.Violation) {}

func TestCheck(t *testing.T) {
	run := report.New("C17", "model_checking")
	run.Rule = "every peer set / configuration order / AddPeer order / RemovePeer / health vector over a stated finite id set evaluated on real PeerPools; BFS over Allocate/Release/Get at every node + node down/up on 3 real PeerPools joined in memory; BFS over AddPeer/RemovePeer histories on one node compared after every step with a freshly configured PeerPool of the same membership"
	run.Assumptions = []string{
		"every node's NodeID is one of the peer names and all nodes are given the same peer set (a node whose NodeID is not literally in its --peers list sees a different set: outside the stated bounds)",
		"system part: a node going down/up is detected by every running node (three health-check rounds through the real checkPeer) before the next request; requests enter only at running nodes",
		"subscriber ids are the stated finite set, not all strings",
	}
	ms := append(sysModels(run), membershipModels(run)...)
	ms = append(ms, loopModels(t, run)...)
	if *report.FlagReplay != "" {
		os.Exit(replay(run, ms))
	}
	runPure(run)
	for _, m := range ms {
		if run.WantPart(m.Name) {
			m.Run(run)
		}
	}
	runSched(run)
	os.Exit(run.Finish())
}

func replay(run *report.Run, ms []*explore.Model) int {
	v, err := report.LoadReplay(*report.FlagReplay)
	if err != nil {
		fmt.Println("HARNESS-ERROR", err)
		return 2
	}
	if strings.HasPrefix(v.Part, "sched:") {
		return replaySched(run, v)
	}
	if strings.HasPrefix(v.Part, "pure:") {
		return replayPure(run, v)
	}
	for _, m := range ms {
		if m.Name+"["+m.Config+"]" == v.Part {
			vs, p := m.Replay(v.Trace)
			if p != "" {
				fmt.Printf("VIOLATION property=C17 replay=%s\n  panic: %s\n", *report.FlagReplay, p)
				return 1
			}
			for _, x := range vs {
				fmt.Printf("VIOLATION property=C17 replay=%s\n  kind=%s site=%s detail=%s\n", *report.FlagReplay, x.Kind, x.Site, x.Detail)
			}
			if len(vs) > 0 {
				return 1
			}
			fmt.Println("replay: no violation")
			return 0
		}
	}
	fmt.Println("HARNESS-ERROR unknown part", v.Part)
	return 2
}

// replayPure re-runs every pure check on the recorded peer set (trace[0] = "set=a,b,...").
func replayPure(run *report.Run, v report.Violation) int {
	if len(v.Trace) == 0 || !strings.HasPrefix(v.Trace[0], "set=") {
		fmt.Println("HARNESS-ERROR malformed pure trace")
		return 2
	}
	S := strings.Split(strings.TrimPrefix(v.Trace[0], "set="), ",")
	r2 := report.New("C17", "model_checking")
	c := &pureCtx{run: r2, ids: subscriberIDs(), part: v.Part}
	c.checkSubset(S)
	if c.viols.Load() > 0 {
		fmt.Printf("VIOLATION property=C17 replay=%s\n  %d violation(s) reproduced on peer set %q (first: see below)\n", *report.FlagReplay, c.viols.Load(), S)
		r2.Finish()
		return 1
	}
	fmt.Println("replay: no violation")
	return 0
}
