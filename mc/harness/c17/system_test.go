package c17

import (
	"context"
	"errors"
	"fmt"
	"net/http"
	"net/http/httptest"
	"sort"
	"strings"
	"time"

	"github.com/codelaboratoryltd/bng/pkg/pool"

	"verif/deepdump"
	"verif/explore"
	"verif/report"
)

// Part 2: three real PeerPools joined by an in-memory transport. Requests
// (Allocate / Release / Get) enter at any running node; a node can go down and
// come back (its HTTP API becomes unreachable; every running node then runs
// three health-check rounds through the real checkPeer).

type pnode struct {
	name string
	p    *pool.PeerPool
	h    http.Handler
	up   bool
	hung bool // not up, and instead of refusing connections it never answers (black hole)
}

// Peer-list styles: how each node is told about its peers.
const (
	styleAll        = "peers=all"         // every node gets the full list, itself included
	styleOthersDesc = "peers=others-desc" // every node gets only the OTHER nodes, in descending order
)

type psys struct {
	style string
	names []string
	nodes map[string]*pnode
	ids   []string
	viols []explore.Viol
}

// RoundTrip routes by URL host to the node of that name.
func (s *psys) RoundTrip(req *http.Request) (*http.Response, error) {
	n := s.nodes[req.URL.Host]
	if n == nil {
		return nil, fmt.Errorf("verif: no such host %q", req.URL.Host)
	}
	// like a real transport, honour the request's deadline / cancellation
	if err := req.Context().Err(); err != nil {
		return nil, err
	}
	if dl, ok := req.Context().Deadline(); ok && !time.Now().Before(dl) {
		return nil, context.DeadlineExceeded
	}
	if n.hung {
		<-req.Context().Done()
		return nil, req.Context().Err()
	}
	if !n.up {
		return nil, errors.New("verif: connection refused (node down)")
	}
	rec := httptest.NewRecorder()
	n.h.ServeHTTP(rec, req)
	return rec.Result(), nil
}

// pickIDs returns, for each node, the first candidate id that node owns (so
// that every node is the owner of something), from the stated id set.
func pickIDs(ns []string) []string {
	ref := mkPool(ns[0], ns)
	var out []string
	for _, n := range ns {
		for _, id := range subscriberIDs()[156:] { // MAC-shaped ids
			if ref.GetOwner(id) == n {
				out = append(out, id)
				break
			}
		}
	}
	return out
}

func peersFor(style, n string, ns []string) []string {
	if style == styleOthersDesc {
		o := without(ns, n)
		sort.Sort(sort.Reverse(sort.StringSlice(o)))
		return o
	}
	return ns
}

func newPsys(ns []string, style string) *psys {
	s := &psys{style: style, names: ns, nodes: map[string]*pnode{}}
	for _, n := range ns {
		p := mkPool(n, peersFor(style, n, ns))
		mux := http.NewServeMux()
		p.RegisterHandlers(mux)
		p.VerifC17SetTransport(s)
		s.nodes[n] = &pnode{name: n, p: p, h: mux, up: true}
	}
	s.ids = pickIDs(ns)
	return s
}

func (s *psys) v(kind, site, f string, a ...any) {
	s.viols = append(s.viols, explore.Viol{Kind: kind, Site: site, Detail: fmt.Sprintf(f, a...)})
}

func (s *psys) upNodes() []*pnode {
	var out []*pnode
	for _, n := range s.names {
		if s.nodes[n].up {
			out = append(out, s.nodes[n])
		}
	}
	return out
}

func (s *psys) Ops() []string {
	var ops []string
	ups := s.upNodes()
	for _, n := range ups {
		for k := range s.ids {
			ops = append(ops, fmt.Sprintf("Allocate %s %d", n.name, k), fmt.Sprintf("Release %s %d", n.name, k), fmt.Sprintf("Get %s %d", n.name, k))
		}
	}
	for _, n := range s.names {
		if s.nodes[n].up {
			if len(ups) > 1 {
				ops = append(ops, "Down "+n)
			}
		} else {
			ops = append(ops, "Up "+n)
		}
	}
	return ops
}

func (s *psys) snapshot() map[string]map[string]string {
	out := map[string]map[string]string{}
	for _, n := range s.names {
		out[n] = s.nodes[n].p.VerifC17Allocations()
	}
	return out
}

func changed(a, b map[string]map[string]string) []string {
	var out []string
	for n := range a {
		if fmt.Sprint(a[n]) != fmt.Sprint(b[n]) {
			out = append(out, n)
		}
	}
	sort.Strings(out)
	return out
}

// agreed returns the owner every running node routes id to (and reports disagreement).
func (s *psys) agreed(id string) string {
	owner := ""
	for i, n := range s.upNodes() {
		o := n.p.VerifC17HealthyOwner(id)
		if i == 0 {
			owner = o
		} else if o != owner {
			s.v("agreement", "getHealthyOwner", "running nodes disagree on the owner of %q: %q (at %s) vs %q", id, o, n.name, owner)
		}
	}
	if on := s.nodes[owner]; on == nil || !on.up {
		s.v("agreement", "getHealthyOwner", "running nodes route %q to %q which is not running", id, owner)
	}
	return owner
}

// converge: three health-check rounds on every running node.
func (s *psys) converge() {
	ctx := context.Background()
	for round := 0; round < 3; round++ {
		for _, n := range s.upNodes() {
			for _, m := range s.names {
				if m != n.name {
					n.p.VerifC17CheckPeer(ctx, m)
				}
			}
		}
	}
	for _, n := range s.upNodes() {
		for _, m := range s.names {
			if m != n.name && n.p.IsPeerHealthy(m) != s.nodes[m].up {
				s.v("health", "checkPeer", "after three health-check rounds node %q considers %q healthy=%v but it is up=%v", n.name, m, n.p.IsPeerHealthy(m), s.nodes[m].up)
			}
		}
	}
}

func (s *psys) Apply(op string) string {
	f := strings.Fields(op)
	ctx, cancel := context.WithTimeout(context.Background(), 10*time.Second)
	defer cancel()
	switch f[0] {
	case "Down":
		s.nodes[f[1]].up = false
		s.converge()
		return "ok"
	case "Up":
		s.nodes[f[1]].up = true
		s.converge()
		return "ok"
	}
	n := s.nodes[f[1]]
	var k int
	fmt.Sscan(f[2], &k)
	id := s.ids[k]
	owner := s.agreed(id)
	before := s.snapshot()
	obs := ""
	switch f[0] {
	case "Allocate":
		resp, err := n.p.Allocate(ctx, id, nil)
		after := s.snapshot()
		if err != nil {
			s.v("served-by-one", "Allocate", "Allocate(%q) entering at %q failed: %v (agreed owner %q)", id, n.name, err, owner)
			return "err"
		}
		if resp.NodeID != owner {
			s.v("served-by-one", "Allocate", "Allocate(%q) entering at %q was served by %q, the agreed owner is %q", id, n.name, resp.NodeID, owner)
		}
		for _, c := range changed(before, after) {
			if c != owner {
				s.v("served-by-one", "Allocate", "Allocate(%q) entering at %q changed the pool of %q, the agreed owner is %q", id, n.name, c, owner)
			}
		}
		if ip := after[owner][id]; ip == "" || ip != resp.IP {
			s.v("served-by-one", "Allocate", "Allocate(%q) entering at %q returned %s from %q but the owner %q's pool holds %q", id, n.name, resp.IP, resp.NodeID, owner, ip)
		}
		obs = resp.NodeID + ":" + resp.IP
	case "Release":
		err := n.p.Release(ctx, id)
		after := s.snapshot()
		if err != nil {
			s.v("served-by-one", "Release", "Release(%q) entering at %q failed: %v (agreed owner %q)", id, n.name, err, owner)
			return "err"
		}
		for _, c := range changed(before, after) {
			if c != owner {
				s.v("served-by-one", "Release", "Release(%q) entering at %q changed the pool of %q, the agreed owner is %q", id, n.name, c, owner)
			}
		}
		if ip := after[owner][id]; ip != "" {
			s.v("served-by-one", "Release", "Release(%q) entering at %q succeeded but the owner %q still holds %s", id, n.name, owner, ip)
		}
		obs = "ok"
	case "Get":
		resp, found := n.p.Get(id)
		after := s.snapshot()
		if c := changed(before, after); len(c) > 0 {
			s.v("served-by-one", "Get", "Get(%q) at %q changed pools %v", id, n.name, c)
		}
		if found {
			if resp.NodeID != owner || n.name != owner {
				s.v("served-by-one", "Get", "Get(%q) at %q answered from %q, the agreed owner is %q", id, n.name, resp.NodeID, owner)
			}
			if after[n.name][id] != resp.IP {
				s.v("served-by-one", "Get", "Get(%q) at %q returned %s but its pool holds %q", id, n.name, resp.IP, after[n.name][id])
			}
			obs = resp.NodeID + ":" + resp.IP
		} else {
			obs = "notfound"
		}
	default:
		panic("unknown op " + op)
	}
	return obs
}

func (s *psys) Fingerprint() string { return s.fingerprint(false) }

// fingerprint: capFailures folds consecutiveFailures counters at the threshold
// (used where real health loops keep counting for peers that stay down).
func (s *psys) fingerprint(capFailures bool) string {
	var sb strings.Builder
	skip := map[string]bool{"PeerPool.httpClient": true, "PeerPool.healthCheckClient": true, "PeerPool.healthCancel": true}
	if capFailures {
		skip["peerHealth.consecutiveFailures"] = true
	}
	for _, n := range s.names {
		pn := s.nodes[n]
		fmt.Fprintf(&sb, "%s up=%v ", n, pn.up)
		// the HTTP clients hold the transport (this harness); healthCancel is a func
		sb.WriteString(deepdump.Dump(pn.p, deepdump.Options{IgnoreTimes: true, SkipFields: skip}))
		sb.WriteString("\n")
	}
	return sb.String()
}

func (s *psys) Check() []explore.Viol {
	// in every state the running nodes agree on every id, and the owner is running
	for _, id := range s.ids {
		s.agreed(id)
	}
	return s.viols
}

func sysModels(run *report.Run) []*explore.Model {
	triples := [][]string{{"node-1", "node-10", "node-2"}}
	depth := 6
	if run.Thorough() {
		triples = append(triples, []string{"a", "ab", "b"}, []string{"Node-1", "node-1", "10.0.0.1:8081"})
		depth = 7
	}
	var ms []*explore.Model
	for _, tr := range triples {
		for _, style := range []string{styleAll, styleOthersDesc} {
			tr, style := tr, style
			d := depth
			if style == styleOthersDesc {
				d-- // second configuration style: one level shallower keeps the quick tier in budget
			}
			ms = append(ms, &explore.Model{
				Name: "pool.PeerPool-x3", Config: strings.Join(tr, ",") + " " + style,
				New:   func() explore.System { return newPsys(tr, style) },
				Depth: d, NoDedupDepth: 2, Classify: classify, Budget: 10 * time.Minute,
			})
		}
	}
	return ms
}

var _ = report.New
