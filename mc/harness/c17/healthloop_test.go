package c17

import (
	"context"
	"fmt"
	"strings"
	"testing"
	"testing/synctest"
	"time"

	"verif/explore"
	"verif/report"
)

// Part 5 (Engine A in synctest bubbles): four real PeerPools with their REAL
// health-check loops running (PeerPool.Start) on the bubble's virtual clock,
// joined by the in-memory transport. A peer can be Down (refuses connections,
// probes fail fast), Hung (black hole: a probe gets no answer until the
// client's own 5s timeout) or Up. "+45s" lets more than three health-check
// rounds pass (10s interval; a round over two hung peers takes 10s). After it
// every running node must consider exactly the running peers healthy — a
// healthy peer is never marked unhealthy because OTHER peers are slow — and
// requests (entering at running nodes, only in converged states) are served by
// the agreed owner's pool alone. No wall-clock time is involved.

type lsys struct {
	*psys
	converged bool
	stopped   bool
}

func newLsys(ns []string) *lsys {
	s := &lsys{psys: newPsys(ns, styleAll), converged: true}
	for _, n := range ns {
		s.nodes[n].p.Start(context.Background())
	}
	synctest.Wait()
	return s
}

func (s *lsys) Ops() []string {
	var ops []string
	ups := s.upNodes()
	if s.converged {
		for _, n := range ups {
			for k := range s.ids {
				ops = append(ops, fmt.Sprintf("Allocate %s %d", n.name, k))
			}
		}
	} else {
		ops = append(ops, "+45s")
	}
	notUp := len(s.names) - len(ups)
	for _, n := range s.names {
		if s.nodes[n].up {
			if notUp < 2 {
				ops = append(ops, "Down "+n, "Hang "+n)
			}
		} else {
			ops = append(ops, "Up "+n)
		}
	}
	return ops
}

func (s *lsys) Apply(op string) string {
	f := strings.Fields(op)
	switch f[0] {
	case "Down", "Hang", "Up":
		n := s.nodes[f[1]]
		n.up, n.hung = f[0] == "Up", f[0] == "Hang"
		s.converged = false
		synctest.Wait()
		return "ok"
	case "+45s":
		time.Sleep(45*time.Second + time.Millisecond)
		synctest.Wait()
		for _, n := range s.upNodes() {
			for _, m := range s.names {
				if m != n.name && n.p.IsPeerHealthy(m) != s.nodes[m].up {
					s.v("health", "healthCheckLoop", "45s (more than three health-check rounds) after the last change node %q considers %q healthy=%v but it is running=%v (hung=%v)", n.name, m, n.p.IsPeerHealthy(m), s.nodes[m].up, s.nodes[m].hung)
				}
			}
		}
		s.converged = true
		return "ok"
	}
	obs := s.psys.Apply(op)
	synctest.Wait()
	return obs
}

func (s *lsys) Fingerprint() string {
	var sb strings.Builder
	for _, n := range s.names {
		fmt.Fprintf(&sb, "%s hung=%v ", n, s.nodes[n].hung)
	}
	// consecutive-failure counters keep growing for peers that stay down: they only matter up to the threshold
	return sb.String() + fmt.Sprintf("conv=%v|", s.converged) + s.psys.fingerprint(true)
}

func (s *lsys) Check() []explore.Viol {
	if s.converged {
		for _, id := range s.ids {
			s.agreed(id)
		}
	}
	// epilogue: every loop goroutine must be gone before the bubble's root returns
	for _, n := range s.names {
		s.nodes[n].hung = false
		s.nodes[n].p.Stop()
	}
	synctest.Wait()
	return s.viols
}

func loopModels(t *testing.T, run *report.Run) []*explore.Model {
	depth := 4
	sets := [][]string{{"a", "ab", "b", "node-1"}}
	if run.Thorough() {
		depth = 5
		sets = append(sets, []string{"node-1", "node-10", "node-2", "Node-1"})
	}
	var ms []*explore.Model
	for _, ns := range sets {
		ns := ns
		ms = append(ms, &explore.Model{
			Name: "pool.PeerPool-x4-healthloop", Config: strings.Join(ns, ","),
			New:   func() explore.System { return newLsys(ns) },
			Depth: depth, NoDedupDepth: 2, Classify: classify, Budget: 8 * time.Minute,
			Exec: func(body func()) { synctest.Test(t, func(*testing.T) { body() }) },
		})
	}
	return ms
}
