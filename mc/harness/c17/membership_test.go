package c17

import (
	"fmt"
	"sort"
	"strings"
	"sync"
	"time"

	"github.com/codelaboratoryltd/bng/pkg/pool"

	"verif/deepdump"
	"verif/explore"
	"verif/report"
)

// Part 3 (Engine A): membership HISTORIES on one node — AddPeer / RemovePeer in
// any order, including idempotent re-adds of members and removes of absent
// peers — interleaved with LOOKUPS (getHealthyOwner for a few subscribers: a
// lookup may have side effects such as caches) and with health changes of the
// other peers. Differential oracle after every operation: the node must behave
// exactly like a PeerPool freshly configured with the same final membership.

type msys struct {
	self      string
	others    []string
	p         *pool.PeerPool
	members   map[string]bool // set semantics of AddPeer/RemovePeer (self is always a member)
	unhealthy map[string]bool // this node's view: peers marked unhealthy
	lookups   bool            // offer Lookup / ToggleHealth operations
	ids       []string
	viols     []explore.Viol
	bk        sync.Mutex // harness bookkeeping only (free-running -race pass runs Apply on real goroutines)
}

func membershipIDs() []string {
	all := subscriberIDs()
	ids := append([]string(nil), all[1:31]...) // 30 short ids
	return append(ids, all[156:156+66]...)     // 66 MAC-shaped ids
}

func newMsys(self string, others []string, startFull bool) *msys {
	s := &msys{self: self, others: others, members: map[string]bool{self: true}, unhealthy: map[string]bool{}, ids: membershipIDs()}
	var peers []string
	if startFull {
		peers = append([]string{self}, others...)
		for _, o := range others {
			s.members[o] = true
		}
	}
	s.p = mkPool(self, peers)
	return s
}

func (s *msys) Ops() []string {
	var ops []string
	for _, o := range s.others {
		ops = append(ops, "AddPeer "+o, "RemovePeer "+o)
	}
	if s.lookups {
		for _, o := range s.others {
			ops = append(ops, "ToggleHealth "+o)
		}
		for k := 0; k < nLookupIDs; k++ {
			ops = append(ops, fmt.Sprintf("Lookup %d", k))
		}
	}
	return ops
}

func (s *msys) Apply(op string) string {
	f := strings.SplitN(op, " ", 2)
	switch f[0] {
	case "AddPeer":
		s.p.AddPeer(f[1])
		s.bk.Lock()
		s.members[f[1]] = true
		s.bk.Unlock()
	case "RemovePeer":
		s.p.RemovePeer(f[1])
		s.bk.Lock()
		delete(s.members, f[1])
		s.bk.Unlock()
	case "ToggleHealth":
		s.bk.Lock()
		s.unhealthy[f[1]] = !s.unhealthy[f[1]]
		h := !s.unhealthy[f[1]]
		s.bk.Unlock()
		s.p.VerifC17SetPeerHealth(f[1], h)
	case "Lookup":
		var k int
		fmt.Sscan(f[1], &k)
		return s.p.VerifC17HealthyOwner(s.lookupID(k))
	default:
		panic("unknown op " + op)
	}
	return fmt.Sprint(s.p.Stats().PeerCount)
}

const nLookupIDs = 4

// lookupID: the MAC-shaped ids at the end of the id set.
func (s *msys) lookupID(k int) string { return s.ids[30+k] }

func (s *msys) unhealthyList() []string {
	var m []string
	for x, u := range s.unhealthy {
		if u {
			m = append(m, x)
		}
	}
	sort.Strings(m)
	return m
}

// fallbackWalk reveals the ranking a node actually uses through its observable
// routing: route, mark the chosen peer unhealthy, route again ... until the
// node serves locally. restore puts the health view back.
func fallbackWalk(p *pool.PeerPool, self, id string, restore func(*pool.PeerPool)) []string {
	var seq []string
	for step := 0; step < 12; step++ {
		o := p.VerifC17HealthyOwner(id)
		seq = append(seq, o)
		if o == self {
			break
		}
		p.VerifC17SetPeerHealth(o, false)
	}
	restore(p)
	return seq
}

func (s *msys) memberList() []string {
	var m []string
	for x := range s.members {
		m = append(m, x)
	}
	sort.Strings(m)
	return m
}

func (s *msys) Fingerprint() string {
	return deepdump.Dump(s.p, deepdump.Options{IgnoreTimes: true, SkipFields: map[string]bool{
		"PeerPool.httpClient": true, "PeerPool.healthCheckClient": true, "PeerPool.healthCancel": true}}) + "|" + strings.Join(s.memberList(), ",") + "|" + strings.Join(s.unhealthyList(), ",")
}

func (s *msys) v(kind, site, f string, a ...any) {
	s.viols = append(s.viols, explore.Viol{Kind: kind, Site: site, Detail: fmt.Sprintf(f, a...)})
}

func (s *msys) Check() []explore.Viol {
	m := s.memberList()
	fresh := mkPool(s.self, m)
	if got := s.p.Stats().PeerCount; got != len(m) {
		s.v("membership", "Stats", "after this history the membership is %q (%d peers) but PeerCount is %d", m, len(m), got)
	}
	un := s.unhealthyList()
	restore := func(p *pool.PeerPool) {
		for _, o := range s.others {
			p.VerifC17SetPeerHealth(o, !s.unhealthy[o])
		}
	}
	restore(fresh)
	for k, id := range s.ids {
		// routing under the current health view, and the whole fallback order behind it
		if got, want := s.p.VerifC17HealthyOwner(id), fresh.VerifC17HealthyOwner(id); got != want {
			s.v("agreement", "getHealthyOwner", "membership %q, unhealthy %q: this node routes %q to %q, a node freshly configured with the same membership and health view routes it to %q", m, un, id, got, want)
			break
		}
		// (the walk is done for the lookup ids and a dozen others; plain routing above for every id)
		if k >= 30+nLookupIDs+12 || (k >= 12 && k < 30) {
			continue
		}
		if got, want := fallbackWalk(s.p, s.self, id, restore), fallbackWalk(fresh, s.self, id, restore); strings.Join(got, ">") != strings.Join(want, ">") {
			s.v("ranking", "getHealthyOwner", "membership %q, unhealthy %q: marking each chosen peer unhealthy in turn, this node routes %q along %q, a freshly configured node along %q", m, un, id, got, want)
			break
		}
	}
	if len(un) > 0 {
		return s.viols // the all-healthy comparisons below assume an all-healthy view
	}
	for _, id := range s.ids {
		want := fresh.GetOwner(id)
		if got := s.p.GetOwner(id); got != want {
			s.v("agreement", "GetOwner", "membership %q: this node says %q belongs to %q, a node freshly configured with the same membership says %q", m, id, got, want)
			break
		}
		if got := s.p.VerifC17HealthyOwner(id); got != want {
			s.v("agreement", "getHealthyOwner", "membership %q, all healthy: this node routes %q to %q, a freshly configured node to %q", m, id, got, want)
			break
		}
		r := s.p.VerifC17Ranked(id)
		rs := append([]string(nil), r...)
		sort.Strings(rs)
		if strings.Join(rs, "\x00") != strings.Join(m, "\x00") {
			s.v("ranking", "rendezvousRanked", "membership %q: ranking for %q is %q, not a permutation of the membership", m, id, r)
			break
		}
		if r[0] != want {
			s.v("ranking", "rendezvousRanked", "membership %q: ranking for %q starts with %q but the owner is %q", m, id, r[0], want)
			break
		}
	}
	return s.viols
}

func membershipModels(run *report.Run) []*explore.Model {
	depth := 5
	type mc struct {
		self   string
		others []string
	}
	// "self" sorts in different places relative to the others
	cfgs := []mc{{"node-10", []string{"a", "ab", "b", "node-1", "node-2"}}}
	if run.Thorough() {
		depth = 7
		cfgs = append(cfgs, mc{"a", []string{"Node-1", "ab", "b", "node-1", "10.0.0.1:8081"}})
	}
	var ms []*explore.Model
	for _, c := range cfgs {
		for _, full := range []bool{true, false} {
			c, full := c, full
			ms = append(ms, &explore.Model{
				Name: "pool.PeerPool-membership", Config: fmt.Sprintf("self=%s others=%s startFull=%v", c.self, strings.Join(c.others, ","), full),
				New: func() explore.System {
					s := newMsys(c.self, c.others, full)
					s.lookups = true
					return s
				},
				Depth: depth, NoDedupDepth: 3, Classify: classify, Budget: 5 * time.Minute,
			})
		}
	}
	return ms
}
