package c01

import (
	"strings"

	"verif/harness/pooladapt"
	"verif/report"
)

// classify assigns root-cause classes. Each predicate is narrow: implementation
// (part), clause (kind), API (site) and a coded witness condition computed by
// the adapter from the trace ("[cause=...]" is only emitted when the witness is
// exactly accounted for by that cause). Anything else stays unclassified and is
// reported as VIOLATION.
func classify(v *report.Violation) {
	has := func(s string) bool { return strings.Contains(v.Detail, s) }
	switch {
	// DistributedAllocator.Allocate/AllocateWithMAC for a subscriber that already holds an
	// address, store Put fails: the "rollback" releases the pre-existing allocation.
	case strings.HasPrefix(v.Part, "allocator.DistributedAllocator[") && v.Kind == "stability" &&
		(v.Site == "Allocate" || v.Site == "AllocateWithMAC") && has("[cause=rollback-of-existing-allocation]") && failedReask(v.Trace):
		// repaired by C12-F1 (committed): no longer listed as known, so a regression is reported as VIOLATION with this label
		v.Class = "C01-dist-rollback-existing"
	// nexus.Client: two subscribers whose FNV-1a hash selects the same host offset get the same address.
	case strings.HasPrefix(v.Part, "nexus.Client[") && v.Kind == "duplicate" && v.Site == "AllocateIPForSubscriber" && has("[cause=hash-collision "):
		v.Class = "C01-nexus-hash-collision"
	// PoolAllocator has no lock of its own: Allocate = IPAllocator.Allocate then store.SaveAllocation,
	// Release = IPAllocator.Release then store.RemoveAllocation; the two pairs interleave.
	case strings.HasPrefix(v.Part, "sched:allocator.PoolAllocator[") && v.Kind == "query" && v.Site == "store.GetByPool" && pooladapt.AllocVsReleaseSameSub(v.Trace):
		v.Class = "C01-poolalloc-allocate-release-race"
	}
}

// failedReask: the last operation is an allocate by a subscriber that allocated earlier in
// the trace (without a release in between), directly preceded by an armed store fault.
func failedReask(tr []string) bool {
	if len(tr) < 3 || !strings.HasPrefix(tr[len(tr)-2], "FailNext(") {
		return false
	}
	last := tr[len(tr)-1]
	i := strings.IndexByte(last, '(')
	if i < 0 || !strings.HasPrefix(last, "Allocate") {
		return false
	}
	sub := last[i:]
	held := false
	for _, op := range tr[:len(tr)-2] {
		switch {
		case op == "Allocate"+sub || op == "AllocateWithMAC"+sub || strings.HasPrefix(op, "RemotePut"+strings.TrimSuffix(sub, ")")+","):
			held = true
		case op == "Release"+sub || op == "RemoteDelete"+sub:
			held = false
		case op == "Restart":
			// a restart reloads whatever the store holds (e.g. a record whose delete failed earlier):
			// holder-ness is then established by the adapter's reference (it emitted "holder ... asked again")
			held = true
		}
	}
	return held
}
