package c01

import (
	"verif/harness/pooladapt"
	"verif/report"
)

// Engine B lives in verif/harness/pooladapt/schedpart.go (shared with C05); here with the C01 clauses.
func runSched(run *report.Run) { pooladapt.RunSched(run, pooladapt.Clauses{C01: true}, classify) }
func replaySched(run *report.Run, v report.Violation) int {
	return pooladapt.ReplaySched(run, v, pooladapt.Clauses{C01: true}, prop)
}
