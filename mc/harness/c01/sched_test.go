package c01

import "verif/report"

func runSched(run *report.Run)                          {}
func replaySched(run *report.Run, v report.Violation) int { return 2 }
