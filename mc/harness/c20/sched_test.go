package c20

import (
	"fmt"
	"sort"
	"strings"
	"time"

	"verif/explore"
	"verif/report"
	"verif/sched"
)

// ---------------------------------------------------------------------------
// Engine B part "sched:*": 2-3 logical threads on colliding keys. The lock-protected key
// tables (qinq.Mapper, nexus.VLANAllocator, pppoe.SessionManager, state.Store) are compiled
// from AST-rewritten copies (REWRITE): every mutex operation is a scheduling point; all
// schedules with <= bound preemptions are enumerated. Each thread applies operations of the
// SAME system objects the Engine A parts use (their Apply records per-operation violations),
// and at the end of every schedule the part's Check() runs: uniqueness, ranges,
// forward/reverse agreement in both directions, probe for reusability.
// ---------------------------------------------------------------------------

type bscen struct {
	name    string
	mk      func() explore.System
	pre     []string
	threads [][]string
}

func bscenarios(thorough bool) []bscen {
	q := func() explore.System { s := newQinqSys(); s.conc = true; return s }
	a, b := qSubs[0], qSubs[1]
	v5 := func() explore.System { s := newVlanSys(5); s.conc = true; return s }
	pw := func() explore.System { s := newPppoeWrapSys(1, 65535, 8); s.conc = true; return s } // id 1 alive, counter then at 65535
	ss := func() explore.System {
		return &idxSys{a: &stSessions{newStateStore()}, name: "state.Store sessions", ents: xEnts}
	}
	sl := func() explore.System {
		return &idxSys{a: &stLeases{newStateStore()}, name: "state.Store leases", ents: xEnts}
	}
	e1, e2 := xEnts[0], xEnts[1]
	sm := func() explore.System { s := newDsSys(3); s.conc = true; return s }
	e3 := xEnts[2]
	s := []bscen{
		// subscriber.Manager: TerminateSession works in two locked sections with the (slow) address release in between
		{"submgr Terminate(e1)|CreateM(e2,mac of e1)", sm, []string{"Create(" + e1 + ")", "Assign(" + e1 + ",0,0)"}, [][]string{{"Terminate(" + e1 + ")"}, {"CreateM(" + e2 + ",0)"}}},
		{"submgr Terminate(e1)|CreateM(e2,mac of e1),CreateM(e3,mac of e1)", sm, []string{"Create(" + e1 + ")", "Assign(" + e1 + ",0,-)"}, [][]string{{"Terminate(" + e1 + ")"}, {"CreateM(" + e2 + ",0)", "CreateM(" + e3 + ",0)"}}},
		{"submgr Terminate(e1)|Assign(e2,address of e1)", sm, []string{"Create(" + e1 + ")", "Assign(" + e1 + ",0,0)", "Create(" + e2 + ")"}, [][]string{{"Terminate(" + e1 + ")"}, {"Assign(" + e2 + ",0,0)"}}},
		{"submgr Terminate(e1)|Assign(e1,other address)", sm, []string{"Create(" + e1 + ")", "Assign(" + e1 + ",0,-)"}, [][]string{{"Terminate(" + e1 + ")"}, {"Assign(" + e1 + ",1,1)"}}},
		{"submgr Assign(e1,a0)|Assign(e2,a0)", sm, []string{"Create(" + e1 + ")", "Create(" + e2 + ")"}, [][]string{{"Assign(" + e1 + ",0,-)"}, {"Assign(" + e2 + ",0,-)"}}},
		{"qinq Register(p0,a)|Register(p0,b)", q, nil, [][]string{{"Register(0," + a + ")"}, {"Register(0," + b + ")"}}},
		{"qinq Register(p1,a)|Unregister(p0)", q, []string{"Register(0," + a + ")"}, [][]string{{"Register(1," + a + ")"}, {"Unregister(0)"}}},
		{"qinq Register(p0,b)|UnregisterSubscriber(a)", q, []string{"Register(0," + a + ")"}, [][]string{{"Register(0," + b + ")"}, {"UnregisterSubscriber(" + a + ")"}}},
		{"qinq Register(p0,a)|Register(p0,b)|Unregister(p0)", q, nil, [][]string{{"Register(0," + a + ")"}, {"Register(0," + b + ")"}, {"Unregister(0)"}}},
		{"vlan Allocate(n4)|Allocate(n5) last pair", v5, []string{"Allocate(n1)", "Allocate(n2)", "Allocate(n3)"}, [][]string{{"Allocate(n4)"}, {"Allocate(n5)"}}},
		{"vlan Allocate(n1)|AllocateWithSTag(n1,101)", v5, nil, [][]string{{"Allocate(n1)"}, {"AllocateWithSTag(n1,101)"}}},
		{"vlan Release(n1)|Allocate(n4) last pair", v5, []string{"Allocate(n1)", "Allocate(n2)", "Allocate(n3)", "Allocate(n5)"}, [][]string{{"Release(n1)"}, {"Allocate(n4)"}}},
		{"pppoe Create(A)|Create(B) at the wrap, id 1 alive", pw, []string{"Create(A)"}, [][]string{{"Create(A)"}, {"Create(B)"}}},
		{"pppoe Create(B)|Remove(1) at the wrap", pw, []string{"Create(A)", "Create(A)"}, [][]string{{"Create(B)"}, {"Remove(1)"}}},
		{"state sessions Create(e1)|Create(e2)", ss, nil, [][]string{{"Create(" + e1 + ",0,0)"}, {"Create(" + e2 + ",1,1)"}}},
		{"state leases Update(e1 ip)|Update(e2 mac)", sl, []string{"Create(" + e1 + ",0,0)", "Create(" + e2 + ",1,1)"}, [][]string{{"Update(" + e1 + ",0,2)"}, {"Update(" + e2 + ",2,1)"}}},
	}
	if thorough {
		s = append(s,
			bscen{"qinq Register(p0,a),Register(p1,a)|Register(p1,b)", q, nil, [][]string{{"Register(0," + a + ")", "Register(1," + a + ")"}, {"Register(1," + b + ")"}}},
			bscen{"vlan Allocate(n4)|Allocate(n5)|Release(n1)", v5, []string{"Allocate(n1)", "Allocate(n2)", "Allocate(n3)"}, [][]string{{"Allocate(n4)"}, {"Allocate(n5)"}, {"Release(n1)"}}},
			bscen{"pppoe Create(A)|Create(B)|Create(A) at the wrap", pw, []string{"Create(A)"}, [][]string{{"Create(A)"}, {"Create(B)"}, {"Create(A)"}}},
		)
	}
	return s
}

type bstate struct {
	sys explore.System
}

func (sc bscen) scenario() *sched.Scenario {
	return &sched.Scenario{
		Name: sc.name,
		Setup: func(x *sched.Exec) {
			st := &bstate{sys: sc.mk()}
			x.Data = st
			for _, op := range sc.pre { // sequential prefix, before any thread exists
				st.sys.Apply(op)
			}
			for ti, ops := range sc.threads {
				ti, ops := ti, ops
				x.Thread(fmt.Sprintf("T%d", ti), func() {
					for _, op := range ops {
						r := st.sys.Apply(op)
						x.Obs("T%d:%s=%s", ti, op, r)
					}
				})
			}
		},
		Check: func(x *sched.Exec) []sched.Viol {
			var vs []sched.Viol
			for _, v := range x.Data.(*bstate).sys.Check() {
				site := v.Site
				if site == "" {
					site = "concurrent"
				}
				vs = append(vs, sched.Viol{Kind: v.Kind, Site: site, Detail: v.Detail})
			}
			return vs
		},
	}
}

func (sc bscen) partName() string { return "sched:" + sc.name }

func runSched(run *report.Run) {
	bound := 2
	if run.Thorough() {
		bound = 3
	}
	for _, sc := range bscenarios(run.Thorough()) {
		name := sc.partName()
		if !run.WantPart(name) {
			continue
		}
		e := &sched.Explorer{Bound: bound, Budget: 3 * time.Minute}
		res := e.Explore(sc.scenario())
		run.AddPart(report.Part{Name: name, Engine: "B:sched-dfs", Bound: fmt.Sprintf("preemptions<=%d completed=%d maxpoints=%d", bound, res.Bound, res.MaxPoints),
			Executions: res.Executions, Outcomes: int64(len(res.Outcomes)), Exhaustive: res.Exhaustive, States: int64(len(res.Outcomes))})
		for _, f := range res.Failures {
			x1 := sched.RunOnce(sc.scenario(), f.Choices)
			x2 := sched.RunOnce(sc.scenario(), f.Choices)
			if strings.Join(x1.Log, "|") != strings.Join(x2.Log, "|") || strings.Join(x1.Log, "|") != strings.Join(f.Log, "|") {
				run.HarnessError("non-deterministic replay of schedule in " + name)
				continue
			}
			for _, v := range f.Viols {
				tr := append([]string{"pre=" + strings.Join(sc.pre, ";")}, f.Schedule...)
				rv := report.Violation{Part: name, Kind: v.Kind, Site: v.Site, Detail: v.Detail + " | observations: " + strings.Join(f.Log, " "),
					Config: "sched", Trace: tr, Extra: map[string]any{"choices": f.Choices}}
				classify(&rv)
				run.Violation(rv)
			}
		}
		if len(res.Failures) == 0 {
			var o []string
			for k := range res.Outcomes {
				o = append(o, k)
			}
			sort.Strings(o)
			run.Sample(map[string]any{"part": name, "executions": res.Executions, "outcomes": o})
		}
	}
}

func replaySched(v report.Violation) int {
	for _, sc := range bscenarios(true) {
		if sc.partName() != v.Part {
			continue
		}
		var choices []int
		if cs, ok := v.Extra["choices"].([]any); ok {
			for _, c := range cs {
				choices = append(choices, int(c.(float64)))
			}
		}
		x := sched.RunOnce(sc.scenario(), choices)
		vs := sc.scenario().Check(x)
		if x.PanicText != "" {
			vs = append(vs, sched.Viol{Kind: "panic", Detail: x.PanicText})
		}
		if x.Deadlock {
			vs = append(vs, sched.Viol{Kind: "deadlock", Detail: strings.Join(x.Schedule(), ",")})
		}
		for _, f := range vs {
			fmt.Printf("VIOLATION property=C20 replay=%s\n  kind=%s site=%s detail=%s\n  observations: %s\n", *report.FlagReplay, f.Kind, f.Site, f.Detail, strings.Join(x.Log, " "))
		}
		if len(vs) > 0 {
			return 1
		}
		fmt.Println("replay: no violation")
		return 0
	}
	fmt.Println("HARNESS-ERROR unknown scenario", v.Part)
	return 2
}
