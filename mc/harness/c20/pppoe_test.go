package c20

import (
	"fmt"
	"net"
	"sort"
	"strconv"
	"sync"
	"testing"
	"testing/synctest"
	"time"

	"github.com/codelaboratoryltd/bng/pkg/pppoe"

	"verif/deepdump"
	"verif/explore"
)

// ---------------------------------------------------------------------------
// Part "pppoe": pppoe.SessionManager. Session id <-> session, client MAC -> session.
// Time is virtual (synctest): Sleep advances it, CleanupExpired(60s) reaps idle sessions.
// ---------------------------------------------------------------------------

var theT *testing.T

func bubble(body func()) { synctest.Test(theT, func(*testing.T) { body() }) }

var (
	pMACs      = map[string]net.HardwareAddr{"A": {2, 0, 0, 0, 0, 0xa}, "B": {2, 0, 0, 0, 0, 0xb}}
	pServerMAC = net.HardwareAddr{2, 0, 0, 0, 0, 1}
)

type pref struct {
	mac  string
	last time.Time
	sess *pppoe.Session
}

type pppoeSys struct {
	// conc (Engine B): the reference "live" map cannot be kept in step with the manager by concurrent
	// threads; it is rebuilt from the manager's own primary table before Check, and the sessions handed
	// to callers are remembered to detect a live session being overwritten.
	conc    bool
	handed  []*pppoe.Session
	removed map[uint16]bool
	m       *pppoe.SessionManager
	live    map[uint16]*pref
	creates int
	maxNew  int
	newest  map[string]uint16 // MAC name -> id of the session created last for it
	// presetAfter/presetTo: after the presetAfter-th CreateSession the id counter is set to presetTo
	// (add-only seam), so that low ids handed out before are still alive when the counter wraps.
	presetAfter int
	presetTo    uint16
	// laps: "Lap(x)" ops used. A lap = about 65535 further sessions have come and gone and the id cursor
	// stands at x again while the long-lived sessions are still there (add-only seam; at most one per execution).
	laps int
	viols       []explore.Viol
	bk          sync.Mutex // harness bookkeeping only (free-running -race pass)
}

func newPppoeSys(startID uint16, maxNew int) *pppoeSys {
	m := pppoe.NewSessionManager()
	if startID != 1 {
		m.VerifC20SetNextID(startID)
	}
	return &pppoeSys{m: m, live: map[uint16]*pref{}, maxNew: maxNew, newest: map[string]uint16{}}
}

// newPppoeWrapSys: ids 1..after are handed out normally, then the counter jumps to `to`.
func newPppoeWrapSys(after int, to uint16, maxNew int) *pppoeSys {
	s := newPppoeSys(1, maxNew)
	s.presetAfter, s.presetTo = after, to
	return s
}

func (s *pppoeSys) ids() []int {
	var ids []int
	for id := range s.live {
		ids = append(ids, int(id))
	}
	sort.Ints(ids)
	return ids
}

func (s *pppoeSys) Ops() []string {
	var ops []string
	if s.creates < s.maxNew {
		ops = append(ops, "Create(A)", "Create(B)")
	}
	for _, id := range s.ids() {
		ops = append(ops, fmt.Sprintf("Remove(%d)", id), fmt.Sprintf("Touch(%d)", id))
	}
	ops = append(ops, "Remove(40000)", "Sleep(40s)", "Cleanup(60s)")
	if !s.conc && s.presetAfter > 0 && s.creates > s.presetAfter && s.laps == 0 {
		// the cursor has been once around the id space: it stands on / just below the last id again,
		// or on a low id that is still alive
		ops = append(ops, "Lap(65535)", "Lap(65534)", "Lap(1)")
	}
	return ops
}

func (s *pppoeSys) v(kind, site, f string, a ...any) {
	s.viols = append(s.viols, explore.Viol{Kind: kind, Site: site, Detail: fmt.Sprintf(f, a...)})
}

func (s *pppoeSys) applyRaw(name string, args []string) string {
	switch name {
	case "Create":
		s.bk.Lock()
		s.creates++
		s.bk.Unlock()
		sess, err := s.m.CreateSession(pMACs[args[0]], pServerMAC)
		if err != nil {
			return "err"
		}
		s.bk.Lock()
		c := s.creates
		s.bk.Unlock()
		if s.presetAfter > 0 && c == s.presetAfter {
			s.m.VerifC20SetNextID(s.presetTo)
		}
		s.bk.Lock()
		s.handed = append(s.handed, sess)
		s.bk.Unlock()
		return "created" // the id depends on the schedule; it is checked, not logged
	case "Remove":
		id, _ := strconv.Atoi(args[0])
		s.bk.Lock()
		if s.removed == nil {
			s.removed = map[uint16]bool{}
		}
		s.removed[uint16(id)] = true
		s.bk.Unlock()
		s.m.RemoveSession(uint16(id))
		return "ok"
	}
	panic("op not available under Engine B: " + name)
}

// rebuild (conc): live := the manager's primary table; every session handed to a caller whose id was
// never the target of a Remove must still be THE session stored under its id.
func (s *pppoeSys) rebuild() {
	s.live = map[uint16]*pref{}
	for _, x := range s.m.GetAllSessions() {
		name := "?"
		for n, m := range pMACs {
			if m.String() == x.ClientMAC.String() {
				name = n
			}
		}
		if o, dup := s.live[x.ID]; dup {
			s.v("unique", "GetAllSessions", "two live sessions carry id %d (%s and %s)", x.ID, o.mac, name)
		}
		s.live[x.ID] = &pref{mac: name, sess: x}
	}
	seen := map[uint16]*pppoe.Session{}
	for _, h := range s.handed {
		if h.ID == 0 {
			s.v("id-zero", "CreateSession", "a session was given id 0")
		}
		if o, dup := seen[h.ID]; dup && o != h && !s.removed[h.ID] {
			s.v("unique", "CreateSession", "id %d was handed to two clients (%s and %s) and never removed", h.ID, o.ClientMAC, h.ClientMAC)
		}
		seen[h.ID] = h
		if !s.removed[h.ID] && s.m.GetSession(h.ID) != h {
			s.v("unique", "CreateSession", "the session given id %d (client %s) was never removed but id %d no longer identifies it", h.ID, h.ClientMAC, h.ID)
		}
	}
}

func (s *pppoeSys) Apply(op string) string {
	name, args := argsOf(op)
	if s.conc {
		return s.applyRaw(name, args)
	}
	switch name {
	case "Create":
		s.creates++
		sess, err := s.m.CreateSession(pMACs[args[0]], pServerMAC)
		if err != nil {
			return "err"
		}
		if o, dup := s.live[sess.ID]; dup {
			s.v("unique", "CreateSession", "new session for %s was given id %d which identifies the live session of %s", args[0], sess.ID, o.mac)
		}
		if sess.ID == 0 {
			s.v("id-zero", "CreateSession", "new session for %s was given session id 0 (reserved for discovery; the allocator's own rule is to skip 0)", args[0])
		}
		s.live[sess.ID] = &pref{mac: args[0], last: time.Now(), sess: sess}
		s.newest[args[0]] = sess.ID
		if s.presetAfter > 0 && s.creates == s.presetAfter {
			s.m.VerifC20SetNextID(s.presetTo)
		}
		return fmt.Sprint(sess.ID)
	case "Lap":
		id, _ := strconv.Atoi(args[0])
		s.laps++
		s.m.VerifC20SetNextID(uint16(id))
		return "cursor=" + args[0]
	case "Remove":
		id, _ := strconv.Atoi(args[0])
		s.m.RemoveSession(uint16(id))
		delete(s.live, uint16(id))
		return "ok"
	case "Touch":
		id, _ := strconv.Atoi(args[0])
		r := s.live[uint16(id)]
		r.sess.UpdateActivity()
		r.last = time.Now()
		return "ok"
	case "Sleep":
		time.Sleep(40 * time.Second)
		return "ok"
	case "Cleanup":
		n := s.m.CleanupExpired(60 * time.Second)
		exp := 0
		now := time.Now()
		for id, r := range s.live {
			if now.Sub(r.last) > 60*time.Second {
				delete(s.live, id)
				exp++
			}
		}
		if n != exp {
			s.v("release", "CleanupExpired", "CleanupExpired removed %d sessions, %d were idle for more than the timeout", n, exp)
		}
		return fmt.Sprint(n)
	}
	panic("unknown op " + op)
}

func (s *pppoeSys) Fingerprint() string {
	// MagicNumber / SessionID are random per session and never read by the manager;
	// CreatedAt is never read by the manager. LastActivity decides expiry: kept, relative to now.
	return deepdump.Dump(s.m, deepdump.Options{Now: time.Now(), SkipFields: map[string]bool{
		"Session.MagicNumber": true, "Session.SessionID": true, "Session.CreatedAt": true}}) + fmt.Sprint("|", s.creates, "|", s.laps)
}

func (s *pppoeSys) Check() []explore.Viol {
	if s.conc {
		s.rebuild()
	}
	// forward: id -> session
	for _, id := range s.ids() {
		r := s.live[uint16(id)]
		g := s.m.GetSession(uint16(id))
		switch {
		case g == nil:
			s.v("forward", "GetSession", "session %d of %s is live but GetSession returns nil", id, r.mac)
		case g != r.sess || g.ID != uint16(id) || g.ClientMAC.String() != pMACs[r.mac].String():
			s.v("forward", "GetSession", "GetSession(%d) returns session id=%d mac=%s, expected the session of %s", id, g.ID, g.ClientMAC, r.mac)
		}
	}
	for _, id := range []uint16{0, 1, 2, 3, 4, 5, 65533, 65534, 65535, 40000} {
		if _, ok := s.live[id]; !ok {
			if g := s.m.GetSession(id); g != nil {
				s.v("forward", "GetSession", "id %d identifies no live session but GetSession returns one (mac %s)", id, g.ClientMAC)
			}
		}
	}
	if n := s.m.Count(); n != len(s.live) {
		s.v("forward", "Count", "Count()=%d, %d sessions are live", n, len(s.live))
	}
	// reverse: MAC -> session
	for _, name := range []string{"A", "B"} {
		var liveOfMAC []int
		for _, id := range s.ids() {
			if s.live[uint16(id)].mac == name {
				liveOfMAC = append(liveOfMAC, id)
			}
		}
		g := s.m.GetSessionByMAC(pMACs[name])
		switch {
		case g == nil && len(liveOfMAC) > 0:
			// which of the MAC's sessions is gone decides the root cause (see classify)
			kind := "reverse-missing/newest-removed"
			if r, ok := s.live[s.newest[name]]; ok && r.mac == name {
				kind = "reverse-missing/newest-live"
			}
			s.v(kind, "GetSessionByMAC", "MAC %s has live sessions %v but GetSessionByMAC returns nil", name, liveOfMAC)
		case g != nil:
			r, ok := s.live[g.ID]
			if !ok || r.sess != g {
				s.v("reverse-dangling", "GetSessionByMAC", "GetSessionByMAC(%s) returns session %d which is not live", name, g.ID)
			} else if r.mac != name {
				s.v("reverse", "GetSessionByMAC", "GetSessionByMAC(%s) returns session %d which belongs to %s", name, g.ID, r.mac)
			}
		}
	}
	return s.viols
}
