package c20

import (
	"context"
	"fmt"
	"net"
	"strings"
	"sync"
	"time"

	"github.com/codelaboratoryltd/bng/pkg/allocator"
	"github.com/codelaboratoryltd/bng/pkg/state"
	"github.com/codelaboratoryltd/bng/pkg/subscriber"
	"go.uber.org/zap"

	"verif/deepdump"
	"verif/explore"
)

// ---------------------------------------------------------------------------
// Part "index": primary map + by-MAC / by-IP secondary indexes under
// create / update (changing MAC or IP) / delete. The harness (the caller) never
// gives two live records the same MAC or IP: uniqueness of the INPUT is the
// caller's business, agreement of the indexes is the store's.
// ---------------------------------------------------------------------------

var (
	xMACs = []net.HardwareAddr{{2, 0, 0, 0, 1, 1}, {2, 0, 0, 0, 1, 2}, {2, 0, 0, 0, 1, 3}}
	xIPs  = []net.IP{net.IPv4(10, 1, 0, 1).To4(), net.IPv4(10, 1, 0, 2).To4(), net.IPv4(10, 1, 0, 3).To4()}
	xEnts = []string{"olt-1/0/3:100 a.b", "3:100 a.b", "olt-1/0"} // structured ids: see C12 subIDs (no ( ) , in ids)
)

// macOf / ipOf: index -1 means "key not set" (nil MAC / nil IP / empty NTE id).
func macOf(m int) net.HardwareAddr {
	if m < 0 {
		return nil
	}
	return xMACs[m]
}
func ipOf(i int) net.IP {
	if i < 0 {
		return nil
	}
	return xIPs[i]
}

// adapter: one real indexed store.
type adapter interface {
	hasMAC() bool
	canUpdateMAC() bool
	canClear() bool // records may be created with / updated to an UNSET key (index -1)
	create(e string, mac, ip int) error
	update(e string, mac, ip int) error // replace the record of e by one with these keys
	remove(e string) error
	primary(e string) (mac, ip int, ok bool) // what the primary record of e says (-1 = no such key)
	byMAC(mac int) (e string, state string)  // state: "none" | "ok" | "dangling" (index entry without a primary record)
	byIP(ip int) (e string, state string)
	dump() string
}

func macIdx(m net.HardwareAddr) int {
	for i, x := range xMACs {
		if x.String() == m.String() {
			return i
		}
	}
	return -1
}
func ipIdx(p net.IP) int {
	for i, x := range xIPs {
		if p != nil && x.Equal(p) {
			return i
		}
	}
	return -1
}

type idxSys struct {
	ents  []string
	a     adapter
	name  string
	last  string // name of the last operation (site prefix of the state invariants)
	viols []explore.Viol
	bk    sync.Mutex // harness bookkeeping only (free-running -race pass)
}

func (s *idxSys) v(kind, site, f string, a ...any) {
	s.bk.Lock()
	defer s.bk.Unlock()
	s.viols = append(s.viols, explore.Viol{Kind: kind, Site: site, Detail: fmt.Sprintf(f, a...)})
}

func (s *idxSys) usedKeys() (macs, ips map[int]string) {
	macs, ips = map[int]string{}, map[int]string{}
	for _, e := range s.ents {
		if m, i, ok := s.a.primary(e); ok {
			if m >= 0 {
				macs[m] = e
			}
			if i >= 0 {
				ips[i] = e
			}
		}
	}
	return
}

func (s *idxSys) Ops() []string {
	var ops []string
	macs, ips := s.usedKeys()
	nm := len(xMACs)
	if !s.a.hasMAC() {
		nm = 1
	}
	for _, e := range s.ents {
		cm, ci, live := s.a.primary(e)
		if !live {
			for m := 0; m < nm; m++ {
				for i := range xIPs {
					if _, u := macs[m]; u && s.a.hasMAC() {
						continue
					}
					if _, u := ips[i]; u {
						continue
					}
					ops = append(ops, fmt.Sprintf("Create(%s,%d,%d)", e, m, i))
				}
			}
			if s.a.canClear() { // records created with one key unset
				for i := range xIPs {
					if _, u := ips[i]; !u {
						ops = append(ops, fmt.Sprintf("Create(%s,-1,%d)", e, i))
						break
					}
				}
				for m := 0; m < nm; m++ {
					if _, u := macs[m]; !u {
						ops = append(ops, fmt.Sprintf("Create(%s,%d,-1)", e, m))
						break
					}
				}
			}
			continue
		}
		ops = append(ops, "Delete("+e+")")
		for i := range xIPs { // change the IP
			if _, u := ips[i]; !u {
				ops = append(ops, fmt.Sprintf("Update(%s,%d,%d)", e, cm, i))
			}
		}
		if s.a.hasMAC() && s.a.canUpdateMAC() {
			for m := range xMACs { // change the MAC
				if _, u := macs[m]; !u {
					ops = append(ops, fmt.Sprintf("Update(%s,%d,%d)", e, m, ci))
				}
			}
		}
		ops = append(ops, fmt.Sprintf("Update(%s,%d,%d)", e, cm, ci)) // unchanged keys
		if s.a.canClear() { // update that CLEARS a key
			if ci >= 0 {
				ops = append(ops, fmt.Sprintf("Update(%s,%d,-1)", e, cm))
			}
			if cm >= 0 {
				ops = append(ops, fmt.Sprintf("Update(%s,-1,%d)", e, ci))
			}
		}
	}
	return ops
}

func (s *idxSys) Apply(op string) string {
	name, args := argsOf(op)
	s.bk.Lock()
	s.last = name
	s.bk.Unlock()
	var m, i int
	if len(args) == 3 {
		fmt.Sscan(args[1], &m)
		fmt.Sscan(args[2], &i)
	}
	var err error
	switch name {
	case "Create":
		err = s.a.create(args[0], m, i)
	case "Update":
		err = s.a.update(args[0], m, i)
	case "Delete":
		err = s.a.remove(args[0])
	default:
		panic("unknown op " + op)
	}
	if err != nil {
		// every offered operation uses keys no other live record holds: it must be accepted
		s.v("reusable", name, "%s was refused although its keys identify no other live record: %v", op, err)
		return "err"
	}
	switch name {
	case "Create", "Update":
		gm, gi, ok := s.a.primary(args[0])
		if !ok || gi != i || (s.a.hasMAC() && gm != m) {
			s.v("forward", name, "after %s the primary record of %s says mac=%d ip=%d (present=%v)", op, args[0], gm, gi, ok)
		}
	case "Delete":
		if _, _, ok := s.a.primary(args[0]); ok {
			s.v("release", name, "after %s the primary record is still there", op)
		}
	}
	return "ok"
}

func (s *idxSys) Fingerprint() string { return s.a.dump() }

func (s *idxSys) Check() []explore.Viol {
	macs, ips := s.usedKeys()
	// forward -> reverse: a live record's keys lead back to it
	for _, e := range s.ents {
		m, i, ok := s.a.primary(e)
		if !ok {
			continue
		}
		if s.a.hasMAC() && m >= 0 {
			if g, st := s.a.byMAC(m); st != "ok" || g != e {
				s.v("reverse-missing", s.last+"/byMAC", "%s has MAC #%d but the by-MAC lookup of it gives %q (%s)", e, m, g, st)
			}
		}
		if i >= 0 {
			if g, st := s.a.byIP(i); st != "ok" || g != e {
				s.v("reverse-missing", s.last+"/byIP", "%s has IP #%d but the by-IP lookup of it gives %q (%s)", e, i, g, st)
			}
		}
	}
	// reverse -> forward: every index answer is a live record that has that key
	if s.a.hasMAC() {
		for m := range xMACs {
			g, st := s.a.byMAC(m)
			switch {
			case st == "dangling":
				s.v("reverse-dangling", s.last+"/byMAC", "by-MAC lookup of #%d finds an index entry without a live record (%q)", m, g)
			case st == "ok" && macs[m] != g:
				s.v("reverse-stale", s.last+"/byMAC", "by-MAC lookup of #%d returns %s whose record does not have that MAC (holder: %q)", m, g, macs[m])
			}
		}
	}
	for i := range xIPs {
		g, st := s.a.byIP(i)
		switch {
		case st == "dangling":
			s.v("reverse-dangling", s.last+"/byIP", "by-IP lookup of #%d finds an index entry without a live record (%q)", i, g)
		case st == "ok" && ips[i] != g:
			s.v("reverse-stale", s.last+"/byIP", "by-IP lookup of #%d returns %s whose record does not have that IP (holder: %q)", i, g, ips[i])
		}
	}
	return s.viols
}

// ----- state.Store sessions ---------------------------------------------------

func newStateStore() *state.Store { return state.NewStore(state.DefaultConfig(), zap.NewNop()) }

type stSessions struct{ s *state.Store }

func (a *stSessions) hasMAC() bool       { return true }
func (a *stSessions) canUpdateMAC() bool { return true }
func (a *stSessions) canClear() bool     { return true }
func (a *stSessions) create(e string, m, i int) error {
	return a.s.CreateSession(&state.Session{ID: e, MAC: macOf(m), IPv4: ipOf(i)})
}
func (a *stSessions) update(e string, m, i int) error {
	return a.s.UpdateSession(&state.Session{ID: e, MAC: macOf(m), IPv4: ipOf(i)})
}
func (a *stSessions) remove(e string) error { return a.s.DeleteSession(e) }
func (a *stSessions) primary(e string) (int, int, bool) {
	x, err := a.s.GetSession(e)
	if err != nil || x == nil {
		return -1, -1, false
	}
	return macIdx(x.MAC), ipIdx(x.IPv4), true
}
func (a *stSessions) byMAC(m int) (string, string) {
	x, err := a.s.GetSessionByMAC(xMACs[m])
	if err != nil {
		return "", "none"
	}
	if x == nil {
		return "", "dangling"
	}
	return x.ID, "ok"
}
func (a *stSessions) byIP(i int) (string, string) {
	x, err := a.s.GetSessionByIP(xIPs[i])
	if err != nil {
		return "", "none"
	}
	if x == nil {
		return "", "dangling"
	}
	return x.ID, "ok"
}
func (a *stSessions) dump() string {
	return deepdump.Dump(a.s, deepdump.Options{IgnoreTimes: true, SkipTypes: map[string]bool{"state.StoreStats": true, "state.Config": true}})
}

// ----- state.Store leases -----------------------------------------------------

type stLeases struct{ s *state.Store }

func (a *stLeases) hasMAC() bool       { return true }
func (a *stLeases) canUpdateMAC() bool { return true }
func (a *stLeases) canClear() bool     { return true }
func (a *stLeases) create(e string, m, i int) error {
	return a.s.CreateLease(&state.Lease{ID: e, MAC: macOf(m), IPv4: ipOf(i)})
}
func (a *stLeases) update(e string, m, i int) error {
	return a.s.UpdateLease(&state.Lease{ID: e, MAC: macOf(m), IPv4: ipOf(i)})
}
func (a *stLeases) remove(e string) error { return a.s.DeleteLease(e) }
func (a *stLeases) primary(e string) (int, int, bool) {
	x, err := a.s.GetLease(e)
	if err != nil || x == nil {
		return -1, -1, false
	}
	return macIdx(x.MAC), ipIdx(x.IPv4), true
}
func (a *stLeases) byMAC(m int) (string, string) {
	x, err := a.s.GetLeaseByMAC(xMACs[m])
	if err != nil {
		return "", "none"
	}
	if x == nil {
		return "", "dangling"
	}
	return x.ID, "ok"
}
func (a *stLeases) byIP(i int) (string, string) {
	x, err := a.s.GetLeaseByIP(xIPs[i])
	if err != nil {
		return "", "none"
	}
	if x == nil {
		return "", "dangling"
	}
	return x.ID, "ok"
}
func (a *stLeases) dump() string { return (&stSessions{a.s}).dump() }

// ----- state.Store subscribers (by-MAC only; "IP" slot is the NTE id index) ------

type stSubs struct{ s *state.Store }

func nteName(i int) string {
	if i < 0 {
		return ""
	}
	return fmt.Sprintf("nte%d", i)
}

func (a *stSubs) hasMAC() bool       { return true }
func (a *stSubs) canUpdateMAC() bool { return true }
func (a *stSubs) canClear() bool     { return true }
func (a *stSubs) create(e string, m, i int) error {
	return a.s.CreateSubscriber(&state.Subscriber{ID: e, MAC: macOf(m), NTEID: nteName(i)})
}
func (a *stSubs) update(e string, m, i int) error {
	return a.s.UpdateSubscriber(&state.Subscriber{ID: e, MAC: macOf(m), NTEID: nteName(i)})
}
func (a *stSubs) remove(e string) error { return a.s.DeleteSubscriber(e) }
func (a *stSubs) primary(e string) (int, int, bool) {
	x, err := a.s.GetSubscriber(e)
	if err != nil || x == nil {
		return -1, -1, false
	}
	n := -1
	fmt.Sscanf(x.NTEID, "nte%d", &n)
	return macIdx(x.MAC), n, true
}
func (a *stSubs) byMAC(m int) (string, string) {
	x, err := a.s.GetSubscriberByMAC(xMACs[m])
	if err != nil {
		return "", "none"
	}
	if x == nil {
		return "", "dangling"
	}
	return x.ID, "ok"
}
func (a *stSubs) byIP(i int) (string, string) {
	x, err := a.s.GetSubscriberByNTE(nteName(i))
	if err != nil {
		return "", "none"
	}
	if x == nil {
		return "", "dangling"
	}
	return x.ID, "ok"
}
func (a *stSubs) dump() string { return (&stSessions{a.s}).dump() }

// ----- subscriber.Manager -----------------------------------------------------

type fakeAlloc struct{ next net.IP }

func (f *fakeAlloc) AllocateIPv4(ctx context.Context, s *subscriber.Session, pool string) (net.IP, net.IPMask, net.IP, error) {
	return f.next, net.CIDRMask(24, 32), net.IPv4(10, 1, 0, 254).To4(), nil
}
func (f *fakeAlloc) AllocateIPv6(ctx context.Context, s *subscriber.Session, pool string) (net.IP, *net.IPNet, error) {
	return nil, nil, fmt.Errorf("no v6")
}
func (f *fakeAlloc) ReleaseIPv4(ctx context.Context, ip net.IP) error { return nil }
func (f *fakeAlloc) ReleaseIPv6(ctx context.Context, ip net.IP) error { return nil }

type subMgr struct {
	m   *subscriber.Manager
	fa  *fakeAlloc
	ids map[string]string // entity -> session id (uuid chosen by the manager)
}

func newSubMgr() *subMgr {
	fa := &fakeAlloc{}
	m := subscriber.NewManager(subscriber.ManagerConfig{MaxSessions: 100}, nil, fa, zap.NewNop())
	return &subMgr{m: m, fa: fa, ids: map[string]string{}}
}

func (a *subMgr) hasMAC() bool       { return true }
func (a *subMgr) canUpdateMAC() bool { return false }
func (a *subMgr) canClear() bool     { return false } // a session's MAC cannot be changed through the API
func (a *subMgr) ent(id string) string {
	for e, x := range a.ids {
		if x == id {
			return e
		}
	}
	return "?" + id
}
func (a *subMgr) create(e string, m, i int) error {
	s, err := a.m.CreateSession(context.Background(), &subscriber.SessionRequest{MAC: xMACs[m], Type: subscriber.SessionTypeIPoE})
	if err != nil {
		return err
	}
	a.ids[e] = s.ID
	a.fa.next = xIPs[i]
	return a.m.AssignAddress(context.Background(), s.ID, "pool", "")
}
func (a *subMgr) update(e string, m, i int) error {
	a.fa.next = xIPs[i] // the address allocator hands out another address for the session (e.g. pool change)
	return a.m.AssignAddress(context.Background(), a.ids[e], "pool", "")
}
func (a *subMgr) remove(e string) error {
	err := a.m.TerminateSession(context.Background(), a.ids[e], subscriber.TerminateAdminReset)
	delete(a.ids, e)
	return err
}
func (a *subMgr) primary(e string) (int, int, bool) {
	id, ok := a.ids[e]
	if !ok {
		return -1, -1, false
	}
	x, ok := a.m.GetSession(id)
	if !ok || x == nil {
		return -1, -1, false
	}
	return macIdx(x.MAC), ipIdx(x.IPv4), true
}
func (a *subMgr) byMAC(m int) (string, string) {
	x, ok := a.m.GetSessionByMAC(xMACs[m])
	if !ok {
		return "", "none"
	}
	if x == nil {
		return "", "dangling"
	}
	return a.ent(x.ID), "ok"
}
func (a *subMgr) byIP(i int) (string, string) {
	x, ok := a.m.GetSessionByIP(xIPs[i])
	if !ok {
		return "", "none"
	}
	if x == nil {
		return "", "dangling"
	}
	return a.ent(x.ID), "ok"
}
func (a *subMgr) dump() string {
	d := deepdump.Dump(a.m, deepdump.Options{IgnoreTimes: true, SkipTypes: map[string]bool{"subscriber.ManagerStats": true, "subscriber.ManagerConfig": true, "c20.fakeAlloc": true}})
	for e, id := range a.ids { // session ids are random UUIDs: name them by entity
		d = strings.ReplaceAll(d, id, e)
	}
	return d
}

// ----- allocator.MemoryAllocationStore (by-IP only) ----------------------------

type memStore struct {
	s *allocator.MemoryAllocationStore
}

func (a *memStore) hasMAC() bool       { return false }
func (a *memStore) canUpdateMAC() bool { return false }
func (a *memStore) canClear() bool     { return false }
func (a *memStore) rec(e string, i int) allocator.AllocationRecord {
	return allocator.AllocationRecord{SubscriberID: e, PoolID: "p", Prefix: &net.IPNet{IP: xIPs[i], Mask: net.CIDRMask(32, 32)}}
}
func (a *memStore) create(e string, m, i int) error {
	return a.s.SaveAllocation(context.Background(), a.rec(e, i))
}
func (a *memStore) update(e string, m, i int) error {
	return a.s.SaveAllocation(context.Background(), a.rec(e, i))
}
func (a *memStore) remove(e string) error { return a.s.RemoveAllocation(context.Background(), "p", e) }
func (a *memStore) primary(e string) (int, int, bool) {
	rs, _ := a.s.GetBySubscriber(context.Background(), e)
	ps, _ := a.s.GetByPool(context.Background(), "p")
	var inPool *allocator.AllocationRecord
	for k := range ps {
		if ps[k].SubscriberID == e {
			inPool = &ps[k]
		}
	}
	if len(rs) == 0 && inPool == nil {
		return -1, -1, false
	}
	if len(rs) != 1 || inPool == nil || rs[0].Prefix.String() != inPool.Prefix.String() {
		return -1, -2, true // the two primary indexes disagree: reported as forward mismatch by Apply
	}
	return -1, ipIdx(rs[0].Prefix.IP), true
}
func (a *memStore) byMAC(int) (string, string) { return "", "none" }
func (a *memStore) byIP(i int) (string, string) {
	r, err := a.s.GetByIP(context.Background(), xIPs[i])
	if err != nil {
		return "", "none"
	}
	if r == nil {
		return "", "dangling"
	}
	return r.SubscriberID, "ok"
}
func (a *memStore) dump() string { return deepdump.Dump(a.s, deepdump.Options{IgnoreTimes: true}) }

func idxModels(depth, nEnts int) []*explore.Model {
	mk := func(cfg string, f func() adapter) *explore.Model {
		// the Config string stays the adapter name (classify and replay key on it); the record count is in the bound
		return &explore.Model{Name: "index", Config: cfg, New: func() explore.System { return &idxSys{a: f(), name: cfg, ents: xEnts[:nEnts]} },
			Depth: depth, Classify: classify, Budget: 5 * time.Minute}
	}
	return []*explore.Model{
		mk("state.Store sessions", func() adapter { return &stSessions{newStateStore()} }),
		mk("state.Store leases", func() adapter { return &stLeases{newStateStore()} }),
		mk("state.Store subscribers (MAC, NTE)", func() adapter { return &stSubs{newStateStore()} }),
		mk("subscriber.Manager", func() adapter { return newSubMgr() }),
		mk("allocator.MemoryAllocationStore", func() adapter { return &memStore{allocator.NewMemoryAllocationStore()} }),
	}
}
