package c20

import (
	"context"
	"errors"
	"fmt"
	"net"
	"strings"
	"sync"

	"github.com/codelaboratoryltd/bng/pkg/subscriber"
	"go.uber.org/zap"

	"verif/deepdump"
	"verif/explore"
	"verif/sched"
)

// ---------------------------------------------------------------------------
// Part "submgr": subscriber.Manager with dual-stack sessions and a faulty address
// backend. Keys: client MAC, IPv4 address, IPv6 address -> session.
//   Create(e)            CreateSession for entity e (its own MAC)
//   Assign(e,<v4>,<v6>)  AssignAddress; each family is "-" (no pool asked), an address
//                        index (the backend hands out that address; never one another live
//                        session holds) or "F" (the backend fails for that family)
//   Terminate(e)
// Oracle after every operation: every key of a live session leads back to it; every
// by-MAC / by-IP answer is a live session that has that key; no index entry without a
// session (a released key is free again).
// ---------------------------------------------------------------------------

var (
	dV4 = []net.IP{net.IPv4(10, 2, 0, 1).To4(), net.IPv4(10, 2, 0, 2).To4()}
	dV6 = []net.IP{net.ParseIP("2001:db8::1"), net.ParseIP("2001:db8::2")}
)

// dsAlloc is the address backend. What it hands out is planned per session by the harness
// (plan[sessionID]); it keeps its own books: an address is refused while another session still
// holds it and becomes available again when the manager RELEASES it. Under Engine B every
// backend call is a scheduling point (the real backend is a slow network round trip).
type dsPlan struct {
	v4, v6       net.IP
	v4err, v6err bool
}

type dsAlloc struct {
	mu   sync.Mutex
	plan map[string]dsPlan
	held map[string]string // address -> session id
}

var errBackend = errors.New("address backend unavailable")

func spt(label string) {
	if x := sched.Active(); x != nil && !x.Aborted() {
		x.Point(label)
	}
}

func (f *dsAlloc) take(ip net.IP, id string) error {
	f.mu.Lock()
	defer f.mu.Unlock()
	if o, used := f.held[ip.String()]; used && o != id {
		return fmt.Errorf("%s is still allocated to another session", ip)
	}
	for a, o := range f.held { // a session holds one address per family: handing out another frees the old one
		if o == id && (net.ParseIP(a).To4() != nil) == (ip.To4() != nil) && a != ip.String() {
			delete(f.held, a)
		}
	}
	f.held[ip.String()] = id
	return nil
}

func (f *dsAlloc) planOf(id string) dsPlan { f.mu.Lock(); defer f.mu.Unlock(); return f.plan[id] }

func (f *dsAlloc) AllocateIPv4(ctx context.Context, s *subscriber.Session, pool string) (net.IP, net.IPMask, net.IP, error) {
	spt("backend.AllocateIPv4")
	p := f.planOf(s.ID)
	if p.v4err {
		return nil, nil, nil, errBackend
	}
	if err := f.take(p.v4, s.ID); err != nil {
		return nil, nil, nil, err
	}
	return p.v4, net.CIDRMask(24, 32), net.IPv4(10, 2, 0, 254).To4(), nil
}
func (f *dsAlloc) AllocateIPv6(ctx context.Context, s *subscriber.Session, pool string) (net.IP, *net.IPNet, error) {
	spt("backend.AllocateIPv6")
	p := f.planOf(s.ID)
	if p.v6err {
		return nil, nil, errBackend
	}
	if err := f.take(p.v6, s.ID); err != nil {
		return nil, nil, err
	}
	return p.v6, &net.IPNet{IP: p.v6, Mask: net.CIDRMask(128, 128)}, nil
}
func (f *dsAlloc) release(ip net.IP) error {
	f.mu.Lock()
	delete(f.held, ip.String())
	f.mu.Unlock()
	return nil
}
func (f *dsAlloc) ReleaseIPv4(ctx context.Context, ip net.IP) error {
	spt("backend.ReleaseIPv4")
	defer spt("backend.ReleaseIPv4/return")
	return f.release(ip)
}
func (f *dsAlloc) ReleaseIPv6(ctx context.Context, ip net.IP) error {
	spt("backend.ReleaseIPv6")
	defer spt("backend.ReleaseIPv6/return")
	return f.release(ip)
}

type dsSys struct {
	// conc (Engine B): no per-operation acceptance checks (another thread may legitimately hold the key
	// at that moment); only the end-state Check applies.
	conc  bool
	m     *subscriber.Manager
	fa    *dsAlloc
	ents  []string
	ids   map[string]string // entity -> session id
	macOf map[string]int    // entity -> index of the MAC it connected with
	bk    sync.Mutex
	last  string
	viols []explore.Viol
}

func newDsSys(n int) *dsSys {
	fa := &dsAlloc{plan: map[string]dsPlan{}, held: map[string]string{}}
	return &dsSys{m: subscriber.NewManager(subscriber.ManagerConfig{MaxSessions: 100}, nil, fa, zap.NewNop()), fa: fa, ents: xEnts[:n], ids: map[string]string{}, macOf: map[string]int{}}
}

func (s *dsSys) v(kind, site, f string, a ...any) {
	s.bk.Lock()
	s.viols = append(s.viols, explore.Viol{Kind: kind, Site: site, Detail: fmt.Sprintf(f, a...)})
	s.bk.Unlock()
}

func (s *dsSys) sess(e string) *subscriber.Session {
	s.bk.Lock()
	id, ok := s.ids[e]
	s.bk.Unlock()
	if !ok {
		return nil
	}
	x, ok := s.m.GetSession(id)
	if !ok {
		return nil
	}
	return x
}

func (s *dsSys) held() map[string]string { // address -> entity holding it (per the primary records)
	h := map[string]string{}
	for _, e := range s.ents {
		if x := s.sess(e); x != nil {
			if x.IPv4 != nil {
				h[x.IPv4.String()] = e
			}
			if x.IPv6 != nil {
				h[x.IPv6.String()] = e
			}
		}
	}
	return h
}

func (s *dsSys) Ops() []string {
	var ops []string
	h := s.held()
	for _, e := range s.ents {
		if s.sess(e) == nil {
			ops = append(ops, "Create("+e+")")
			continue
		}
		ops = append(ops, "Terminate("+e+")")
		choices := func(univ []net.IP) []string {
			c := []string{"-", "F"}
			for i, ip := range univ {
				if o, used := h[ip.String()]; !used || o == e {
					c = append(c, fmt.Sprint(i))
				}
			}
			return c
		}
		for _, a := range choices(dV4) {
			for _, b := range choices(dV6) {
				if a == "-" && b == "-" {
					continue
				}
				ops = append(ops, fmt.Sprintf("Assign(%s,%s,%s)", e, a, b))
			}
		}
	}
	return ops
}

func (s *dsSys) Apply(op string) string {
	name, args := argsOf(op)
	s.bk.Lock()
	s.last = name
	s.bk.Unlock()
	ctx := context.Background()
	e := args[0]
	switch name {
	case "Create", "CreateM": // CreateM(e,k): entity e connects with MAC #k (e.g. the MAC of a session being torn down)
		mi := 0
		for i, x := range s.ents {
			if x == e {
				mi = i
			}
		}
		if name == "CreateM" {
			fmt.Sscan(args[1], &mi)
		}
		x, err := s.m.CreateSession(ctx, &subscriber.SessionRequest{MAC: xMACs[mi], Type: subscriber.SessionTypeIPoE})
		if err != nil {
			if !s.conc {
				s.v("reusable", name, "%s refused although the MAC identifies no live session: %v", op, err)
			}
			return "err"
		}
		s.bk.Lock()
		s.ids[e] = x.ID
		s.macOf[e] = mi
		s.bk.Unlock()
		return "ok"
	case "Assign":
		var pl dsPlan
		p4, p6 := "", ""
		set := func(arg string, univ []net.IP, ip *net.IP, fail *bool, pool *string) {
			switch arg {
			case "-":
			case "F":
				*fail, *pool = true, "pool"
			default:
				var i int
				fmt.Sscan(arg, &i)
				*ip, *pool = univ[i], "pool"
			}
		}
		set(args[1], dV4, &pl.v4, &pl.v4err, &p4)
		set(args[2], dV6, &pl.v6, &pl.v6err, &p6)
		s.bk.Lock()
		id := s.ids[e]
		s.bk.Unlock()
		s.fa.mu.Lock()
		s.fa.plan[id] = pl
		s.fa.mu.Unlock()
		if err := s.m.AssignAddress(ctx, id, p4, p6); err != nil {
			return "err"
		}
		return "ok"
	case "Terminate":
		s.bk.Lock()
		id := s.ids[e]
		s.bk.Unlock()
		err := s.m.TerminateSession(ctx, id, subscriber.TerminateAdminReset)
		s.bk.Lock()
		if s.ids[e] == id {
			delete(s.ids, e)
		}
		s.bk.Unlock()
		if err != nil {
			return "err"
		}
		return "ok"
	}
	panic("unknown op " + op)
}

func (s *dsSys) Fingerprint() string {
	s.fa.mu.Lock()
	held := fmt.Sprint(s.fa.held)
	s.fa.mu.Unlock()
	d := deepdump.Dump(s.m, deepdump.Options{IgnoreTimes: true, SkipTypes: map[string]bool{"subscriber.ManagerStats": true, "subscriber.ManagerConfig": true, "c20.dsAlloc": true}}) + held
	for e, id := range s.ids {
		d = strings.ReplaceAll(d, id, e)
	}
	return d
}

func (s *dsSys) entOf(id string) string {
	for e, x := range s.ids {
		if x == id {
			return e
		}
	}
	return "?" + id
}

func (s *dsSys) Check() []explore.Viol {
	site := func(ix string) string { return s.last + "/" + ix }
	// forward -> reverse
	macHolders := map[int][]string{}
	for _, e := range s.ents {
		x := s.sess(e)
		if x == nil {
			continue
		}
		i := s.macOf[e]
		macHolders[i] = append(macHolders[i], e)
		if g, ok := s.m.GetSessionByMAC(xMACs[i]); !ok || g != x {
			s.v("reverse-missing", site("byMAC"), "%s is live with MAC %s but the by-MAC lookup gives %v (found=%v)", e, xMACs[i], g, ok)
		}
		for fam, ip := range map[string]net.IP{"IPv4": x.IPv4, "IPv6": x.IPv6} {
			if ip == nil {
				continue
			}
			if g, ok := s.m.GetSessionByIP(ip); !ok || g != x {
				s.v("reverse-missing", site("byIP"), "%s has %s %s but the by-IP lookup of it gives %v (found=%v)", e, fam, ip, g, ok)
			}
		}
	}
	for i, hs := range macHolders {
		if len(hs) > 1 {
			s.v("unique", site("byMAC"), "MAC %s identifies %d live sessions: %v", xMACs[i], len(hs), hs)
		}
	}
	// reverse -> forward
	for _, ip := range append(append([]net.IP{}, dV4...), dV6...) {
		g, ok := s.m.GetSessionByIP(ip)
		switch {
		case !ok:
		case g == nil:
			s.v("reverse-dangling", site("byIP"), "by-IP lookup of %s finds an index entry without a session", ip)
		default:
			live, _ := s.m.GetSession(g.ID)
			if live != g {
				s.v("reverse-dangling", site("byIP"), "by-IP lookup of %s returns session of %s which is not live", ip, s.entOf(g.ID))
			} else if !(g.IPv4 != nil && g.IPv4.Equal(ip)) && !(g.IPv6 != nil && g.IPv6.Equal(ip)) {
				s.v("reverse-stale", site("byIP"), "by-IP lookup of %s returns the session of %s whose addresses are %v / %v", ip, s.entOf(g.ID), g.IPv4, g.IPv6)
			}
		}
	}
	for i := range xMACs {
		g, ok := s.m.GetSessionByMAC(xMACs[i])
		switch {
		case !ok:
		case g == nil:
			s.v("reverse-dangling", site("byMAC"), "by-MAC lookup of %s finds an index entry without a session", xMACs[i])
		default:
			if live, _ := s.m.GetSession(g.ID); live != g || g.MAC.String() != xMACs[i].String() {
				s.v("reverse-stale", site("byMAC"), "by-MAC lookup of %s returns a session that is not live or has MAC %s", xMACs[i], g.MAC)
			}
		}
	}
	return s.viols
}
