// C20 — Subscriber-identifying keys map to at most one subscriber.
//
// Engine A (verif/explore) on the real objects, one part per key space:
//
//	vlan     nexus.VLANAllocator   (S 100-101 x C 10-11): Allocate, AllocateWithSTag incl. out of range, Release, LoadFromStore incl. conflicting lists
//	qinq     qinq.Mapper           Register / Unregister / UnregisterSubscriber
//	pppoe    pppoe.SessionManager  Create / Remove / Touch / Sleep / CleanupExpired, two sessions per MAC, id counter preset to 65534 (wrap)
//	index    state.Store (sessions, leases, subscribers), subscriber.Manager, allocator.MemoryAllocationStore: create / update(changing MAC or IP) / delete
//	sched:*  Engine B (verif/sched): 2-3 threads on colliding keys of the four lock-protected tables above, every mutex
//	         operation a scheduling point, all schedules with <= 2 (thorough 3) preemptions, same oracle at the end
//	submgr   subscriber.Manager with dual-stack sessions (MAC, IPv4, IPv6 keys) and an address backend that can fail per family
//	memstore allocator.MemoryAllocationStore with two pools and prefixes sharing a base address (reverse index keyed by base address)
//	circuit  ebpf.MakeCircuitIDKey / HashCircuitID over a bounded-exhaustive family of circuit-ids (Engine D)
//
// Oracle after every operation: each key in use identifies at most one subscriber;
// allocated VLAN pairs lie in the configured ranges; forward and reverse lookups
// agree in both directions; a released key is obtainable again (probe) and no
// other mapping changed.
package c20

import (
	"fmt"
	"os"
	"strings"
	"testing"
	"time"

	"verif/explore"
	"verif/report"
)

func models(run *report.Run) []*explore.Model {
	t := run.Thorough()
	pick := func(q, th int) int {
		if t {
			return th
		}
		return q
	}
	ntes := pick(4, 4)
	ms := []*explore.Model{
		{Name: "vlan", Config: fmt.Sprintf("S100-101 C10-11 ntes=%d", ntes), New: func() explore.System { return newVlanSys(ntes) },
			Depth: pick(5, 7), NoDedupDepth: pick(3, 3), Classify: classify, Budget: 8 * time.Minute},
		{Name: "qinq", Config: "6 pairs x 3 subscribers", New: func() explore.System { return newQinqSys() },
			Depth: pick(5, 8), NoDedupDepth: pick(2, 3), Classify: classify, Budget: 5 * time.Minute},
		{Name: "pppoe", Config: "start=1 macs=A,B creates<=4", New: func() explore.System { return newPppoeSys(1, 4) },
			Depth: pick(6, 9), Exec: bubble, Classify: classify, Budget: 5 * time.Minute},
		{Name: "pppoe", Config: "start=65534 macs=A,B creates<=4", New: func() explore.System { return newPppoeSys(65534, 4) },
			Depth: pick(6, 9), Exec: bubble, Classify: classify, Budget: 5 * time.Minute},
	}
	// low ids 1,2 are created first and may still be alive when the counter (then preset to 65535) wraps
	ms = append(ms, &explore.Model{Name: "pppoe", Config: "wrap: ids 1,2 first then counter=65535, macs=A,B creates<=5", New: func() explore.System { return newPppoeWrapSys(2, 65535, 5) },
		Depth: pick(6, 9), Exec: bubble, Classify: classify, Budget: 5 * time.Minute})
	ms = append(ms, &explore.Model{Name: "submgr", Config: "dual-stack, faulty backend", New: func() explore.System { return newDsSys(2) },
		Depth: pick(4, 6), Classify: classify, Budget: 5 * time.Minute})
	ms = append(ms, &explore.Model{Name: "memstore", Config: "2 pools x 2 subscribers x 4 prefixes (a /56 and a /64 share a base address)", New: func() explore.System { return newMpSys() },
		Depth: pick(4, 6), Classify: classify, Budget: 5 * time.Minute})
	ms = append(ms, idxModels(pick(5, 8), pick(2, 3))...)
	return ms
}

func TestCheck(t *testing.T) {
	theT = t
	run := report.New("C20", "model_checking")
	run.Rule = "BFS over allocate/allocate-with-outer-tag/release/load, register/unregister, session create/remove/cleanup and record create/update/delete histories on the real VLANAllocator, qinq.Mapper, pppoe.SessionManager, state.Store, subscriber.Manager, MemoryAllocationStore; after every operation: uniqueness, ranges, forward/reverse agreement, frame, probe for reusability. Circuit-id keys: every pair of a bounded-exhaustive family of circuit-ids (lengths 0..66) must have different keys"
	run.Assumptions = []string{
		"index part: the caller never gives two live records the same MAC or IP (input uniqueness is the caller's, index agreement the store's)",
		"pppoe: time is virtual (synctest); session ids near 65535 are reached by presetting the counter through an add-only seam",
		"circuit-id keys are checked at the key-derivation functions (MakeCircuitIDKey/HashCircuitID), not through loaded eBPF maps",
	}
	ms := models(run)
	if *report.FlagReplay != "" {
		os.Exit(replay(run, ms))
	}
	for _, m := range ms {
		if run.WantPart(m.Name) {
			m.Run(run)
		}
	}
	if run.WantPart("circuit") {
		runCircuit(run)
	}
	runSched(run) // Engine B: interleavings on colliding keys (sched_test.go)
	os.Exit(run.Finish())
}

func replay(run *report.Run, ms []*explore.Model) int {
	v, err := report.LoadReplay(*report.FlagReplay)
	if err != nil {
		fmt.Println("HARNESS-ERROR", err)
		return 2
	}
	if v.Part == "circuit" {
		return replayCircuit(v)
	}
	if strings.HasPrefix(v.Part, "sched:") {
		return replaySched(v)
	}
	name := v.Part
	if i := strings.Index(name, "["); i >= 0 {
		name = name[:i]
	}
	for pass := 0; pass < 2; pass++ {
		for _, m := range ms {
			exact := m.Name+"["+m.Config+"]" == v.Part
			// second pass: tier-dependent bounds in the config text; same family, same first word
			loose := pass == 1 && m.Name == name && strings.SplitN(m.Config, " ", 2)[0] == strings.SplitN(v.Config, " ", 2)[0]
			if !exact && !loose {
				continue
			}
			vs, p := m.Replay(v.Trace)
			if p != "" {
				fmt.Printf("VIOLATION property=C20 replay=%s\n  panic: %s\n", *report.FlagReplay, p)
				return 1
			}
			for _, x := range vs {
				fmt.Printf("VIOLATION property=C20 replay=%s\n  kind=%s site=%s detail=%s\n", *report.FlagReplay, x.Kind, x.Site, x.Detail)
			}
			if len(vs) > 0 {
				return 1
			}
			fmt.Println("replay: no violation")
			return 0
		}
	}
	fmt.Println("HARNESS-ERROR unknown part", v.Part)
	return 2
}

// classify assigns root-cause classes. Only classes listed with status "known" in
// /verif/findings.d/C20.json are suppressed; "fix:*" classes label defects repaired
// by a proposed patch and are still reported as VIOLATION.
func classify(v *report.Violation) {
	part := v.Part
	if i := strings.Index(part, "["); i >= 0 {
		part = part[:i]
	}
	last := ""
	if len(v.Trace) > 0 {
		last = v.Trace[len(v.Trace)-1]
	}
	switch {
	// K3: the MAC index of pppoe.SessionManager is single-valued (MAC -> one session id). A client may
	// open several sessions (one per PADR); the index follows the NEWEST. When the newest is removed
	// while an older one is still live there is nothing to fall back to: GetSessionByMAC returns nil.
	// Matched only for: lookup nil + the client's newest session is gone + the last op removed a session.
	case part == "pppoe" && v.Kind == "reverse-missing/newest-removed" && v.Site == "GetSessionByMAC" &&
		(strings.HasPrefix(last, "Remove(") || strings.HasPrefix(last, "Cleanup(")):
		v.Class = "C20-K3-pppoe-mac-index-single-valued"
	// labels (NOT known findings)
	case v.Part == "sched:submgr Terminate(e1)|Assign(e2,address of e1)" && v.Kind == "reverse-missing" && strings.HasSuffix(v.Site, "/byIP"):
		v.Class = "fix:C20-F10 TerminateSession deletes index entries that already belong to another session"
	case v.Part == "sched:submgr Terminate(e1)|Assign(e1,other address)" && v.Kind == "reverse-dangling" && strings.HasSuffix(v.Site, "/byIP"):
		v.Class = "fix:C20-F11 AssignAddress indexes an address for a session terminated meanwhile"
	case part == "vlan" && v.Site == "AllocateWithSTag" && v.Kind == "range" && strings.HasSuffix(last, ",99)"):
		v.Class = "fix:C20-F1 AllocateWithSTag accepts an S-TAG outside the range"
	case part == "vlan" && v.Site == "LoadFromStore" && (v.Kind == "unique" || v.Kind == "range" || v.Kind == "reverse"):
		v.Class = "fix:C20-F2 LoadFromStore installs stored pairs unchecked"
	case part == "index" && strings.Contains(v.Config, "MemoryAllocationStore") && v.Kind == "reverse-stale" && v.Site == "Update/byIP":
		v.Class = "fix:C20-F3 SaveAllocation keeps the old by-IP entry"
	case part == "pppoe" && v.Kind == "reverse-missing/newest-live":
		v.Class = "fix:C20-F4 removing an older session drops the MAC index of the newer"
	case part == "pppoe" && v.Kind == "id-zero":
		v.Class = "fix:C20-F5 session id 0 after wrap-around"
	case part == "index" && v.Config == "state.Store sessions" && strings.HasPrefix(v.Site, "Update/"):
		v.Class = "fix:C20-F6 UpdateSession does not maintain the indexes"
	case part == "index" && v.Config == "state.Store leases" && strings.HasPrefix(v.Site, "Update/"):
		v.Class = "fix:C20-F7 UpdateLease does not maintain the indexes"
	case part == "submgr" && v.Kind == "reverse-stale" && v.Site == "Assign/byIP" && strings.HasPrefix(last, "Assign(") &&
		(strings.HasSuffix(last, ",0)") || strings.HasSuffix(last, ",1)")):
		// the last operation re-assigned IPv6 SUCCESSFULLY to another address (a failing backend is a different defect)
		v.Class = "fix:C20-F9 AssignAddress keeps the old by-IP entry of a replaced IPv6 address"
	case part == "index" && v.Config == "subscriber.Manager" && v.Kind == "reverse-stale" && v.Site == "Update/byIP":
		v.Class = "fix:C20-F8 AssignAddress keeps the old by-IP entry"
	}
}
