package c20

import (
	"context"
	"fmt"
	"net"
	"sort"

	"github.com/codelaboratoryltd/bng/pkg/allocator"

	"verif/deepdump"
	"verif/explore"
)

// ---------------------------------------------------------------------------
// Part "memstore": allocator.MemoryAllocationStore with SEVERAL pools and prefixes that
// share a base address (a delegated /56 and the first /64 inside it): the reverse
// (by-address) index is keyed by the base address alone.
//   Save(pool,sub,k)   SaveAllocation of prefix #k for (pool, sub)
//   Remove(pool,sub)
// Oracle: the two primary indexes agree; every live record's base address leads (GetByIP)
// to a live record with that base; every GetByIP answer is a live record; a base address
// identifies at most one subscriber; a Save is refused only while its base address is held
// by another live record; removing one record disturbs no other mapping.
// ---------------------------------------------------------------------------

var (
	msPools2 = []string{"pd", "addr"}
	msPfx    = []string{"2001:db8:a00::/56", "2001:db8:a00::/64", "2001:db8:b00::/64", "10.3.0.1/32"}
)

type mpSys struct {
	s     *allocator.MemoryAllocationStore
	subs  []string
	last  string
	viols []explore.Viol
}

func newMpSys() *mpSys { return &mpSys{s: allocator.NewMemoryAllocationStore(), subs: xEnts[:2]} }

func (s *mpSys) v(kind, site, f string, a ...any) {
	s.viols = append(s.viols, explore.Viol{Kind: kind, Site: site, Detail: fmt.Sprintf(f, a...)})
}

func mpNet(k int) *net.IPNet { _, n, _ := net.ParseCIDR(msPfx[k]); return n }

type mpRec struct{ pool, sub, pfx, base string }

// live: the primary records (by pool), cross-checked with the by-subscriber index.
func (s *mpSys) live() []mpRec {
	ctx := context.Background()
	var out []mpRec
	for _, p := range msPools2 {
		rs, _ := s.s.GetByPool(ctx, p)
		for _, r := range rs {
			out = append(out, mpRec{p, r.SubscriberID, r.Prefix.String(), r.Prefix.IP.String()})
		}
	}
	sort.Slice(out, func(i, j int) bool { return fmt.Sprint(out[i]) < fmt.Sprint(out[j]) })
	var bySub []mpRec
	for _, sub := range s.subs {
		rs, _ := s.s.GetBySubscriber(ctx, sub)
		for _, r := range rs {
			bySub = append(bySub, mpRec{r.PoolID, sub, r.Prefix.String(), r.Prefix.IP.String()})
		}
	}
	sort.Slice(bySub, func(i, j int) bool { return fmt.Sprint(bySub[i]) < fmt.Sprint(bySub[j]) })
	if fmt.Sprint(out) != fmt.Sprint(bySub) {
		s.v("forward", s.last, "the by-pool index holds %v but the by-subscriber index holds %v", out, bySub)
	}
	return out
}

func (s *mpSys) Ops() []string {
	var ops []string
	for _, p := range msPools2 {
		for _, sub := range s.subs {
			for k := range msPfx {
				ops = append(ops, fmt.Sprintf("Save(%s,%s,%d)", p, sub, k))
			}
			ops = append(ops, fmt.Sprintf("Remove(%s,%s)", p, sub))
		}
	}
	return ops
}

func (s *mpSys) Apply(op string) string {
	name, args := argsOf(op)
	s.last = name
	ctx := context.Background()
	before := s.live()
	switch name {
	case "Save":
		var k int
		fmt.Sscan(args[2], &k)
		n := mpNet(k)
		err := s.s.SaveAllocation(ctx, allocator.AllocationRecord{SubscriberID: args[1], PoolID: args[0], Prefix: n})
		if err != nil {
			held := false
			for _, r := range before {
				if r.base == n.IP.String() && (r.sub != args[1] || r.pool != args[0]) {
					held = true
				}
			}
			if !held {
				s.v("reusable", name, "%s refused (%v) although no other live record holds base address %s (live: %v)", op, err, n.IP, before)
			}
			if after := s.live(); fmt.Sprint(after) != fmt.Sprint(before) {
				s.v("frame", name, "refused %s changed the records: %v -> %v", op, before, after)
			}
			return "err"
		}
		for _, r := range s.live() { // nobody else's record changed
			_ = r
		}
		return "ok"
	case "Remove":
		if err := s.s.RemoveAllocation(ctx, args[0], args[1]); err != nil {
			return "err"
		}
		for _, r := range before {
			if r.pool == args[0] && r.sub == args[1] {
				continue
			}
			found := false
			for _, a := range s.live() {
				if a == r {
					found = true
				}
			}
			if !found {
				s.v("frame", name, "%s removed another record too: %v", op, r)
			}
		}
		return "ok"
	}
	panic("unknown op " + op)
}

func (s *mpSys) Fingerprint() string { return deepdump.Dump(s.s, deepdump.Options{IgnoreTimes: true}) }

func (s *mpSys) Check() []explore.Viol {
	ctx := context.Background()
	live := s.live()
	isLive := func(g *allocator.AllocationRecord) bool {
		for _, r := range live {
			if r.pool == g.PoolID && r.sub == g.SubscriberID && r.pfx == g.Prefix.String() {
				return true
			}
		}
		return false
	}
	holders := map[string]map[string]bool{}
	for _, r := range live {
		if holders[r.base] == nil {
			holders[r.base] = map[string]bool{}
		}
		holders[r.base][r.sub] = true
		g, err := s.s.GetByIP(ctx, net.ParseIP(r.base))
		switch {
		case err != nil || g == nil:
			s.v("reverse-missing", s.last+"/GetByIP", "record %v is live but the by-address lookup of %s finds nothing", r, r.base)
		case !isLive(g) || g.Prefix.IP.String() != r.base:
			s.v("reverse-stale", s.last+"/GetByIP", "by-address lookup of %s (base of live record %v) returns {%s %s %s} which is not a live record with that base", r.base, r, g.PoolID, g.SubscriberID, g.Prefix)
		}
	}
	bases := map[string]bool{}
	for k := range msPfx {
		bases[mpNet(k).IP.String()] = true
	}
	var bl []string
	for b := range bases {
		bl = append(bl, b)
	}
	sort.Strings(bl)
	for _, b := range bl {
		if len(holders[b]) > 1 {
			s.v("unique", s.last, "base address %s identifies %d subscribers (live: %v)", b, len(holders[b]), live)
		}
		g, err := s.s.GetByIP(ctx, net.ParseIP(b))
		if err == nil && g != nil && !isLive(g) {
			s.v("reverse-stale", s.last+"/GetByIP", "by-address lookup of %s returns {%s %s %s} which is not a live record (live: %v)", b, g.PoolID, g.SubscriberID, g.Prefix, live)
		}
	}
	return s.viols
}
