package c20

import (
	"fmt"
	"strconv"

	"github.com/codelaboratoryltd/bng/pkg/qinq"

	"verif/deepdump"
	"verif/explore"
)

// ---------------------------------------------------------------------------
// Part "qinq": qinq.Mapper, S-tags 100..101, C-tags 10..11.
// ---------------------------------------------------------------------------

var (
	qPairs = []qinq.VLANPair{{STag: 100, CTag: 10}, {STag: 100, CTag: 11}, {STag: 101, CTag: 10}, // valid
		{STag: 99, CTag: 10}, {STag: 100, CTag: 12}, // outside the configured ranges
		{STag: 0, CTag: 10}} // single-tagged (valid: no S-TAG to validate)
	qSubs = []string{"olt-1/0/3:100 a.b", "3:100 a.b", "olt-1/0"} // structured subscriber ids
)

type qinqSys struct {
	// conc: driven by concurrent threads (Engine B). Per-operation before/after comparisons are
	// meaningless then (another thread may run in between); only the end-state Check applies.
	conc  bool
	m     *qinq.Mapper
	cfg   qinq.Config
	viols []explore.Viol
}

func newQinqSys() *qinqSys {
	cfg := qinq.Config{Enabled: true, STagRanges: []qinq.VLANRange{{Start: 100, End: 100}, {Start: 101, End: 101}},
		CTagRange: qinq.VLANRange{Start: 10, End: 11}, LookupPriority: "vlan_first"}
	return &qinqSys{m: qinq.NewMapper(cfg), cfg: cfg}
}

func (s *qinqSys) valid(p qinq.VLANPair) bool {
	if p.STag > 0 {
		ok := false
		for _, r := range s.cfg.STagRanges {
			if p.STag >= r.Start && p.STag <= r.End {
				ok = true
			}
		}
		if !ok {
			return false
		}
	}
	return p.CTag == 0 || (p.CTag >= s.cfg.CTagRange.Start && p.CTag <= s.cfg.CTagRange.End)
}

func (s *qinqSys) Ops() []string {
	var ops []string
	for i := range qPairs {
		for _, sub := range qSubs {
			ops = append(ops, fmt.Sprintf("Register(%d,%s)", i, sub))
		}
		ops = append(ops, fmt.Sprintf("Unregister(%d)", i))
	}
	for _, sub := range qSubs {
		ops = append(ops, "UnregisterSubscriber("+sub+")")
	}
	return ops
}

func (s *qinqSys) v(kind, site, f string, a ...any) {
	s.viols = append(s.viols, explore.Viol{Kind: kind, Site: site, Detail: fmt.Sprintf(f, a...)})
}

type qsnap struct {
	bySub  map[string]string
	byPair map[int]string
	total  int
}

func (s *qinqSys) snap() qsnap {
	q := qsnap{map[string]string{}, map[int]string{}, s.m.Stats().TotalMappings}
	for _, sub := range qSubs {
		if p, ok := s.m.GetVLAN(sub); ok {
			q.bySub[sub] = p.String()
		}
	}
	for i, p := range qPairs {
		if sub, ok := s.m.GetSubscriber(p); ok {
			q.byPair[i] = sub
		}
	}
	return q
}

func (s *qinqSys) applyRaw(name string, args []string) string {
	switch name {
	case "Register":
		i, _ := strconv.Atoi(args[0])
		if s.m.Register(qPairs[i], args[1]) != nil {
			return "err"
		}
	case "Unregister":
		i, _ := strconv.Atoi(args[0])
		s.m.Unregister(qPairs[i])
	case "UnregisterSubscriber":
		s.m.UnregisterSubscriber(args[0])
	}
	return "ok"
}

func (s *qinqSys) Apply(op string) string {
	name, args := argsOf(op)
	if s.conc {
		return s.applyRaw(name, args)
	}
	b := s.snap()
	switch name {
	case "Register":
		i, _ := strconv.Atoi(args[0])
		p, sub := qPairs[i], args[1]
		err := s.m.Register(p, sub)
		a := s.snap()
		if err != nil {
			if fmt.Sprint(a) != fmt.Sprint(b) {
				s.v("frame", name, "refused %s still changed the mappings: %v -> %v", op, b, a)
			}
			if s.valid(p) && (b.byPair[i] == "" || b.byPair[i] == sub) {
				s.v("reusable", name, "%s refused (%v) although %v is valid and not mapped to another subscriber (%v)", op, err, p, b)
			}
			return "err"
		}
		if !s.valid(p) {
			s.v("range", name, "%s accepted a pair outside the configured ranges", op)
		}
		if o := b.byPair[i]; o != "" && o != sub {
			s.v("unique", name, "%s accepted although %v identifies %s", op, p, o)
		}
		if a.byPair[i] != sub || a.bySub[sub] != p.String() {
			s.v("forward", name, "after %s: GetSubscriber(%v)=%q GetVLAN(%s)=%q", op, p, a.byPair[i], sub, a.bySub[sub])
		}
		for _, o := range qSubs { // nobody else moved
			if o != sub && a.bySub[o] != b.bySub[o] {
				s.v("frame", name, "%s changed the mapping of %s: %q -> %q", op, o, b.bySub[o], a.bySub[o])
			}
		}
		return "ok"
	case "Unregister":
		i, _ := strconv.Atoi(args[0])
		s.m.Unregister(qPairs[i])
		a := s.snap()
		if a.byPair[i] != "" {
			s.v("release", name, "%s left %v mapped to %s", op, qPairs[i], a.byPair[i])
		}
		for _, o := range qSubs {
			if o != b.byPair[i] && a.bySub[o] != b.bySub[o] {
				s.v("frame", name, "%s changed the mapping of %s: %q -> %q", op, o, b.bySub[o], a.bySub[o])
			}
		}
		return "ok"
	case "UnregisterSubscriber":
		s.m.UnregisterSubscriber(args[0])
		a := s.snap()
		if a.bySub[args[0]] != "" {
			s.v("release", name, "%s left the subscriber mapped to %s", op, a.bySub[args[0]])
		}
		for _, o := range qSubs {
			if o != args[0] && a.bySub[o] != b.bySub[o] {
				s.v("frame", name, "%s changed the mapping of %s: %q -> %q", op, o, b.bySub[o], a.bySub[o])
			}
		}
		return "ok"
	}
	panic("unknown op " + op)
}

func (s *qinqSys) Fingerprint() string { return deepdump.Dump(s.m, deepdump.Options{}) }

func (s *qinqSys) Check() []explore.Viol {
	a := s.snap()
	seen := map[string]string{}
	for _, sub := range qSubs {
		ps, ok := a.bySub[sub]
		if !ok {
			continue
		}
		if o, dup := seen[ps]; dup {
			s.v("unique", "GetVLAN", "pair %s identifies both %s and %s", ps, o, sub)
		}
		seen[ps] = sub
		found := false
		for i, p := range qPairs {
			if p.String() == ps {
				found = true
				if a.byPair[i] != sub {
					s.v("reverse", "GetSubscriber", "GetVLAN(%s)=%s but GetSubscriber(%s)=%q", sub, ps, ps, a.byPair[i])
				}
				if !s.valid(p) {
					s.v("range", "GetVLAN", "%s is mapped to %s outside the configured ranges", sub, ps)
				}
			}
		}
		if !found {
			s.v("reverse", "GetVLAN", "GetVLAN(%s)=%s is not a pair that was ever registered", sub, ps)
		}
	}
	for i, p := range qPairs {
		if sub, ok := a.byPair[i]; ok && a.bySub[sub] != p.String() {
			s.v("reverse", "GetVLAN", "GetSubscriber(%v)=%s but GetVLAN(%s)=%q", p, sub, sub, a.bySub[sub])
		}
	}
	if a.total != len(a.byPair) || a.total != len(a.bySub) {
		s.v("reverse", "Stats", "TotalMappings=%d, pairs mapped=%d, subscribers mapped=%d", a.total, len(a.byPair), len(a.bySub))
	}
	if len(s.viols) > 0 {
		return s.viols
	}
	// probe: every valid pair that identifies nobody can be registered for a new subscriber
	for i, p := range qPairs {
		if _, used := a.byPair[i]; !used && s.valid(p) {
			if err := s.m.Register(p, fmt.Sprintf("probe%d", i)); err != nil {
				s.v("reusable", "Register", "probe: %v identifies nobody but cannot be registered: %v", p, err)
			}
		}
	}
	return s.viols
}
