package c20

import (
	"fmt"
	"testing"

	"verif/sched"
)

// TestRacePass: the separate free-running pass (built with -race by bin/check in the thorough tier) over the
// Engine B scenario bodies: real goroutines on real locks (see sched.RunFree). It samples schedules and decides
// nothing about the property; only a data-race report fails it.
func TestRacePass(t *testing.T) {
	n := 0
	for _, sc := range bscenarios(true) {
		for r := 0; r < 100; r++ {
			sched.RunFree(sc.scenario())
			n++
		}
	}
	fmt.Printf("RACEPASS executions=%d\n", n)
}
