package c20

import (
	"context"
	"fmt"
	"sort"
	"strconv"
	"strings"

	"github.com/codelaboratoryltd/bng/pkg/nexus"

	"verif/deepdump"
	"verif/explore"
)

// ---------------------------------------------------------------------------
// Part "vlan": nexus.VLANAllocator over S-tags 100..101, C-tags 10..11.
// ---------------------------------------------------------------------------

type pair struct{ s, c uint16 }

func (p pair) String() string { return fmt.Sprintf("(%d,%d)", p.s, p.c) }

type vlanSys struct {
	conc  bool // Engine B: no per-operation before/after checks, only the end-state Check
	a     *nexus.VLANAllocator
	cfg   nexus.VLANAllocatorConfig
	ntes  []string
	viols []explore.Viol
}

// stored lists offered to LoadFromStore
var vlanLoads = map[string][]*nexus.NTE{
	"ok":        {{ID: "n1", STag: 100, CTag: 10}, {ID: "n2", STag: 101, CTag: 11}},
	"dup-pair":  {{ID: "n1", STag: 100, CTag: 10}, {ID: "n2", STag: 100, CTag: 10}},
	"other":     {{ID: "n1", STag: 101, CTag: 11}},
	"s-outside": {{ID: "n3", STag: 99, CTag: 10}},
	"c-outside": {{ID: "n3", STag: 100, CTag: 12}},
	"unset":     {{ID: "n2", STag: 0, CTag: 10}, {ID: "n3", STag: 100, CTag: 0}},
}

func newVlanSys(n int) *vlanSys {
	cfg := nexus.VLANAllocatorConfig{STagRange: nexus.VLANRange{Start: 100, End: 101}, CTagRange: nexus.VLANRange{Start: 10, End: 11}}
	s := &vlanSys{a: nexus.NewVLANAllocator(cfg), cfg: cfg}
	for i := 1; i <= n; i++ {
		s.ntes = append(s.ntes, fmt.Sprintf("n%d", i))
	}
	return s
}

func (s *vlanSys) Ops() []string {
	var ops []string
	for _, n := range s.ntes {
		ops = append(ops, "Allocate("+n+")", "Release("+n+")")
		for _, st := range []int{100, 101, 99} {
			ops = append(ops, fmt.Sprintf("AllocateWithSTag(%s,%d)", n, st))
		}
	}
	names := make([]string, 0, len(vlanLoads))
	for k := range vlanLoads {
		names = append(names, k)
	}
	sort.Strings(names)
	for _, k := range names {
		ops = append(ops, "LoadFromStore("+k+")")
	}
	return ops
}

func (s *vlanSys) v(kind, site, f string, a ...any) {
	s.viols = append(s.viols, explore.Viol{Kind: kind, Site: site, Detail: fmt.Sprintf(f, a...)})
}

func (s *vlanSys) get(n string) (pair, bool) {
	a, ok := s.a.Get(n)
	if !ok || a == nil {
		return pair{}, false
	}
	return pair{a.STag, a.CTag}, true
}

func (s *vlanSys) all() map[string]pair {
	m := map[string]pair{}
	for _, n := range s.ntes {
		if p, ok := s.get(n); ok {
			m[n] = p
		}
	}
	return m
}

func (s *vlanSys) inRange(p pair) bool {
	return p.s >= s.cfg.STagRange.Start && p.s <= s.cfg.STagRange.End && p.c >= s.cfg.CTagRange.Start && p.c <= s.cfg.CTagRange.End
}

func argsOf(op string) (string, []string) {
	i := strings.Index(op, "(")
	if i < 0 {
		return op, nil
	}
	return op[:i], strings.Split(strings.TrimSuffix(op[i+1:], ")"), ",")
}

func (s *vlanSys) frame(op, site string, before map[string]pair, except ...string) {
	ex := map[string]bool{}
	for _, e := range except {
		ex[e] = true
	}
	after := s.all()
	for _, n := range s.ntes {
		if ex[n] {
			continue
		}
		b, bok := before[n]
		a, aok := after[n]
		if bok != aok || a != b {
			s.v("frame", site, "%s changed the mapping of %s: %v(%v) -> %v(%v)", op, n, b, bok, a, aok)
		}
	}
}

func (s *vlanSys) applyRaw(name string, args []string) string {
	switch name {
	case "Allocate":
		a, err := s.a.Allocate(args[0])
		if err != nil {
			return "err"
		}
		return pair{a.STag, a.CTag}.String()
	case "AllocateWithSTag":
		st, _ := strconv.Atoi(args[1])
		a, err := s.a.AllocateWithSTag(args[0], uint16(st))
		if err != nil {
			return "err"
		}
		return pair{a.STag, a.CTag}.String()
	case "Release":
		s.a.Release(args[0])
	}
	return "ok"
}

func (s *vlanSys) Apply(op string) string {
	name, args := argsOf(op)
	if s.conc {
		return s.applyRaw(name, args)
	}
	before := s.all()
	switch name {
	case "Allocate":
		n := args[0]
		a, err := s.a.Allocate(n)
		s.frame(op, name, before, n)
		if err != nil {
			if b, held := before[n]; held {
				s.v("stability", name, "%s holds %v but Allocate failed: %v", n, b, err)
			}
			return "err"
		}
		p := pair{a.STag, a.CTag}
		if b, held := before[n]; held && b != p {
			s.v("stability", name, "%s holds %v but Allocate returned %v", n, b, p)
		}
		if a.NTEID != n {
			s.v("stability", name, "Allocate(%s) returned an allocation for %q", n, a.NTEID)
		}
		if g, ok := s.get(n); !ok || g != p {
			s.v("forward", name, "Allocate(%s) returned %v but Get says %v(%v)", n, p, g, ok)
		}
		return p.String()
	case "AllocateWithSTag":
		n := args[0]
		st, _ := strconv.Atoi(args[1])
		a, err := s.a.AllocateWithSTag(n, uint16(st))
		s.frame(op, name, before, n)
		if err != nil {
			return "err"
		}
		p := pair{a.STag, a.CTag}
		if p.s != uint16(st) {
			s.v("stability", name, "AllocateWithSTag(%s,%d) returned %v", n, st, p)
		}
		if b, held := before[n]; held && b.s == uint16(st) && b != p {
			s.v("stability", name, "%s holds %v, AllocateWithSTag(%d) returned %v", n, b, st, p)
		}
		if g, ok := s.get(n); !ok || g != p {
			s.v("forward", name, "AllocateWithSTag(%s,%d) returned %v but Get says %v(%v)", n, st, p, g, ok)
		}
		return p.String()
	case "Release":
		n := args[0]
		s.a.Release(n)
		s.frame(op, name, before, n)
		if g, ok := s.get(n); ok {
			s.v("release", name, "Release(%s) left it mapped to %v", n, g)
		}
		if b, held := before[n]; held {
			if o, used := s.a.VerifC20Owner(b.s, b.c); used && o == n {
				s.v("release", name, "Release(%s) left pair %v marked in use by %s", n, b, o)
			}
		}
		return "ok"
	case "LoadFromStore":
		err := s.a.LoadFromStore(context.Background(), vlanLoads[args[0]])
		if err != nil {
			return "err"
		}
		return "ok"
	}
	panic("unknown op " + op)
}

func (s *vlanSys) Fingerprint() string { return deepdump.Dump(s.a, deepdump.Options{}) }

// Check: uniqueness, ranges, forward/reverse agreement, then the destructive probe
// "every pair not held is obtainable exactly once" (a released pair is reusable).
func (s *vlanSys) Check() []explore.Viol {
	m := s.all()
	names := make([]string, 0, len(m))
	for n := range m {
		names = append(names, n)
	}
	sort.Strings(names)
	holder := map[pair]string{}
	for _, n := range names {
		p := m[n]
		if o, dup := holder[p]; dup {
			s.v("unique", "", "pair %v identifies both %s and %s", p, o, n)
		}
		holder[p] = n
		if !s.inRange(p) {
			s.v("range", "", "%s holds %v outside S %d-%d / C %d-%d", n, p, s.cfg.STagRange.Start, s.cfg.STagRange.End, s.cfg.CTagRange.Start, s.cfg.CTagRange.End)
		}
		if o, used := s.a.VerifC20Owner(p.s, p.c); !used || o != n {
			s.v("reverse", "", "%s holds %v but the usage map says %q (used=%v)", n, p, o, used)
		}
	}
	used := s.a.VerifC20UsedPairs()
	sort.Slice(used, func(i, j int) bool { return used[i][0] < used[j][0] || (used[i][0] == used[j][0] && used[i][1] < used[j][1]) })
	for _, u := range used {
		p := pair{u[0], u[1]}
		o, _ := s.a.VerifC20Owner(p.s, p.c)
		if g, ok := s.get(o); !ok || g != p {
			s.v("reverse", "", "usage map says %v is used by %s but Get(%s) = %v(%v)", p, o, o, g, ok)
		}
	}
	if st := s.a.Stats(); st.TotalAllocations != len(m) {
		// NTEs outside the harness universe cannot exist, so the counts must agree
		s.v("reverse", "", "Stats.TotalAllocations=%d but %d NTEs have an allocation", st.TotalAllocations, len(m))
	}
	if len(s.viols) > 0 {
		return s.viols
	}
	// probe
	free := 0
	for st := s.cfg.STagRange.Start; st <= s.cfg.STagRange.End; st++ {
		for ct := s.cfg.CTagRange.Start; ct <= s.cfg.CTagRange.End; ct++ {
			if _, h := holder[pair{st, ct}]; !h {
				free++
			}
		}
	}
	got := map[pair]bool{}
	for i := 0; i < free+2; i++ {
		a, err := s.a.Allocate(fmt.Sprintf("probe%d", i))
		if err != nil {
			break
		}
		p := pair{a.STag, a.CTag}
		if o, h := holder[p]; h {
			s.v("unique", "", "probe: fresh NTE was given %v which %s holds", p, o)
		}
		if got[p] {
			s.v("unique", "", "probe: pair %v handed out twice", p)
		}
		if !s.inRange(p) {
			s.v("range", "", "probe: fresh NTE was given %v outside the configured ranges", p)
		}
		got[p] = true
	}
	if len(got) != free {
		s.v("reusable", "", "probe: %d pairs are not held by anyone but only %d could be obtained (held: %v)", free, len(got), m)
	}
	return s.viols
}
