package c20

import (
	"bytes"
	"fmt"
	"time"

	"github.com/codelaboratoryltd/bng/pkg/ebpf"

	"verif/report"
)

// ---------------------------------------------------------------------------
// Part "circuit": relay circuit-id -> fast-path keys (bounded-exhaustive inputs).
// Family: for every length L in 0..64 a base string, plus for each base
//   - the same string with its LAST byte changed (L>32: differs only after byte 32),
//   - the same string with byte 0 / byte min(L,32)-1 changed (differs inside the key),
//   - the string with one and with two trailing zero bytes appended,
//   - its 32-byte truncation.
// Oracle: two different circuit-ids (two subscribers) never share a key.
// ---------------------------------------------------------------------------

func circuitFamily() [][]byte {
	var fam [][]byte
	seen := map[string]bool{}
	add := func(b []byte) {
		if !seen[string(b)] {
			seen[string(b)] = true
			fam = append(fam, append([]byte(nil), b...))
		}
	}
	for L := 0; L <= 64; L++ {
		base := make([]byte, L)
		for i := range base {
			base[i] = byte('A' + (i*7+L)%26)
		}
		add(base)
		if L > 0 {
			for _, pos := range []int{0, L - 1, min(L, 32) - 1, min(L-1, 32)} {
				m := append([]byte(nil), base...)
				m[pos] ^= 0x20
				add(m)
			}
		}
		add(append(append([]byte(nil), base...), 0))
		add(append(append([]byte(nil), base...), 0, 0))
		if L > 32 {
			add(base[:32])
		}
	}
	return fam
}

func runCircuit(run *report.Run) {
	start := time.Now()
	fam := circuitFamily()
	part := report.Part{Name: "circuit", Engine: "D:bounded-exhaustive inputs", Exhaustive: true,
		Bound: fmt.Sprintf("%d circuit-ids of length 0..66, all %d unordered pairs", len(fam), len(fam)*(len(fam)-1)/2)}
	keys := make([]ebpf.CircuitIDKey, len(fam))
	hashes := make([]uint64, len(fam))
	for i, c := range fam {
		keys[i] = ebpf.MakeCircuitIDKey(c)
		hashes[i] = ebpf.HashCircuitID(c)
		// the key must at least carry the circuit-id's own leading bytes
		n := min(len(c), ebpf.CircuitIDKeyLen)
		if !bytes.Equal(keys[i][:n], c[:n]) {
			run.Violation(report.Violation{Part: "circuit", Kind: "key-content", Site: "MakeCircuitIDKey", Config: "family",
				Detail: fmt.Sprintf("key of %q does not start with the circuit-id's first %d bytes: %x", c, n, keys[i]), Trace: []string{fmt.Sprintf("%x", c)}})
		}
	}
	var pairs, keyColl, hashColl int64
	for i := range fam {
		for j := i + 1; j < len(fam); j++ {
			pairs++
			if keys[i] == keys[j] {
				keyColl++
				v := report.Violation{Part: "circuit", Kind: "key-shared", Site: "MakeCircuitIDKey", Config: "family",
					Detail: fmt.Sprintf("circuit-ids %q (len %d) and %q (len %d) are different but share the fixed-size key %x", fam[i], len(fam[i]), fam[j], len(fam[j]), keys[i]),
					Trace:  []string{fmt.Sprintf("%x", fam[i]), fmt.Sprintf("%x", fam[j])}}
				classifyCircuit(&v, fam[i], fam[j])
				run.Violation(v)
			}
			if hashes[i] == hashes[j] {
				hashColl++
				run.Violation(report.Violation{Part: "circuit", Kind: "hash-shared", Site: "HashCircuitID", Config: "family",
					Detail: fmt.Sprintf("circuit-ids %q and %q are different but hash to the same map key %#x", fam[i], fam[j], hashes[i]),
					Trace:  []string{fmt.Sprintf("%x", fam[i]), fmt.Sprintf("%x", fam[j])}})
			}
		}
	}
	part.States = int64(len(fam))
	part.Transitions = pairs
	part.Outcomes = keyColl + hashColl
	part.Note = fmt.Sprintf("key collisions=%d hash collisions=%d in %.2fs", keyColl, hashColl, time.Since(start).Seconds())
	run.AddPart(part)
	run.AddEvals(pairs, int64(len(fam)))
	run.Sample(map[string]any{"part": "circuit", "inputs": len(fam), "pairs": pairs, "key_collisions": keyColl, "hash_collisions": hashColl})
}

// classifyCircuit: the two by-design losses of the fixed 32-byte key.
func classifyCircuit(v *report.Violation, a, b []byte) {
	n := ebpf.CircuitIDKeyLen
	trim := func(x []byte) []byte { return bytes.TrimRight(x, "\x00") }
	switch {
	case (len(a) > n || len(b) > n) && bytes.Equal(trim(a[:min(len(a), n)]), trim(b[:min(len(b), n)])):
		// at least one id is longer than the key and they agree on the first 32 bytes (up to zero padding)
		v.Class = "C20-K1-circuit-key-truncated-to-32"
	case len(a) <= n && len(b) <= n && bytes.Equal(trim(a), trim(b)):
		// both fit, they differ only by trailing zero bytes (indistinguishable from the padding)
		v.Class = "C20-K2-circuit-key-zero-padding"
	}
}

func replayCircuit(v report.Violation) int {
	if len(v.Trace) != 2 {
		fmt.Println("replay: circuit witness needs two hex circuit-ids")
		return 2
	}
	var a, b []byte
	fmt.Sscanf(v.Trace[0], "%x", &a)
	fmt.Sscanf(v.Trace[1], "%x", &b)
	switch v.Kind {
	case "key-shared":
		if !bytes.Equal(a, b) && ebpf.MakeCircuitIDKey(a) == ebpf.MakeCircuitIDKey(b) {
			fmt.Printf("VIOLATION property=C20 replay=%s\n  kind=key-shared %q / %q share key %x\n", *report.FlagReplay, a, b, ebpf.MakeCircuitIDKey(a))
			return 1
		}
	case "hash-shared":
		if !bytes.Equal(a, b) && ebpf.HashCircuitID(a) == ebpf.HashCircuitID(b) {
			fmt.Printf("VIOLATION property=C20 replay=%s\n  kind=hash-shared %q / %q\n", *report.FlagReplay, a, b)
			return 1
		}
	}
	fmt.Println("replay: no violation")
	return 0
}
