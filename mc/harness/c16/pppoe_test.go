//go:build verif

package c16

import (
	"context"
	"encoding/binary"
	"fmt"
	"net"
	"sort"
	"strings"
	"testing/synctest"
	"time"

	"github.com/codelaboratoryltd/bng/pkg/pppoe"
	"go.uber.org/zap"

	"verif/deepdump"
)

// PPPoE via the REAL pppoe.Server (in-memory raw socket of /verif/hooks/pppoe/c04.gosrc,
// the server's own cleanup loop running in the bubble).
//
//	prefixes: PADS | LCP (link open, authentication phase) | AUTH (PAP accepted, address
//	          assigned, IPCP started) | IPCP (established)
//	paths:    PADT | LCP-TR (LCP Terminate-Request) | AUTHFAIL (PAP rejected; RADIUS
//	          configurations) | IDLE (idle timeout + cleanup loop) | STOP (Server.Stop)
//
// pppoe.Server holds per session: the session-table entry (+ MAC index) and a
// pool address. It has no NAT/QoS/eBPF/accounting integration, so O2..O4 reduce
// to "no accounting record is ever produced"; there is no administrative or
// RADIUS-Disconnect entry point.
const (
	pppoeIdle  = 2 * time.Minute
	pppoeTotal = 5 // 10.0.0.0/29 minus network, gateway, broadcast
)

var pppoeServerMAC = net.HardwareAddr{0x02, 0, 0, 0, 0, 0xfe}

func pppoeServerKind() kindDef {
	return kindDef{
		name: "pppoe-server",
		cfgs: []string{"no-radius", "radius"},
		// IPCP-LATE: established, then silent for longer than the idle timeout, then a frame BEFORE the next cleanup tick
		prefixes: func(string) []string { return []string{"PADS", "LCP", "AUTH", "IPCP", "IPCP-LATE"} },
		paths: func(cfg, prefix string) []string {
			// RESTART-x: the client starts over (a second PADR from the same MAC without PADT, e.g. a CPE power
			// cycle; the new session is brought up to the same prefix), then x ends every session the client was
			// ever given (PADT / LCP Terminate-Request for each session id it knows; IDLE: it just falls silent)
			p := []string{"PADT", "LCP-TR", "IDLE", "STOP", "RESTART-PADT", "RESTART-LCP-TR", "RESTART-IDLE"}
			if cfg == "radius" {
				p = append(p, "AUTHFAIL")
			}
			return p
		},
		run: runPPPoEServer,
	}
}

// ---- frame builders (as in C04)

func ptag(t uint16, v []byte) []byte {
	b := make([]byte, 4+len(v))
	binary.BigEndian.PutUint16(b, t)
	binary.BigEndian.PutUint16(b[2:], uint16(len(v)))
	copy(b[4:], v)
	return b
}

func pdisc(code byte, sid uint16, tags ...[]byte) []byte {
	var pl []byte
	for _, t := range tags {
		pl = append(pl, t...)
	}
	return append([]byte{0x11, code, byte(sid >> 8), byte(sid), byte(len(pl) >> 8), byte(len(pl))}, pl...)
}

func psess(sid uint16, proto uint16, payload []byte) []byte {
	n := 2 + len(payload)
	return append([]byte{0x11, 0, byte(sid >> 8), byte(sid), byte(n >> 8), byte(n), byte(proto >> 8), byte(proto)}, payload...)
}

func pcp(code, id byte, data []byte) []byte {
	b := make([]byte, 4+len(data))
	b[0], b[1] = code, id
	binary.BigEndian.PutUint16(b[2:], uint16(4+len(data)))
	copy(b[4:], data)
	return b
}

func popt(t byte, d ...byte) []byte { return append([]byte{t, byte(2 + len(d))}, d...) }

func ppap(id byte, user, pass string) []byte {
	d := append([]byte{byte(len(user))}, user...)
	d = append(d, byte(len(pass)))
	d = append(d, pass...)
	return pcp(1, id, d)
}

type pppClient struct {
	name  string
	mac   net.HardwareAddr
	sid   uint16
	ident byte
	// learned from the server's frames
	srvLCPid  byte
	srvIPCPid byte
	addr      net.IP
}

// vicSess: one session of the victim as the client knows it (id from PADS) plus what it held.
type vicSess struct {
	c    *pppClient
	sid  string // Session.SessionID: the pool key
	addr net.IP
}

type pppWorld struct {
	k      kase
	srv    *pppoe.Server
	rs     *radiusScript
	cancel context.CancelFunc
	a, b   *pppClient
	aSess  *pppoe.Session // the victim's session object (kept after removal from the table)
	aAddr  net.IP
	aSID   string
	vic    []*vicSess // every session the victim's MAC was ever given (a client that starts over has several)
	viols  []viol
	wait   func() // synctest.Wait in a bubble; nil under the controlled scheduler
}

func (w *pppWorld) settle() {
	if w.wait != nil {
		w.wait()
	}
}

func (w *pppWorld) add(kind, site, f string, a ...any) {
	w.viols = append(w.viols, viol{kind, site, fmt.Sprintf(f, a...)})
}

// take parses the frames the server sent since the last call.
func (w *pppWorld) take() {
	for _, f := range w.srv.VerifC04TakeFrames() {
		if len(f.Data) < 20 {
			continue
		}
		var c *pppClient
		for _, x := range []*pppClient{w.a, w.b} {
			if x != nil && x.mac.String() == f.Dst.String() {
				c = x
			}
		}
		p := f.Data[14:]
		code, sid := p[1], binary.BigEndian.Uint16(p[2:4])
		if f.EtherType == pppoe.EtherTypePPPoEDiscovery {
			if code == pppoe.CodePADS && c != nil {
				c.sid = sid
			}
			continue
		}
		if c == nil || len(p) < 12 {
			continue
		}
		proto := binary.BigEndian.Uint16(p[6:8])
		switch {
		case proto == pppoe.ProtocolLCP && p[8] == 1:
			c.srvLCPid = p[9]
		case proto == pppoe.ProtocolIPCP && p[8] == 1:
			c.srvIPCPid = p[9]
		case proto == pppoe.ProtocolIPCP && p[8] == 3 && len(p) >= 18: // Nak carrying the assigned address
			c.addr = net.IP(append([]byte{}, p[14:18]...))
		}
	}
}

func (w *pppWorld) sess(c *pppClient, proto uint16, payload []byte) {
	w.srv.VerifC04Session(c.mac, psess(c.sid, proto, payload))
	w.settle()
	w.take()
}

func (w *pppWorld) session(c *pppClient) *pppoe.Session {
	for _, s := range w.srv.VerifC04Sessions() {
		if s.ID == c.sid && s.ClientMAC.String() == c.mac.String() {
			return s
		}
	}
	return nil
}

// establish drives client c through the establishment sequence up to prefix.
func (w *pppWorld) establish(c *pppClient, prefix string) {
	w.srv.VerifC04Discovery(c.mac, pdisc(pppoe.CodePADI, 0, ptag(pppoe.TagServiceName, nil), ptag(pppoe.TagHostUniq, []byte(c.name))))
	w.srv.VerifC04Discovery(c.mac, pdisc(pppoe.CodePADR, 0, ptag(pppoe.TagServiceName, []byte("internet")), ptag(pppoe.TagHostUniq, []byte(c.name)), ptag(pppoe.TagACCookie, []byte("0123456789abcdef"))))
	w.settle() // LCP negotiation goroutine
	w.take()
	if c.sid == 0 {
		panic("harness: no PADS for " + c.name)
	}
	if prefix == "PADS" {
		return
	}
	c.ident++
	w.sess(c, pppoe.ProtocolLCP, pcp(1, c.ident, append(popt(1, 0x05, 0xd4), popt(5, 0xaa, 0xbb, 0xcc, c.mac[5])...)))
	w.sess(c, pppoe.ProtocolLCP, pcp(2, c.srvLCPid, nil))
	if s := w.session(c); s == nil || s.GetState() != pppoe.StateAuthentication {
		panic("harness: LCP did not open for " + c.name)
	}
	if prefix == "LCP" {
		return
	}
	c.ident++
	w.sess(c, pppoe.ProtocolPAP, ppap(c.ident, c.name, "good"))
	if s := w.session(c); s == nil || !s.Authenticated || s.ClientIP == nil {
		panic("harness: authentication did not succeed for " + c.name)
	}
	if prefix == "AUTH" {
		return
	}
	c.ident++
	w.sess(c, pppoe.ProtocolIPCP, pcp(1, c.ident, popt(3, 0, 0, 0, 0)))
	if c.addr == nil {
		panic("harness: no IPCP Nak with an address for " + c.name)
	}
	c.ident++
	w.sess(c, pppoe.ProtocolIPCP, pcp(1, c.ident, popt(3, c.addr.To4()...)))
	w.sess(c, pppoe.ProtocolIPCP, pcp(2, c.srvIPCPid, popt(3, 10, 0, 0, 1)))
	if s := w.session(c); s == nil || !s.IsEstablished() {
		panic("harness: session not established for " + c.name)
	}
}

func newPPPWorld(k kase, bubble bool) *pppWorld {
	w := &pppWorld{k: k}
	if bubble {
		w.wait = synctest.Wait
	}
	sc := pppoe.ServerConfig{Interface: "verif0", ACName: "ac", ServiceName: "internet", ServerIP: "10.0.0.1", ClientPool: "10.0.0.0/29", PoolGateway: "10.0.0.1", AuthType: "pap", SessionTimeout: pppoeIdle}
	srv, err := pppoe.VerifC04NewServer(sc, zap.NewNop(), pppoeServerMAC)
	if err != nil {
		panic(err)
	}
	w.srv = srv
	if k.Cfg == "radius" {
		w.rs = newRadiusScript()
		srv.SetRADIUSClient(w.rs.client())
	}
	ctx, cancel := context.WithCancel(context.Background())
	w.cancel = cancel
	if bubble {
		go srv.VerifC16CleanupLoop(ctx) // what Start launches
	}
	return w
}

func (w *pppWorld) close() {
	w.cancel()
	w.settle()
	if w.rs != nil {
		w.rs.close()
	}
}

func runPPPoEServer(_ *kenv, k kase) (res result) {
	w := newPPPWorld(k, true)
	defer w.close()
	w.b = &pppClient{name: "bystander", mac: net.HardwareAddr{2, 0, 0, 0, 0, 0x0b}}
	w.establish(w.b, "IPCP")
	w.a = &pppClient{name: "victim", mac: net.HardwareAddr{2, 0, 0, 0, 0, 0x0a}}
	w.establish(w.a, strings.TrimSuffix(k.Prefix, "-LATE"))
	w.noteVictim()
	if strings.HasSuffix(k.Prefix, "-LATE") {
		// no virtual time has passed so far: the victim's last frame and the cleanup ticker's start are at t=0, ticks
		// at 30 s, 60 s, ...; the first tick that finds the victim idle is t=150 s. The victim speaks again at t=135 s.
		for t := time.Duration(0); t < pppoeIdle; t += 30 * time.Second {
			time.Sleep(30 * time.Second)
			synctest.Wait()
			w.b.ident++
			w.sess(w.b, pppoe.ProtocolLCP, pcp(9, w.b.ident, []byte{0xaa, 0xbb, 0xcc, 0x0b}))
		}
		time.Sleep(15 * time.Second)
		synctest.Wait()
		w.a.ident++
		w.sess(w.a, pppoe.ProtocolLCP, pcp(9, w.a.ident, []byte{0xaa, 0xbb, 0xcc, 0x0a}))
	}
	h := []string{"session-entry"}
	if w.aAddr != nil {
		h = append(h, "pool-address")
	}
	res.held = strings.Join(h, ",")

	var d1 string
	var n1 int
	for i, t := range k.Terms {
		w.terminate(t)
		site := strings.Join(k.Terms[:i+1], ";")
		if i == 0 {
			w.checkReleased(site, t)
			if len(w.viols) > 0 {
				res.viols = w.viols
				return // polluted: the second termination is not evaluated
			}
			d1, n1 = w.dump(), w.nrec()
			continue
		}
		if strings.HasPrefix(t, "RESTART-") {
			// not a second ending of the same session but a new session life cycle of the same client:
			// the release oracle applies again, the "nothing changes" comparison restarts from here
			w.checkReleased(site, t)
			d1, n1 = w.dump(), w.nrec()
			continue
		}
		if d2 := w.dump(); d2 != d1 {
			w.add("second-termination-changes-state", site, "state after %s differs from the state after %s: %s", site, k.Terms[0], diff(d1, d2))
		}
		if n2 := w.nrec(); n2 != n1 {
			w.add("second-termination-sends-records", site, "%d further RADIUS accounting record(s)", n2-n1)
		}
		w.checkReleased(site, t)
	}
	if len(w.viols) == 0 {
		w.probe(strings.Join(k.Terms, ";"))
	}
	res.viols = w.viols
	return
}

// noteVictim records the session the victim has just been given.
func (w *pppWorld) noteVictim() {
	se := w.session(w.a)
	v := &vicSess{c: w.a, sid: se.SessionID}
	if se.ClientIP != nil {
		v.addr = append(net.IP{}, se.ClientIP.To4()...)
	}
	w.vic = append(w.vic, v)
	if len(w.vic) == 1 {
		w.aSess, w.aSID, w.aAddr = se, v.sid, v.addr
	}
}

// restart: the victim's CPE starts over - a new PADR from the same MAC, no PADT for the old session.
func (w *pppWorld) restart() {
	w.a = &pppClient{name: "victim", mac: w.a.mac}
	w.establish(w.a, strings.TrimSuffix(w.k.Prefix, "-LATE"))
	w.noteVictim()
}

func (w *pppWorld) nrec() int {
	if w.rs == nil {
		return 0
	}
	return w.rs.nAttempts()
}

func (w *pppWorld) terminate(path string) {
	if rest, ok := strings.CutPrefix(path, "RESTART-"); ok {
		w.restart()
		path = rest
	}
	switch path {
	case "PADT": // for every session id the client knows
		for _, v := range w.vic {
			w.srv.VerifC04Discovery(v.c.mac, pdisc(pppoe.CodePADT, v.c.sid))
		}
	case "LCP-TR":
		for _, v := range w.vic {
			v.c.ident++
			w.sess(v.c, pppoe.ProtocolLCP, pcp(5, v.c.ident, nil))
		}
	case "AUTHFAIL":
		for _, v := range w.vic {
			v.c.ident++
			w.sess(v.c, pppoe.ProtocolPAP, ppap(v.c.ident, v.c.name, "bad"))
		}
	case "IDLE":
		// the victim falls silent; the bystander keeps its link alive with LCP echoes
		for t := time.Duration(0); t <= pppoeIdle+30*time.Second; t += 30 * time.Second {
			time.Sleep(30 * time.Second)
			synctest.Wait()
			w.b.ident++
			w.sess(w.b, pppoe.ProtocolLCP, pcp(9, w.b.ident, []byte{0xaa, 0xbb, 0xcc, 0x0b}))
		}
	case "STOP":
		if err := w.srv.Stop(); err != nil {
			panic("harness: Stop: " + err.Error())
		}
	default:
		panic("unknown termination path " + path)
	}
	w.settle()
	w.take()
}

func (w *pppWorld) checkReleased(site, last string) {
	avail, alloc := w.srv.VerifC16Pool().VerifC16State()
	// O1: the address
	for i, v := range w.vic {
		if ip, ok := alloc[v.sid]; ok {
			w.add("address-not-released", site, "the pool still has %s allocated to the victim's session %s (session #%d of %d the client was given)", ip, v.sid, i+1, len(w.vic))
		} else if v.addr != nil && !contains(avail, v.addr.String()) {
			w.add("address-not-released", site, "%s is neither free nor allocated", v.addr)
		}
	}
	if len(avail)+len(alloc) != pppoeTotal {
		w.add("pool-conservation", site, "pool accounts for %d addresses, has %d (available=%v allocated=%v)", len(avail)+len(alloc), pppoeTotal, avail, alloc)
	}
	seen := map[string]bool{}
	for _, a := range avail {
		if seen[a] {
			w.add("pool-conservation", site, "%s is on the free list twice", a)
		}
		seen[a] = true
	}
	for _, a := range alloc {
		if seen[a] {
			w.add("pool-conservation", site, "%s is both free and allocated (or allocated twice)", a)
		}
		seen[a] = true
	}
	// the session itself: it may only linger if it is closed and holds nothing
	for _, v := range w.vic {
		if s := w.session(v.c); s != nil && s.GetState() != pppoe.StateClosed {
			w.add("session-still-present", site, "the victim's session %d is still in the table in state %s", s.ID, s.GetState())
		}
	}
	// O4: pppoe.Server never issues a Start, so no accounting record may exist
	if w.rs != nil {
		for _, r := range w.rs.records() {
			w.add("accounting-stop-count", site, "unexpected accounting record %s", r)
		}
	}
	// O6
	bs := w.session(w.b)
	if bs == nil || !bs.IsEstablished() || alloc[bs.SessionID] != w.b.addr.String() {
		w.add("bystander-damaged", site, "the bystander's session / address %s is gone (allocated=%v)", w.b.addr, alloc)
	}
}

// statistics: per-frame counters and the activity timestamp (read by GetStats and the idle cleanup only);
// MagicNumber/SessionID are random per session; IPPool.allocated is keyed by the random SessionID
// (its content is determined by the sessions' ClientIP and the free list)
var pppSkip = map[string]bool{
	"Session.MagicNumber": true, "Session.SessionID": true, "IPPool.allocated": true,
	"Session.BytesIn": true, "Session.BytesOut": true, "Session.PacketsIn": true, "Session.PacketsOut": true,
	"Server.padiReceived": true, "Server.padoSent": true, "Server.padrReceived": true, "Server.padsSent": true,
	"Server.padtReceived": true, "Server.padtSent": true, "Server.sessionsTotal": true,
}

func (w *pppWorld) dump() string {
	avail, alloc := w.srv.VerifC16Pool().VerifC16State()
	var al []string
	for _, ip := range alloc {
		al = append(al, ip)
	}
	sort.Strings(al)
	return deepdump.Dump(w.srv, deepdump.Options{IgnoreTimes: true, SkipFields: pppSkip, SkipTypes: map[string]bool{"radius.Client": true, "pppoe.verifC04Socket": true}}) +
		fmt.Sprintf("\nPOOL free=%v allocated=%v", avail, al)
}

// probe (destructive): new clients authenticate until the pool refuses; every
// free address is handed out exactly once and the victim's is among them.
func (w *pppWorld) probe(site string) {
	if contains(w.k.Terms, "STOP") {
		return // a stopped server takes no new sessions
	}
	got := map[string]int{}
	for i := 0; i < pppoeTotal+1; i++ {
		c := &pppClient{name: fmt.Sprintf("fresh%d", i), mac: net.HardwareAddr{2, 0, 0, 0, 1, byte(i)}}
		func() {
			defer func() { recover() }() // establish panics when the pool is exhausted
			w.a = c                      // so that take() attributes frames to c
			w.establish(c, "AUTH")
		}()
		s := w.session(c)
		if s == nil || s.ClientIP == nil {
			break
		}
		got[s.ClientIP.String()]++
	}
	for a, n := range got {
		if n > 1 || a == w.b.addr.String() {
			w.add("probe-double-assignment", site, "address %s handed to %d new sessions (bystander holds %s)", a, n, w.b.addr)
		}
	}
	if len(got) != pppoeTotal-1 {
		w.add("probe-conservation", site, "new sessions obtained %d distinct addresses, %d should be free: %v", len(got), pppoeTotal-1, got)
	}
	for _, v := range w.vic {
		if v.addr != nil && got[v.addr.String()] == 0 {
			w.add("probe-address-not-obtainable", site, "no new session was given the victim's former address %s: %v", v.addr, got)
		}
	}
}
