//go:build verif

package c16

import (
	"context"
	"fmt"
	"net"
	"sort"
	"strings"
	"sync"
	"sync/atomic"
	"testing/synctest"
	"time"

	"github.com/codelaboratoryltd/bng/pkg/nat"
	"github.com/codelaboratoryltd/bng/pkg/qos"
	bngradius "github.com/codelaboratoryltd/bng/pkg/radius"
	"github.com/codelaboratoryltd/bng/pkg/subscriber"
	"go.uber.org/zap"

	"verif/deepdump"
	"verif/sched"
	"verif/shim/vfs"
)

// subscriber.Manager (REAL) with the collaborators a deployment plugs into its
// interfaces: an Authenticator backed by the real radius.Client (scripted
// server), an AddressAllocator over a small pool that detects double release,
// and an event handler that - on session_activate / session_terminate - drives
// the real nat.Manager, qos.Manager (kernel maps) and radius.AccountingManager.
// RADIUS Disconnect goes through the real radius.CoAProcessor (accounting
// manager + session terminator = Manager.TerminateSession).
//
//	prefixes: CREATED | AUTH | ADDR | ACTIVE
//	paths:    ADMIN (TerminateSession admin_reset) | IDLE (idle timeout + periodic cleanup) |
//	          TIMEOUT (RADIUS Session-Timeout + periodic cleanup; from AUTH on) |
//	          AUTHFAIL (re-authentication rejected, the protocol handler terminates with auth_failed) |
//	          DISCONNECT (CoAProcessor.HandleDisconnect) | STOP (Manager.Stop) |
//	          DISCONNECT[attrs] (the Disconnect-Request naming the session by other attribute sets, through the
//	          real CoAServer attribute parser: disconnect_test.go)
const (
	smIdle    = 2 * time.Minute
	smSessTO  = 7 * time.Minute
	smTotal   = 4
	smCleanup = 30 * time.Second
)

func submgrKind() kindDef {
	return kindDef{
		name: "subscriber-manager",
		// sessions are dual-stack (IPv4 + IPv6 from the allocator). .../fault=release-vN: the allocator fails the
		// release of the victim's IPvN address (error returned, nothing released): every OTHER resource of the
		// session must still be released and the session must still leave the tables
		// .../outage=M: the accounting server is unreachable from the moment the victim's session ends; then the
		// PROCESS ends and a new one starts on the same persistence directory with the server reachable again:
		// M=graceful (AccountingManager.Stop while still unreachable), crash (process dies while still unreachable),
		// heals (reachable again before a graceful shutdown). The accounting clause is judged per session over BOTH
		// process lifetimes; the bystander's session ends with the process and is accounted by orphan recovery.
		// .../acct=coa: the deployment leaves the accounting of a RADIUS-initiated termination to the component that
		// documents it as its job: radius.CoAProcessor with an accounting manager attached issues the Accounting-Stop
		// (cause NAS-Request) before it calls the session terminator, so the session_terminate handler sends the Stop
		// for every reason EXCEPT nas_request. (In the other configurations the handler calls StopSession for every
		// reason and the accounting manager's idempotence hides whether the processor did its part.)
		cfgs: []string{"radius", "radius/fault=release-v4", "radius/fault=release-v6", "radius/outage=graceful", "radius/outage=crash", "radius/outage=heals", "radius/acct=coa"},
		prefixes: func(cfg string) []string {
			if strings.Contains(cfg, "/fault=") || strings.Contains(cfg, "/outage=") || strings.Contains(cfg, "/acct=") {
				return []string{"ACTIVE"}
			}
			// ACTIVE-LATE: active, then silent for longer than the idle timeout, then active again BEFORE the next cleanup tick
			return []string{"CREATED", "AUTH", "ADDR", "ACTIVE", "ACTIVE-LATE"}
		},
		morePrefixes: func(cfg string) []string {
			if strings.Contains(cfg, "/fault=") {
				return []string{"ADDR"}
			}
			if strings.Contains(cfg, "/outage=") || strings.Contains(cfg, "/acct=") {
				return []string{"ACTIVE-LATE"}
			}
			return nil
		},
		paths: func(_, prefix string) []string {
			p := []string{"ADMIN", "IDLE", "AUTHFAIL", "DISCONNECT", "STOP"}
			if prefix != "CREATED" {
				p = append(p, "TIMEOUT") // the Session-Timeout attribute arrives with the Access-Accept
			}
			return p
		},
		// the RADIUS Disconnect naming the session by Framed-IP-Address / Calling-Station-Id / combinations (see
		// disconnect_test.go); by address only once the session has one. quick: the plain configuration; thorough: all.
		forms: func(cfg, prefix string, thorough bool) []string {
			if !thorough && cfg != "radius" && cfg != "radius/acct=coa" {
				return nil
			}
			// thorough: every attribute subset in the plain and the acct=coa configuration, the quick set in the others
			return discForms(prefix != "CREATED" && prefix != "AUTH", thorough && (cfg == "radius" || cfg == "radius/acct=coa"))
		},
		run: runSubMgr,
	}
}

// smPool: dual-stack AddressAllocator (10.0.2.2-.5, 2001:db8:16::2-::5) that records every release of an
// address nobody holds and can fail the release of one address family for one session (fault injection).
type smPool struct {
	mu      sync.Mutex
	free    []string
	owner   map[string]string // ip -> session id
	double  []string
	failFam string   // "v4" / "v6": releases of that family fail ...
	failFor string   // ... for addresses owned by this session id
	faulted []string // addresses whose release was failed by injection (they stay owned)
}

func newSMPool() *smPool {
	p := &smPool{owner: map[string]string{}}
	for i := 0; i < smTotal; i++ {
		p.free = append(p.free, fmt.Sprintf("10.0.2.%d", 2+i))
	}
	for i := 0; i < smTotal; i++ {
		p.free = append(p.free, fmt.Sprintf("2001:db8:16::%d", 2+i))
	}
	return p
}

func fam(ip string) string {
	if strings.Contains(ip, ":") {
		return "v6"
	}
	return "v4"
}

func (p *smPool) alloc(id, family string) string {
	p.mu.Lock()
	defer p.mu.Unlock()
	for ip, o := range p.owner {
		if o == id && fam(ip) == family {
			return ip
		}
	}
	for i, ip := range p.free {
		if fam(ip) == family {
			p.free = append(p.free[:i:i], p.free[i+1:]...)
			p.owner[ip] = id
			return ip
		}
	}
	return ""
}

func (p *smPool) release(ip net.IP) error {
	p.mu.Lock()
	defer p.mu.Unlock()
	k := ip.String()
	o, ok := p.owner[k]
	if !ok {
		p.double = append(p.double, k)
		return fmt.Errorf("%s is not allocated", k)
	}
	if p.failFam == fam(k) && o == p.failFor {
		p.faulted = append(p.faulted, k)
		return fmt.Errorf("allocation store unreachable (injected)")
	}
	delete(p.owner, k)
	p.free = append(p.free, k)
	return nil
}

func (p *smPool) AllocateIPv4(_ context.Context, s *subscriber.Session, _ string) (net.IP, net.IPMask, net.IP, error) {
	ip := p.alloc(s.ID, "v4")
	if ip == "" {
		return nil, nil, nil, fmt.Errorf("pool exhausted")
	}
	return net.ParseIP(ip).To4(), net.CIDRMask(24, 32), net.IPv4(10, 0, 2, 1).To4(), nil
}

func (p *smPool) AllocateIPv6(_ context.Context, s *subscriber.Session, _ string) (net.IP, *net.IPNet, error) {
	ip := p.alloc(s.ID, "v6")
	if ip == "" {
		return nil, nil, fmt.Errorf("IPv6 pool exhausted")
	}
	_, pfx, _ := net.ParseCIDR("2001:db8:16::/64")
	return net.ParseIP(ip), pfx, nil
}

func (p *smPool) ReleaseIPv4(_ context.Context, ip net.IP) error { return p.release(ip) }
func (p *smPool) ReleaseIPv6(_ context.Context, ip net.IP) error { return p.release(ip) }

func (p *smPool) state() (free []string, owner map[string]string, double []string) {
	p.mu.Lock()
	defer p.mu.Unlock()
	owner = map[string]string{}
	for k, v := range p.owner {
		owner[k] = v
	}
	return append([]string(nil), p.free...), owner, append([]string(nil), p.double...)
}

// exempt: the release of ip was failed by injection, so it legitimately stays allocated.
func (p *smPool) exempt(ip string) bool {
	p.mu.Lock()
	defer p.mu.Unlock()
	return contains(p.faulted, ip)
}

// smAuth: Authenticator backed by the real RADIUS client.
type smAuth struct{ rc *bngradius.Client }

func (a *smAuth) Authenticate(ctx context.Context, req *subscriber.SessionRequest) (*subscriber.AuthResult, error) {
	resp, err := a.rc.Authenticate(ctx, &bngradius.AuthRequest{Username: req.Username, Password: "pw", MAC: req.MAC})
	if err != nil {
		return nil, err
	}
	if !resp.Accepted {
		return &subscriber.AuthResult{Success: false, Error: "rejected"}, nil
	}
	r := &subscriber.AuthResult{Success: true, SubscriberID: req.Username, QoSPolicyID: resp.FilterID}
	if req.Username == "victim" {
		r.SessionTimeout = smSessTO
	}
	return r, nil
}

type smSub struct {
	name  string
	mac   net.HardwareAddr
	id    string
	addr  net.IP
	addr6 net.IP
}

type smWorld struct {
	e      *kenv
	k      kase
	mgr    *subscriber.Manager
	pool   *smPool
	acct   *bngradius.AccountingManager
	coa    *bngradius.CoAProcessor
	coaSrv *bngradius.CoAServer // the listener in front of coa (Disconnect-Request forms arrive as attribute bytes)
	natM   *nat.Manager
	qosM   *qos.Manager
	rs     *radiusScript
	mount  string
	fs     *vfs.FS
	outage string // "", "graceful", "crash", "heals"
	// acctByCoA (.../acct=coa): the Stop of a nas_request termination is the CoA processor's, not the event handler's
	acctByCoA bool
	rc        *bngradius.Client
	dead      bool // crash: the file system is frozen for the dead process
	base      mapDump
	a, b      *smSub
	active    map[string]net.IP // session id -> address, as learned at session_activate
	sess      map[string]*subscriber.Session
	terms     map[string]int // session id -> number of session_terminate events
	viols     []viol
}

var smSeq atomic.Int64

func (w *smWorld) add(kind, site, f string, a ...any) {
	w.viols = append(w.viols, viol{kind, site, fmt.Sprintf(f, a...)})
}

func newSMWorld(e *kenv, k kase) *smWorld {
	w := &smWorld{e: e, k: k, active: map[string]net.IP{}, terms: map[string]int{}, sess: map[string]*subscriber.Session{}}
	e.clear()
	w.natM = e.natManager(1)
	w.qosM, _ = e.qosManager()
	w.rs = newRadiusScript()
	rc := w.rs.client()
	w.rc = rc
	w.mount = fmt.Sprintf("/vfs/c16-%d", smSeq.Add(1))
	w.fs = vfs.New()
	w.fs.SetGate(func(op *vfs.Op) (vfs.Effect, error) {
		if w.dead {
			return vfs.None, fmt.Errorf("process crashed (file system frozen for it)")
		}
		return vfs.Full, nil
	})
	vfs.Mount(w.mount, w.fs)
	_, w.outage, _ = strings.Cut(k.Cfg, "/outage=")
	w.acctByCoA = strings.Contains(k.Cfg, "/acct=coa")
	w.acct = w.newAcct()
	w.pool = newSMPool()
	cfg := subscriber.DefaultManagerConfig()
	cfg.CleanupInterval, cfg.DefaultIdleTimeout, cfg.DefaultSessionTimeout = smCleanup, smIdle, 0
	cfg.AuthTimeout, cfg.MaxSessions = 5*time.Second, 100
	w.mgr = subscriber.NewManager(cfg, &smAuth{rc}, w.pool, zap.NewNop())
	w.mgr.OnEvent(w.onEvent)
	w.coa = bngradius.NewCoAProcessor(zap.NewNop())
	w.coa.SetAccountingManager(w.acct)
	info := func(s *subscriber.Session, ok bool) (*bngradius.SessionInfo, bool) {
		if !ok || s == nil {
			return nil, false
		}
		return &bngradius.SessionInfo{SessionID: s.ID, Username: s.Username, MAC: s.MAC, FramedIP: s.IPv4}, true
	}
	w.coa.SetSessionLookup(func(id string) (*bngradius.SessionInfo, bool) { return info(w.mgr.GetSession(id)) })
	w.coa.SetSessionLookupByIP(func(ip net.IP) (*bngradius.SessionInfo, bool) { return info(w.mgr.GetSessionByIP(ip)) })
	w.coa.SetSessionLookupByMAC(func(cs string) (*bngradius.SessionInfo, bool) {
		mac, err := net.ParseMAC(cs)
		if err != nil {
			return nil, false
		}
		return info(w.mgr.GetSessionByMAC(mac))
	})
	w.coaSrv = coaFront(w.coa)
	w.coa.SetSessionTerminator(func(ctx context.Context, id string, _ uint32) error {
		return w.mgr.TerminateSession(ctx, id, subscriber.TerminateNASRequest)
	})
	return w
}

// keepAcct keeps every started AccountingManager reachable for the life of the test binary: Go 1.25.0 ties a
// sync.WaitGroup to the synctest bubble of its first Add by address; managers are therefore never freed (no
// address is reused by a WaitGroup of a later bubble), always stopped (Wait blocks before the workers are done,
// which removes the association), and run with DrainOnShutdown=false (the drain's local WaitGroup would not be).
var (
	keepAcctMu sync.Mutex
	keepAcct   []*bngradius.AccountingManager
)

// newAcct creates the accounting manager of one process life on the world's persistence directory. In the
// outage configurations it is started (retry worker, crash recovery), as a deployment does.
func (w *smWorld) newAcct() *bngradius.AccountingManager {
	cfg := bngradius.AccountingConfig{PersistPath: w.mount + "/acct", InterimEnabled: false}
	if w.outage != "" {
		// MaxRetries: the outage must not outlast the retry budget (giving up after N retries is by design)
		cfg.DrainOnShutdown, cfg.MaxRetries, cfg.QueueSize = false, 1<<20, 64
	}
	am, err := bngradius.NewAccountingManager(w.rc, cfg, zap.NewNop())
	if err != nil {
		panic(err)
	}
	if w.outage != "" {
		keepAcctMu.Lock()
		keepAcct = append(keepAcct, am)
		keepAcctMu.Unlock()
		if err := am.Start(); err != nil {
			panic("harness: accounting manager: " + err.Error())
		}
		synctest.Wait()
	}
	return am
}

func (w *smWorld) close() {
	if w.outage != "" {
		w.acct.Stop() // no-op when already stopped; every goroutine of the manager has ended before the bubble does
		synctest.Wait()
	}
	w.rs.close()
	vfs.Unmount(w.mount)
}

// endOfProcess: the outage tail. The process ends (gracefully or by a crash), a new one starts on the same
// persistence directory with the accounting server reachable, and gets time to recover orphans and drain its
// queue. Then the accounting clause is evaluated per session over both lifetimes.
func (w *smWorld) endOfProcess(site string) {
	settle := func(d time.Duration) { time.Sleep(d); synctest.Wait() }
	switch w.outage {
	case "heals":
		w.rs.set(false, false)
		settle(3 * time.Minute) // the retry worker delivers what it queued
		w.acct.Stop()
		site += ";SHUTDOWN"
	case "graceful":
		w.acct.Stop()
		site += ";SHUTDOWN(unreachable)"
	case "crash":
		// as in C08: the environment is frozen for the dead process, the zombie is ended unobservably
		w.dead = true
		w.rs.set(true, true)
		w.acct.Stop()
		synctest.Wait()
		w.dead = false
		site += ";CRASH(unreachable)"
	}
	synctest.Wait()
	w.rs.set(false, false)
	w.acct = w.newAcct() // next process life: Start() recovers orphans and the persisted queue
	settle(3 * time.Minute)
	site += ";RESTART"
	for _, c := range []*smSub{w.a, w.b} {
		for _, x := range w.rs.stopOracle(c.id) {
			w.add("accounting-stop-count", site, "over both process lifetimes, %s's %s: %s", c.name, x, w.rs.render())
		}
	}
	w.acct.Stop()
	synctest.Wait()
}

// atomicRes runs f (the handler's calls into nat.Manager / qos.Manager) as one atomic step under the cooperative
// scheduler, as they ran before nat and qos were compiled with the scheduler's sync shim: the interleavings INSIDE
// those release primitives are explored by the per-resource scenarios of sched_res_test.go (and, through the
// repository's own call sites, by the dhcp and teardown scenarios); here the schedule budget goes to the manager's
// and the accounting manager's code, whose scheduling points are unchanged.
func atomicRes(f func()) {
	if x := sched.Active(); x != nil {
		x.Sequential(f)
		return
	}
	f()
}

// onEvent: what a deployment hangs on the manager's events.
func (w *smWorld) onEvent(ev *subscriber.SessionEvent) {
	switch ev.Type {
	case subscriber.EventSessionActivate:
		// ActivateSession emits the event while holding the manager's lock: the handler
		// must not call back into the manager, it uses the *Session CreateSession returned
		s, ok := w.sess[ev.SessionID]
		if !ok || s.IPv4 == nil {
			return
		}
		w.active[s.ID] = s.IPv4
		atomicRes(func() {
			if _, err := w.natM.AllocateNAT(s.IPv4); err != nil {
				panic("harness: NAT: " + err.Error())
			}
			if err := w.qosM.SetSubscriberPolicy(s.IPv4, "residential-100mbps"); err != nil {
				panic("harness: QoS: " + err.Error())
			}
		})
		if err := w.acct.StartSession(&bngradius.AccountingSession{SessionID: s.ID, Username: s.Username, MAC: s.MAC, FramedIP: s.IPv4}); err != nil {
			panic("harness: accounting start: " + err.Error())
		}
	case subscriber.EventSessionTerminate:
		w.terms[ev.SessionID]++
		if ip, ok := w.active[ev.SessionID]; ok {
			atomicRes(func() {
				w.natM.DeallocateNAT(ip)
				w.qosM.RemoveSubscriberQoS(ip)
			})
			if !(w.acctByCoA && ev.Reason == string(subscriber.TerminateNASRequest)) {
				w.acct.StopSession(ev.SessionID, bngradius.TerminateCauseUserRequest) // "not found" after a CoA disconnect already stopped it
			}
			delete(w.active, ev.SessionID)
		}
	}
}

func (w *smWorld) establish(c *smSub, prefix string) {
	ctx := context.Background()
	s, err := w.mgr.CreateSession(ctx, &subscriber.SessionRequest{MAC: c.mac, Type: subscriber.SessionTypeIPoE, Username: c.name})
	if err != nil {
		panic("harness: " + err.Error())
	}
	c.id = s.ID
	w.sess[s.ID] = s
	if prefix == "CREATED" {
		return
	}
	if r, err := w.mgr.Authenticate(ctx, c.id); err != nil || !r.Success {
		panic(fmt.Sprintf("harness: authenticate: %v %v", r, err))
	}
	if prefix == "AUTH" {
		return
	}
	if err := w.mgr.AssignAddress(ctx, c.id, "pool4", "pool6"); err != nil {
		panic("harness: " + err.Error())
	}
	c.addr = append(net.IP{}, s.IPv4.To4()...)
	if s.IPv6 != nil {
		c.addr6 = append(net.IP{}, s.IPv6...)
	}
	if prefix == "ADDR" {
		return
	}
	if err := w.mgr.ActivateSession(c.id); err != nil {
		panic("harness: " + err.Error())
	}
}

func runSubMgr(e *kenv, k kase) (res result) {
	w := newSMWorld(e, k)
	defer w.close()
	w.b = &smSub{name: "bystander", mac: net.HardwareAddr{2, 0, 0, 0, 0, 0x0b}}
	w.establish(w.b, "ACTIVE")
	w.base = e.dump()
	w.a = &smSub{name: "victim", mac: net.HardwareAddr{2, 0, 0, 0, 0, 0x0a}}
	w.establish(w.a, strings.TrimSuffix(k.Prefix, "-LATE"))
	if strings.HasSuffix(k.Prefix, "-LATE") {
		// silent for longer than the idle timeout, no cleanup tick in that time; active again; then the tick
		for t := time.Duration(0); t < smIdle+smCleanup/2; t += smCleanup / 2 {
			time.Sleep(smCleanup / 2)
			synctest.Wait()
			w.mgr.UpdateActivity(w.b.id, 1, 1, 1, 1)
		}
		w.mgr.UpdateActivity(w.a.id, 1, 1, 1, 1)
		w.mgr.VerifC16Cleanup()
	}
	if _, f, ok := strings.Cut(k.Cfg, "/fault=release-"); ok {
		w.pool.mu.Lock()
		w.pool.failFam, w.pool.failFor = f, w.a.id
		w.pool.mu.Unlock()
	}
	h := []string{"session-entry"}
	if w.a.addr != nil {
		h = append(h, "address")
	}
	if w.a.addr6 != nil {
		h = append(h, "address6")
	}
	if _, ok := w.active[w.a.id]; ok {
		h = append(h, "nat", "qos", "acct-start")
		if x := e.dump().extraKeys(w.base); len(x) > 0 {
			h = append(h, fmt.Sprintf("kernel:%d-entries", len(x)))
		}
	}
	res.held = strings.Join(h, ",")

	if w.outage != "" {
		w.rs.set(true, false) // the accounting server becomes unreachable now
	}
	var d1 string
	var n1 int
	for i, t := range k.Terms {
		w.terminate(t)
		synctest.Wait()
		site := strings.Join(k.Terms[:i+1], ";")
		if i == 0 {
			w.checkReleased(site)
			if len(w.viols) > 0 {
				res.viols = w.viols
				return
			}
			d1, n1 = w.dump(), len(w.rs.records())
			continue
		}
		if n2 := len(w.rs.records()); n2 != n1 {
			w.add("second-termination-sends-records", site, "%d further RADIUS accounting record(s) after the session had already ended: %s", n2-n1, w.rs.render())
		}
		if d2 := w.dump(); d2 != d1 {
			w.add("second-termination-changes-state", site, "state after %s differs from the state after %s: %s", site, k.Terms[0], diff(d1, d2))
		}
		w.checkReleased(site)
	}
	if len(w.viols) == 0 {
		w.probe(strings.Join(k.Terms, ";"))
	}
	if len(w.viols) == 0 && w.outage != "" {
		w.endOfProcess(strings.Join(k.Terms, ";"))
	}
	res.viols = w.viols
	return
}

func (w *smWorld) terminate(path string) {
	ctx := context.Background()
	switch path {
	case "ADMIN":
		w.mgr.TerminateSession(ctx, w.a.id, subscriber.TerminateAdminReset)
	case "IDLE", "TIMEOUT":
		// time passes in cleanup-interval steps; the bystander stays active, and so does the
		// victim when it is the session timeout that is to strike
		limit := smIdle
		if path == "TIMEOUT" {
			limit = smSessTO
		}
		for t := time.Duration(0); t <= limit+smCleanup; t += smCleanup {
			time.Sleep(smCleanup)
			synctest.Wait()
			w.mgr.UpdateActivity(w.b.id, 1, 1, 1, 1)
			if path == "TIMEOUT" {
				w.mgr.UpdateActivity(w.a.id, 1, 1, 1, 1)
			}
			w.mgr.VerifC16Cleanup() // one tick of the manager's cleanup loop
		}
	case "AUTHFAIL":
		w.rs.mu.Lock()
		w.rs.reject["victim"] = true
		w.rs.mu.Unlock()
		if r, err := w.mgr.Authenticate(ctx, w.a.id); err == nil && r.Success {
			panic("harness: rejected authentication succeeded")
		} else if err != nil && !strings.Contains(err.Error(), "not found") {
			panic("harness: " + err.Error())
		}
		w.mgr.TerminateSession(ctx, w.a.id, subscriber.TerminateAuthFailed)
	case "DISCONNECT":
		w.coa.HandleDisconnect(ctx, &bngradius.DisconnectRequest{SessionID: w.a.id, Username: w.a.name})
	case "STOP":
		w.mgr.Stop()
	default:
		if isDiscForm(path) {
			sendDisconnect(w.coaSrv, path, w.a.id, w.a.name, w.a.addr, w.a.mac)
			return
		}
		panic("unknown termination path " + path)
	}
}

func (w *smWorld) checkReleased(site string) {
	free, owner, double := w.pool.state()
	for _, d := range double {
		w.add("double-release", site, "address %s was released although nobody held it", d)
	}
	for ip, o := range owner {
		if o == w.a.id && !w.pool.exempt(ip) {
			w.add("address-not-released", site, "the pool still has %s allocated to the victim's session", ip)
		}
	}
	for _, a := range []net.IP{w.a.addr, w.a.addr6} {
		if a != nil && !contains(free, a.String()) && owner[a.String()] != w.a.id {
			w.add("address-not-released", site, "%s is neither free nor the victim's (owner %q)", a, owner[a.String()])
		}
	}
	if len(free)+len(owner) != 2*smTotal {
		w.add("pool-conservation", site, "pool accounts for %d addresses, has %d (free=%v owner=%v)", len(free)+len(owner), 2*smTotal, free, owner)
	}
	if _, ok := w.mgr.GetSession(w.a.id); ok {
		w.add("session-still-present", site, "the manager still has the victim's session")
	}
	if _, ok := w.mgr.GetSessionByMAC(w.a.mac); ok {
		w.add("session-still-present", site, "the manager's MAC index still has the victim")
	}
	for _, a := range []net.IP{w.a.addr, w.a.addr6} {
		if a == nil {
			continue
		}
		if s, ok := w.mgr.GetSessionByIP(a); ok && (s == nil || s.ID == w.a.id) {
			w.add("session-still-present", site, "the manager's IP index still has the victim's address %s", a)
		}
	}
	if ns, nm, ni := w.mgr.VerifC16Indexes(); ns != 1 || nm != 1 || ni != 2 {
		w.add("session-still-present", site, "manager tables hold %d sessions / %d MACs / %d addresses, only the bystander should be left", ns, nm, ni)
	}
	if n := w.terms[w.a.id]; n > 1 {
		w.add("terminated-twice", site, "%d session_terminate events for the victim's session", n)
	}
	if w.a.addr != nil && w.natM.GetAllocation(w.a.addr) != nil {
		w.add("nat-not-removed", site, "nat.Manager still has an allocation for %s", w.a.addr)
	}
	if n := w.natM.GetAllocationCount(); n != 1 {
		w.add("nat-not-removed", site, "nat.Manager counts %d allocations, only the bystander's should exist", n)
	}
	if n := w.qosM.GetSubscriberCount(); n != 1 {
		w.add("qos-not-removed", site, "qos.Manager tracks %d subscribers, only the bystander should be left", n)
	}
	cur := w.e.dump()
	for _, x := range cur.extraKeys(w.base) {
		kind := "cache-entry-left"
		if strings.HasPrefix(x, "subscriber_nat") {
			kind = "nat-not-removed"
		} else if strings.HasPrefix(x, "qos_") {
			kind = "qos-not-removed"
		}
		w.add(kind, site, "kernel map entry %s was written for the victim and is still there", x)
	}
	for _, x := range cur.missingKeys(w.base) {
		w.add("bystander-damaged", site, "kernel map entry %s of the bystander disappeared", x)
	}
	if w.outage == "" { // with an outage the Stop cannot arrive yet: judged over both process lifetimes in endOfProcess
		for _, x := range w.rs.stopOracle(w.a.id) {
			w.add("accounting-stop-count", site, "%s: %s", x, w.rs.render())
		}
	}
	if _, ok := w.acct.GetSession(w.a.id); ok {
		w.add("accounting-stop-count", site, "the accounting manager still tracks the victim's session")
	}
	if _, bs := w.rs.count(w.b.id); bs != 0 {
		w.add("bystander-damaged", site, "the bystander got an Accounting-Stop: %s", w.rs.render())
	}
	if s, ok := w.mgr.GetSession(w.b.id); !ok || s.State != subscriber.StateActive || owner[w.b.addr.String()] != w.b.id || owner[w.b.addr6.String()] != w.b.id || w.natM.GetAllocation(w.b.addr) == nil {
		w.add("bystander-damaged", site, "the bystander lost its session, address or NAT allocation")
	}
}

// statistics of subscriber.Manager (read by Stats()); session ids are random UUIDs,
// so tables keyed by them are dumped by size and content through the indexes below
var smSkip = map[string]bool{"Manager.stats": true, "Manager.ctx": true, "Manager.cancel": true, "Manager.handlers": true, "Manager.auth": true, "Manager.allocator": true,
	"Session.BytesIn": true, "Session.BytesOut": true, "Session.PacketsIn": true, "Session.PacketsOut": true}

func (w *smWorld) dump() string {
	o := deepdump.Options{IgnoreTimes: true, SkipFields: smSkip, SkipTypes: skipTypes}
	free, owner, double := w.pool.state()
	var ow []string
	for ip := range owner {
		ow = append(ow, ip)
	}
	sort.Strings(ow)
	var ss []string
	for _, s := range w.mgr.ListSessions() {
		ss = append(ss, s.MAC.String()+"="+deepdump.Dump(s, deepdump.Options{IgnoreTimes: true, SkipFields: map[string]bool{"Session.ID": true, "Session.BytesIn": true, "Session.BytesOut": true, "Session.PacketsIn": true, "Session.PacketsOut": true}}))
	}
	sort.Strings(ss)
	ns, nm, ni := w.mgr.VerifC16Indexes()
	return fmt.Sprintf("MGR sessions=%d macs=%d ips=%d %s\nPOOL free=%v owned=%v double=%v\nEVENTS %d\nACCT %d", ns, nm, ni, strings.Join(ss, ";"), free, ow, double, w.terms[w.a.id], len(w.acct.ListSessions())) +
		"\nNAT " + deepdump.Dump(w.natM, o) + "\nQOS " + deepdump.Dump(w.qosM, o) + "\nMAPS " + w.e.dump().render(w.base)
}

// probe (destructive): new sessions take every free address exactly once, the victim's among them.
func (w *smWorld) probe(site string) {
	if contains(w.k.Terms, "STOP") {
		return
	}
	got := map[string]int{}
	for i := 0; i < smTotal+1; i++ {
		c := &smSub{name: fmt.Sprintf("fresh%d", i), mac: net.HardwareAddr{2, 0, 0, 0, 1, byte(i)}}
		ok := func() (ok bool) {
			defer func() {
				if r := recover(); r != nil {
					ok = false
				}
			}()
			w.establish(c, "ACTIVE")
			return true
		}()
		if !ok {
			break
		}
		got[c.addr.String()]++
		if c.addr6 != nil {
			got[c.addr6.String()]++
		}
	}
	// whatever one family has left after the other ran out is taken from the allocator directly
	for i := 0; i < 2*smTotal; i++ {
		for _, f := range []string{"v4", "v6"} {
			if ip := w.pool.alloc(fmt.Sprintf("drain-%s-%d", f, i), f); ip != "" {
				got[ip]++
			}
		}
	}
	for a, n := range got {
		if n > 1 || a == w.b.addr.String() || a == w.b.addr6.String() {
			w.add("probe-double-assignment", site, "address %s handed to %d new sessions", a, n)
		}
	}
	want := 2 * (smTotal - 1)
	for _, a := range []net.IP{w.a.addr, w.a.addr6} {
		if a == nil {
			continue
		}
		if w.pool.exempt(a.String()) {
			want-- // its release was failed by injection: it legitimately stays allocated
			if got[a.String()] != 0 {
				w.add("probe-double-assignment", site, "%s is still allocated (failed release) and was handed to a new session", a)
			}
		} else if got[a.String()] == 0 {
			w.add("probe-address-not-obtainable", site, "no new session was given the victim's former address %s: %v", a, got)
		}
	}
	if len(got) != want {
		w.add("probe-conservation", site, "new sessions obtained %d distinct addresses, %d should be free: %v", len(got), want, got)
	}
}
