//go:build verif

package c16

import (
	"context"
	"fmt"
	"net"
	"os"
	"sort"
	"strings"
	"time"

	"github.com/codelaboratoryltd/bng/pkg/pppoe"
	bngradius "github.com/codelaboratoryltd/bng/pkg/radius"
	"github.com/codelaboratoryltd/bng/pkg/subscriber"
	"github.com/insomniacslk/dhcp/dhcpv4"
	"go.uber.org/zap"

	"verif/harness/dhcpdrv"
	"verif/report"
	"verif/sched"
	"verif/shim/vfs"
)

// Engine B: pairs of CONCURRENT terminations of one session (plus, in the
// "+alloc" variants, a third thread that takes an address while they run), every
// interleaving at lock operations / go statements / timers of the rewritten
// packages up to the preemption bound. Oracle at the end of every schedule: the
// same O1..O6 as the matrix (exactly one Stop, every resource released exactly
// once, bystander intact) and the destructive probe (no address handed to two
// holders), no panic, no deadlock.
type schedScen struct {
	name  string
	build func(e *kenv, x *sched.Exec) func() []viol // registers threads; returns the end-of-schedule check
}

func schedScenarios(thorough bool) []schedScen {
	s := []schedScen{
		{"teardown TerminateSession||HandleClientPADT", scTeardown(false)},
		{"subscriber TerminateSession||TerminateSession", scSubMgr(false)},
		{"accounting StopSession||StopSession", scAcct},
		{"dhcp RELEASE||expiry-cleanup", scDHCP(false)},
		{"pppoe-server PADT||LCP-Terminate-Request", scPPPoE(false)},
		{"subscriber TerminateSession||TerminateSession +alloc", scSubMgr(true)},
	}
	s = append(s, resScenarios(thorough)...) // per-resource release primitives called by two paths at once (sched_res_test.go)
	if thorough {
		s = append(s,
			schedScen{"teardown TerminateSession||HandleClientPADT +alloc", scTeardown(true)},
			schedScen{"dhcp RELEASE||expiry-cleanup +alloc", scDHCP(true)},
			schedScen{"pppoe-server PADT||LCP-Terminate-Request +alloc", scPPPoE(true)},
		)
	}
	return s
}

// ---- SessionTeardown.cleanup x2

func scTeardown(alloc bool) func(e *kenv, x *sched.Exec) func() []viol {
	return func(e *kenv, x *sched.Exec) func() []viol {
		k := kase{Kind: "pppoe-teardown", Cfg: "radius", Prefix: "EST", Terms: []string{"ADMIN", "PADT"}}
		w := newTDWorld(e, k, 1) // default configuration: one PADT retry after a (virtual) delay
		w.b = &tdSub{name: "bystander", mac: net.HardwareAddr{2, 0, 0, 0, 0, 0x0b}}
		w.establish(w.b, "EST")
		w.base = e.dump()
		w.a = &tdSub{name: "victim", mac: net.HardwareAddr{2, 0, 0, 0, 0, 0x0a}}
		w.establish(w.a, "EST")
		w.vic = append(w.vic, w.a)
		s := w.a.s
		x.Thread("admin", func() { w.td.TerminateSession(s, pppoe.TerminateCauseAdminReset, "admin"); x.Obs("admin done") })
		x.Thread("padt", func() { w.td.HandleClientPADT(s, w.a.mac, s.ID); x.Obs("padt done") })
		var third net.IP
		if alloc {
			x.Thread("newcomer", func() {
				third = w.pool.Allocate("newcomer")
				x.Obs("newcomer=%v", third)
			})
		}
		return func() []viol {
			defer w.rs.close()
			x.Obs("stops=%d", func() int { _, n := w.rs.count(s.SessionID); return n }())
			w.checkReleasedExcept("concurrent", third)
			if len(w.viols) == 0 {
				w.probeWith("concurrent", third)
			}
			return w.viols
		}
	}
}

// checkReleasedExcept: as checkReleased, but the victim's former address may by now belong to the newcomer.
func (w *tdWorld) checkReleasedExcept(site string, newcomer net.IP) {
	if newcomer != nil {
		// the newcomer holds one address: the pool-conservation clause counts it as allocated, nothing else changes
		_, alloc := w.pool.VerifC16State()
		if alloc["newcomer"] != newcomer.String() {
			w.add("probe-double-assignment", site, "the newcomer was handed %s but the pool records %q for it", newcomer, alloc["newcomer"])
		}
		if alloc[w.b.s.SessionID] == newcomer.String() {
			w.add("probe-double-assignment", site, "newcomer and bystander both hold %s", newcomer)
		}
	}
	w.checkReleased(site)
}

func (w *tdWorld) probeWith(site string, newcomer net.IP) {
	if newcomer == nil {
		w.probe(site)
		return
	}
	got := map[string]int{newcomer.String(): 1}
	for i := 0; i < pppoeTotal+1; i++ {
		ip := w.pool.Allocate(fmt.Sprintf("fresh-%d", i))
		if ip == nil {
			break
		}
		got[ip.String()]++
	}
	for a, n := range got {
		if n > 1 || a == w.b.addr.String() {
			w.add("probe-double-assignment", site, "address %s handed to %d holders", a, n)
		}
	}
	if len(got) != pppoeTotal-1 {
		w.add("probe-conservation", site, "%d distinct addresses obtainable next to the bystander's, want %d: %v", len(got), pppoeTotal-1, got)
	}
}

// ---- subscriber.Manager.TerminateSession x2

func scSubMgr(alloc bool) func(e *kenv, x *sched.Exec) func() []viol {
	return func(e *kenv, x *sched.Exec) func() []viol {
		k := kase{Kind: "subscriber-manager", Cfg: "radius", Prefix: "ACTIVE", Terms: []string{"ADMIN", "ADMIN"}}
		w := newSMWorld(e, k)
		w.b = &smSub{name: "bystander", mac: net.HardwareAddr{2, 0, 0, 0, 0, 0x0b}}
		w.establish(w.b, "ACTIVE")
		w.base = e.dump()
		w.a = &smSub{name: "victim", mac: net.HardwareAddr{2, 0, 0, 0, 0, 0x0a}}
		w.establish(w.a, "ACTIVE")
		ctx := context.Background()
		x.Thread("admin", func() {
			err := w.mgr.TerminateSession(ctx, w.a.id, subscriber.TerminateAdminReset)
			x.Obs("admin err=%v", err != nil)
		})
		x.Thread("user", func() {
			err := w.mgr.TerminateSession(ctx, w.a.id, subscriber.TerminateUserRequest)
			x.Obs("user err=%v", err != nil)
		})
		nc := &smSub{name: "newcomer", mac: net.HardwareAddr{2, 0, 0, 0, 0, 0x0c}}
		if alloc {
			x.Thread("newcomer", func() {
				s, err := w.mgr.CreateSession(ctx, &subscriber.SessionRequest{MAC: nc.mac, Type: subscriber.SessionTypeIPoE, Username: nc.name})
				if err != nil {
					x.Obs("newcomer create err")
					return
				}
				nc.id = s.ID
				w.sess[s.ID] = s
				if err := w.mgr.AssignAddress(ctx, s.ID, "pool4", ""); err == nil {
					nc.addr = append(net.IP{}, s.IPv4.To4()...)
				}
				x.Obs("newcomer=%v", nc.addr)
			})
		}
		return func() []viol {
			defer w.close()
			x.Obs("events=%d", w.terms[w.a.id])
			if nc.id != "" {
				// the newcomer must still own what it was given, then leaves again so that the matrix oracle applies
				_, owner, _ := w.pool.state()
				if nc.addr != nil && owner[nc.addr.String()] != nc.id {
					w.add("double-release", "concurrent", "the newcomer was given %s but the pool now records owner %q (released under it)", nc.addr, owner[nc.addr.String()])
				}
				w.mgr.TerminateSession(ctx, nc.id, subscriber.TerminateAdminReset)
			}
			w.checkReleased("concurrent")
			if len(w.viols) == 0 {
				w.probe("concurrent")
			}
			return w.viols
		}
	}
}

// ---- radius.AccountingManager.StopSession x2

func scAcct(e *kenv, x *sched.Exec) func() []viol {
	rs := newRadiusScript()
	mount := fmt.Sprintf("/vfs/c16-%d", smSeq.Add(1))
	vfs.Mount(mount, vfs.New())
	am, err := bngradius.NewAccountingManager(rs.client(), bngradius.AccountingConfig{PersistPath: mount + "/acct"}, zap.NewNop())
	if err != nil {
		panic(err)
	}
	for _, id := range []string{"victim", "bystander"} {
		if err := am.StartSession(&bngradius.AccountingSession{SessionID: id, Username: id, FramedIP: net.IPv4(10, 0, 0, 9)}); err != nil {
			panic(err)
		}
	}
	x.Thread("stopA", func() {
		err := am.StopSession("victim", bngradius.TerminateCauseUserRequest)
		x.Obs("A err=%v", err != nil)
	})
	x.Thread("stopB", func() {
		err := am.StopSession("victim", bngradius.TerminateCauseNASRequest)
		x.Obs("B err=%v", err != nil)
	})
	return func() []viol {
		defer rs.close()
		defer vfs.Unmount(mount)
		var vs []viol
		st, sp := rs.count("victim")
		x.Obs("stops=%d", sp)
		if st != 1 || sp != 1 {
			vs = append(vs, viol{"accounting-stop-count", "concurrent", fmt.Sprintf("%d Accounting-Start and %d Accounting-Stop for the session (want exactly one Stop): %s", st, sp, rs.render())})
		}
		if _, ok := am.GetSession("victim"); ok {
			vs = append(vs, viol{"accounting-stop-count", "concurrent", "the accounting manager still tracks the stopped session"})
		}
		if _, ok := am.GetSession("bystander"); !ok {
			vs = append(vs, viol{"bystander-damaged", "concurrent", "the other session is no longer tracked"})
		}
		if _, bs := rs.count("bystander"); bs != 0 {
			vs = append(vs, viol{"bystander-damaged", "concurrent", "the other session got a Stop"})
		}
		return vs
	}
}

// ---- DHCP RELEASE || expiry cleanup

func scDHCP(alloc bool) func(e *kenv, x *sched.Exec) func() []viol {
	return func(e *kenv, x *sched.Exec) func() []viol {
		// the dhcp package is compiled with virtual time: the clock is x.Now
		w := newDHCPWorld(e, "radius-acct", true, nil, func() time.Time { return x.Now }, nil)
		w.k = kase{Kind: "dhcp4-relayed", Cfg: "radius-acct", Prefix: "DR", Terms: []string{"RELEASE", "EXPIRY"}}
		w.vAddr, _ = w.step(w.v, 'D', nil)
		if a, mt := w.step(w.v, 'R', w.vAddr); mt != dhcpv4.MessageTypeAck || !a.Equal(w.vAddr) {
			panic("harness: victim not established")
		}
		w.vLeased = true
		// only the victim's lease runs out: the bystander renews half-way
		x.Now = x.Now.Add(dhcpLease / 2)
		if _, mt := w.step(w.b, 'N', w.bAddr); mt != dhcpv4.MessageTypeAck {
			panic("harness: bystander renewal not acknowledged")
		}
		x.Now = x.Now.Add(dhcpLease/2 + time.Second)
		x.Thread("release", func() {
			w.d.Send(dhcpdrv.Msg{Type: dhcpv4.MessageTypeRelease, CHAddr: w.v.mac, CIAddr: w.vAddr, ServerID: w.d.ServerIP()})
			x.Obs("release done")
		})
		x.Thread("cleanup", func() { w.d.Cleanup(); x.Obs("cleanup done") })
		nc := dhcpClient{name: "newcomer", mac: net.HardwareAddr{2, 0, 0, 0, 0, 0x0c}}
		var ncAddr net.IP
		if alloc {
			x.Thread("newcomer", func() {
				for _, r := range w.d.Send(dhcpdrv.Msg{Type: dhcpv4.MessageTypeDiscover, CHAddr: nc.mac}) {
					if r.Type == dhcpv4.MessageTypeOffer {
						ncAddr = r.YIAddr.To4()
					}
				}
				x.Obs("newcomer=%v", ncAddr)
			})
		}
		return func() []viol {
			defer w.close()
			_, stops := w.rs.count(w.v.mac.String())
			x.Obs("stops=%d", stops)
			if ncAddr != nil {
				// the newcomer's reservation must have survived both terminations
				st := w.d.Pool.VerifState()
				if st.Allocated[nc.mac.String()] != ncAddr.String() {
					w.add("double-release", "concurrent", "the newcomer was offered %s but the pool now records %q for it (released under it)", ncAddr, st.Allocated[nc.mac.String()])
				}
				if ncAddr.Equal(w.bAddr) {
					w.add("probe-double-assignment", "concurrent", "the newcomer was offered the bystander's address")
				}
			}
			w.checkReleased("concurrent")
			if len(w.viols) == 0 && ncAddr == nil {
				w.probe("concurrent")
			}
			return w.viols
		}
	}
}

// ---- pppoe.Server PADT || LCP Terminate-Request

func scPPPoE(alloc bool) func(e *kenv, x *sched.Exec) func() []viol {
	return func(_ *kenv, x *sched.Exec) func() []viol {
		k := kase{Kind: "pppoe-server", Cfg: "no-radius", Prefix: "IPCP", Terms: []string{"PADT", "LCP-TR"}}
		w := newPPPWorld(k, false)
		w.b = &pppClient{name: "bystander", mac: net.HardwareAddr{2, 0, 0, 0, 0, 0x0b}}
		w.establish(w.b, "IPCP")
		w.a = &pppClient{name: "victim", mac: net.HardwareAddr{2, 0, 0, 0, 0, 0x0a}}
		w.establish(w.a, "IPCP")
		w.noteVictim()
		a := w.a
		x.Thread("padt", func() { w.srv.VerifC04Discovery(a.mac, pdisc(pppoe.CodePADT, a.sid)); x.Obs("padt done") })
		x.Thread("lcp-tr", func() {
			w.srv.VerifC04Session(a.mac, psess(a.sid, pppoe.ProtocolLCP, pcp(5, 99, nil)))
			x.Obs("lcp-tr done")
		})
		var ncAddr string
		if alloc {
			x.Thread("newcomer", func() {
				if ip := w.srv.VerifC16Pool().Allocate("newcomer"); ip != nil {
					ncAddr = ip.String()
				}
				x.Obs("newcomer=%s", ncAddr)
			})
		}
		return func() []viol {
			defer w.close()
			if ncAddr != "" {
				_, al := w.srv.VerifC16Pool().VerifC16State()
				if al["newcomer"] != ncAddr {
					w.add("double-release", "concurrent", "the newcomer was given %s but the pool records %q", ncAddr, al["newcomer"])
				}
				w.srv.VerifC16Pool().Release("newcomer")
			}
			w.checkReleased("concurrent", "LCP-TR")
			if len(w.viols) == 0 {
				w.probe("concurrent")
			}
			return w.viols
		}
	}
}

// ---------------------------------------------------------------- driver

type schedData struct {
	viols []viol
	ran   bool
}

// The end-of-schedule oracle (which delivers further packets for its probes, and
// so spawns goroutines in the code under test) runs INSIDE the controlled
// execution, as an idle thread that is scheduled once nothing else can run, with
// scheduling switched off: deterministic, no stray goroutine survives into the
// next execution.
func (sc schedScen) scenario(e *kenv) *sched.Scenario {
	return &sched.Scenario{
		Name: sc.name,
		Setup: func(x *sched.Exec) {
			d := &schedData{}
			x.Data = d
			var check func() []viol
			// the sequential prefix (establishment) spawns goroutines (accounting records, LCP negotiation): scheduling off
			x.Sequential(func() { check = sc.build(e, x) })
			x.IdleThread("oracle", func() { x.Sequential(func() { d.viols = check(); d.ran = true }) })
		},
		Check: func(x *sched.Exec) []sched.Viol {
			d := x.Data.(*schedData)
			if !d.ran {
				return []sched.Viol{{Kind: "harness-oracle-not-run", Site: "sched", Detail: "the oracle thread did not run"}}
			}
			var out []sched.Viol
			for _, v := range d.viols {
				out = append(out, sched.Viol{Kind: v.Kind, Site: v.Site, Detail: v.Detail})
			}
			return out
		},
	}
}

func runSched(run *report.Run, e *kenv) {
	bound := 2
	budget := 25 * time.Second
	if run.Thorough() {
		bound, budget = 3, 10*time.Minute // per scenario; dhcp RELEASE||expiry +alloc needs ~330k executions at bound 3 since nat and qos locks are scheduling points too
	}
	for _, sc := range schedScenarios(run.Thorough()) {
		name := "sched:" + sc.name
		if !run.WantPart(name) {
			continue
		}
		if os.Getenv("C16_DEBUG") != "" {
			for i := 0; i < 4; i++ {
				x, vs := runAndCheck(sc, e, nil)
				fmt.Printf("DEBUG %s run %d: log=%v viols=%d\n  schedule=%v\n", name, i, x.Log, len(vs), x.Schedule())
			}
			continue
		}
		ex := &sched.Explorer{Bound: bound, Budget: budget}
		res := ex.Explore(sc.scenario(e))
		run.AddPart(report.Part{Name: name, Engine: "B:sched-dfs", Bound: fmt.Sprintf("preemptions<=%d completed=%d maxpoints=%d", bound, res.Bound, res.MaxPoints),
			Executions: res.Executions, Outcomes: int64(len(res.Outcomes)), Exhaustive: res.Exhaustive, States: int64(len(res.Outcomes))})
		for _, f := range res.Failures {
			x1, _ := runAndCheck(sc, e, f.Choices)
			x2, _ := runAndCheck(sc, e, f.Choices)
			if strings.Join(x1.Log, "|") != strings.Join(x2.Log, "|") || strings.Join(x1.Log, "|") != strings.Join(f.Log, "|") {
				run.HarnessError("non-deterministic replay of schedule in " + name + ": explorer [" + strings.Join(f.Log, "|") + "] replay1 [" + strings.Join(x1.Log, "|") + "] replay2 [" + strings.Join(x2.Log, "|") + "] violations " + fmt.Sprint(f.Viols[0]) + fmt.Sprintf("\n choices %v\n explorer schedule %v\n replay schedule %v", f.Choices, f.Schedule, x1.Schedule()))
				continue
			}
			for _, v := range f.Viols {
				rv := report.Violation{Part: name, Kind: v.Kind, Site: v.Site, Detail: v.Detail + " | observations: " + strings.Join(f.Log, " "), Trace: f.Schedule,
					Extra: map[string]any{"choices": f.Choices}}
				classify(&rv)
				run.Violation(rv)
			}
		}
		if len(res.Failures) == 0 {
			var o []string
			for k := range res.Outcomes {
				o = append(o, k)
			}
			sort.Strings(o)
			if len(o) > 6 {
				o = o[:6]
			}
			run.Sample(map[string]any{"part": name, "executions": res.Executions, "outcomes": o})
		}
	}
}

// runAndCheck re-executes one schedule and evaluates the end-of-schedule oracle (as the explorer does).
func runAndCheck(sc schedScen, e *kenv, choices []int) (*sched.Exec, []viol) {
	x := sched.RunOnce(sc.scenario(e), choices)
	switch {
	case x.PanicText != "":
		return x, []viol{{Kind: "panic", Site: "thread", Detail: x.PanicText}}
	case x.Deadlock:
		return x, []viol{{Kind: "deadlock", Site: "sched", Detail: strings.Join(x.Schedule(), ",")}}
	case x.Livelock:
		return x, []viol{{Kind: "livelock", Site: "sched", Detail: "step horizon exceeded"}}
	}
	d := x.Data.(*schedData)
	if !d.ran {
		return x, []viol{{Kind: "harness-oracle-not-run", Site: "sched", Detail: "the oracle thread did not run"}}
	}
	return x, d.viols
}

func replaySched(e *kenv, v report.Violation) int {
	for _, sc := range schedScenarios(true) {
		if "sched:"+sc.name != v.Part {
			continue
		}
		var choices []int
		if cs, ok := v.Extra["choices"].([]any); ok {
			for _, c := range cs {
				choices = append(choices, int(c.(float64)))
			}
		}
		x, vs := runAndCheck(sc, e, choices)
		for _, f := range vs {
			fmt.Printf("VIOLATION property=C16 replay=%s\n  kind=%s site=%s detail=%s\n  observations: %s\n", *report.FlagReplay, f.Kind, f.Site, f.Detail, strings.Join(x.Log, " "))
		}
		if len(vs) > 0 {
			return 1
		}
		fmt.Println("replay: no violation")
		return 0
	}
	fmt.Println("HARNESS-ERROR unknown scenario", v.Part)
	return 2
}
