//go:build verif

package c16

import (
	"bytes"
	"context"
	"encoding/binary"
	"encoding/hex"
	"errors"
	"fmt"
	"net"
	"path/filepath"
	"sort"
	"strings"
	"sync"
	"sync/atomic"

	cebpf "github.com/cilium/ebpf"
	"github.com/codelaboratoryltd/bng/pkg/ebpf"
	"github.com/codelaboratoryltd/bng/pkg/nat"
	"github.com/codelaboratoryltd/bng/pkg/qos"
	bngradius "github.com/codelaboratoryltd/bng/pkg/radius"
	"go.uber.org/zap"
	"layeh.com/radius"
	"layeh.com/radius/rfc2865"
	"layeh.com/radius/rfc2866"

	"verif/nativebpf"
	"verif/shim/vradius"
)

// ---------------------------------------------------------------- kernel side

// kenv is one independent set of REAL kernel maps (plus the loaded DHCP fast
// path program that reads them). One per worker; cleared between cases.
type kenv struct {
	k   *nativebpf.Kernel     // dhcp_fastpath object: maps + program (nil: kernel refused BPF)
	nat map[string]*cebpf.Map // subscriber_nat (created from nat44.o's map spec)
	qos map[string]*cebpf.Map // qos_egress, qos_ingress (from qos_ratelimit.o's map specs)
	all map[string]*cebpf.Map // every hash map the oracle dumps, by C name
}

// the hash maps in which a subscriber can leave something behind
var dhcpMapNames = []string{"subscriber_pools", "vlan_subscriber_pools", "circuit_id_map", "circuit_id_subscribers"}
var natMapNames = []string{"subscriber_nat"}
var qosMapNames = []string{"qos_egress", "qos_ingress"}

func mapsFromObject(dir, obj string, names []string) (map[string]*cebpf.Map, error) {
	spec, err := cebpf.LoadCollectionSpec(filepath.Join(dir, obj+".o"))
	if err != nil {
		return nil, err
	}
	out := map[string]*cebpf.Map{}
	for _, n := range names {
		ms := spec.Maps[n]
		if ms == nil {
			return nil, fmt.Errorf("%s.o declares no map %s", obj, n)
		}
		ms = ms.Copy()
		if ms.MaxEntries > 256 {
			ms.MaxEntries = 256
		}
		m, err := cebpf.NewMap(ms)
		if err != nil {
			return nil, fmt.Errorf("create map %s: %w", n, err)
		}
		out[n] = m
	}
	return out, nil
}

func newKenv(dir string) (*kenv, error) {
	k, err := nativebpf.KernelLoad(dir, "dhcp_fastpath", 256)
	if err != nil {
		return nil, err
	}
	e := &kenv{k: k, all: map[string]*cebpf.Map{}}
	if e.nat, err = mapsFromObject(dir, "nat44", natMapNames); err != nil {
		return nil, err
	}
	if e.qos, err = mapsFromObject(dir, "qos_ratelimit", qosMapNames); err != nil {
		return nil, err
	}
	for _, n := range dhcpMapNames {
		if m := k.Coll.Maps[n]; m != nil {
			e.all[n] = m
		} else {
			return nil, fmt.Errorf("dhcp_fastpath.o declares no map %s", n)
		}
	}
	for n, m := range e.nat {
		e.all[n] = m
	}
	for n, m := range e.qos {
		e.all[n] = m
	}
	return e, nil
}

func (e *kenv) close() {
	if e == nil || e.k == nil {
		return
	}
	e.k.Close()
	for _, m := range e.nat {
		m.Close()
	}
	for _, m := range e.qos {
		m.Close()
	}
}

func (e *kenv) has() bool { return e != nil && e.k != nil }

func clearHash(m *cebpf.Map) {
	var keys [][]byte
	it := m.Iterate()
	key := make([]byte, m.KeySize())
	val := make([]byte, m.ValueSize())
	for it.Next(&key, &val) {
		keys = append(keys, append([]byte{}, key...))
	}
	for _, k := range keys {
		m.Delete(k)
	}
}

func (e *kenv) clear() {
	if !e.has() {
		return
	}
	for _, n := range []string{"subscriber_pools", "vlan_subscriber_pools", "ip_pools", "server_config", "circuit_id_map", "circuit_id_subscribers"} {
		e.k.ClearMap(n)
	}
	for _, m := range e.nat {
		clearHash(m)
	}
	for _, m := range e.qos {
		clearHash(m)
	}
}

// mapDump: C map name -> hex key -> hex value, of every map a subscriber can leave an entry in.
type mapDump map[string]map[string]string

func (e *kenv) dump() mapDump {
	d := mapDump{}
	if !e.has() {
		return d
	}
	for n, m := range e.all {
		d[n] = map[string]string{}
		it := m.Iterate()
		key := make([]byte, m.KeySize())
		val := make([]byte, m.ValueSize())
		for it.Next(&key, &val) {
			d[n][hex.EncodeToString(key)] = hex.EncodeToString(val)
		}
	}
	return d
}

// extraKeys lists "map[key]" for every key of d that base does not have.
func (d mapDump) extraKeys(base mapDump) []string {
	var out []string
	for n, kv := range d {
		for k := range kv {
			if _, ok := base[n][k]; !ok {
				out = append(out, n+"["+k+"]")
			}
		}
	}
	sort.Strings(out)
	return out
}

// missingKeys lists "map[key]" for every key of base that d lost.
func (d mapDump) missingKeys(base mapDump) []string { return base.extraKeys(d) }

// render: keys of every map; values only for keys outside base (the bystander's
// values may legitimately change when it renews its lease).
func (d mapDump) render(base mapDump) string {
	var names []string
	for n := range d {
		names = append(names, n)
	}
	sort.Strings(names)
	var sb strings.Builder
	for _, n := range names {
		var ks []string
		for k := range d[n] {
			ks = append(ks, k)
		}
		sort.Strings(ks)
		sb.WriteString(n + "{")
		for _, k := range ks {
			sb.WriteString(k)
			if _, ok := base[n][k]; !ok {
				sb.WriteString("=" + d[n][k])
			}
			sb.WriteString(",")
		}
		sb.WriteString("}")
	}
	return sb.String()
}

// loader returns an ebpf.Loader writing into this environment's kernel maps
// (or an unloaded one when the kernel refuses BPF).
func (e *kenv) loader() *ebpf.Loader {
	l, err := ebpf.NewLoader("lo", zap.NewNop())
	if err != nil {
		panic(err)
	}
	if e.has() {
		l.VerifSetMaps(e.k.Coll.Maps)
	}
	return l
}

func (e *kenv) natManager(publics int) *nat.Manager {
	m, err := nat.NewManager(nat.ManagerConfig{Interface: "lo", PortsPerSubscriber: 1024, PortRangeStart: 1024, PortRangeEnd: 65535}, zap.NewNop())
	if err != nil {
		panic(err)
	}
	if e.has() {
		m.VerifSetMaps(e.nat)
	}
	for i := 0; i < publics; i++ {
		if err := m.AddPublicIP(net.IPv4(203, 0, 113, byte(1+i))); err != nil {
			panic(err)
		}
	}
	return m
}

func (e *kenv) qosManager() (*qos.Manager, *bngradius.PolicyManager) {
	pm := bngradius.NewPolicyManager()
	pm.LoadDefaultPolicies()
	m, err := qos.NewManager(qos.ManagerConfig{Interface: "lo"}, pm, zap.NewNop())
	if err != nil {
		panic(err)
	}
	if e.has() {
		m.VerifSetMaps(e.qos)
	}
	return m, pm
}

// ---------------------------------------------------------------- scripted RADIUS

type acctRec struct {
	Typ   int // 1 start, 2 stop, 3 interim
	Sess  string
	User  string
	MAC   string
	IP    string
	Cause uint32
}

func (r acctRec) String() string {
	t := map[int]string{1: "Start", 2: "Stop", 3: "Interim"}[r.Typ]
	return fmt.Sprintf("%s(%s user=%s ip=%s cause=%d)", t, r.Sess, r.User, r.IP, r.Cause)
}

// radiusScript is one in-memory RADIUS server (authentication + accounting),
// registered under its own host name so that parallel cases stay independent.
type radiusScript struct {
	host   string
	mu     sync.Mutex
	recs   []acctRec
	auths  int
	reject map[string]bool // user names / passwords to reject
	// fault injection: Accounting-Stop requests of these user names are received but answered with an
	// error (server failure); the attempts are kept in failed, not in recs
	failStop map[string]bool
	failed   []acctRec
	// down: the accounting server is unreachable (requests are neither recorded nor answered);
	// frozen: the client process is dead (crash) - nothing it still tries reaches the server
	down, frozen bool
}

var radiusSeq atomic.Int64

const radiusSecret = "c16-secret"

func newRadiusScript() *radiusScript {
	rs := &radiusScript{host: fmt.Sprintf("c16-%d.radius.test", radiusSeq.Add(1)), reject: map[string]bool{}, failStop: map[string]bool{}}
	vradius.Register(rs.host+":1812", rs.handle)
	vradius.Register(rs.host+":1813", rs.handle)
	return rs
}

func (rs *radiusScript) close() {
	vradius.Unregister(rs.host + ":1812")
	vradius.Unregister(rs.host + ":1813")
}

func (rs *radiusScript) client() *bngradius.Client {
	c, err := bngradius.NewClient(bngradius.ClientConfig{Servers: []bngradius.ServerConfig{{Host: rs.host, Port: 1812, Secret: radiusSecret}}, NASID: "bng-verif"}, zap.NewNop())
	if err != nil {
		panic(err)
	}
	return c
}

func (rs *radiusScript) handle(ctx context.Context, p *radius.Packet, addr string) (*radius.Packet, error) {
	rs.mu.Lock()
	defer rs.mu.Unlock()
	switch p.Code {
	case radius.CodeAccessRequest:
		rs.auths++
		user := rfc2865.UserName_GetString(p)
		pw, _ := rfc2865.UserPassword_LookupString(p)
		if rs.reject[user] || pw == "bad" {
			return p.Response(radius.CodeAccessReject), nil
		}
		resp := p.Response(radius.CodeAccessAccept)
		rfc2865.FilterID_SetString(resp, "residential-100mbps")
		rfc2865.Class_Set(resp, []byte("class-"+user))
		return resp, nil
	case radius.CodeAccountingRequest:
		if rs.down || rs.frozen {
			return nil, fmt.Errorf("scripted RADIUS: accounting server unreachable")
		}
		r := acctRec{Typ: int(rfc2866.AcctStatusType_Get(p)), Sess: rfc2866.AcctSessionID_GetString(p), User: rfc2865.UserName_GetString(p),
			MAC: rfc2865.CallingStationID_GetString(p), Cause: uint32(rfc2866.AcctTerminateCause_Get(p))}
		if ip := rfc2865.FramedIPAddress_Get(p); ip != nil {
			r.IP = ip.String()
		}
		if r.Typ == 2 && rs.failStop[r.User] {
			rs.failed = append(rs.failed, r)
			return nil, fmt.Errorf("scripted RADIUS: accounting server failure (injected)")
		}
		rs.recs = append(rs.recs, r)
		return p.Response(radius.CodeAccountingResponse), nil
	}
	return nil, fmt.Errorf("scripted RADIUS: unexpected code %v", p.Code)
}

// nAttempts: accounting requests received, delivered or failed by injection.
func (rs *radiusScript) nAttempts() int {
	rs.mu.Lock()
	defer rs.mu.Unlock()
	return len(rs.recs) + len(rs.failed)
}

func (rs *radiusScript) set(down, frozen bool) {
	rs.mu.Lock()
	rs.down, rs.frozen = down, frozen
	rs.mu.Unlock()
}

func (rs *radiusScript) records() []acctRec {
	rs.mu.Lock()
	defer rs.mu.Unlock()
	return append([]acctRec(nil), rs.recs...)
}

// count returns (#Start, #Stop) of the records whose user name or session id is who.
func (rs *radiusScript) count(who string) (starts, stops int) {
	for _, r := range rs.records() {
		if r.User != who && r.Sess != who {
			continue
		}
		switch r.Typ {
		case 1:
			starts++
		case 2:
			stops++
		}
	}
	return
}

// stopOracle is clause O4 evaluated PER ACCOUNTING SESSION: every Acct-Session-Id of user who that got a
// Start must have got exactly one Stop (with an injected Stop failure: exactly one failed attempt and no
// delivered Stop), and no session may get a Stop without a Start. It returns complaints.
func (rs *radiusScript) stopOracle(who string) []string {
	rs.mu.Lock()
	defer rs.mu.Unlock()
	type c struct {
		starts, stops, failed int
		inject                bool // the session's user is one whose Stops are failed by injection
	}
	per := map[string]*c{}
	var order []string
	get := func(id string) *c {
		if per[id] == nil {
			per[id] = &c{}
			order = append(order, id)
		}
		return per[id]
	}
	for _, r := range rs.recs {
		if r.User != who && r.Sess != who {
			continue
		}
		if rs.failStop[r.User] {
			get(r.Sess).inject = true
		}
		switch r.Typ {
		case 1:
			get(r.Sess).starts++
		case 2:
			get(r.Sess).stops++
		}
	}
	for _, r := range rs.failed {
		if r.User == who || r.Sess == who {
			get(r.Sess).failed++
			get(r.Sess).inject = true
		}
	}
	var out []string
	for _, id := range order {
		x := per[id]
		switch {
		case x.inject:
			if x.starts > 0 && (x.failed != 1 || x.stops != 0) || x.starts == 0 && x.failed+x.stops > 0 {
				out = append(out, fmt.Sprintf("session %s: %d Start, %d Stop delivered, %d Stop attempt(s) failed by injection (want exactly one attempt iff a Start)", id, x.starts, x.stops, x.failed))
			}
		case x.starts > 0 && x.stops != 1:
			out = append(out, fmt.Sprintf("session %s got %d Accounting-Start and %d Accounting-Stop (want exactly 1 Stop)", id, x.starts, x.stops))
		case x.starts == 0 && x.stops > 0:
			out = append(out, fmt.Sprintf("session %s got %d Accounting-Stop without a Start", id, x.stops))
		}
	}
	return out
}

func (rs *radiusScript) render() string {
	var s []string
	for _, r := range rs.records() {
		s = append(s, r.String())
	}
	return strings.Join(s, " ")
}

// ---------------------------------------------------------------- fast-path probe frames

var srvMAC = net.HardwareAddr{0x02, 0xaa, 0xbb, 0xcc, 0xdd, 0xee}

type dhcpClient struct {
	name    string
	mac     net.HardwareAddr
	giaddr  net.IP
	circuit string
}

// fpPayload builds a DISCOVER (or REQUEST for own, with server id sid) of c in
// one of two option layouts (message type first with option 82 at the fixed
// position the fast path parses / code order as client libraries emit).
func fpPayload(c dhcpClient, request bool, own, sid net.IP, layout string) []byte {
	b := make([]byte, 240)
	b[0], b[1], b[2] = 1, 1, 6
	binary.BigEndian.PutUint32(b[4:], 0x1234abcd)
	if c.giaddr != nil {
		copy(b[24:], c.giaddr.To4())
	}
	copy(b[28:], c.mac)
	copy(b[236:], []byte{0x63, 0x82, 0x53, 0x63})
	mt := []byte{53, 1, 1}
	var rest []byte
	if request {
		mt[2] = 3
		if own != nil {
			rest = append(rest, 50, 4)
			rest = append(rest, own.To4()...)
		}
	}
	var sidOpt []byte
	if request && sid != nil {
		sidOpt = append([]byte{54, 4}, sid.To4()...)
	}
	var o82 []byte
	if c.circuit != "" {
		o82 = append(o82, 82, byte(2+len(c.circuit)+4), 1, byte(len(c.circuit)))
		o82 = append(o82, c.circuit...)
		o82 = append(o82, 2, 2, 'r', 'i')
	}
	var opts []byte
	if layout == "53first" {
		opts = append(append(append(append(opts, mt...), o82...), rest...), sidOpt...)
	} else {
		opts = append(append(append(append(opts, rest...), mt...), sidOpt...), o82...)
	}
	opts = append(opts, 255)
	for len(opts) < 80 {
		opts = append(opts, 0)
	}
	return append(b, opts...)
}

func fpFrame(c dhcpClient, payload []byte) []byte {
	f := append([]byte{}, 0xff, 0xff, 0xff, 0xff, 0xff, 0xff)
	src := c.mac
	sip, dip := net.IPv4zero.To4(), net.IPv4bcast.To4()
	sp := uint16(68)
	if c.giaddr != nil {
		src = net.HardwareAddr{0x02, 0x99, 0, 0, 0, 0x01} // relay agent
		sip = c.giaddr.To4()
		dip = net.IPv4(10, 0, 1, 1).To4()
		sp = 67
	}
	f = append(f, src...)
	f = append(f, 0x08, 0x00)
	ip := make([]byte, 20)
	ip[0] = 0x45
	binary.BigEndian.PutUint16(ip[2:], uint16(20+8+len(payload)))
	ip[8], ip[9] = 64, 17
	copy(ip[12:], sip)
	copy(ip[16:], dip)
	var s uint32
	for i := 0; i+1 < 20; i += 2 {
		if i != 10 {
			s += uint32(binary.BigEndian.Uint16(ip[i:]))
		}
	}
	for s>>16 != 0 {
		s = (s & 0xffff) + (s >> 16)
	}
	binary.BigEndian.PutUint16(ip[10:], ^uint16(s))
	f = append(f, ip...)
	u := make([]byte, 8)
	binary.BigEndian.PutUint16(u[0:], sp)
	binary.BigEndian.PutUint16(u[2:], 67)
	binary.BigEndian.PutUint16(u[4:], uint16(8+len(payload)))
	f = append(f, u...)
	return append(f, payload...)
}

// fastPathAnswers runs the real fast-path bytecode in the kernel on DISCOVER and
// REQUEST frames of c (both option layouts; for a relayed client additionally the
// same messages sent directly, i.e. a lookup by MAC only) and returns the names
// of the frames that were answered (XDP_TX).
func (e *kenv) fastPathAnswers(c dhcpClient, own, sid net.IP) ([]string, error) {
	if !e.has() {
		return nil, nil
	}
	var tx []string
	variants := []dhcpClient{c}
	if c.giaddr != nil {
		variants = append(variants, dhcpClient{name: c.name + "(direct)", mac: c.mac})
	}
	for _, vc := range variants {
		for _, lay := range []string{"53first", "lib"} {
			for _, req := range []bool{false, true} {
				if req && own == nil {
					continue
				}
				in := fpFrame(vc, fpPayload(vc, req, own, sid, lay))
				verdict, out, err := e.k.Run("dhcp_fastpath_prog", in)
				if err != nil {
					return tx, err
				}
				if verdict == nativebpf.XDP_TX {
					n := "DISCOVER"
					if req {
						n = "REQUEST"
					}
					yi := ""
					if len(out) >= 14+20+8+20 {
						yi = " yiaddr-bytes=" + hex.EncodeToString(out[14+20+8+16:14+20+8+20])
					}
					tx = append(tx, fmt.Sprintf("%s/%s from %s%s", n, lay, vc.name, yi))
				} else if !bytes.Equal(in, out) {
					// not this property's business (C03), ignore
				}
			}
		}
	}
	return tx, nil
}

var errNoBPF = errors.New("no BPF")
