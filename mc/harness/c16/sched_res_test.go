//go:build verif

package c16

import (
	"fmt"
	"net"
	"sort"
	"strings"
	"time"

	"github.com/codelaboratoryltd/bng/pkg/dhcp"
	"github.com/codelaboratoryltd/bng/pkg/nat"
	"github.com/codelaboratoryltd/bng/pkg/pppoe"
	"go.uber.org/zap"

	"verif/deepdump"
	"verif/sched"
)

// Engine B, per-resource: ONE session's resource is released by two termination
// paths at once - two concurrent calls of the release primitive every termination
// path ends in (nat.Manager.DeallocateNAT, qos.Manager.RemoveSubscriberQoS,
// pppoe.IPPool.Release, dhcp.Pool.Release; radius.AccountingManager.StopSession is
// scAcct) - optionally while a newcomer takes a resource of the same kind. The
// packages are compiled with the scheduler's sync shim (REWRITE), so every lock
// operation inside the primitives is a scheduling point.
//
// Oracle ("ending a session ... by two paths at once has no further effect"):
//
//	R1 without a newcomer: the component's state (deep dump + kernel maps) after the two
//	   concurrent releases EQUALS the state of an identically built instance after ONE release;
//	R2 the victim's resource is gone exactly once: manager API, counts, per-public-IP subscriber
//	   counts / free lists, kernel map key sets; the bystander's (and the newcomer's) are untouched;
//	R3 destructive probe: fresh subscribers take what is free until refusal - exactly
//	   capacity-minus-live are admitted and nothing they get overlaps what a live holder has.
type resInst struct {
	release func()                     // one termination path's release of the victim's resource
	alloc   func() string              // the newcomer takes a resource; returns a description
	dump    func() string              // canonical state of the component
	check   func(newcomer bool) []viol // R2 + R3 (destructive)
	close   func()
}

type resDef struct {
	name  string
	alloc bool
	mk    func(e *kenv) *resInst
}

func resScenarios(thorough bool) []schedScen {
	defs := []resDef{
		{"nat DeallocateNAT||DeallocateNAT", false, mkResNAT},
		{"qos RemoveSubscriberQoS||RemoveSubscriberQoS", false, mkResQoS},
		{"pppoe-pool Release||Release", false, mkResPPPoEPool},
		{"pppoe-pool Release||Release +alloc", true, mkResPPPoEPool},
		{"dhcp-pool Release||Release", false, mkResDHCPPool},
		{"dhcp-pool Release||Release +alloc", true, mkResDHCPPool},
	}
	if thorough {
		defs = append(defs,
			resDef{"nat DeallocateNAT||DeallocateNAT +alloc", true, mkResNAT},
			resDef{"qos RemoveSubscriberQoS||RemoveSubscriberQoS +alloc", true, mkResQoS})
	}
	var out []schedScen
	for _, d := range defs {
		out = append(out, schedScen{d.name, scRes(d)})
	}
	return out
}

func scRes(d resDef) func(e *kenv, x *sched.Exec) func() []viol {
	return func(e *kenv, x *sched.Exec) func() []viol {
		var dref string
		if !d.alloc {
			// reference: the same component, built the same way, after ONE release
			ref := d.mk(e)
			ref.release()
			dref = ref.dump()
			ref.close()
		}
		it := d.mk(e)
		x.Thread("pathA", func() { it.release(); x.Obs("A done") })
		x.Thread("pathB", func() { it.release(); x.Obs("B done") })
		if d.alloc {
			x.Thread("newcomer", func() { x.Obs("newcomer=%s", it.alloc()) })
		}
		return func() []viol {
			defer it.close()
			var vs []viol
			if !d.alloc {
				if got := it.dump(); got != dref {
					vs = append(vs, viol{"concurrent-release-has-further-effect", "concurrent", "the state after two releases at once differs from the state after one release: " + diff(dref, got)})
				}
			}
			return append(vs, it.check(d.alloc)...)
		}
	}
}

type violSink struct{ vs []viol }

func (s *violSink) add(kind, f string, a ...any) {
	s.vs = append(s.vs, viol{kind, "concurrent", fmt.Sprintf(f, a...)})
}

// ---- nat.Manager: one public IP with exactly resNATBlocks port blocks

const resNATBlocks = 3

func blockOf(a *nat.Allocation) string {
	return fmt.Sprintf("%s:%d-%d", a.PublicIP, a.PortStart, a.PortEnd)
}

func blocksOverlap(a, b *nat.Allocation) bool {
	return a.PublicIP.Equal(b.PublicIP) && a.PortStart <= b.PortEnd && b.PortStart <= a.PortEnd
}

func mkResNAT(e *kenv) *resInst {
	e.clear()
	m, err := nat.NewManager(nat.ManagerConfig{Interface: "lo", PortsPerSubscriber: 1024, PortRangeStart: 1024, PortRangeEnd: 1024 + resNATBlocks*1024 - 1}, zap.NewNop())
	if err != nil {
		panic(err)
	}
	if e.has() {
		m.VerifSetMaps(e.nat)
	}
	if err := m.AddPublicIP(net.IPv4(203, 0, 113, 1)); err != nil {
		panic(err)
	}
	victim, bystander, newcomer := net.IPv4(10, 0, 3, 2).To4(), net.IPv4(10, 0, 3, 3).To4(), net.IPv4(10, 0, 3, 4).To4()
	if _, err := m.AllocateNAT(victim); err != nil {
		panic("harness: NAT: " + err.Error())
	}
	bAlloc, err := m.AllocateNAT(bystander)
	if err != nil {
		panic("harness: NAT: " + err.Error())
	}
	bBlock := blockOf(bAlloc)
	// kernel entries that must survive: everything but the victim's
	full := e.dump()
	var nAlloc *nat.Allocation
	var nErr error
	o := deepdump.Options{IgnoreTimes: true, SkipTypes: skipTypes}
	it := &resInst{close: func() {}}
	it.release = func() { m.DeallocateNAT(victim) }
	it.alloc = func() string {
		nAlloc, nErr = m.AllocateNAT(newcomer)
		if nErr != nil {
			return "refused"
		}
		return blockOf(nAlloc)
	}
	it.dump = func() string { d := e.dump(); return "NAT " + deepdump.Dump(m, o) + "\nMAPS " + d.render(d) } // map keys (values carry timestamps)
	it.check = func(withNewcomer bool) []viol {
		s := &violSink{}
		if a := m.GetAllocation(victim); a != nil {
			s.add("nat-not-removed", "nat.Manager still has %s -> %s", victim, blockOf(a))
		}
		live := []*nat.Allocation{}
		if a := m.GetAllocation(bystander); a == nil || blockOf(a) != bBlock {
			s.add("bystander-damaged", "the bystander's NAT block %s is no longer its own (now %v)", bBlock, a)
		} else {
			live = append(live, a)
		}
		if withNewcomer {
			// one free block existed whatever the order: the newcomer must have been admitted and keep its block
			if nErr != nil {
				s.add("probe-address-not-obtainable", "the newcomer got no NAT block although one was free: %v", nErr)
			} else if a := m.GetAllocation(newcomer); a == nil || blockOf(a) != blockOf(nAlloc) {
				s.add("double-release", "the newcomer was given %s but the manager now records %v for it (released under it)", blockOf(nAlloc), a)
			} else {
				if len(live) > 0 && blocksOverlap(a, live[0]) {
					s.add("probe-double-assignment", "the newcomer was given %s, which the bystander still holds (%s)", blockOf(a), bBlock)
				}
				live = append(live, a)
			}
		}
		if len(s.vs) > 0 {
			return s.vs
		}
		if n := m.GetAllocationCount(); n != len(live) {
			s.add(map[bool]string{true: "nat-not-removed", false: "double-release"}[n > len(live)], "nat.Manager counts %d allocations, %d blocks are held", n, len(live))
		}
		subs := 0
		for _, p := range m.GetPoolStats() {
			subs += p.Subscribers
		}
		if subs != len(live) {
			s.add(map[bool]string{true: "nat-not-removed", false: "double-release"}[subs > len(live)], "the public IP counts %d subscriber(s) while %d block(s) are held: the one block was released %s", subs, len(live),
				map[bool]string{true: "less than once", false: "more than once"}[subs > len(live)])
		}
		if e.has() {
			cur := e.dump()
			vk := ""
			for _, k := range full.extraKeys(cur) {
				vk += k + " "
			}
			if gone := full.extraKeys(cur); len(gone) != 1 {
				s.add(map[bool]string{true: "nat-not-removed", false: "bystander-damaged"}[len(gone) == 0], "of the 2 subscriber_nat entries before the release, %d disappeared (want exactly the victim's): %s", len(gone), vk)
			}
			if extra := cur.extraKeys(full); len(extra) != len(live)-1 {
				s.add("nat-not-removed", "%d new kernel map entries, %d newcomer(s): %v", len(extra), len(live)-1, extra)
			}
		}
		// R3: fresh subscribers until refusal
		admitted := 0
		for i := 0; i < resNATBlocks+2; i++ {
			ip := net.IPv4(10, 0, 3, byte(10+i)).To4()
			a, err := m.AllocateNAT(ip)
			if err != nil {
				break
			}
			admitted++
			for _, l := range live {
				if blocksOverlap(a, l) {
					s.add("probe-double-assignment", "new subscriber %s was given %s, which %s still holds (%s)", ip, blockOf(a), l.PrivateIP, blockOf(l))
				}
			}
			live = append(live, a)
		}
		if want := resNATBlocks - (len(live) - admitted); admitted != want {
			s.add("probe-conservation", "%d new subscribers were admitted to a public IP with %d free block(s)", admitted, want)
		}
		return s.vs
	}
	return it
}

// ---- qos.Manager

func mkResQoS(e *kenv) *resInst {
	e.clear()
	m, _ := e.qosManager()
	victim, bystander, newcomer := net.IPv4(10, 0, 3, 2).To4(), net.IPv4(10, 0, 3, 3).To4(), net.IPv4(10, 0, 3, 4).To4()
	for _, ip := range []net.IP{bystander, victim} {
		if err := m.SetSubscriberPolicy(ip, "residential-100mbps"); err != nil {
			panic("harness: QoS: " + err.Error())
		}
	}
	full := e.dump()
	var nErr error
	o := deepdump.Options{IgnoreTimes: true, SkipTypes: skipTypes}
	it := &resInst{close: func() {}}
	it.release = func() { m.RemoveSubscriberQoS(victim) }
	it.alloc = func() string {
		nErr = m.SetSubscriberPolicy(newcomer, "residential-100mbps")
		return fmt.Sprint(nErr == nil)
	}
	it.dump = func() string { d := e.dump(); return "QOS " + deepdump.Dump(m, o) + "\nMAPS " + d.render(d) } // map keys (values carry timestamps)
	it.check = func(withNewcomer bool) []viol {
		s := &violSink{}
		live := 1
		if withNewcomer {
			live = 2
			if nErr != nil {
				s.add("probe-address-not-obtainable", "the newcomer's policy was refused: %v", nErr)
				return s.vs
			}
		}
		if n := m.GetSubscriberCount(); n != live {
			s.add(map[bool]string{true: "qos-not-removed", false: "bystander-damaged"}[n > live], "qos.Manager tracks %d subscribers, %d hold a policy", n, live)
		}
		if e.has() {
			cur := e.dump()
			// the victim had one entry in each of qos_egress and qos_ingress; a newcomer adds one to each
			if gone := full.extraKeys(cur); len(gone) != 2 {
				s.add(map[bool]string{true: "qos-not-removed", false: "bystander-damaged"}[len(gone) < 2], "of the QoS kernel entries before the release, %d disappeared (want exactly the victim's two): %v", len(gone), gone)
			}
			if extra := cur.extraKeys(full); len(extra) != 2*(live-1) {
				s.add("qos-not-removed", "%d new QoS kernel entries with %d newcomer(s): %v", len(extra), live-1, extra)
			}
		}
		return s.vs
	}
	return it
}

// ---- pppoe.IPPool (10.0.0.0/29: pppoeTotal addresses)

func mkResPPPoEPool(_ *kenv) *resInst {
	p, err := pppoe.NewIPPool("10.0.0.0/29", "10.0.0.1")
	if err != nil {
		panic(err)
	}
	bAddr := p.Allocate("bystander")
	vAddr := p.Allocate("victim")
	if bAddr == nil || vAddr == nil {
		panic("harness: pool")
	}
	b := bAddr.String()
	var nAddr string
	it := &resInst{close: func() {}}
	it.release = func() { p.Release("victim") }
	it.alloc = func() string {
		if ip := p.Allocate("newcomer"); ip != nil {
			nAddr = ip.String()
		}
		return nAddr
	}
	it.dump = func() string {
		av, al := p.VerifC16State()
		return fmt.Sprintf("free=%v allocated=%v", av, renderMap(al))
	}
	it.check = func(withNewcomer bool) []viol {
		s := &violSink{}
		av, al := p.VerifC16State()
		poolOracle(s, av, al, pppoeTotal, "victim", "bystander", b, withNewcomer, "newcomer", nAddr)
		if len(s.vs) > 0 {
			return s.vs
		}
		got := map[string]int{}
		for i := 0; i < pppoeTotal+1; i++ {
			ip := p.Allocate(fmt.Sprintf("fresh-%d", i))
			if ip == nil {
				break
			}
			got[ip.String()]++
		}
		probeOracle(s, got, pppoeTotal-len(al), b, nAddr)
		return s.vs
	}
	return it
}

// ---- dhcp.Pool (10.0.4.0/29 minus the gateway: 5 addresses)

const resDHCPTotal = 5

func mkResDHCPPool(_ *kenv) *resInst {
	p, err := dhcp.NewPool(dhcp.PoolConfig{ID: 1, Name: "c16", Network: "10.0.4.0/29", Gateway: "10.0.4.1", LeaseTime: time.Hour})
	if err != nil {
		panic(err)
	}
	mac := func(i byte) net.HardwareAddr { return net.HardwareAddr{2, 0, 0, 0, 4, i} }
	bAddr, err1 := p.Allocate(mac(0x0b))
	vAddr, err2 := p.Allocate(mac(0x0a))
	if err1 != nil || err2 != nil {
		panic("harness: pool")
	}
	b, v := bAddr.String(), append(net.IP{}, vAddr.To4()...)
	var nAddr string
	it := &resInst{close: func() {}}
	it.release = func() { p.Release(v) }
	it.alloc = func() string {
		if ip, err := p.Allocate(mac(0x0c)); err == nil {
			nAddr = ip.String()
		}
		return nAddr
	}
	it.dump = func() string {
		st := p.VerifState()
		return fmt.Sprintf("free=%v allocated=%v unavailable=%v", st.Available, renderMap(st.Allocated), st.Unavailable)
	}
	it.check = func(withNewcomer bool) []viol {
		s := &violSink{}
		st := p.VerifState()
		if len(st.Unavailable) != 0 {
			s.add("pool-conservation", "addresses became unavailable: %v", st.Unavailable)
		}
		poolOracle(s, st.Available, st.Allocated, resDHCPTotal, mac(0x0a).String(), mac(0x0b).String(), b, withNewcomer, mac(0x0c).String(), nAddr)
		if len(s.vs) > 0 {
			return s.vs
		}
		got := map[string]int{}
		for i := 0; i < resDHCPTotal+1; i++ {
			ip, err := p.Allocate(mac(byte(0x20 + i)))
			if err != nil {
				break
			}
			got[ip.String()]++
		}
		probeOracle(s, got, resDHCPTotal-len(st.Allocated), b, nAddr)
		return s.vs
	}
	return it
}

func renderMap(m map[string]string) string {
	var ks []string
	for k, v := range m {
		ks = append(ks, k+"="+v)
	}
	sort.Strings(ks)
	return "{" + strings.Join(ks, ",") + "}"
}

// poolOracle: R2 for an address pool given its free list and its holder->address table.
func poolOracle(s *violSink, avail []string, alloc map[string]string, total int, victim, bystander, bAddr string, withNewcomer bool, newcomer, nAddr string) {
	if ip, ok := alloc[victim]; ok {
		s.add("address-not-released", "the pool still has %s allocated to the victim", ip)
	}
	if alloc[bystander] != bAddr {
		s.add("bystander-damaged", "the bystander held %s, the pool now records %q for it", bAddr, alloc[bystander])
	}
	if withNewcomer {
		switch {
		case nAddr == "":
			s.add("probe-address-not-obtainable", "the newcomer got no address although the pool was not full")
		case alloc[newcomer] != nAddr:
			s.add("double-release", "the newcomer was given %s but the pool now records %q for it (released under it)", nAddr, alloc[newcomer])
		case nAddr == bAddr:
			s.add("probe-double-assignment", "newcomer and bystander both hold %s", nAddr)
		}
	}
	seen := map[string]bool{}
	for _, a := range avail {
		if seen[a] {
			s.add("double-release", "%s is on the free list twice", a)
		}
		seen[a] = true
	}
	for h, a := range alloc {
		if seen[a] {
			s.add("double-release", "%s is on the free list and allocated to %s", a, h)
		}
	}
	if len(avail)+len(alloc) != total {
		s.add("pool-conservation", "pool accounts for %d addresses, has %d (free=%v allocated=%s)", len(avail)+len(alloc), total, avail, renderMap(alloc))
	}
}

// probeOracle: R3 for an address pool: got = addresses fresh holders obtained until refusal.
func probeOracle(s *violSink, got map[string]int, free int, held ...string) {
	n := 0
	for a, c := range got {
		n += c
		if c > 1 {
			s.add("probe-double-assignment", "address %s handed to %d new holders", a, c)
		}
		for _, h := range held {
			if h != "" && a == h {
				s.add("probe-double-assignment", "address %s handed to a new holder while a live holder still has it", a)
			}
		}
	}
	if n != free {
		s.add("probe-conservation", "%d new holders were admitted, %d addresses were free: %v", n, free, got)
	}
}
