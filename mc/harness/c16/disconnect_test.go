//go:build verif

package c16

import (
	"context"
	"fmt"
	"net"
	"sort"
	"strings"

	bngradius "github.com/codelaboratoryltd/bng/pkg/radius"
	"go.uber.org/zap"
)

// The RADIUS-Disconnect termination path in every FORM in which a Disconnect-Request
// can name the session (RFC 5176 section 3: session identification attributes):
// Acct-Session-Id ("id"), User-Name ("user"), Framed-IP-Address ("ip"),
// Calling-Station-Id ("mac") and their combinations. A form is written
// "DISCONNECT[ip+mac]". The request travels as RADIUS attribute bytes through the
// REAL attribute parser and CoAServer.parseDisconnectRequest into the REAL
// CoAProcessor.HandleDisconnect (seam VerifC16Disconnect: the receive loop minus the
// socket and the authenticator check), so the DisconnectRequest the processor sees
// is exactly the one the server would build from such a packet.
//
// The base path "DISCONNECT" of the kinds (Acct-Session-Id + User-Name, handed to
// HandleDisconnect directly) stays as it was; forms are additional paths.

var discAttrOrder = []string{"id", "user", "ip", "mac"}

// discFormSets: the attribute sets enumerated. quick: each non-id identifier alone, all
// identifiers without the id, all with it; thorough: every subset of {id,user,ip,mac}.
func discFormSets(thorough bool) [][]string {
	if !thorough {
		return [][]string{{"ip"}, {"mac"}, {"user", "ip", "mac"}, {"id", "ip", "mac"}}
	}
	var out [][]string
	for m := 1; m < 16; m++ {
		var s []string
		for i, a := range discAttrOrder {
			if m&(1<<i) != 0 {
				s = append(s, a)
			}
		}
		out = append(out, s)
	}
	return out
}

// discForms returns the forms applicable to a session that has (hasIP) or has not yet an address: attributes the
// session cannot be named by are dropped; a form must keep at least one attribute the processor can identify a
// session by (it has no lookup by User-Name: a request with User-Name only is answered with a NAK and ends
// nothing, so it is not a termination path); "id+user" is the kinds' base path.
func discForms(hasIP, thorough bool) []string {
	seen := map[string]bool{"id+user": true}
	var out []string
	for _, s := range discFormSets(thorough) {
		var keep []string
		ident := false
		for _, a := range s {
			if a == "ip" && !hasIP {
				continue
			}
			keep = append(keep, a)
			if a != "user" {
				ident = true
			}
		}
		k := strings.Join(keep, "+")
		if !ident || seen[k] {
			continue
		}
		seen[k] = true
		out = append(out, "DISCONNECT["+k+"]")
	}
	sort.Strings(out)
	return out
}

func isDiscForm(path string) bool {
	return strings.HasPrefix(path, "DISCONNECT[") && strings.HasSuffix(path, "]")
}

func radiusAttr(typ byte, val []byte) []byte {
	return append([]byte{typ, byte(2 + len(val))}, val...)
}

// callingStation: the Calling-Station-Id the NAS reports for the MAC in its accounting records
// (radius.formatMAC: upper case, dashes) - what a RADIUS server would send back.
func callingStation(mac net.HardwareAddr) string {
	return strings.ToUpper(strings.ReplaceAll(mac.String(), ":", "-"))
}

// discAttributes encodes the attributes of one Disconnect-Request form.
func discAttributes(path, id, user string, ip net.IP, mac net.HardwareAddr) []byte {
	var b []byte
	for _, a := range strings.Split(strings.TrimSuffix(strings.TrimPrefix(path, "DISCONNECT["), "]"), "+") {
		switch a {
		case "id":
			b = append(b, radiusAttr(44 /* Acct-Session-Id */, []byte(id))...)
		case "user":
			b = append(b, radiusAttr(1 /* User-Name */, []byte(user))...)
		case "ip":
			if ip4 := ip.To4(); ip4 != nil {
				b = append(b, radiusAttr(8 /* Framed-IP-Address */, ip4)...)
			} else {
				panic("harness: disconnect form " + path + " for a session without an IPv4 address")
			}
		case "mac":
			b = append(b, radiusAttr(31 /* Calling-Station-Id */, []byte(callingStation(mac)))...)
		default:
			panic("harness: unknown disconnect form " + path)
		}
	}
	return b
}

// coaFront: the CoA listener in front of a processor (never started: no socket).
func coaFront(p *bngradius.CoAProcessor) *bngradius.CoAServer {
	srv, err := bngradius.NewCoAServer(bngradius.CoAServerConfig{Address: "127.0.0.1:0", Secret: radiusSecret}, zap.NewNop())
	if err != nil {
		panic(err)
	}
	srv.SetDisconnectHandler(p.HandleDisconnect)
	return srv
}

// sendDisconnect delivers one Disconnect-Request form; the answer (ACK/NAK) is returned for the trace.
func sendDisconnect(srv *bngradius.CoAServer, path, id, user string, ip net.IP, mac net.HardwareAddr) string {
	resp, err := srv.VerifC16Disconnect(context.Background(), discAttributes(path, id, user, ip, mac))
	if err != nil {
		panic("harness: Disconnect-Request not parsed: " + err.Error())
	}
	if resp.Success {
		return "ACK"
	}
	return fmt.Sprintf("NAK(%d)", resp.ErrorCause)
}
