//go:build verif

package c16

import (
	"context"
	"fmt"
	"net"
	"strings"
	"testing/synctest"

	"github.com/codelaboratoryltd/bng/pkg/nat"
	"github.com/codelaboratoryltd/bng/pkg/pppoe"
	"github.com/codelaboratoryltd/bng/pkg/qos"
	bngradius "github.com/codelaboratoryltd/bng/pkg/radius"
	"go.uber.org/zap"

	"verif/deepdump"
)

// PPPoE via the REAL pppoe.SessionTeardown. The component only tears down, so
// the harness plays the part of the PPPoE data path for establishment, using
// the real collaborators the teardown releases again: pppoe.SessionManager,
// pppoe.IPPool, radius.Client (Accounting-Start at authentication, i.e. exactly
// when Session.Authenticated becomes true), nat.Manager and qos.Manager on
// kernel maps (removed through the teardown's UpdateEBPFMaps callback).
// RADIUS Disconnect goes through the real radius.CoAProcessor whose session
// terminator is SessionTeardown.TerminateSession.
//
//	prefixes: CREATED | AUTH (authenticated, Start sent) | ADDR (address + NAT + QoS) | EST
//	paths:    PADT (session looked up by id, HandleClientPADT) | ADMIN (TerminateByID) |
//	          IDLE (TerminateSession(IdleTimeout) by a caller that holds the *Session, as a
//	          keep-alive/idle timer does) | DISCONNECT (CoAProcessor.HandleDisconnect) |
//	          SHUTDOWN (TerminateAll)
func teardownKind() kindDef {
	return kindDef{
		name: "pppoe-teardown",
		// .../fault=X: one release step of the victim's teardown fails - ebpf: the UpdateEBPFMaps callback returns an
		// error (NAT/QoS stay); acct-stop: the RADIUS server fails the Accounting-Stop. Every other resource must
		// still be released and the session removed.
		cfgs: []string{"radius", "no-radius", "radius/fault=ebpf", "radius/fault=acct-stop"},
		prefixes: func(cfg string) []string {
			if strings.Contains(cfg, "/fault=") {
				return []string{"EST"}
			}
			return []string{"CREATED", "AUTH", "ADDR", "EST"}
		},
		morePrefixes: func(cfg string) []string {
			if strings.Contains(cfg, "/fault=") {
				return []string{"ADDR"}
			}
			return nil
		},
		// RESTART-x: the client starts over (the data path creates a second session for the same MAC, as handlePADR
		// does, and brings it up to the same prefix), then x ends every session the client was ever given
		paths: func(string, string) []string {
			return []string{"PADT", "ADMIN", "IDLE", "DISCONNECT", "SHUTDOWN", "RESTART-PADT", "RESTART-ADMIN", "RESTART-SHUTDOWN"}
		},
		// the RADIUS Disconnect naming the session by Framed-IP-Address / Calling-Station-Id / combinations (see
		// disconnect_test.go); by address only once the session has one. quick: configuration "radius"; thorough: all.
		forms: func(cfg, prefix string, thorough bool) []string {
			if !thorough && cfg != "radius" {
				return nil
			}
			// thorough: every attribute subset in configuration "radius", the quick set in the others
			return discForms(prefix == "ADDR" || prefix == "EST", thorough && cfg == "radius")
		},
		run: runTeardown,
	}
}

type tdSub struct {
	name string
	mac  net.HardwareAddr
	s    *pppoe.Session
	addr net.IP
}

type tdWorld struct {
	e          *kenv
	k          kase
	sm         *pppoe.SessionManager
	pool       *pppoe.IPPool
	td         *pppoe.SessionTeardown
	coa        *bngradius.CoAProcessor
	coaSrv     *bngradius.CoAServer // the listener in front of coa (Disconnect-Request forms arrive as attribute bytes)
	natM       *nat.Manager
	qosM       *qos.Manager
	rs         *radiusScript
	rc         *bngradius.Client
	base       mapDump
	a, b       *tdSub
	vic        []*tdSub // every session the victim's MAC was ever given
	padts      int
	fault      string          // "", "ebpf", "acct-stop"
	ebpfFailed map[string]bool // victim addresses whose eBPF removal was failed by injection
	viols      []viol
}

func (w *tdWorld) add(kind, site, f string, a ...any) {
	w.viols = append(w.viols, viol{kind, site, fmt.Sprintf(f, a...)})
}

func newTDWorld(e *kenv, k kase, padtRetries int) *tdWorld {
	w := &tdWorld{e: e, k: k}
	e.clear()
	w.natM = e.natManager(1)
	w.qosM, _ = e.qosManager()
	w.sm = pppoe.NewSessionManager()
	p, err := pppoe.NewIPPool("10.0.0.0/29", "10.0.0.1")
	if err != nil {
		panic(err)
	}
	w.pool = p
	cfg := pppoe.DefaultTeardownConfig()
	cfg.PADTRetries = padtRetries // Engine A: 0 (no retry delay; the PADT is captured, not transmitted)
	w.td = pppoe.NewSessionTeardown(cfg, zap.NewNop())
	w.td.SetIPPool(p)
	w.td.SetSessionManager(w.sm)
	w.td.SetSendPADT(func(*pppoe.Session, []pppoe.Tag) { w.padts++ })
	w.td.SetSendLCPTermReq(func(*pppoe.Session, string) {})
	w.td.SetUpdateEBPFMaps(func(s *pppoe.Session, remove bool) error {
		if remove && s.ClientIP != nil && w.fault == "ebpf" && s.Username == "victim" {
			w.ebpfFailed[s.ClientIP.String()] = true
			return fmt.Errorf("map update refused (injected)")
		}
		if remove && s.ClientIP != nil {
			w.qosM.RemoveSubscriberQoS(s.ClientIP)
			return w.natM.DeallocateNAT(s.ClientIP)
		}
		return nil
	})
	base, fault, _ := strings.Cut(k.Cfg, "/fault=")
	w.fault, w.ebpfFailed = fault, map[string]bool{}
	if base == "radius" {
		w.rs = newRadiusScript()
		if fault == "acct-stop" {
			w.rs.failStop["victim"] = true
		}
		w.rc = w.rs.client()
		w.td.SetRADIUSClient(w.rc)
	}
	w.coa = bngradius.NewCoAProcessor(zap.NewNop())
	find := func(id string) *pppoe.Session {
		for _, s := range w.sm.GetAllSessions() {
			if s.SessionID == id {
				return s
			}
		}
		return nil
	}
	info := func(s *pppoe.Session) (*bngradius.SessionInfo, bool) {
		if s == nil {
			return nil, false
		}
		return &bngradius.SessionInfo{SessionID: s.SessionID, Username: s.Username, MAC: s.ClientMAC, FramedIP: s.ClientIP}, true
	}
	w.coa.SetSessionLookup(func(id string) (*bngradius.SessionInfo, bool) { return info(find(id)) })
	w.coa.SetSessionLookupByIP(func(ip net.IP) (*bngradius.SessionInfo, bool) {
		for _, s := range w.sm.GetAllSessions() {
			if s.ClientIP != nil && s.ClientIP.Equal(ip) {
				return info(s)
			}
		}
		return nil, false
	})
	w.coa.SetSessionLookupByMAC(func(cs string) (*bngradius.SessionInfo, bool) {
		mac, err := net.ParseMAC(cs)
		if err != nil {
			return nil, false
		}
		return info(w.sm.GetSessionByMAC(mac))
	})
	w.coaSrv = coaFront(w.coa)
	w.coa.SetSessionTerminator(func(ctx context.Context, id string, reason uint32) error {
		if s := find(id); s != nil {
			return w.td.TerminateSession(s, pppoe.TerminateCause(reason), "")
		}
		return fmt.Errorf("session not found: %s", id)
	})
	return w
}

func (w *tdWorld) establish(c *tdSub, prefix string) {
	s, err := w.sm.CreateSession(c.mac, pppoeServerMAC)
	if err != nil {
		panic(err)
	}
	c.s = s
	s.SetState(pppoe.StateLCPNegotiation)
	if prefix == "CREATED" {
		return
	}
	s.Username, s.AuthMethod, s.Authenticated = c.name, "PAP", true
	s.SetState(pppoe.StateIPCPNegotiation)
	if w.rc != nil {
		if err := w.rc.SendAccounting(context.Background(), &bngradius.AcctRequest{SessionID: s.SessionID, Username: c.name, MAC: c.mac, StatusType: bngradius.AcctStatusStart}); err != nil {
			panic("harness: Accounting-Start: " + err.Error())
		}
	}
	if prefix == "AUTH" {
		return
	}
	s.ClientIP = w.pool.Allocate(s.SessionID)
	if s.ClientIP == nil {
		panic("harness: pool exhausted")
	}
	c.addr = append(net.IP{}, s.ClientIP.To4()...)
	if _, err := w.natM.AllocateNAT(c.addr); err != nil {
		panic(err)
	}
	if err := w.qosM.SetSubscriberPolicy(c.addr, "residential-100mbps"); err != nil {
		panic(err)
	}
	if prefix == "ADDR" {
		return
	}
	s.SetState(pppoe.StateEstablished)
}

func runTeardown(e *kenv, k kase) (res result) {
	w := newTDWorld(e, k, 0)
	if w.rs != nil {
		defer w.rs.close()
	}
	w.b = &tdSub{name: "bystander", mac: net.HardwareAddr{2, 0, 0, 0, 0, 0x0b}}
	w.establish(w.b, "EST")
	w.base = e.dump()
	w.a = &tdSub{name: "victim", mac: net.HardwareAddr{2, 0, 0, 0, 0, 0x0a}}
	w.establish(w.a, k.Prefix)
	w.vic = append(w.vic, w.a)
	h := []string{"session-entry"}
	if w.a.s.Authenticated && w.rc != nil {
		h = append(h, "acct-start")
	}
	if w.a.addr != nil {
		h = append(h, "pool-address", "nat", "qos")
		if x := e.dump().extraKeys(w.base); len(x) > 0 {
			h = append(h, fmt.Sprintf("kernel:%d-entries", len(x)))
		}
	}
	res.held = strings.Join(h, ",")

	var d1, d1v string
	var n1 int
	for i, t := range k.Terms {
		w.terminate(t)
		synctest.Wait()
		site := strings.Join(k.Terms[:i+1], ";")
		if i == 0 {
			w.checkReleased(site)
			if len(w.viols) > 0 {
				res.viols = w.viols
				return
			}
			d1, d1v, n1 = w.dump(), w.dumpVictim(), w.nrec()
			continue
		}
		if strings.HasPrefix(t, "RESTART-") {
			// a new session life cycle of the same client: the release oracle applies, the comparison restarts here
			w.checkReleased(site)
			d1, d1v, n1 = w.dump(), w.dumpVictim(), w.nrec()
			continue
		}
		if hasShutdown(k.Terms[1 : i+1]) {
			// TerminateAll legitimately ends the bystander as well: only the victim's own state must be unchanged
			if d2v := w.dumpVictim(); d2v != d1v {
				w.add("second-termination-changes-state", site, "the victim's state after %s differs from its state after %s: %s", site, k.Terms[0], diff(d1v, d2v))
			}
		} else {
			if n2 := w.nrec(); n2 != n1 {
				w.add("second-termination-sends-records", site, "%d further RADIUS accounting record(s) after the session had already ended: %s", n2-n1, w.rs.render())
			}
			if d2 := w.dump(); d2 != d1 {
				w.add("second-termination-changes-state", site, "state after %s differs from the state after %s: %s", site, k.Terms[0], diff(d1, d2))
			}
		}
		w.checkReleased(site)
	}
	if len(w.viols) == 0 {
		w.probe(strings.Join(k.Terms, ";"))
	}
	res.viols = w.viols
	return
}

func (w *tdWorld) nrec() int {
	if w.rs == nil {
		return 0
	}
	return w.rs.nAttempts()
}

func hasShutdown(terms []string) bool {
	return contains(terms, "SHUTDOWN") || contains(terms, "RESTART-SHUTDOWN")
}

func (w *tdWorld) terminate(path string) {
	if rest, ok := strings.CutPrefix(path, "RESTART-"); ok {
		w.a = &tdSub{name: w.a.name, mac: w.a.mac}
		w.establish(w.a, w.k.Prefix)
		w.vic = append(w.vic, w.a)
		path = rest
	}
	switch path {
	case "PADT": // the receive path looks the session up by id first
		for _, a := range w.vic {
			if s := w.sm.GetSession(a.s.ID); s != nil {
				w.td.HandleClientPADT(s, a.mac, s.ID)
			}
		}
	case "ADMIN":
		for _, a := range w.vic {
			w.td.TerminateByID(a.s.ID, "admin")
		}
	case "IDLE": // a timer owner holds the *Session
		for _, a := range w.vic {
			w.td.TerminateSession(a.s, pppoe.TerminateCauseIdleTimeout, "")
		}
	case "DISCONNECT":
		for _, a := range w.vic {
			w.coa.HandleDisconnect(context.Background(), &bngradius.DisconnectRequest{SessionID: a.s.SessionID, Username: a.name})
		}
	case "SHUTDOWN":
		w.td.TerminateAll(pppoe.TerminateCauseNASReboot, "shutdown")
	default:
		if isDiscForm(path) {
			for _, a := range w.vic {
				sendDisconnect(w.coaSrv, path, a.s.SessionID, a.name, a.addr, a.mac)
			}
			return
		}
		panic("unknown termination path " + path)
	}
}

func (w *tdWorld) checkReleased(site string) {
	shutdown := hasShutdown(w.k.Terms[:strings.Count(site, ";")+1])
	avail, alloc := w.pool.VerifC16State()
	for i, a := range w.vic {
		if ip, ok := alloc[a.s.SessionID]; ok {
			w.add("address-not-released", site, "the pool still has %s allocated to the victim's session (session #%d of %d the client was given)", ip, i+1, len(w.vic))
		} else if a.addr != nil && !contains(avail, a.addr.String()) {
			w.add("address-not-released", site, "%s is neither free nor allocated", a.addr)
		}
	}
	if len(avail)+len(alloc) != pppoeTotal {
		w.add("pool-conservation", site, "pool accounts for %d addresses, has %d (available=%v allocated=%v)", len(avail)+len(alloc), pppoeTotal, avail, alloc)
	}
	seen := map[string]bool{}
	for _, x := range avail {
		if seen[x] {
			w.add("pool-conservation", site, "%s is on the free list twice (double release)", x)
		}
		seen[x] = true
	}
	for _, a := range w.vic {
		if w.sm.GetSession(a.s.ID) == a.s || w.sm.GetSessionByMAC(a.mac) != nil {
			w.add("session-still-present", site, "the victim's session %d is still in the session manager", a.s.ID)
		}
	}
	live := 1
	if shutdown {
		live = 0
	}
	live += len(w.ebpfFailed) // removal failed by injection: those entries legitimately stay
	for _, a := range w.vic {
		if a.addr == nil || w.ebpfFailed[a.addr.String()] {
			continue
		}
		if x := w.natM.GetAllocation(a.addr); x != nil {
			w.add("nat-not-removed", site, "nat.Manager still has %s -> %s:%d-%d", a.addr, x.PublicIP, x.PortStart, x.PortEnd)
		}
	}
	if n := w.natM.GetAllocationCount(); n != live {
		w.add("nat-not-removed", site, "nat.Manager counts %d allocations, want %d", n, live)
	}
	if n := w.qosM.GetSubscriberCount(); n != live {
		w.add("qos-not-removed", site, "qos.Manager tracks %d subscribers, want %d", n, live)
	}
	cur := w.e.dump()
	extra := cur.extraKeys(w.base)
	if want := 3 * len(w.ebpfFailed); len(w.ebpfFailed) > 0 && w.e.has() {
		// subscriber_nat + qos_egress + qos_ingress per address whose removal was failed; nothing beyond that
		if len(extra) != want {
			w.add("cache-entry-left", site, "%d kernel map entries beyond the bystander's, %d belong to the failed eBPF removal: %v", len(extra), want, extra)
		}
		extra = nil
	}
	for _, x := range extra {
		kind := "cache-entry-left"
		if strings.HasPrefix(x, "subscriber_nat") {
			kind = "nat-not-removed"
		} else if strings.HasPrefix(x, "qos_") {
			kind = "qos-not-removed"
		}
		w.add(kind, site, "kernel map entry %s was written for the victim and is still there", x)
	}
	if !shutdown {
		for _, x := range cur.missingKeys(w.base) {
			w.add("bystander-damaged", site, "kernel map entry %s of the bystander disappeared", x)
		}
	}
	if w.rs != nil {
		for _, a := range w.vic {
			for _, c := range w.rs.stopOracle(a.s.SessionID) {
				w.add("accounting-stop-count", site, "%s: %s", c, w.rs.render())
			}
		}
		_, bstops := w.rs.count(w.b.s.SessionID)
		if !shutdown && bstops != 0 || shutdown && bstops != 1 {
			w.add("bystander-damaged", site, "the bystander's session got %d Accounting-Stop: %s", bstops, w.rs.render())
		}
	}
	if !shutdown {
		if w.sm.GetSession(w.b.s.ID) != w.b.s || alloc[w.b.s.SessionID] != w.b.addr.String() || w.natM.GetAllocation(w.b.addr) == nil {
			w.add("bystander-damaged", site, "the bystander lost its session, address or NAT allocation")
		}
	}
}

func (w *tdWorld) dump() string {
	o := deepdump.Options{IgnoreTimes: true, SkipFields: pppSkip, SkipTypes: skipTypes}
	avail, alloc := w.pool.VerifC16State()
	n := 0
	for range alloc {
		n++
	}
	// the victim's session object is included: a caller may still hold it
	return "SESSIONS " + deepdump.Dump(w.sm, o) + "\nVICTIM " + w.dumpVictim() + fmt.Sprintf("\nPOOL free=%v allocated=%d", avail, n) +
		"\nNAT " + deepdump.Dump(w.natM, o) + "\nQOS " + deepdump.Dump(w.qosM, o) + "\nMAPS " + w.e.dump().render(w.base)
}

// dumpVictim: the victim's session object and its own accounting records.
func (w *tdWorld) dumpVictim() string {
	o := deepdump.Options{IgnoreTimes: true, SkipFields: pppSkip, SkipTypes: skipTypes}
	d := ""
	for _, a := range w.vic {
		d += deepdump.Dump(a.s, o)
		if w.rs != nil {
			st, sp := w.rs.count(a.s.SessionID)
			d += fmt.Sprintf(" starts=%d stops=%d;", st, sp)
		}
	}
	return d
}

// probe (destructive): new sessions take every free address exactly once; the
// victim's former address is among them and gets a NAT block.
func (w *tdWorld) probe(site string) {
	free := pppoeTotal - 1
	if hasShutdown(w.k.Terms) {
		free = pppoeTotal
	}
	got := map[string]int{}
	for i := 0; i < pppoeTotal+1; i++ {
		ip := w.pool.Allocate(fmt.Sprintf("fresh-%d", i))
		if ip == nil {
			break
		}
		got[ip.String()]++
		if _, err := w.natM.AllocateNAT(ip); err != nil {
			w.add("probe-address-not-obtainable", site, "new holder of %s gets no NAT allocation: %v", ip, err)
		}
	}
	for a, n := range got {
		if n > 1 || (free == pppoeTotal-1 && a == w.b.addr.String()) {
			w.add("probe-double-assignment", site, "address %s handed to %d new sessions", a, n)
		}
	}
	if len(got) != free {
		w.add("probe-conservation", site, "new sessions obtained %d distinct addresses, %d should be free: %v", len(got), free, got)
	}
	for _, a := range w.vic {
		if a.addr != nil && got[a.addr.String()] == 0 {
			w.add("probe-address-not-obtainable", site, "no new session was given the victim's former address %s: %v", a.addr, got)
		}
	}
}
