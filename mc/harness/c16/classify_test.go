//go:build verif

package c16

import (
	"strings"

	"verif/report"
)

func traceHas(v *report.Violation, s string) bool {
	for _, t := range v.Trace {
		if t == s {
			return true
		}
	}
	return false
}

func firstTerm(v *report.Violation) string {
	for _, t := range v.Trace {
		if strings.HasPrefix(t, "term=") {
			return strings.TrimPrefix(t, "term=")
		}
	}
	return ""
}

// classify assigns root-cause classes of the known findings (findings.d/C16.json).
func classify(v *report.Violation) {
	switch {
	// C16-K1: a DHCPv4 pool reservation made by DISCOVER/OFFER has no lifetime and no
	// termination path looks at it: only a LEASE is ever released. Matches only when
	// the victim never had a lease (establishment prefix "D") and the complaint is
	// exactly that the pool still reserves the offered address for it.
	case strings.HasPrefix(v.Part, "matrix:dhcp4-") && v.Kind == "address-not-released" && (traceHas(v, "prefix=D") || traceHas(v, "prefix=DD")) &&
		strings.HasPrefix(v.Detail, "the pool still reserves "):
		v.Class = "C16-K1-dhcp-offer-reservation-never-released"
	// C16-K2: pppoe.Server.Stop only closes the socket; the sessions (and their addresses)
	// stay. Matches only when Stop is the FIRST termination applied to a live session.
	case v.Part == "matrix:pppoe-server" && v.Site == "STOP" && firstTerm(v) == "STOP" &&
		(v.Kind == "address-not-released" || v.Kind == "session-still-present"):
		v.Class = "C16-K2-pppoe-server-stop-keeps-sessions"
	// C16-K3: subscriber.Manager.Stop only stops the cleanup loop; sessions are not terminated.
	case v.Part == "matrix:subscriber-manager" && v.Site == "STOP" && firstTerm(v) == "STOP" &&
		(v.Kind == "address-not-released" || v.Kind == "session-still-present" || v.Kind == "nat-not-removed" || v.Kind == "qos-not-removed" || v.Kind == "accounting-stop-count"):
		v.Class = "C16-K3-subscriber-manager-stop-keeps-sessions"
	// C16-K4 (= C08-K1): an Accounting-Stop that could not be delivered lives only in the in-memory retry
	// queue; a CRASH during the outage loses it. Matches only: crash configuration, the victim's session, and
	// the complaint that it got NO Stop over both lifetimes (a duplicate Stop, or a missing Stop after a
	// graceful shutdown or a healed outage, does not match).
	case v.Part == "matrix:subscriber-manager" && traceHas(v, "cfg=radius/outage=crash") && v.Kind == "accounting-stop-count" &&
		strings.HasSuffix(v.Site, ";CRASH(unreachable);RESTART") && strings.Contains(v.Detail, "victim's session ") &&
		strings.Contains(v.Detail, " got 1 Accounting-Start and 0 Accounting-Stop "):
		v.Class = "C16-K4-undelivered-stop-lost-by-crash"
	}
}
