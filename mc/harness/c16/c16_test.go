//go:build verif

// C16 — Ending a session by any path releases everything it held.
//
// Part "matrix:<kind>" (Engine A, complete enumeration, every case executed on
// the REAL code in its own synctest bubble):
//
//	session kind x configuration x establishment prefix x termination sequence
//	{p, p;p, p;q for every ordered pair p != q of the paths the kind has}
//
// with real nat.Manager, qos.Manager (+radius.PolicyManager) and ebpf.Loader
// writing REAL kernel maps (created from the compiled objects' map specs), a
// scripted in-memory RADIUS server that records every accounting request, and a
// fully established bystander subscriber that must keep everything it holds.
//
// Oracle after the first termination (from the property statement):
//
//	O1 the address is back in the pool (pool state; at the end a destructive probe:
//	   fresh clients obtain every free address exactly once, the victim's among them);
//	O2 NAT allocation and QoS entry are gone (manager API and raw kernel map dumps:
//	   the maps hold exactly the keys they held before the victim arrived, whatever
//	   byte order the manager used);
//	O3 no fast-path cache entry is left and the real fast-path program, run in the
//	   kernel on the victim's DISCOVER/REQUEST (by MAC and by circuit-id), does not answer;
//	O4 exactly one Accounting-Stop was issued iff a Start was;
//	O5 a second termination (same or another path) changes nothing: deep dumps of all
//	   components and kernel maps equal, no further RADIUS record;
//	O6 the bystander still holds everything and got no Stop.
//
// The RADIUS-Disconnect path additionally comes in every FORM a Disconnect-Request can
// name the session by (disconnect_test.go; kindDef.forms).
//
// Parts "sched:<scenario>" (Engine B): see sched_test.go (pairs of concurrent termination
// paths) and sched_res_test.go (one resource released by two paths at once).
package c16

import (
	"errors"
	"fmt"
	"os"
	"path/filepath"
	"runtime"
	"sort"
	"strings"
	"sync"
	"sync/atomic"
	"testing"
	"testing/synctest"

	cebpf "github.com/cilium/ebpf"

	"verif/nativebpf"
	"verif/report"
)

type viol struct{ Kind, Site, Detail string }

// kase is one cell of the cross product.
type kase struct {
	Kind   string
	Cfg    string
	Prefix string
	Terms  []string
}

func (k kase) trace() []string {
	tr := []string{"cfg=" + k.Cfg, "prefix=" + k.Prefix}
	for _, t := range k.Terms {
		tr = append(tr, "term="+t)
	}
	return tr
}

func kaseFromTrace(kind string, tr []string) (kase, error) {
	k := kase{Kind: kind}
	for _, s := range tr {
		a, b, ok := strings.Cut(s, "=")
		if !ok {
			return k, fmt.Errorf("bad trace element %q", s)
		}
		switch a {
		case "cfg":
			k.Cfg = b
		case "prefix":
			k.Prefix = b
		case "term":
			k.Terms = append(k.Terms, b)
		}
	}
	return k, nil
}

type result struct {
	viols    []viol
	held     string // what the victim held before the first termination (evidence / non-vacuity)
	txBefore int    // fast-path frames answered for the victim before termination
	panicked string
}

type kindDef struct {
	name         string
	cfgs         []string
	prefixes     func(cfg string) []string
	morePrefixes func(cfg string) []string // thorough tier only
	paths        func(cfg, prefix string) []string
	// forms: further termination paths that are alternative FORMS of one of the kind's paths (the RADIUS Disconnect
	// naming the session by other attributes). Every form f is crossed with every path q: {f; f,f; f,q; q,f};
	// pairs of two different forms in the thorough tier.
	forms func(cfg, prefix string, thorough bool) []string
	run   func(e *kenv, k kase) result // called inside a synctest bubble
}

// cases: quick = {p; p,p; p,q}; thorough additionally every sequence of three
// paths and the kind's extra prefixes. Forms (see kindDef.forms) come after the
// kind's own paths, so the first witness of a class stays one over the base paths.
func (kd kindDef) cases(thorough bool) []kase {
	var out []kase
	for _, c := range kd.cfgs {
		pre := kd.prefixes(c)
		if thorough && kd.morePrefixes != nil {
			pre = append(append([]string{}, pre...), kd.morePrefixes(c)...)
		}
		for _, p := range pre {
			ps := kd.paths(c, p)
			for _, a := range ps {
				out = append(out, kase{kd.name, c, p, []string{a}})
				for _, b := range ps {
					out = append(out, kase{kd.name, c, p, []string{a, b}}) // b == a: twice the same path
					if thorough {
						for _, d := range ps {
							out = append(out, kase{kd.name, c, p, []string{a, b, d}})
						}
					}
				}
			}
			if kd.forms != nil {
				fs := kd.forms(c, p, thorough)
				for _, f := range fs {
					out = append(out, kase{kd.name, c, p, []string{f}}, kase{kd.name, c, p, []string{f, f}})
					for _, q := range ps {
						out = append(out, kase{kd.name, c, p, []string{f, q}}, kase{kd.name, c, p, []string{q, f}})
					}
					if thorough {
						for _, g := range fs {
							if g != f {
								out = append(out, kase{kd.name, c, p, []string{f, g}})
							}
						}
					}
				}
			}
		}
	}
	return out
}

func runCase(t *testing.T, kd kindDef, e *kenv, k kase) (res result) {
	synctest.Test(t, func(*testing.T) {
		defer func() {
			if r := recover(); r != nil {
				buf := make([]byte, 4096)
				n := runtime.Stack(buf, false)
				res.panicked = fmt.Sprintf("%v\n%s", r, buf[:n])
			}
		}()
		res = kd.run(e, k)
	})
	return
}

func formsNote(kd kindDef, thorough bool) string {
	if kd.forms == nil {
		return ""
	}
	n := map[string]bool{}
	for _, c := range kd.cfgs {
		for _, p := range kd.prefixes(c) {
			for _, f := range kd.forms(c, p, thorough) {
				n[f] = true
			}
		}
	}
	return fmt.Sprintf(" + %d RADIUS Disconnect-Request forms f (session named by Acct-Session-Id / User-Name / Framed-IP-Address / Calling-Station-Id combinations) x {f, f;f, f;q, q;f%s}", len(n), map[bool]string{true: ", f;g", false: ""}[thorough])
}

func kinds() []kindDef {
	return []kindDef{dhcpKind("dhcp4-direct", false), dhcpKind("dhcp4-relayed", true), pppoeServerKind(), teardownKind(), submgrKind()}
}

type matrixStats struct {
	cases, held, tx int64
	heldKinds       sync.Map
}

func runMatrix(t *testing.T, run *report.Run, kd kindDef, envs []*kenv) {
	part := "matrix:" + kd.name
	if !run.WantPart(part) {
		return
	}
	cases := kd.cases(run.Thorough())
	var next int64 = -1
	var st matrixStats
	var wg sync.WaitGroup
	var mu sync.Mutex
	type rv struct {
		idx int
		v   report.Violation
	}
	var found []rv
	for _, e := range envs {
		e := e
		wg.Add(1)
		go func() {
			defer wg.Done()
			for {
				i := int(atomic.AddInt64(&next, 1))
				if i >= len(cases) {
					return
				}
				k := cases[i]
				res := runCase(t, kd, e, k)
				atomic.AddInt64(&st.cases, 1)
				if res.held != "" {
					atomic.AddInt64(&st.held, 1)
					st.heldKinds.Store(res.held, true)
				}
				atomic.AddInt64(&st.tx, int64(res.txBefore))
				mu.Lock()
				if strings.HasPrefix(res.panicked, "harness:") {
					run.HarnessError(strings.Join(k.trace(), " ; ") + ": " + strings.SplitN(res.panicked, "\n", 2)[0])
				} else if res.panicked != "" {
					found = append(found, rv{i, report.Violation{Part: part, Kind: "panic", Site: strings.Join(k.Terms, ";"), Detail: res.panicked, Config: k.Cfg, Trace: k.trace()}})
				}
				for _, v := range res.viols {
					found = append(found, rv{i, report.Violation{Part: part, Kind: v.Kind, Site: v.Site, Detail: v.Detail, Config: k.Cfg, Trace: k.trace()}})
				}
				mu.Unlock()
			}
		}()
	}
	wg.Wait()
	// deterministic order: shortest termination sequence first, then enumeration order
	sort.SliceStable(found, func(a, b int) bool {
		la, lb := len(cases[found[a].idx].Terms), len(cases[found[b].idx].Terms)
		if la != lb {
			return la < lb
		}
		return found[a].idx < found[b].idx
	})
	for _, f := range found {
		v := f.v
		classify(&v)
		run.Violation(v)
	}
	if strings.HasPrefix(kd.name, "dhcp4-") && envs[0].has() && st.tx == 0 {
		run.HarnessError(part + ": the kernel fast path never answered the victim before termination - the fast-path clause would be vacuous")
	}
	var hk []string
	st.heldKinds.Range(func(k, _ any) bool { hk = append(hk, k.(string)); return true })
	sort.Strings(hk)
	run.AddPart(report.Part{Name: part, Engine: "A:complete-cross-product + C:kernel-maps/test-run", Exhaustive: true,
		Bound:  fmt.Sprintf("%d configurations x prefixes x {p, p;p, p;q%s} over the kind's termination paths%s = %d cases", len(kd.cfgs), map[bool]string{true: ", p;q;r", false: ""}[run.Thorough()], formsNote(kd, run.Thorough()), len(cases)),
		States: st.cases, Transitions: st.cases, Outcomes: int64(len(hk)),
		Note: fmt.Sprintf("%d cases in which the victim held something before termination; %d fast-path answers for the victim before termination; distinct holdings: %s", st.held, st.tx, strings.Join(hk, " | "))})
	if len(hk) > 0 {
		run.Sample(map[string]any{"part": part, "cases": len(cases), "first": cases[0].trace(), "last": cases[len(cases)-1].trace(), "holdings": hk})
	}
}

func TestCheck(t *testing.T) {
	run := report.New("C16", "model_checking")
	run.Rule = "complete cross product session kind x configuration x establishment prefix x termination sequence {p; p,p; p,q} on the real components with real kernel maps and a recording scripted RADIUS; after termination: address back in pool (state + destructive probe), NAT/QoS gone (API + kernel map key sets), fast path silent (real bytecode in-kernel), exactly one Stop iff Start, second termination changes nothing, bystander untouched; the RADIUS Disconnect in every session-identification form (attribute subsets through the real CoA parser); plus preemption-bounded schedules of concurrent termination pairs and of one resource (NAT block, QoS entry, pool address) released by two paths at once (state equals that after one release, counts, probe)"
	run.Assumptions = []string{
		"DHCP DECLINE: 'back in the pool' means no longer reserved for the client; the declined address itself is quarantined by design (RFC 2131) and must not be handed out again",
		"dhcp.Server has no Stop/administrative-terminate/Disconnect entry point (Start needs a UDP socket): those paths do not exist for the DHCP kinds",
		"VLAN-pair cache entries are never written by the userspace DHCP server (Lease.STag/CTag are never set); the VLAN map is required to stay empty",
		"kernel lease-expiry clock is uptime; virtual time only drives the userspace side",
		"pppoe.Server has no NAT/QoS/eBPF/accounting integration and no administrative or RADIUS-Disconnect entry point: for that kind the resources are the session-table entry, the MAC index and the pool address",
		"pppoe.SessionTeardown and subscriber.Manager only end sessions: establishment and the wiring of their callbacks/events to nat.Manager, qos.Manager, radius.Client/AccountingManager and radius.CoAProcessor is done by the harness the way a deployment would (real collaborators, no mocks of repository code); the IDLE path of the teardown kind is a caller that still holds the *Session",
		"fault configurations (.../fault=X): exactly one release step of the victim's teardown is failed by injection (allocator ReleaseIPv4/ReleaseIPv6 error, UpdateEBPFMaps callback error, RADIUS server failing the Accounting-Stop); the resource behind the failed step is exempt (for a failed Stop: exactly one attempt is required), every other clause of the oracle applies unchanged",
		"late prefixes (DHCP DRL/DRX, pppoe IPCP-LATE, subscriber ACTIVE-LATE): the session's deadline (lease time, idle timeout) has passed and the client acts again at an instant strictly between that deadline and the next tick of the periodic sweep; computed from the real lease expiry and the sweep period, not from wall time",
		"Accounting clause is evaluated per Acct-Session-Id: every session id that got a Start gets exactly one Stop, no Stop without a Start",
		"RADIUS Disconnect forms: the session is named by any subset of Acct-Session-Id, User-Name, Framed-IP-Address, Calling-Station-Id that contains an attribute the CoA processor can look a session up by (it has no lookup by User-Name: a request with User-Name only is NAKed and is not a termination path); lookups by address / MAC are wired to the session tables as a deployment would; Calling-Station-Id is spelled as the NAS's own accounting records spell it",
		"configuration radius/acct=coa: accounting of a RADIUS-initiated termination is left to radius.CoAProcessor (accounting manager attached: it documents sending the Stop with cause NAS-Request before calling the terminator); the session_terminate handler sends the Stop for every other reason. In the other configurations the handler calls StopSession for every reason",
		"Engine B: scheduling points are lock operations, go statements and timers of the rewritten packages (radius, pppoe, subscriber, dhcp, nat, qos); ebpf.Loader code and kernel-map system calls run atomically between them; the end-of-schedule oracle runs inside the execution with scheduling off",
	}
	dir, err := os.MkdirTemp(filepath.Join(nativebpf.Root(), ".work"), "c16-")
	if err != nil {
		os.MkdirAll(filepath.Join(nativebpf.Root(), ".work"), 0o755)
		dir, err = os.MkdirTemp(filepath.Join(nativebpf.Root(), ".work"), "c16-")
	}
	if err != nil {
		run.HarnessError(err.Error())
		os.Exit(run.Finish())
	}
	fin := func(code int) { os.RemoveAll(dir); os.Exit(code) }
	nenv := 12
	if n := runtime.NumCPU(); n < nenv {
		nenv = n
	}
	var envs []*kenv
	if err := nativebpf.KernelBuild(dir); err != nil {
		run.HarnessError(err.Error())
		fin(run.Finish())
	}
	for i := 0; i < nenv; i++ {
		e, err := newKenv(dir)
		if err != nil {
			var ve *cebpf.VerifierError
			if errors.Is(err, nativebpf.ErrNoBPF) {
				run.Assumptions = append(run.Assumptions, "FALLBACK: the kernel refuses bpf() here; all managers ran with nil maps, kernel-map and fast-path clauses were NOT checked: "+err.Error())
				envs = append(envs, &kenv{})
				continue
			}
			if errors.As(err, &ve) {
				run.HarnessError("kernel verifier rejects dhcp_fastpath (C03's business): " + err.Error())
			} else if len(envs) > 0 && envs[0].has() {
				// a later worker's maps could not be created (resource limits while other checks use BPF too):
				// go on with the workers that exist - fewer workers, same cases
				fmt.Printf("note: only %d of %d kernel-map environments could be created: %v\n", len(envs), nenv, err)
				break
			} else {
				run.HarnessError("cannot set up kernel maps: " + err.Error())
			}
			fin(run.Finish())
		}
		envs = append(envs, e)
	}
	defer func() {
		for _, e := range envs {
			e.close()
		}
	}()
	run.SetExtra("kernel_maps", envs[0].has())
	if *report.FlagReplay != "" {
		fin(replay(t, run, envs[0]))
	}
	for _, kd := range kinds() {
		runMatrix(t, run, kd, envs)
	}
	runSched(run, envs[0]) // after the matrix: only one controlled execution may be active, and none next to Engine A workers
	fin(run.Finish())
}

func replay(t *testing.T, run *report.Run, e *kenv) int {
	v, err := report.LoadReplay(*report.FlagReplay)
	if err != nil {
		fmt.Println("HARNESS-ERROR", err)
		return 2
	}
	if strings.HasPrefix(v.Part, "sched:") {
		return replaySched(e, v)
	}
	if strings.HasPrefix(v.Part, "matrix:") {
		name := strings.TrimPrefix(v.Part, "matrix:")
		for _, kd := range kinds() {
			if kd.name != name {
				continue
			}
			k, err := kaseFromTrace(name, v.Trace)
			if err != nil {
				fmt.Println("HARNESS-ERROR", err)
				return 2
			}
			res := runCase(t, kd, e, k)
			n := 0
			if res.panicked != "" {
				fmt.Printf("VIOLATION property=C16 replay=%s\n  panic: %s\n", *report.FlagReplay, res.panicked)
				n++
			}
			for _, x := range res.viols {
				fmt.Printf("VIOLATION property=C16 replay=%s\n  kind=%s site=%s detail=%s\n", *report.FlagReplay, x.Kind, x.Site, x.Detail)
				n++
			}
			if n > 0 {
				return 1
			}
			fmt.Println("replay: no violation")
			return 0
		}
	}
	fmt.Println("HARNESS-ERROR unknown part", v.Part)
	return 2
}
