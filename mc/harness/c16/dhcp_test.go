//go:build verif

package c16

import (
	"fmt"
	"net"
	"sort"
	"strings"
	"testing/synctest"
	"time"

	"github.com/codelaboratoryltd/bng/pkg/dhcp"
	"github.com/codelaboratoryltd/bng/pkg/nat"
	"github.com/codelaboratoryltd/bng/pkg/qos"
	"github.com/insomniacslk/dhcp/dhcpv4"

	"verif/deepdump"
	"verif/harness/dhcpdrv"
)

// DHCPv4 session kinds: the REAL dhcp.Server (through the shared in-memory
// driver) with NAT, QoS, RADIUS and the eBPF loader attached exactly through
// the server's own Set* methods.
//
//	prefixes:  D (DISCOVER/OFFER only) | DR (ACKed) | DRN (ACKed and renewed once) |
//	           DRL (ACKed; the lease time runs out; the client renews LATE, i.e. at an instant between
//	           the expiry and the next tick of the one-minute cleanup sweep) | X = as L but DISCOVER+REQUEST
//	paths:     RELEASE | DECLINE | EXPIRY (lease time passes + cleanup ticker) |
//	           AUTHFAIL (the REQUEST is rejected by RADIUS; prefix D, radius-auth only)
const (
	dhcpLease   = 10 * time.Minute
	dhcpNetwork = "10.0.1.0/29"
	dhcpGateway = "10.0.1.1"
	dhcpTotal   = 5 // .2 .. .6
)

func dhcpKind(name string, relayed bool) kindDef {
	return kindDef{
		name: name,
		// .../fault=acct-stop: the RADIUS server fails the victim's Accounting-Stop; everything else must still be released
		cfgs: []string{"radius-auth", "radius-acct", "no-radius", "radius-acct/fault=acct-stop"},
		prefixes: func(cfg string) []string {
			if strings.Contains(cfg, "/fault=") {
				return []string{"DR"}
			}
			if relayed {
				// DRM: renewed once through a hop that adds a Remote-ID but no Circuit-ID, then the session ends
				return []string{"D", "DR", "DRN", "DRL", "DRM"}
			}
			return []string{"D", "DR", "DRN", "DRL"}
		},
		// thorough: DISCOVER repeated; DISCOVER again while holding a lease (re-offer of the leased address); two renewals;
		// late renewals after an ordinary one / twice; the client starting over (DISCOVER+REQUEST) in the expiry window
		morePrefixes: func(cfg string) []string {
			if strings.Contains(cfg, "/fault=") {
				return []string{"DRN", "DRL"}
			}
			return []string{"DD", "DRD", "DRNN", "DRNL", "DRLL", "DRX"}
		},
		paths: func(cfg, prefix string) []string {
			p := []string{"RELEASE", "DECLINE", "EXPIRY"}
			if !strings.Contains(prefix, "R") && cfg == "radius-auth" {
				p = append(p, "AUTHFAIL")
			}
			return p
		},
		run: func(e *kenv, k kase) result { return runDHCP(e, k, relayed) },
	}
}

type dhcpWorld struct {
	e       *kenv
	k       kase
	d       *dhcpdrv.V4
	natM    *nat.Manager
	qosM    *qos.Manager
	rs      *radiusScript
	base    mapDump
	v, b    dhcpClient
	vAddr   net.IP // the address the victim was offered / leased
	vLeased bool   // the victim got an ACK
	bAddr   net.IP
	decl    bool             // a DECLINE of the leased address was delivered while the victim held the lease
	now     func() time.Time // the execution's clock (nil: time.Now, virtual inside a bubble)
	wait    func()           // lets goroutines settle (synctest.Wait in a bubble; nil under the controlled scheduler)
	viols   []viol
}

func (w *dhcpWorld) add(kind, site, f string, a ...any) {
	w.viols = append(w.viols, viol{kind, site, fmt.Sprintf(f, a...)})
}

func (w *dhcpWorld) settle() {
	if w.wait != nil {
		w.wait()
	}
}

func (w *dhcpWorld) send(c dhcpClient, m dhcpdrv.Msg, relay bool) []dhcpdrv.Reply {
	m.CHAddr = c.mac
	if relay && c.giaddr != nil {
		m.GIAddr = c.giaddr
		m.CircuitID = c.circuit
		m.RemoteID = "ri"
	}
	r := w.d.Send(m)
	w.settle() // accounting goroutines have delivered their record
	return r
}

// step performs one establishment step of client c; returns the address offered/acknowledged (nil: refused).
func (w *dhcpWorld) step(c dhcpClient, s byte, addr net.IP) (net.IP, dhcpv4.MessageType) {
	var rs []dhcpdrv.Reply
	switch s {
	case 'D':
		rs = w.send(c, dhcpdrv.Msg{Type: dhcpv4.MessageTypeDiscover}, true)
	case 'R':
		rs = w.send(c, dhcpdrv.Msg{Type: dhcpv4.MessageTypeRequest, ReqIP: addr, ServerID: w.d.ServerIP()}, true)
	case 'N': // renewal: unicast by the client itself, ciaddr set
		rs = w.send(c, dhcpdrv.Msg{Type: dhcpv4.MessageTypeRequest, CIAddr: addr}, false)
	case 'M': // renewal that reaches the server through a relay hop whose option 82 carries a Remote-ID only (no Circuit-ID)
		m := dhcpdrv.Msg{Type: dhcpv4.MessageTypeRequest, CIAddr: addr, CHAddr: c.mac}
		if c.giaddr != nil {
			m.GIAddr, m.RemoteID = c.giaddr, "ri"
		}
		rs = w.d.Send(m)
		w.settle()
	}
	for _, r := range rs {
		if r.Type == dhcpv4.MessageTypeOffer || r.Type == dhcpv4.MessageTypeAck {
			return r.YIAddr.To4(), r.Type
		}
		return nil, r.Type
	}
	return nil, dhcpv4.MessageTypeNone
}

// newDHCPWorld builds server + collaborators and establishes the bystander.
// now/sleep: the clock of the execution (bubble or controlled scheduler).
func newDHCPWorld(e *kenv, cfg string, relayed bool, wait func(), now func() time.Time, sleep func(time.Duration)) *dhcpWorld {
	w := &dhcpWorld{e: e, wait: wait, now: now}
	w.v = dhcpClient{name: "victim", mac: net.HardwareAddr{2, 0, 0, 0, 0, 0x01}}
	w.b = dhcpClient{name: "bystander", mac: net.HardwareAddr{2, 0, 0, 0, 0, 0x0b}}
	if relayed {
		w.v.giaddr, w.v.circuit = net.IPv4(10, 9, 9, 1).To4(), "c1"
		w.b.giaddr, w.b.circuit = net.IPv4(10, 9, 9, 1).To4(), "cB"
	}
	e.clear()
	loader := e.loader()
	w.natM = e.natManager(1)
	qm, pol := e.qosManager()
	w.qosM = qm
	cfg, fault, _ := strings.Cut(cfg, "/fault=")
	if cfg != "no-radius" {
		w.rs = newRadiusScript()
		if fault == "acct-stop" {
			w.rs.failStop[w.v.mac.String()] = true
		}
	}
	w.d = dhcpdrv.NewV4(dhcpdrv.V4Config{Network: dhcpNetwork, Gateway: dhcpGateway, Lease: dhcpLease, Loader: loader,
		RADIUSAuth: cfg == "radius-auth", Sleep: sleep, Now: now,
		Setup: func(s *dhcp.Server, _ *dhcp.PoolManager, _ *dhcp.Pool) {
			s.SetNATManager(w.natM)
			s.SetQoSManager(w.qosM)
			s.SetPolicyManager(pol)
			if w.rs != nil {
				s.SetRADIUSClient(w.rs.client())
			}
		}})
	if e.has() {
		loader.SetServerConfig(srvMAC, w.d.ServerIP(), 2) // what Server.Start writes
	}
	// bystander: fully established before the victim arrives
	off, _ := w.step(w.b, 'D', nil)
	w.bAddr, _ = w.step(w.b, 'R', off)
	if w.bAddr == nil {
		panic("harness: bystander could not be established")
	}
	w.base = e.dump()
	return w
}

func (w *dhcpWorld) close() {
	if w.rs != nil {
		w.rs.close()
	}
}

func runDHCP(e *kenv, k kase, relayed bool) (res result) {
	w := newDHCPWorld(e, k.Cfg, relayed, synctest.Wait, nil, func(x time.Duration) { time.Sleep(x); synctest.Wait() })
	w.k = k
	defer w.close()

	// victim: establishment prefix
	for i := 0; i < len(k.Prefix); i++ {
		switch k.Prefix[i] {
		case 'D':
			w.vAddr, _ = w.step(w.v, 'D', nil)
			if w.vAddr == nil {
				panic("harness: victim got no offer")
			}
		case 'R':
			a, mt := w.step(w.v, 'R', w.vAddr)
			if mt != dhcpv4.MessageTypeAck || !a.Equal(w.vAddr) {
				panic(fmt.Sprintf("harness: victim REQUEST answered %v %v", mt, a))
			}
			w.vLeased = true
		case 'N', 'M':
			if _, mt := w.step(w.v, k.Prefix[i], w.vAddr); mt != dhcpv4.MessageTypeAck {
				panic("harness: victim renewal not acknowledged")
			}
		case 'L', 'X':
			// the lease time runs out, and the client comes back between the expiry and the sweep that would remove the lease
			w.advanceIntoExpiryWindow()
			if k.Prefix[i] == 'X' {
				if a, _ := w.step(w.v, 'D', nil); !a.Equal(w.vAddr) {
					panic(fmt.Sprintf("harness: late DISCOVER offered %v, the client held %v", a, w.vAddr))
				}
				if _, mt := w.step(w.v, 'R', w.vAddr); mt != dhcpv4.MessageTypeAck {
					panic("harness: late REQUEST not acknowledged")
				}
			} else if _, mt := w.step(w.v, 'N', w.vAddr); mt != dhcpv4.MessageTypeAck {
				panic("harness: late renewal not acknowledged")
			}
		}
	}
	res.held = w.holdings()
	if tx, err := e.fastPathAnswers(w.v, w.vAddr, w.d.ServerIP()); err == nil {
		res.txBefore = len(tx)
	}

	var d1 string
	var n1 int
	for i, t := range k.Terms {
		w.terminate(t)
		site := strings.Join(k.Terms[:i+1], ";")
		if i == 0 {
			w.checkReleased(site)
			d1, n1 = w.dump(), w.nrec()
			continue
		}
		// O5: the second termination changes nothing
		if d2 := w.dump(); d2 != d1 {
			w.add("second-termination-changes-state", site, "state after %s differs from the state after %s: %s", site, k.Terms[0], diff(d1, d2))
		}
		if n2 := w.nrec(); n2 != n1 {
			w.add("second-termination-sends-records", site, "%d further RADIUS accounting record(s) after the session had already ended: %s", n2-n1, w.rs.render())
		}
		w.checkReleased(site)
	}
	w.probe(strings.Join(k.Terms, ";"))
	res.viols = w.viols
	return
}

func (w *dhcpWorld) nrec() int {
	if w.rs == nil {
		return 0
	}
	return w.rs.nAttempts()
}

// holdings describes what the victim holds right now (evidence only).
func (w *dhcpWorld) holdings() string {
	var h []string
	st := w.d.Pool.VerifState()
	if _, ok := st.Allocated[w.v.mac.String()]; ok {
		h = append(h, "pool-reservation")
	}
	for _, l := range w.d.Leases() {
		if l.Key == w.v.mac.String() {
			h = append(h, "lease")
		}
	}
	if w.vAddr != nil && w.natM.GetAllocation(w.vAddr) != nil {
		h = append(h, "nat")
	}
	if w.qosM.GetSubscriberCount() > 1 {
		h = append(h, "qos")
	}
	if x := w.e.dump().extraKeys(w.base); len(x) > 0 {
		m := map[string]bool{}
		for _, k := range x {
			m[k[:strings.Index(k, "[")]] = true
		}
		var ms []string
		for k := range m {
			ms = append(ms, k)
		}
		sort.Strings(ms)
		h = append(h, "kernel:"+strings.Join(ms, "+"))
	}
	if w.rs != nil {
		if s, _ := w.rs.count(w.v.mac.String()); s > 0 {
			h = append(h, "acct-start")
		}
	}
	return strings.Join(h, ",")
}

func (w *dhcpWorld) terminate(path string) {
	switch path {
	case "RELEASE": // unicast by the client itself
		w.send(w.v, dhcpdrv.Msg{Type: dhcpv4.MessageTypeRelease, CIAddr: w.vAddr, ServerID: w.d.ServerIP()}, false)
	case "DECLINE": // broadcast: reaches the server through the relay
		held := false
		for _, l := range w.d.Leases() {
			if l.Key == w.v.mac.String() && l.IP.Equal(w.vAddr) {
				held = true
			}
		}
		w.send(w.v, dhcpdrv.Msg{Type: dhcpv4.MessageTypeDecline, ReqIP: w.vAddr, ServerID: w.d.ServerIP()}, true)
		if held {
			w.decl = true
		}
	case "EXPIRY":
		// only the victim's lease runs out (the bystander keeps renewing)
		w.advance(dhcpLease + time.Second)
		w.advance(61 * time.Second) // at least one cleanup tick after the expiry
		w.settle()
	case "AUTHFAIL":
		w.rs.mu.Lock()
		w.rs.reject[w.v.mac.String()] = true
		w.rs.mu.Unlock()
		if _, mt := w.step(w.v, 'R', w.vAddr); mt != dhcpv4.MessageTypeNak {
			panic(fmt.Sprintf("harness: rejected REQUEST answered %v", mt))
		}
	default:
		panic("unknown termination path " + path)
	}
}

func (w *dhcpWorld) clock() time.Time {
	if w.now != nil {
		return w.now()
	}
	return time.Now()
}

// advance lets d pass (cleanup ticks included) in steps of at most half a lease time; the bystander
// renews before every step and at the end, so that its lease never runs out.
func (w *dhcpWorld) advance(d time.Duration) {
	renew := func() {
		if _, mt := w.step(w.b, 'N', w.bAddr); mt != dhcpv4.MessageTypeAck {
			panic("harness: bystander renewal not acknowledged")
		}
	}
	for d > 0 {
		renew()
		c := d
		if c > dhcpLease/2 {
			c = dhcpLease / 2
		}
		w.d.Advance(c)
		d -= c
	}
	renew()
}

// advanceIntoExpiryWindow moves the clock to the middle of the interval between the victim's lease
// expiry and the first cleanup tick that will find it expired (ticks run at Start + k*60 s).
func (w *dhcpWorld) advanceIntoExpiryWindow() {
	var exp time.Time
	for _, l := range w.d.Leases() {
		if l.Key == w.v.mac.String() {
			exp = l.ExpiresAt
		}
	}
	if exp.IsZero() {
		panic("harness: the victim has no lease that could run out")
	}
	k := exp.Sub(w.d.Start)/dhcpdrv.CleanupPeriod + 1
	sweep := w.d.Start.Add(k * dhcpdrv.CleanupPeriod) // first tick strictly after the expiry
	target := exp.Add(sweep.Sub(exp) / 2)
	if d := target.Sub(w.clock()); d > 0 {
		w.advance(d)
	}
	if now := w.clock(); !now.After(exp) || !now.Before(sweep) {
		panic(fmt.Sprintf("harness: clock %v is not between expiry %v and sweep %v", now, exp, sweep))
	}
	for _, l := range w.d.Leases() {
		if l.Key == w.v.mac.String() {
			return
		}
	}
	panic("harness: the victim's lease was swept before the late request")
}

func contains(l []string, s string) bool {
	for _, x := range l {
		if x == s {
			return true
		}
	}
	return false
}

// checkReleased: O1..O4 and O6 (non-destructive).
func (w *dhcpWorld) checkReleased(site string) {
	vm, va := w.v.mac.String(), w.vAddr.String()
	st := w.d.Pool.VerifState()
	// O1
	if ip, ok := st.Allocated[vm]; ok {
		w.add("address-not-released", site, "the pool still reserves %s for the victim %s", ip, vm)
	} else if contains(st.Unavailable, va) {
		if !w.decl {
			w.add("address-not-released", site, "%s is marked unavailable although the victim never declined it while holding it", va)
		}
	} else if !contains(st.Available, va) {
		w.add("address-not-released", site, "%s is neither free, quarantined nor reserved for the victim (allocated=%v)", va, st.Allocated)
	}
	if n := len(st.Available) + len(st.Allocated) + len(st.Unavailable); n != dhcpTotal {
		w.add("pool-conservation", site, "pool accounts for %d addresses, has %d (available=%v allocated=%v unavailable=%v)", n, dhcpTotal, st.Available, st.Allocated, st.Unavailable)
	}
	for _, l := range w.d.Leases() {
		if l.Key == vm {
			w.add("session-still-present", site, "the lease table still has the victim's lease on %s", l.IP)
		}
	}
	// O2 (manager API)
	if a := w.natM.GetAllocation(w.vAddr); a != nil {
		w.add("nat-not-removed", site, "nat.Manager still has %s -> %s:%d-%d", va, a.PublicIP, a.PortStart, a.PortEnd)
	}
	if n := w.natM.GetAllocationCount(); n != 1 {
		w.add("nat-not-removed", site, "nat.Manager counts %d allocations, only the bystander's should exist", n)
	}
	if n := w.qosM.GetSubscriberCount(); n != 1 {
		w.add("qos-not-removed", site, "qos.Manager tracks %d subscribers, only the bystander should be left", n)
	}
	// O2/O3 (kernel maps: exactly the keys that existed before the victim arrived)
	cur := w.e.dump()
	for _, x := range cur.extraKeys(w.base) {
		kind := "cache-entry-left"
		switch {
		case strings.HasPrefix(x, "subscriber_nat"):
			kind = "nat-not-removed"
		case strings.HasPrefix(x, "qos_"):
			kind = "qos-not-removed"
		}
		w.add(kind, site, "kernel map entry %s = %s was written for the victim and is still there", x, cur[x[:strings.Index(x, "[")]][x[strings.Index(x, "[")+1:len(x)-1]])
	}
	for _, x := range cur.missingKeys(w.base) {
		w.add("bystander-damaged", site, "kernel map entry %s of the bystander disappeared", x)
	}
	// O3 (the real program)
	if tx, err := w.e.fastPathAnswers(w.v, w.vAddr, w.d.ServerIP()); err != nil {
		panic("harness: BPF test run failed: " + err.Error())
	} else if len(tx) > 0 {
		w.add("fastpath-still-answers", site, "the kernel fast path still answers the victim: %s", strings.Join(tx, "; "))
	}
	// O4
	if w.rs != nil {
		for _, c := range w.rs.stopOracle(vm) {
			w.add("accounting-stop-count", site, "%s: %s", c, w.rs.render())
		}
		if _, bs := w.rs.count(w.b.mac.String()); bs != 0 {
			w.add("bystander-damaged", site, "the bystander's session got an Accounting-Stop: %s", w.rs.render())
		}
	}
	// O6
	bl := false
	for _, l := range w.d.Leases() {
		if l.Key == w.b.mac.String() && l.IP.Equal(w.bAddr) {
			bl = true
		}
	}
	if !bl || st.Allocated[w.b.mac.String()] != w.bAddr.String() {
		w.add("bystander-damaged", site, "the bystander lost its lease / pool reservation on %s", w.bAddr)
	}
	if w.natM.GetAllocation(w.bAddr) == nil {
		w.add("bystander-damaged", site, "the bystander lost its NAT allocation")
	}
	if w.e.has() {
		if tx, _ := w.e.fastPathAnswers(w.b, w.bAddr, w.d.ServerIP()); len(tx) == 0 {
			w.add("bystander-damaged", site, "the fast path no longer answers the bystander")
		}
	}
}

// statistics counters of dhcp.Server: incremented per packet, read only by Stats()/CircuitIDCollisionStats()
var dhcpSkip = map[string]bool{
	"Server.requestsTotal": true, "Server.offersTotal": true, "Server.acksTotal": true, "Server.naksTotal": true,
	"Server.releasesTotal": true, "Server.radiusAuthOK": true, "Server.radiusAuthFail": true,
	"Server.circuitIDInsertions": true, "Server.circuitIDCollisions": true,
}

// kernel objects / RADIUS client / logger are not state of the session (map CONTENTS are dumped separately)
var skipTypes = map[string]bool{"ebpf.Loader": true, "ebpf.Map": true, "ebpf.Collection": true, "radius.Client": true, "nat.Logger": true, "radius.PolicyManager": true}

func (w *dhcpWorld) dump() string {
	o := deepdump.Options{IgnoreTimes: true, SkipFields: dhcpSkip, SkipTypes: skipTypes}
	return "SERVER " + deepdump.Dump(w.d.Srv, o) + "\nNAT " + deepdump.Dump(w.natM, o) + "\nQOS " + deepdump.Dump(w.qosM, o) + "\nMAPS " + w.e.dump().render(w.base)
}

// probe (destructive): fresh clients take every free address exactly once; the
// victim's address is among them (unless it was legitimately declined) and can be leased.
func (w *dhcpWorld) probe(site string) {
	st := w.d.Pool.VerifState()
	if _, pinned := st.Allocated[w.v.mac.String()]; pinned {
		return // already reported by O1
	}
	got := map[string]int{}
	var vClient *dhcpClient
	for i := 0; i < dhcpTotal+2; i++ {
		c := dhcpClient{name: fmt.Sprintf("fresh%d", i), mac: net.HardwareAddr{2, 0, 0, 0, 1, byte(i)}}
		a, _ := w.step(c, 'D', nil)
		if a == nil {
			break
		}
		got[a.String()]++
		if a.Equal(w.vAddr) {
			cc := c
			vClient = &cc
		}
		if a.Equal(w.bAddr) {
			w.add("probe-double-assignment", site, "fresh client %s is offered the bystander's address %s", c.name, a)
		}
	}
	for a, n := range got {
		if n > 1 {
			w.add("probe-double-assignment", site, "address %s offered to %d fresh clients", a, n)
		}
	}
	want := dhcpTotal - 1
	if w.decl {
		want--
	}
	if len(got) != want {
		w.add("probe-conservation", site, "fresh clients obtained %d distinct addresses, %d should be free (bystander holds one%s)", len(got), want, map[bool]string{true: ", one declined", false: ""}[w.decl])
	}
	if w.decl {
		if vClient != nil {
			w.add("probe-declined-reoffered", site, "declined address %s was offered to %s", w.vAddr, vClient.name)
		}
		return
	}
	if vClient == nil {
		w.add("probe-address-not-obtainable", site, "no fresh client was offered the victim's former address %s (offers: %v)", w.vAddr, got)
		return
	}
	if a, mt := w.step(*vClient, 'R', w.vAddr); mt != dhcpv4.MessageTypeAck || !a.Equal(w.vAddr) {
		w.add("probe-address-not-obtainable", site, "fresh client's REQUEST for %s answered %v", w.vAddr, mt)
		return
	}
	if w.natM.GetAllocation(w.vAddr) == nil {
		w.add("probe-address-not-obtainable", site, "the new holder of %s got no NAT allocation", w.vAddr)
	}
}

func diff(a, b string) string {
	i := 0
	for i < len(a) && i < len(b) && a[i] == b[i] {
		i++
	}
	lo := i - 60
	if lo < 0 {
		lo = 0
	}
	end := func(s string) string {
		if i+60 < len(s) {
			return s[lo : i+60]
		}
		return s[lo:]
	}
	return fmt.Sprintf("...%s... -> ...%s...", end(a), end(b))
}
