// C07 — Kernel programs stay inside the packet and leave other traffic untouched.
// Engine C: bpf/*.c compiled natively (unchanged) with shim headers; a pure-C
// enumerator runs every structured frame shape x truncation x padding x map
// state x placement (frame flush against an inaccessible page at either end);
// a second pass runs under AddressSanitizer with byte-precise poisoning.
package c07

import (
	"bufio"
	"bytes"
	"encoding/json"
	"errors"
	"fmt"
	"os"
	"os/exec"
	"path/filepath"
	"strconv"
	"strings"
	"sync"
	"syscall"
	"testing"
	"time"

	"github.com/cilium/ebpf"

	"verif/nativebpf"
	"verif/report"
)

var progs = []string{"dhcp_fastpath", "antispoof", "qos_ratelimit", "nat44"}

type vio struct {
	Violation  string `json:"violation"`
	Pi         int    `json:"pi"`
	Si         int    `json:"si"`
	AdjustFail int    `json:"adjust_fail"`
	Prog       string `json:"prog"`
	State      string `json:"state"`
	Placement  int    `json:"placement"`
	Verdict    int    `json:"verdict"`
	Fault      int    `json:"fault"`
	Len        int    `json:"len"`
	NewLen     int    `json:"newlen"`
	Detail     string `json:"detail"`
	Frame      string `json:"frame"`
}

type summary struct {
	Summary    bool  `json:"summary"`
	Progs      int   `json:"progs"`
	States     int   `json:"states"`
	Shapes     int64 `json:"shapes"`
	Runs       int64 `json:"runs"`
	Distinct   int64 `json:"distinct"`
	Capped     int   `json:"distinct_capped"`
	Nontrivial int64 `json:"nontrivial"`
	Tx         int64 `json:"tx"`
	Drop       int64 `json:"drop"`
	ModAllowed int64 `json:"modified_allowed"`
	Violations int64 `json:"violations"`
}

// classify assigns root-cause classes for recorded findings (see known_findings.json).
func classify(v *report.Violation, x vio) {}

func runEnum(bin string, args ...string) ([]vio, summary, error) {
	cmd := exec.Command(bin, append([]string{"--enum"}, args...)...)
	cmd.Env = append(os.Environ(), "ASAN_OPTIONS=halt_on_error=0:handle_segv=0:handle_sigbus=0:detect_leaks=0:print_summary=0:log_path=/dev/null")
	out, err := cmd.StdoutPipe()
	if err != nil {
		return nil, summary{}, err
	}
	if err := cmd.Start(); err != nil {
		return nil, summary{}, err
	}
	var vs []vio
	var sum summary
	sc := bufio.NewScanner(out)
	sc.Buffer(make([]byte, 1<<20), 1<<24)
	for sc.Scan() {
		line := sc.Text()
		if strings.Contains(line, `"summary":true`) {
			json.Unmarshal([]byte(line), &sum)
		} else if strings.HasPrefix(line, `{"violation"`) {
			var x vio
			if json.Unmarshal([]byte(line), &x) == nil {
				vs = append(vs, x)
			}
		}
	}
	err = cmd.Wait()
	if !sum.Summary {
		return vs, sum, fmt.Errorf("%s %v: no summary line (err=%v)", bin, args, err)
	}
	return vs, sum, nil
}

func TestCheck(t *testing.T) {
	run := report.New("C07", "exploration")
	run.Rule = "frames = {6 L2 stackings} x {IPv4,IPv6,ARP,0} x IHL{5,0,4,6,15} x proto{UDP,TCP,ICMP,0} x ports x BOOTP{op,magic,8 option layouts} x 2 directions; every truncation length (quick: all <=70, header boundaries +-1, every 16th; thorough: all) + zero/0xFF paddings up to 1600; x map states x 7 programs x 2 placements flush against PROT_NONE pages; + ASan pass; + bpf_xdp_adjust_tail refusal as a deviation. non-trivial = run whose verdict is not pass or that modified the frame; distinct = distinct (program,state,placement,frame bytes)"
	run.Assumptions = []string{"programs are the repository's C source compiled for x86-64 with shim helpers, not BPF bytecode", "map states are hand-built in C (memory safety/pass-through do not depend on who wrote them)"}
	dir, err := nativebpf.Build()
	defer os.RemoveAll(dir)
	if err != nil {
		run.HarnessError(err.Error())
		os.Exit(run.Finish())
	}
	if *report.FlagReplay != "" {
		os.Exit(replay(dir))
	}
	t0 := time.Now()
	// the in-kernel conformance pass is system-call bound, the enumeration CPU bound: they run side by side
	var tConf time.Duration
	confDone := make(chan struct{})
	go func() {
		defer close(confDone)
		kernelConformance(run, dir)
		tConf = time.Since(t0)
	}()
	tier := "quick"
	shards := 8
	if run.Thorough() {
		tier, shards = "thorough", 16
	}
	type job struct {
		prog string
		asan bool
		sh   int
	}
	var jobs []job
	for _, p := range progs {
		for s := 0; s < shards; s++ {
			jobs = append(jobs, job{p, false, s})
			if run.Thorough() || p == "dhcp_fastpath" {
				jobs = append(jobs, job{p, true, s})
			}
		}
	}
	var mu sync.Mutex
	type agg struct {
		sum  summary
		name string
	}
	aggs := map[string]*summary{}
	var allV []vio
	sem := make(chan struct{}, 16)
	var wg sync.WaitGroup
	for _, j := range jobs {
		wg.Add(1)
		sem <- struct{}{}
		go func(j job) {
			defer wg.Done()
			defer func() { <-sem }()
			bin := filepath.Join(dir, "drv_"+j.prog)
			name := j.prog + "/guard-pages"
			if j.asan {
				bin += "_asan"
				name = j.prog + "/asan"
			}
			vs, sum, err := runEnum(bin, tier, strconv.Itoa(j.sh), strconv.Itoa(shards))
			mu.Lock()
			defer mu.Unlock()
			if err != nil {
				run.HarnessError(err.Error())
				return
			}
			a := aggs[name]
			if a == nil {
				a = &summary{}
				aggs[name] = a
			}
			a.Progs, a.States = sum.Progs, sum.States
			a.Shapes += sum.Shapes
			a.Runs += sum.Runs
			a.Distinct += sum.Distinct
			a.Nontrivial += sum.Nontrivial
			a.Tx += sum.Tx
			a.Drop += sum.Drop
			a.ModAllowed += sum.ModAllowed
			a.Violations += sum.Violations
			a.Capped |= sum.Capped
			for i := range vs {
				vs[i].Prog = j.prog + ":" + vs[i].Prog
				if j.asan {
					vs[i].Detail += " (asan build)"
				}
			}
			allV = append(allV, vs...)
		}(j)
	}
	wg.Wait()
	var evals, nontrivial int64
	for name, a := range aggs {
		run.AddPart(report.Part{Name: name, Engine: "C:native-enum", Bound: fmt.Sprintf("tier=%s programs=%d map-states=%d shapes=%d", tier, a.Progs, a.States, a.Shapes),
			Executions: a.Runs, States: a.Distinct, Transitions: a.Runs, Outcomes: a.Nontrivial, Exhaustive: true,
			Note: fmt.Sprintf("tx=%d drop=%d modified-and-allowed=%d raw-violations=%d distinct-capped=%d", a.Tx, a.Drop, a.ModAllowed, a.Violations, a.Capped)})
		evals += a.Runs
		nontrivial += a.Nontrivial
		run.Sample(map[string]any{"part": name, "runs": a.Runs, "distinct_frames": a.Distinct, "nontrivial": a.Nontrivial})
	}
	run.AddEvals(0, 0)
	run.SetExtra("evaluations", evals)
	run.SetExtra("distinct_nontrivial", nontrivial)
	tEnum := time.Since(t0)
	<-confDone
	run.SetExtra("phase_seconds", map[string]float64{"enumeration": tEnum.Seconds(), "kernel_conformance": tConf.Seconds()})
	fmt.Printf("phases (side by side): enumeration %.1fs kernel-conformance %.1fs\n", tEnum.Seconds(), tConf.Seconds())
	for _, x := range allV {
		asan := 0
		if strings.Contains(x.Detail, "asan build") {
			asan = 1
		}
		v := report.Violation{Part: x.Prog, Kind: x.Violation, Site: x.Prog, Config: x.State,
			Detail: fmt.Sprintf("%s: state=%s placement=%d adjust_tail_refused=%d verdict=%d fault=%d len=%d newlen=%d", x.Detail, x.State, x.Placement, x.AdjustFail, x.Verdict, x.Fault, x.Len, x.NewLen),
			Trace:  []string{"frame=" + x.Frame},
			Extra:  map[string]any{"prog": strings.SplitN(x.Prog, ":", 2)[0], "pi": x.Pi, "si": x.Si, "placement": x.Placement, "adjust_fail": x.AdjustFail, "asan": asan, "frame": x.Frame}}
		classify(&v, x)
		run.Violation(v)
	}
	os.Exit(run.Finish())
}

// kernelConformance binds the natively compiled programs to the real thing: the
// same sources are compiled to BPF bytecode, loaded through the running kernel's
// verifier, and executed with BPF_PROG_TEST_RUN on every full-length frame shape
// (plus a few truncations) in every map state; verdict and output bytes must
// equal the native run's. A disagreement is a harness conformance error (the
// native model misrepresents the program), a verifier rejection is a violation.
func kernelConformance(run *report.Run, dir string) {
	kdir := filepath.Join(dir, "k")
	if err := nativebpf.KernelBuild(kdir); err != nil {
		run.HarnessError(err.Error())
		return
	}
	var total, agree int64
	var tmu sync.Mutex
	var twg sync.WaitGroup
	for _, p := range progs {
		twg.Add(1)
		go func(p string) {
			defer twg.Done()
			n, ok := conformOne(run, dir, kdir, p)
			tmu.Lock()
			total += n
			agree += ok
			tmu.Unlock()
		}(p)
	}
	twg.Wait()
	run.SetExtra("kernel_conformance_runs", total)
	run.SetExtra("kernel_conformance_agree", agree)
}

// conformOne: one program source, natively and in-kernel, frame by frame.
func conformOne(run *report.Run, dir, kdir, p string) (int64, int64) {
	{
		k, err := nativebpf.KernelLoad(kdir, p, 4096)
		if err != nil {
			var ve *ebpf.VerifierError
			if errors.As(err, &ve) {
				msg := err.Error()
				if len(msg) > 1500 {
					msg = msg[len(msg)-1500:]
				}
				run.Violation(report.Violation{Part: p + "/kernel-verifier", Kind: "kernel-verifier-reject", Site: p, Detail: "the running kernel's verifier rejects the program: " + msg})
				return 0, 0
			}
			if errors.Is(err, nativebpf.ErrNoBPF) {
				run.AddPart(report.Part{Name: p + "/kernel-conformance", Engine: "C:kernel-test-run", Note: "skipped: " + err.Error(), Exhaustive: false})
				return 0, 0
			}
			run.HarnessError(p + ": " + err.Error())
			return 0, 0
		}
		d, err := nativebpf.Start(dir, p, false)
		if err != nil {
			run.HarnessError(err.Error())
			k.Close()
			return 0, 0
		}
		resetEach := p == "nat44" || p == "qos_ratelimit"
		var n, ok int64
		step := uint32(1)
		if !run.Thorough() {
			step = 3
		}
		nstates, _ := d.SetState(0)
	states:
		for st := uint32(0); st < nstates; st++ {
			d.SetState(st)
			if err := k.CopyFrom(d); err != nil {
				run.HarnessError(p + ": " + err.Error())
				break
			}
			for idx := uint32(0); ; idx += step {
				f, err := d.Shape(idx)
				if err != nil || f == nil {
					break
				}
				lens := []int{len(f)}
				if run.Thorough() {
					lens = append(lens, len(f)-1, len(f)-40, 60, 34, 14)
				}
				for _, l := range lens {
					if l < 14 || l > len(f) {
						continue
					}
					for pi, pr := range d.Progs {
						if resetEach {
							d.SetState(st)
							if err := k.CopyFrom(d); err != nil {
								run.HarnessError(p + ": " + err.Error())
								break states
							}
						}
						nr, err := d.Run(pi, 1, f[:l])
						if err != nil {
							run.HarnessError(p + ": native driver: " + err.Error())
							break states
						}
						kv, kout, err := k.Run(pr.Name, f[:l])
						if err != nil {
							if errors.Is(err, syscall.EINVAL) {
								continue // the kernel's test-run facility refuses some malformed frames (e.g. truncated IP header): covered natively only
							}
							run.HarnessError(fmt.Sprintf("%s/%s: BPF_PROG_TEST_RUN len=%d: %v", p, pr.Name, l, err))
							break states
						}
						n++
						// the property's oracle on the IN-KERNEL result (ground truth; the native build is only a model of
						// it and may differ where the C source has undefined behaviour, e.g. an over-wide shift)
						if p == "dhcp_fastpath" && kv == 3 /* XDP_TX */ {
							if t := dhcpRequestType(f[:l]); t != 1 && t != 3 {
								run.Violation(report.Violation{Part: p + "/kernel-conformance", Kind: "tx-not-a-request", Site: pr.Name, Config: fmt.Sprintf("state=%d", st),
									Detail: fmt.Sprintf("in-kernel run answered (XDP_TX) a frame whose DHCP message type is %d: only DISCOVER/REQUEST are frames the program is specified to act on; frame=%x", t, f[:l])})
								ok++
								continue
							}
						}
						if int32(kv) == nr.Verdict && bytes.Equal(kout, nr.Frame) {
							ok++
						} else if n-ok <= 3 {
							run.HarnessError(fmt.Sprintf("native/kernel disagreement %s/%s state=%d len=%d: native verdict=%d kernel verdict=%d outputs-equal=%v frame=%x", p, pr.Name, st, l, nr.Verdict, kv, bytes.Equal(kout, nr.Frame), f[:l]))
						}
					}
				}
			}
		}
		d.Close()
		k.Close()
		run.AddPart(report.Part{Name: p + "/kernel-conformance", Engine: "C:kernel-test-run", Bound: fmt.Sprintf("every %d-th frame shape x map states x programs; kernel verifier accepted the object", step),
			Executions: n, Outcomes: ok, Exhaustive: true, Note: fmt.Sprintf("native and in-kernel (BPF_PROG_TEST_RUN) verdict+bytes agree on %d of %d runs", ok, n)})
		return n, ok
	}
}

func replay(dir string) int {
	v, err := report.LoadReplay(*report.FlagReplay)
	if err != nil {
		fmt.Println("HARNESS-ERROR", err)
		return 2
	}
	g := func(k string) string { return fmt.Sprint(v.Extra[k]) }
	bin := filepath.Join(dir, "drv_"+g("prog"))
	if g("asan") == "1" {
		bin += "_asan"
	}
	vs, _, err := runEnum(bin, "one", g("pi"), g("si"), g("placement"), g("adjust_fail"), g("frame"))
	if err != nil {
		fmt.Println("HARNESS-ERROR", err)
		return 2
	}
	for _, x := range vs {
		fmt.Printf("VIOLATION property=C07 replay=%s\n  %s %s verdict=%d fault=%d\n", *report.FlagReplay, x.Violation, x.Detail, x.Verdict, x.Fault)
	}
	if len(vs) > 0 {
		return 1
	}
	fmt.Println("replay: no violation")
	return 0
}

// dhcpRequestType: message type of a DHCP request frame by a plain parse (VLAN tags skipped, IHL honoured, options
// walked); 0 when the frame is not a BOOTREQUEST with the magic cookie or carries no option 53.
func dhcpRequestType(f []byte) int {
	o := 12
	for t := 0; t < 2 && o+4 <= len(f) && ((f[o] == 0x81 && f[o+1] == 0x00) || (f[o] == 0x88 && f[o+1] == 0xa8)); t++ {
		o += 4
	}
	if o+2 > len(f) || f[o] != 0x08 || f[o+1] != 0x00 {
		return 0
	}
	o += 2
	if o+20 > len(f) || f[o]>>4 != 4 || f[o+9] != 17 {
		return 0
	}
	o += int(f[o]&0xf) * 4
	if o+8 > len(f) {
		return 0
	}
	o += 8
	if o+240 > len(f) || f[o] != 1 || f[o+236] != 0x63 || f[o+237] != 0x82 || f[o+238] != 0x53 || f[o+239] != 0x63 {
		return 0
	}
	o += 240
	for o < len(f) {
		if f[o] == 0 {
			o++
			continue
		}
		if f[o] == 255 || o+1 >= len(f) {
			return 0
		}
		if f[o] == 53 && f[o+1] >= 1 && o+2 < len(f) {
			return int(f[o+2])
		}
		o += 2 + int(f[o+1])
	}
	return 0
}
