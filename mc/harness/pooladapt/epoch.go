package pooladapt

import (
	"context"
	"encoding/json"
	"fmt"
	"sort"
	"strings"

	"github.com/codelaboratoryltd/bng/pkg/allocator"

	"verif/deepdump"
	"verif/explore"
)

// ---------------- allocator.EpochBitmapAllocator ----------------
//
// Reference lease semantics (from the type's documentation): a lease is alive
// while (current epoch - epoch of its last allocate/renew) <= grace period. An
// Allocate by a live holder renews. AdvanceEpoch expires what is older.

type EpochCfg struct {
	Net   string
	Grace uint64
	Subs  []string
}

// epochLedger is shared by the plain and the distributed lease-mode adapters:
// the reference lease clock plus the bookkeeping needed for a coded witness
// ("which units does a 2-bit generation make look active although they are not").
type epochLedger struct {
	ref    *Ref
	grace  uint64
	epoch  uint64            // reference epoch (starts at 2 like the implementation's documented start)
	last   map[string]uint64 // holder -> epoch of last allocate/renew
	stamp  map[string]uint64 // unit -> epoch whose generation the slot was last stamped with (0 = never)
	usable []string
}

func newLedger(ref *Ref, grace uint64) *epochLedger {
	if grace == 0 {
		grace = 1
	}
	l := &epochLedger{ref: ref, grace: grace, epoch: 2, last: map[string]uint64{}, stamp: map[string]uint64{}, usable: ref.Usable}
	ref.Explain = l.explain
	return l
}

func (l *epochLedger) touch(h string) {
	if v, ok := l.ref.Held[h]; ok {
		l.last[h] = l.epoch
		l.stamp[v] = l.epoch
	}
}

func (l *epochLedger) released(v string) {
	if v != "" {
		// Release stamps "two epochs behind" (documented in Release); epoch-2 never underflows (epoch>=2)
		l.stamp[v] = l.epoch - 2
	}
}

func (l *epochLedger) advance() {
	l.epoch++
	for _, h := range l.ref.Holders() {
		if l.epoch-l.last[h] > l.grace {
			delete(l.ref.Held, h)
			delete(l.last, h)
		}
	}
}

// aliased: units WITHOUT a live holder in the reference (never allocated,
// released, or expired) whose 2-bit generation nevertheless lies within the
// grace period of the current generation, i.e. which the generation encoding
// cannot tell from an active lease. wrapped: the stamp is >= 4 epochs old (the
// 2-bit counter came round); otherwise the stamp is young (release/initial
// stamp not older than the grace period).
func (l *epochLedger) aliased() (wrapped, young []string) {
	for _, u := range l.usable {
		if l.ref.Owner(u) != "" {
			continue
		}
		age := l.epoch - l.stamp[u] // never stamped: generation 0 == epoch 0
		if age%4 <= l.grace {
			if age >= 4 {
				wrapped = append(wrapped, u)
			} else {
				young = append(young, u)
			}
		}
	}
	return
}

// explain: a conservation/exhaustion/stats witness is accounted for by the
// generation encoding iff the affected units are exactly the aliased ones.
func (l *epochLedger) explain(kind string, units []string, delta int64) string {
	w, y := l.aliased()
	all := append(append([]string{}, w...), y...)
	sort.Strings(all)
	if len(all) == 0 {
		return ""
	}
	switch kind {
	case "leak", "exhaustion":
		u := append([]string{}, units...)
		sort.Strings(u)
		if fmt.Sprint(u) != fmt.Sprint(all) {
			return ""
		}
	case "stats":
		if delta != int64(len(all)) {
			return ""
		}
	default:
		return ""
	}
	cause := "epoch-generation-wrap"
	if len(w) == 0 {
		cause = "epoch-stamp-within-grace"
	}
	return fmt.Sprintf("[cause=%s epoch=%d grace=%d wrapped=%v young=%v]", cause, l.epoch, l.grace, w, y)
}

func (l *epochLedger) String() string {
	var sb strings.Builder
	fmt.Fprintf(&sb, "e%d;", l.epoch)
	for _, h := range l.ref.Holders() {
		fmt.Fprintf(&sb, "%s@%d,", h, l.epoch-l.last[h])
	}
	return sb.String()
}

type epochSys struct {
	*Ref
	c  EpochCfg
	a  *allocator.EpochBitmapAllocator
	l  *epochLedger
	bg context.Context
}

func epochUsable(network string) []string {
	us := Units(network, 32)
	if len(us) < 3 {
		return nil
	}
	return HostTexts(us, 1, 1)
}

func NewEpoch(cl Clauses, c EpochCfg) explore.System {
	a, err := allocator.NewEpochBitmapAllocator(allocator.EpochBitmapConfig{BaseNetwork: c.Net, PrefixLength: 32, GracePeriod: c.Grace})
	if err != nil {
		panic(err)
	}
	s := &epochSys{Ref: NewRef(cl, epochUsable(c.Net)), c: c, a: a, bg: context.Background()}
	s.l = newLedger(s.Ref, c.Grace)
	return s
}

func (s *epochSys) Ops() []string {
	var ops []string
	for _, h := range s.c.Subs {
		ops = append(ops, "Allocate("+h+")", "Renew("+h+")", "Release("+h+")")
	}
	return append(ops, "AdvanceEpoch", "Reload")
}

func (s *epochSys) Apply(op string) string {
	name, a := args(op)
	switch name {
	case "Allocate":
		ip, err := s.a.Allocate(s.bg, a[0])
		var r string
		if err != nil {
			r = s.OnAlloc("Allocate", a[0], "", err.Error())
		} else {
			r = s.OnAlloc("Allocate", a[0], ip.String(), "")
		}
		s.l.touch(a[0])
		return r
	case "Renew":
		err := s.a.Renew(s.bg, a[0])
		_, held := s.Held[a[0]]
		if held && err != nil && s.Cl.C05 {
			s.V("renew", "Renew", "live lease of %s could not be renewed: %v", a[0], err)
		}
		if !held && err == nil && s.Cl.C01 {
			s.V("query", "Renew", "Renew succeeded for %s, which holds no lease", a[0])
		}
		s.l.touch(a[0])
		return fmt.Sprint(err == nil)
	case "Release":
		v := s.Held[a[0]]
		err := s.a.Release(s.bg, a[0])
		if err != nil && s.Cl.C05 {
			s.V("release", "Release", "Release(%s): %v", a[0], err)
		}
		s.OnRelease(a[0])
		delete(s.l.last, a[0])
		s.l.released(v)
		return fmt.Sprint(err == nil)
	case "AdvanceEpoch":
		e := s.a.AdvanceEpoch()
		s.l.advance()
		if e != s.l.epoch {
			s.V("epoch", "AdvanceEpoch", "epoch is %d after advancing, expected %d", e, s.l.epoch)
		}
		return fmt.Sprint(e)
	case "Reload":
		data, err := json.Marshal(s.a)
		if err != nil {
			panic(err)
		}
		n, err := allocator.NewEpochBitmapAllocator(allocator.EpochBitmapConfig{BaseNetwork: s.c.Net, PrefixLength: 32, GracePeriod: s.c.Grace})
		if err != nil {
			panic(err)
		}
		if err := json.Unmarshal(data, n); err != nil {
			s.V("reload", "UnmarshalJSON", "state written by MarshalJSON is rejected: %v", err)
			return "err"
		}
		s.a = n
		return "ok"
	}
	panic("unknown op " + op)
}

func (s *epochSys) Fingerprint() string {
	return deepdump.Dump(s.a, deepdump.Options{}) + "|" + s.Ref.String() + "|" + s.l.String()
}

func (s *epochSys) Check() []explore.Viol {
	for _, h := range append(append([]string{}, s.c.Subs...), "nobody") {
		ip := s.a.Lookup(h)
		got := ""
		if ip != nil {
			got = ip.String()
		}
		s.ExpectLookup("Lookup", h, got, ip != nil)
		// L4: a lease inside its grace period is never dropped
		if want, held := s.Held[h]; held && s.Cl.C05 && got != want {
			s.V("reclaimed", "Lookup", "%s renewed %d epoch(s) ago (grace %d) but its lease on %s is gone (Lookup=%q)", h, s.l.epoch-s.l.last[h], s.l.grace, want, got)
		}
	}
	for _, u := range s.Usable {
		s.ExpectOwner("LookupByIP", u, s.a.LookupByIP(mustIP(u)))
	}
	al, tot, util := s.a.Stats()
	s.ExpectStats("Stats", int64(al), int64(tot), int64(len(s.Usable)), util)
	if len(s.Viols) == 0 {
		s.Probe("Allocate", func(id string) string {
			ip, err := s.a.Allocate(s.bg, id)
			if err != nil {
				return ""
			}
			return ip.String()
		})
	}
	return s.Viols
}
