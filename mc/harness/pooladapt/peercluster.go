package pooladapt

import (
	"bytes"
	"context"
	"encoding/json"
	"fmt"
	"net/http"
	"net/http/httptest"
	"sort"
	"strings"

	"github.com/codelaboratoryltd/bng/pkg/pool"

	"verif/deepdump"
	"verif/explore"
)

// ---------------- pool.PeerPool in a multi-peer cluster ----------------
//
// The node under test (Nodes[0]) is a real PeerPool configured with peers; every
// other node is a real PeerPool too, joined by an in-memory transport. The local
// node comes to serve subscribers it does NOT own by rendezvous hash in three ways,
// all of which are in the alphabet:
//
//	failover    Fail(n): n stops answering and the REAL checkPeer marks it unhealthy after
//	            its threshold of probes; Allocate/Release for n's subscribers are then routed
//	            to the next node of the ranking, possibly the local one. Recover(n) undoes it.
//	forwarded   FwdAllocate(h)/FwdRelease(h): a peer with a different health/membership view
//	            sends POST /pool/allocate / DELETE /pool/release/<id> to the local node.
//	membership  RemovePeer(n)/AddPeer(n): ownership moves while allocations stay where they are.
//
// The reference model (same Ref, same conservation probe, same Stats clause as the
// single-node configuration) is the LOCAL node's pool: a subscriber is a live holder of
// that pool from the moment the local node handed it an address until a Release for it is
// ACCEPTED (returns nil) - wherever the cluster routed that Release: a subscriber that has
// released holds nothing any more, so its address must be obtainable again and the figures
// must say so. An Allocate that the local node forwards to a peer does not touch the local
// pool and therefore not the reference (whether the routing is right is C17).
//
// Root cause coded from the execution (never from the trace text): routedAway records, at the
// moment of an accepted Release, that the subscriber's address was (and stayed) in the local
// node's table while the Release was served by ANOTHER node. A leak/miscount is tagged
// "[cause=release-routed-away-from-holder ...]" only if it is exactly the set of such
// addresses that are still in the table now; anything else stays untagged.
type PeerClusterCfg struct {
	Net, Gateway string
	Nodes        []string // Nodes[0] = node under test
	Subs         []string
	Owners       []string // Owners[i] = node that is the hash owner of Subs[i]
	Membership   bool     // RemovePeer/AddPeer of the last node are in the alphabet
}

func (c PeerClusterCfg) String() string {
	var o []string
	for i, h := range c.Subs {
		o = append(o, h+"@"+c.Owners[i])
	}
	m := ""
	if c.Membership {
		m = " +membership"
	}
	return fmt.Sprintf("x%d %s gw=%s owners=%s%s", len(c.Nodes), c.Net, c.Gateway, strings.Join(o, ","), m)
}

// memNet routes by URL host to the handler of the node of that name.
type memNet struct {
	h         map[string]http.Handler
	down      map[string]bool
	forwarded int    // allocate/release requests the local node sent to a peer (attempts)
	lastHost  string // where the last of them went
}

func (m *memNet) RoundTrip(req *http.Request) (*http.Response, error) {
	if strings.HasPrefix(req.URL.Path, "/pool/allocate") || strings.HasPrefix(req.URL.Path, "/pool/release/") {
		m.forwarded++
		m.lastHost = req.URL.Host
	}
	if err := req.Context().Err(); err != nil {
		return nil, err
	}
	h := m.h[req.URL.Host]
	if h == nil || m.down[req.URL.Host] {
		return nil, fmt.Errorf("verif: connect %s: connection refused", req.URL.Host)
	}
	rec := httptest.NewRecorder()
	h.ServeHTTP(rec, req)
	return rec.Result(), nil
}

type peerClusterSys struct {
	*Ref
	c     PeerClusterCfg
	local string
	p     *pool.PeerPool            // node under test
	nodes map[string]*pool.PeerPool // all nodes
	net   *memNet
	lh    http.Handler      // local node's peer API
	id    map[string]string // holder -> subscriber id with the configured hash owner
	gone  map[string]bool   // nodes removed from the local node's membership
	// routedAway[h] = {address the local table held for h, node that served h's accepted Release instead}
	routedAway map[string][2]string
	bg         context.Context
}

func mkClusterNode(c PeerClusterCfg, id string) *pool.PeerPool {
	p, err := pool.NewPeerPool(pool.PeerPoolConfig{NodeID: id, Peers: append([]string(nil), c.Nodes...), Network: c.Net, Gateway: c.Gateway})
	if err != nil {
		panic(err)
	}
	return p
}

// clusterIDs picks, for every holder, the first of h, h-1, h-2, ... whose rendezvous owner
// (the real GetOwner of a node with this membership) is the configured one.
func clusterIDs(c PeerClusterCfg, p *pool.PeerPool) map[string]string {
	out := map[string]string{}
	for i, h := range c.Subs {
		for k := 0; ; k++ {
			id := h
			if k > 0 {
				id = fmt.Sprintf("%s-%d", h, k)
			}
			if p.GetOwner(id) == c.Owners[i] {
				out[h] = id
				break
			}
			if k > 10000 {
				panic("no subscriber id of " + h + " hashes to " + c.Owners[i])
			}
		}
	}
	return out
}

func NewPeerCluster(cl Clauses, c PeerClusterCfg) explore.System {
	s := &peerClusterSys{Ref: NewRef(cl, v4Usable(c.Net, 0, 0, c.Gateway)), c: c, local: c.Nodes[0],
		nodes: map[string]*pool.PeerPool{}, net: &memNet{h: map[string]http.Handler{}, down: map[string]bool{}},
		gone: map[string]bool{}, routedAway: map[string][2]string{}, bg: context.Background()}
	s.Ref.Explain = s.explain
	for _, n := range c.Nodes {
		p := mkClusterNode(c, n)
		mux := http.NewServeMux()
		p.RegisterHandlers(mux)
		p.VerifC05SetTransport(s.net)
		s.nodes[n] = p
		s.net.h[n] = mux
	}
	s.p = s.nodes[s.local]
	s.lh = s.net.h[s.local]
	s.id = clusterIDs(c, s.p)
	return s
}

func (s *peerClusterSys) Ops() []string {
	var ops []string
	for _, h := range s.c.Subs {
		ops = append(ops, "Allocate("+h+")", "Release("+h+")", "FwdAllocate("+h+")", "FwdRelease("+h+")")
	}
	for _, n := range s.c.Nodes[1:] {
		if s.net.down[n] {
			ops = append(ops, "Recover("+n+")")
		} else {
			ops = append(ops, "Fail("+n+")")
		}
	}
	if s.c.Membership {
		n := s.c.Nodes[len(s.c.Nodes)-1]
		if s.gone[n] {
			ops = append(ops, "AddPeer("+n+")")
		} else {
			ops = append(ops, "RemovePeer("+n+")")
		}
	}
	return ops
}

// probeRounds runs health-check rounds of the local node (what healthCheckLoop does on
// every tick) until its view of n is `want`, at most 8 rounds.
func (s *peerClusterSys) probeRounds(n string, want bool) int {
	for k := 1; k <= 8; k++ {
		for _, o := range s.c.Nodes[1:] {
			if !s.gone[o] {
				s.p.VerifC05CheckPeer(s.bg, o)
			}
		}
		if s.p.IsPeerHealthy(n) == want {
			return k
		}
	}
	return -1
}

// post / del: a peer's forwarded request arriving at the local node's API.
func (s *peerClusterSys) post(id string) (string, int) {
	body, _ := json.Marshal(pool.AllocationRequest{SubscriberID: id, MAC: macOf(id).String()})
	req := httptest.NewRequest(http.MethodPost, "http://"+s.local+"/pool/allocate", bytes.NewReader(body))
	req.Header.Set("Content-Type", "application/json")
	rec := httptest.NewRecorder()
	s.lh.ServeHTTP(rec, req)
	if rec.Code != http.StatusOK && rec.Code != http.StatusCreated {
		return "", rec.Code
	}
	var r pool.AllocationResponse
	if err := json.Unmarshal(rec.Body.Bytes(), &r); err != nil {
		s.V("query", "POST /pool/allocate", "undecodable reply %q: %v", rec.Body.String(), err)
		return "", rec.Code
	}
	if r.SubscriberID != id || r.NodeID != s.local {
		s.V("query", "POST /pool/allocate", "reply for %s at %s names subscriber %q node %q", id, s.local, r.SubscriberID, r.NodeID)
	}
	return r.IP, rec.Code
}

func (s *peerClusterSys) del(id string) int {
	rec := httptest.NewRecorder()
	s.lh.ServeHTTP(rec, httptest.NewRequest(http.MethodDelete, "http://"+s.local+"/pool/release/"+id, nil))
	return rec.Code
}

// allocate through the local node's Allocate; served reports whether the local pool was asked.
func (s *peerClusterSys) allocate(id string) (ip string, served bool, why string) {
	before := s.net.forwarded
	r, err := s.p.Allocate(s.bg, id, macOf(id))
	served = s.net.forwarded == before
	if err != nil || r == nil {
		return "", served, fmt.Sprint(err)
	}
	if r.SubscriberID != id {
		s.V("query", "Allocate", "response for %s names subscriber %q", id, r.SubscriberID)
	}
	if served && r.NodeID != s.local {
		s.V("query", "Allocate", "%s served %s itself but the response names node %q", s.local, id, r.NodeID)
	}
	return r.IP, served, ""
}

func (s *peerClusterSys) Apply(op string) string {
	name, a := args(op)
	switch name {
	case "Allocate":
		ip, served, why := s.allocate(s.id[a[0]])
		if !served {
			return "forwarded:" + ip + why
		}
		return s.OnAlloc("Allocate", a[0], ip, why)
	case "Release":
		id := s.id[a[0]]
		before := s.net.forwarded
		held, _ := s.p.VerifC05LocalAddr(id)
		err := s.p.Release(s.bg, id)
		if s.net.forwarded != before {
			if err != nil {
				return fmt.Sprint("forwarded:", err) // not accepted: nothing ended
			}
			// accepted by the cluster: the subscriber's holding ends, wherever the Release was served
			if now, still := s.p.VerifC05LocalAddr(id); still && now == held {
				s.routedAway[a[0]] = [2]string{held, s.net.lastHost}
			}
			s.OnRelease(a[0])
			return "forwarded:ok"
		}
		if err != nil && s.Cl.C05 {
			s.V("release", "Release", "Release(%s): %v", a[0], err)
		}
		s.OnRelease(a[0])
		return fmt.Sprint(err == nil)
	case "FwdAllocate":
		ip, code := s.post(s.id[a[0]])
		return s.OnAlloc("POST /pool/allocate", a[0], ip, fmt.Sprintf("HTTP %d", code))
	case "FwdRelease":
		code := s.del(s.id[a[0]])
		if code != http.StatusNoContent && code != http.StatusOK {
			if s.Cl.C05 {
				s.V("release", "DELETE /pool/release", "DELETE /pool/release/%s: HTTP %d", a[0], code)
			}
			return fmt.Sprint(code)
		}
		s.OnRelease(a[0])
		return fmt.Sprint(code)
	case "Fail":
		s.net.down[a[0]] = true
		return fmt.Sprintf("unhealthy after %d probe round(s)", s.probeRounds(a[0], false))
	case "Recover":
		delete(s.net.down, a[0])
		return fmt.Sprintf("healthy after %d probe round(s)", s.probeRounds(a[0], true))
	case "RemovePeer":
		s.p.RemovePeer(a[0])
		s.gone[a[0]] = true
		return "ok"
	case "AddPeer":
		s.p.AddPeer(a[0])
		delete(s.gone, a[0])
		return "ok"
	}
	panic("unknown op " + op)
}

// stranded: addresses the local table still holds for a subscriber whose accepted Release was served by
// another node (and that the subscriber has not been given again since), read from the real table now.
func (s *peerClusterSys) stranded() (units, who []string) {
	hs := make([]string, 0, len(s.routedAway))
	for h := range s.routedAway {
		hs = append(hs, h)
	}
	sort.Strings(hs)
	for _, h := range hs {
		ra := s.routedAway[h]
		if _, live := s.Held[h]; live {
			continue
		}
		if now, still := s.p.VerifC05LocalAddr(s.id[h]); still && now == ra[0] {
			units = append(units, now)
			who = append(who, fmt.Sprintf("%s=%s in the table of %s, Release served by %s", h, now, s.local, ra[1]))
		}
	}
	sort.Strings(units)
	return
}

func (s *peerClusterSys) cause(who []string) string {
	return "[cause=release-routed-away-from-holder " + strings.Join(who, "; ") + "]"
}

// explain (Ref.Explain): a leak / a refusal with free units is exactly the stranded set.
func (s *peerClusterSys) explain(kind string, units []string, delta int64) string {
	if kind != "leak" && kind != "exhaustion" {
		return ""
	}
	st, who := s.stranded()
	u := append([]string(nil), units...)
	sort.Strings(u)
	if len(st) == 0 || strings.Join(u, ",") != strings.Join(st, ",") {
		return ""
	}
	return s.cause(who)
}

func (s *peerClusterSys) Fingerprint() string {
	var sb strings.Builder
	names := append([]string(nil), s.c.Nodes...)
	sort.Strings(names)
	for _, n := range names {
		fmt.Fprintf(&sb, "%s down=%v gone=%v %s|", n, s.net.down[n], s.gone[n], deepdump.Dump(s.nodes[n], deepdump.Options{SkipTypes: map[string]bool{"http.Client": true}}))
	}
	return sb.String() + s.Ref.String() + fmt.Sprint("|routedAway=", s.routedAway)
}

// probeAlloc: a fresh subscriber asks the local node for an address, through Allocate when the
// local node is the one its own routing picks, else as a request forwarded by a peer.
func (s *peerClusterSys) probeAlloc(id string) string {
	ip, served, _ := s.allocate(id)
	if served {
		return ip
	}
	ip, _ = s.post(id)
	return ip
}

func (s *peerClusterSys) Check() []explore.Viol {
	strandedUnits, strandedWho := s.stranded()
	strandedUnit := map[string]bool{}
	for _, u := range strandedUnits {
		strandedUnit[u] = true
	}
	for _, h := range append(append([]string{}, s.c.Subs...), "nobody") {
		id := s.id[h]
		if id == "" {
			id = h
		}
		r, ok := s.p.Get(id)
		got := ""
		if r != nil {
			got = r.IP
		}
		// Get documents "for remote allocations we don't have the data locally": for a subscriber the
		// local node does not own, "not found" is an allowed answer; an answer must be the truth.
		// (a stranded address - see stranded() - is C05's finding: it is held by nobody, not by two)
		if _, live := s.Held[h]; !live && strandedUnit[got] {
			continue
		}
		if ok || s.p.IsLocalOwner(id) {
			s.ExpectLookup("Get", h, got, ok)
		}
	}
	st := s.p.Stats()
	if len(s.Viols) > 0 {
		return s.Viols
	}
	got := s.Probe("Allocate", s.probeAlloc)
	if s.Cl.C05 {
		if st.Allocated != len(s.Held) || st.Available != len(got) || st.Total != st.Allocated+st.Available || st.Total != len(s.Usable) {
			why := ""
			if n := len(strandedUnits); n > 0 && st.Allocated == len(s.Held)+n && st.Available == len(got) && st.Total == len(s.Usable) && st.Total == st.Allocated+st.Available {
				why = " " + s.cause(strandedWho) // the figures are off by exactly the stranded addresses, counted as allocated
			}
			s.V("stats", "Stats", "Stats{Allocated:%d Available:%d Total:%d} of node %s, truth: %d held, %d obtainable, %d usable%s", st.Allocated, st.Available, st.Total, s.local, len(s.Held), len(got), len(s.Usable), why)
		}
	}
	return s.Viols
}
