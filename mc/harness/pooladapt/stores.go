package pooladapt

import (
	"context"
	"encoding/json"
	"errors"
	"fmt"
	"net"
	"sort"
	"strings"
	"sync"
	"testing/synctest"

	"github.com/codelaboratoryltd/bng/pkg/allocator"
	"github.com/codelaboratoryltd/bng/pkg/nexus"
	"go.uber.org/zap"

	"verif/deepdump"
	"verif/explore"
)

var errInjected = errors.New("injected store failure")

// ---------------- fake ordered allocator.Store with "fail the i-th call" ----------------

type FakeStore struct {
	mu     sync.Mutex // plain mutex (never held across a scheduling point): makes the store usable by the free-running -race pass
	data   map[string][]byte
	failIn int // >0: the failIn-th call from now fails (and has no effect)
	fired  int // number of injected failures so far
	watch  func(key string, value []byte, deleted bool)
	Calls  []string
	// WriteConflicts: every Put BY THE IMPLEMENTATION that records a prefix which the store, at that moment,
	// records for a different subscriber (one address, two subscribers in the authoritative table). Prefixes for
	// which the harness itself injected a conflicting remote record (Tainted) are not counted.
	WriteConflicts []string
	Tainted        map[string]bool
}

func NewFakeStore() *FakeStore {
	return &FakeStore{data: map[string][]byte{}, Tainted: map[string]bool{}}
}

func (f *FakeStore) fail(call string) bool {
	f.Calls = append(f.Calls, call)
	if f.failIn > 0 {
		f.failIn--
		if f.failIn == 0 {
			f.fired++
			f.Calls[len(f.Calls)-1] += "!FAILED"
			return true
		}
	}
	return false
}

func (f *FakeStore) Get(ctx context.Context, key string) ([]byte, error) {
	f.mu.Lock()
	defer f.mu.Unlock()
	if f.fail("Get") {
		return nil, errInjected
	}
	if v, ok := f.data[key]; ok {
		return v, nil
	}
	return nil, errors.New("not found")
}
func (f *FakeStore) Put(ctx context.Context, key string, value []byte) error {
	f.mu.Lock()
	defer f.mu.Unlock()
	if f.fail("Put") {
		return errInjected
	}
	var rec allocator.DistributedAllocation
	if json.Unmarshal(value, &rec) == nil && rec.Prefix != "" && !f.Tainted[rec.Prefix] {
		for k, v := range f.data {
			var o allocator.DistributedAllocation
			if k != key && json.Unmarshal(v, &o) == nil && o.PoolID == rec.PoolID && o.Prefix == rec.Prefix && o.SubscriberID != rec.SubscriberID {
				f.WriteConflicts = append(f.WriteConflicts, fmt.Sprintf("%s written for %s while the store records it for %s", rec.Prefix, rec.SubscriberID, o.SubscriberID))
			}
		}
	}
	f.data[key] = value
	return nil
}
func (f *FakeStore) Delete(ctx context.Context, key string) error {
	f.mu.Lock()
	defer f.mu.Unlock()
	if f.fail("Delete") {
		return errInjected
	}
	delete(f.data, key)
	return nil
}
func (f *FakeStore) Query(ctx context.Context, prefix string) ([]allocator.KeyValue, error) {
	f.mu.Lock()
	defer f.mu.Unlock()
	if f.fail("Query") {
		return nil, errInjected
	}
	var ks []string
	for k := range f.data {
		if strings.HasPrefix(k, prefix) {
			ks = append(ks, k)
		}
	}
	sort.Strings(ks)
	var out []allocator.KeyValue
	for _, k := range ks {
		out = append(out, allocator.KeyValue{Key: k, Value: f.data[k]})
	}
	return out, nil
}
func (f *FakeStore) Watch(prefix string, cb func(key string, value []byte, deleted bool)) {
	f.watch = cb
}

// RemoteApply installs a record written by another node and notifies the watcher.
func (f *FakeStore) RemoteApply(key string, value []byte) {
	f.mu.Lock()
	f.data[key] = value
	w := f.watch
	f.mu.Unlock()
	if w != nil {
		w(key, value, false)
	}
}

func (f *FakeStore) String() string {
	f.mu.Lock()
	defer f.mu.Unlock()
	var ks []string
	for k := range f.data {
		ks = append(ks, k)
	}
	sort.Strings(ks)
	var sb strings.Builder
	for _, k := range ks {
		var a allocator.DistributedAllocation
		json.Unmarshal(f.data[k], &a)
		fmt.Fprintf(&sb, "%s=%s@%d;", k, a.Prefix, a.Epoch)
	}
	fmt.Fprintf(&sb, "failIn=%d fired=%d", f.failIn, f.fired)
	return sb.String()
}

// ---------------- allocator.DistributedAllocator ----------------

type DistCfg struct {
	Net       string
	Lease     bool
	Grace     int
	Subs      []string
	MaxFaults int
	// ModeUnset: DistributedConfig.Mode left at its zero value (documented default: a session pool)
	ModeUnset bool
}

type distSys struct {
	*Ref
	c     DistCfg
	st    *FakeStore
	da    *allocator.DistributedAllocator
	l     *epochLedger // lease mode only
	bg    context.Context
	armed bool
}

func (s *distSys) boot() error {
	mode := allocator.PoolModeSession
	if s.c.Lease {
		mode = allocator.PoolModeLease
	} else if s.c.ModeUnset {
		mode = ""
	}
	da, err := allocator.NewDistributedAllocator(allocator.DistributedConfig{PoolID: "p", BaseNetwork: s.c.Net, PrefixLen: 32, Mode: mode, EpochGrace: s.c.Grace}, s.st)
	if err != nil {
		panic(err)
	}
	ctx, cancel := context.WithCancel(s.bg)
	err = da.Start(ctx)
	cancel() // stops the hourly epoch ticker goroutine; epochs are advanced explicitly
	if err != nil {
		return err
	}
	s.da = da
	return nil
}

func NewDist(cl Clauses, c DistCfg) explore.System {
	var usable []string
	if c.Lease {
		usable = epochUsable(c.Net)
	} else {
		usable = HostTexts(Units(c.Net, 32), 0, 0)
	}
	s := &distSys{Ref: NewRef(cl, usable), c: c, st: NewFakeStore(), bg: context.Background()}
	if c.Lease {
		s.l = newLedger(s.Ref, uint64(c.Grace))
	}
	if err := s.boot(); err != nil {
		panic(err)
	}
	return s
}

func (s *distSys) Ops() []string {
	var ops []string
	for _, h := range s.c.Subs {
		ops = append(ops, "Allocate("+h+")", "Release("+h+")")
	}
	ops = append(ops, "AllocateWithMAC("+s.c.Subs[0]+")", "Restart")
	if s.armed {
		return ops // while a fault is armed only store-writing operations are offered
	}
	for _, h := range s.c.Subs[:2] {
		ops = append(ops, "RemotePut("+h+",own)", "RemotePut("+h+",free)", "RemotePut("+h+",other)", "RemoteDelete("+h+")")
	}
	if s.c.Lease {
		for _, h := range s.c.Subs {
			ops = append(ops, "Renew("+h+")")
		}
		ops = append(ops, "AdvanceEpoch")
	}
	if s.st.fired < s.c.MaxFaults {
		ops = append(ops, "FailNext(1)", "FailNext(2)")
	}
	return ops
}

func pfx(v string) string { return v + "/32" }

func (s *distSys) get(h string) (string, bool) {
	p, ok := s.da.Get(h)
	if !ok || p == nil {
		return "", false
	}
	return p.IP.String(), true
}

// resync: the outcome of the operation is not fixed by the property (failed
// persistence of a release, remote writes): the reference follows what the
// implementation says for THIS subscriber; all invariants are checked afterwards.
func (s *distSys) resync(h string) {
	v, ok := s.get(h)
	old, held := s.Held[h]
	if ok {
		s.Held[h] = v
		if s.l != nil && (!held || old != v) {
			s.l.last[h] = s.l.epoch
			s.l.stamp[v] = s.l.epoch
		}
	} else {
		delete(s.Held, h)
		if s.l != nil {
			delete(s.l.last, h)
			if held {
				s.l.released(old)
			}
		}
	}
}

func (s *distSys) Apply(op string) string {
	name, a := args(op)
	faultBefore := s.st.fired
	defer func() {
		if s.st.failIn == 0 {
			s.armed = false
		}
	}()
	switch name {
	case "FailNext":
		fmt.Sscan(a[0], &s.st.failIn)
		s.armed = true
		return "armed"
	case "Allocate", "AllocateWithMAC":
		var p *net.IPNet
		var err error
		var gensBefore []byte
		if s.l != nil {
			gensBefore = s.da.VerifC05Epoch().VerifC05Generations()
		}
		if name == "Allocate" {
			p, err = s.da.Allocate(s.bg, a[0])
		} else {
			p, err = s.da.AllocateWithMAC(s.bg, a[0], macOf(a[0]))
		}
		old, held := s.Held[a[0]]
		if err != nil {
			injected := s.st.fired > faultBefore
			if injected && !held && s.l != nil {
				// the call returned no address: learn which slot it stamped and rolled back (reference: free again)
				after := s.da.VerifC05Epoch().VerifC05Generations()
				for i, u := range s.Usable {
					idx := i + 1 // usable unit i is pool index i+1 (index 0 = network address)
					if (gensBefore[idx/4]>>(uint(idx%4)*2))&3 != (after[idx/4]>>(uint(idx%4)*2))&3 {
						s.l.released(u)
					}
				}
			}
			if injected {
				// failed persistence: a new subscriber simply gets nothing (and the unit must stay in circulation: probe).
				// An existing holder asking again must keep its address.
				if held {
					if s.Cl.C01 {
						if v, ok := s.get(a[0]); !ok || v != old {
							s.V("stability", name, "holder %s of %s asked again while the store write failed and lost its address (Get=%q,%v) [cause=rollback-of-existing-allocation]", a[0], old, v, ok)
						}
					}
					s.resync(a[0])
					// Lease mode: whether a re-ask whose persistence FAILED still counts as a renewal is not
					// fixed by the property (it only forbids reclaiming a lease renewed within grace and
					// leaking the unit). The reference follows the implementation: if the holder's slot now
					// carries the current generation the lease was renewed in memory, else it was not. (A live
					// lease is at most `grace` < 4 epochs old, so equality with the current generation cannot
					// be a 2-bit coincidence.) Either way every later state is checked against that outcome.
					if v, still := s.Held[a[0]]; still && s.l != nil {
						gens := s.da.VerifC05Epoch().VerifC05Generations()
						for i, u := range s.Usable {
							idx := i + 1
							if u == v && (gens[idx/4]>>(uint(idx%4)*2))&3 == byte(s.l.epoch%4) {
								s.l.touch(a[0])
							}
						}
					}
				}
				return "store-error"
			}
			return s.OnAlloc(name, a[0], "", err.Error())
		}
		r := s.OnAlloc(name, a[0], p.IP.String(), "")
		if ones, _ := p.Mask.Size(); ones != 32 && s.Cl.C01 {
			s.V("range", name, "assigned prefix %s is not a /32", p)
		}
		if s.l != nil {
			s.l.touch(a[0])
		}
		return r
	case "Renew":
		err := s.da.Renew(s.bg, a[0])
		_, held := s.Held[a[0]]
		if held && err != nil && s.Cl.C05 {
			s.V("renew", "Renew", "live lease of %s could not be renewed: %v", a[0], err)
		}
		if s.l != nil {
			s.l.touch(a[0])
		}
		return fmt.Sprint(err == nil)
	case "Release":
		old, held := s.Held[a[0]]
		err := s.da.Release(s.bg, a[0])
		if s.st.fired > faultBefore {
			s.resync(a[0])
			return "store-error"
		}
		if err != nil && held && s.Cl.C05 {
			s.V("release", "Release", "holder %s could not release: %v", a[0], err)
		}
		s.OnRelease(a[0])
		if s.l != nil {
			delete(s.l.last, a[0])
			s.l.released(old)
		}
		return fmt.Sprint(err == nil)
	case "AdvanceEpoch":
		e := s.da.AdvanceEpoch()
		s.l.advance()
		return fmt.Sprint(e)
	case "RemotePut", "RemoteDelete":
		key := "/allocation/p/" + a[0]
		if name == "RemoteDelete" {
			delete(s.st.data, key)
			s.st.watch(key, nil, true)
			s.resync(a[0])
			return "ok"
		}
		var target string
		switch a[1] {
		case "own":
			target = s.Held[a[0]]
		case "free":
			if f := s.FreeUnits(); len(f) > 0 {
				target = f[len(f)-1]
			}
		case "other":
			for _, h := range s.Holders() {
				if h != a[0] {
					target = s.Held[h]
					break
				}
			}
		}
		if target == "" {
			return "n/a"
		}
		ep := uint64(0)
		if s.l != nil {
			ep = s.l.epoch
		}
		rec, _ := json.Marshal(allocator.DistributedAllocation{PoolID: "p", SubscriberID: a[0], Prefix: pfx(target), Epoch: ep})
		if a[1] == "other" {
			s.st.Tainted[pfx(target)] = true // the second writer itself created the conflict: not the node's doing
		}
		s.st.data[key] = rec
		s.st.watch(key, rec, false)
		// Session pools install "the allocation from the store" (documented): when another node announces an address
		// nobody else holds here, the subscriber holds THAT address afterwards and is answered with it when it asks
		// again. (Lease pools re-allocate on a remote record - the address they pick is C12's subject, not demanded here.)
		if v, ok := s.get(a[0]); !s.c.Lease && a[1] != "other" && s.Cl.C01 && (!ok || v != target) {
			s.V("stability", "RemotePut", "the store records %s for %s (announced by another node, held by nobody else here) but the node answers (%q,%v) for %s", target, a[0], v, ok, a[0])
		}
		s.resync(a[0])
		return target
	case "Restart":
		if err := s.boot(); err != nil {
			// the process failed to come up (store query failed): it is started again
			if err2 := s.boot(); err2 != nil {
				panic(err2)
			}
		}
		// a new process has only the store: the reference follows what it loaded; invariants are checked afterwards
		if s.l != nil {
			s.l.epoch = s.da.GetCurrentEpoch()
			s.l.last = map[string]uint64{}
			s.l.stamp = map[string]uint64{}
		}
		for h := range s.Held {
			delete(s.Held, h)
		}
		for _, h := range s.c.Subs {
			s.resync(h)
		}
		return "ok"
	}
	panic("unknown op " + op)
}

func (s *distSys) Fingerprint() string {
	fp := deepdump.Dump(s.da, deepdump.Options{IgnoreTimes: true, SkipTypes: map[string]bool{"pooladapt.FakeStore": true}}) + "|" + s.st.String() + "|" + s.Ref.String()
	if s.l != nil {
		fp += "|" + s.l.String()
	}
	return fp
}

func (s *distSys) Check() []explore.Viol {
	if s.armed {
		return s.Viols // mid-fault: judged after the operation the fault hits
	}
	for _, h := range append(append([]string{}, s.c.Subs...), "nobody") {
		v, ok := s.get(h)
		s.ExpectLookup("Get", h, v, ok)
	}
	for _, u := range s.Usable {
		got, _ := s.da.GetByPrefix(mustCIDR(pfx(u)))
		s.ExpectOwner("GetByPrefix", u, got)
	}
	st := s.da.Stats()
	s.ExpectStats("Stats", int64(st.Allocated), int64(st.Total), int64(len(s.Usable)), st.Utilization)
	if len(s.Viols) == 0 {
		s.Probe("Allocate", func(id string) string {
			p, err := s.da.Allocate(s.bg, id)
			if err != nil {
				return ""
			}
			return p.IP.String()
		})
	}
	// session pools (no expiry: a stored record always has a live holder): the node must never write a record that gives
	// an address to a second subscriber while the authoritative table still records it for another one
	if !s.c.Lease && s.Cl.C01 {
		for _, c := range s.st.WriteConflicts {
			s.V("duplicate", "store.Put", "%s", c)
		}
	}
	return s.Viols
}

// ---------------- allocator.PoolAllocator (+LocalAllocator) over MemoryAllocationStore ----------------

// faultyAllocStore wraps the real MemoryAllocationStore; the failIn-th write fails without effect.
type faultyAllocStore struct {
	*allocator.MemoryAllocationStore
	failIn, fired int
}

func (f *faultyAllocStore) hit() bool {
	if f.failIn > 0 {
		f.failIn--
		if f.failIn == 0 {
			f.fired++
			return true
		}
	}
	return false
}
func (f *faultyAllocStore) SaveAllocation(ctx context.Context, a allocator.AllocationRecord) error {
	if f.hit() {
		return errInjected
	}
	return f.MemoryAllocationStore.SaveAllocation(ctx, a)
}
func (f *faultyAllocStore) RemoveAllocation(ctx context.Context, poolID, sub string) error {
	if f.hit() {
		return errInjected
	}
	return f.MemoryAllocationStore.RemoveAllocation(ctx, poolID, sub)
}

type PoolAllocCfg struct {
	Net       string
	UnitLen   int
	Subs      []string
	MaxFaults int
}

type poolAllocSys struct {
	*Ref
	c     PoolAllocCfg
	st    *faultyAllocStore
	pa    *allocator.PoolAllocator
	bg    context.Context
	armed bool
}

func NewPoolAlloc(cl Clauses, c PoolAllocCfg) explore.System {
	st := &faultyAllocStore{MemoryAllocationStore: allocator.NewMemoryAllocationStore()}
	pa, err := allocator.NewPoolAllocatorWithType(allocator.PoolAllocatorConfig{PoolID: "p", BaseNetwork: c.Net, PrefixLength: c.UnitLen, Store: st})
	if err != nil {
		panic(err)
	}
	us := PrefixTexts(Units(c.Net, c.UnitLen))
	// PoolAllocator publishes the pool size to a *MemoryAllocationStore only; do what NewLocalAllocator's wiring does
	st.SetPoolTotal("p", len(us))
	return &poolAllocSys{Ref: NewRef(cl, us), c: c, st: st, pa: pa, bg: context.Background()}
}

func (s *poolAllocSys) Ops() []string {
	var ops []string
	for _, h := range s.c.Subs {
		ops = append(ops, "Allocate("+h+")", "Release("+h+")")
	}
	if !s.armed && s.st.fired < s.c.MaxFaults {
		ops = append(ops, "FailNext(1)")
	}
	return ops
}

func (s *poolAllocSys) Apply(op string) string {
	name, a := args(op)
	before := s.st.fired
	defer func() {
		if s.st.failIn == 0 {
			s.armed = false
		}
	}()
	switch name {
	case "FailNext":
		s.st.failIn = 1
		s.armed = true
		return "armed"
	case "Allocate":
		p, err := s.pa.Allocate(s.bg, a[0], macOf(a[0]).String())
		if err != nil {
			if s.st.fired > before {
				if old, held := s.Held[a[0]]; held {
					cur := s.pa.Lookup(a[0])
					if s.Cl.C01 && (cur == nil || cur.String() != old) {
						s.V("stability", "Allocate", "holder %s of %s asked again while the store write failed and lost its address (Lookup=%v) [cause=rollback-of-existing-allocation]", a[0], old, cur)
					}
					if cur == nil {
						s.OnRelease(a[0])
					}
				}
				return "store-error"
			}
			return s.OnAlloc("Allocate", a[0], "", err.Error())
		}
		return s.OnAlloc("Allocate", a[0], p.String(), "")
	case "Release":
		_, held := s.Held[a[0]]
		err := s.pa.Release(s.bg, a[0])
		if s.st.fired > before {
			// failed persistence of a release: either outcome is acceptable, but memory and store must keep agreeing (checked below)
			if s.pa.Lookup(a[0]) == nil {
				s.OnRelease(a[0])
			}
			return "store-error"
		}
		if err != nil && held && s.Cl.C05 {
			s.V("release", "Release", "holder %s could not release: %v", a[0], err)
		}
		s.OnRelease(a[0])
		return fmt.Sprint(err == nil)
	}
	panic("unknown op " + op)
}

func (s *poolAllocSys) Fingerprint() string {
	return deepdump.Dump(s.pa, deepdump.Options{IgnoreTimes: true}) + fmt.Sprintf("|%d,%d|", s.st.failIn, s.st.fired) + s.Ref.String()
}

func (s *poolAllocSys) Check() []explore.Viol {
	if s.armed {
		return s.Viols
	}
	if s.Cl.C01 {
		for _, h := range append(append([]string{}, s.c.Subs...), "nobody") {
			p := s.pa.Lookup(h)
			got := ""
			if p != nil {
				got = p.String()
			}
			s.ExpectLookup("Lookup", h, got, p != nil)
			recs, _ := s.st.GetBySubscriber(s.bg, h)
			got = ""
			if len(recs) > 1 {
				s.V("query", "GetBySubscriber", "%s has %d records in one pool", h, len(recs))
			}
			if len(recs) > 0 {
				got = recs[0].Prefix.String()
			}
			s.ExpectLookup("store.GetBySubscriber", h, got, len(recs) > 0)
		}
		byPool, _ := s.st.GetByPool(s.bg, "p")
		m := map[string]string{}
		for _, r := range byPool {
			m[r.SubscriberID] = r.Prefix.String()
		}
		if fmt.Sprint(m) != fmt.Sprint(s.Held) {
			s.V("query", "store.GetByPool", "store lists %v, reference %v", m, s.Held)
		}
		for _, u := range s.Usable {
			rec, err := s.st.GetByIP(s.bg, mustCIDR(u).IP)
			got := ""
			if err == nil && rec != nil {
				got = rec.SubscriberID
			}
			s.ExpectOwner("store.GetByIP", u, got)
		}
	}
	al, tot, util := s.pa.Stats()
	s.ExpectStats("Stats", int64(al), int64(tot), int64(len(s.Usable)), util)
	ua, ut, _ := s.st.GetPoolUtilization(s.bg, "p")
	s.ExpectStats("GetPoolUtilization", int64(ua), int64(ut), int64(len(s.Usable)), -1)
	if len(s.Viols) == 0 {
		s.Probe("Allocate", func(id string) string {
			p, err := s.pa.Allocate(s.bg, id, "")
			if err != nil {
				return ""
			}
			return p.String()
		})
	}
	return s.Viols
}

// LocalAllocator with two pools (v4 addresses, v6 prefixes) sharing one MemoryAllocationStore.
type localSys struct {
	*Ref
	la    *allocator.LocalAllocator
	subs  []string
	pools map[string][]string
	bg    context.Context
}

func NewLocal(cl Clauses, subs []string) explore.System {
	la, err := allocator.NewLocalAllocator(allocator.LocalAllocatorConfig{Pools: []allocator.PoolConfig{
		{ID: "v4", CIDR: "10.0.0.5/30", PrefixLength: 32}, {ID: "pd", CIDR: "2001:db8:0:8::/62", PrefixLength: 64}}})
	if err != nil {
		panic(err)
	}
	pools := map[string][]string{"v4": PrefixTexts(Units("10.0.0.5/30", 32)), "pd": PrefixTexts(Units("2001:db8:0:8::/62", 64))}
	return &localSys{Ref: NewRef(cl, append(append([]string{}, pools["v4"]...), pools["pd"]...)), la: la, subs: subs, pools: pools, bg: context.Background()}
}

func (s *localSys) Ops() []string {
	var ops []string
	for _, h := range s.subs {
		for _, p := range []string{"v4", "pd"} {
			ops = append(ops, "Allocate("+h+","+p+")", "Release("+h+","+p+")")
		}
	}
	return ops
}

func (s *localSys) Apply(op string) string {
	name, a := args(op)
	key := a[0] + "@" + a[1]
	if name == "Allocate" {
		p, err := s.la.Allocate(s.bg, a[0], a[1])
		if err != nil {
			// exhaustion is per pool
			if _, held := s.Held[key]; !held && s.Cl.C05 {
				for _, u := range s.pools[a[1]] {
					if s.Owner(u) == "" {
						s.V("exhaustion", "Allocate", "%s refused in pool %s while %s is free: %v", a[0], a[1], u, err)
						break
					}
				}
				return "refused"
			}
			cl := s.Cl
			s.Cl.C05 = false
			r := s.OnAlloc("Allocate", key, "", err.Error())
			s.Cl = cl
			return r
		}
		r := s.OnAlloc("Allocate", key, p.String(), "")
		if s.Cl.C01 {
			in := false
			for _, u := range s.pools[a[1]] {
				in = in || u == p.String()
			}
			if !in {
				s.V("range", "Allocate", "%s asked pool %s and got %s", a[0], a[1], p)
			}
		}
		return r
	}
	err := s.la.Release(s.bg, a[0], a[1])
	if _, held := s.Held[key]; held && err != nil && s.Cl.C05 {
		s.V("release", "Release", "%s could not release: %v", key, err)
	}
	s.OnRelease(key)
	return fmt.Sprint(err == nil)
}

func (s *localSys) Fingerprint() string {
	return deepdump.Dump(s.la, deepdump.Options{IgnoreTimes: true, SkipTypes: map[string]bool{"allocator.LocalAllocatorConfig": true}}) + "|" + s.Ref.String()
}

func (s *localSys) Check() []explore.Viol {
	if s.Cl.C01 {
		for _, h := range s.subs {
			infos, _ := s.la.Lookup(s.bg, h)
			got := map[string]string{}
			for _, i := range infos {
				got[h+"@"+i.PoolID] = i.Prefix.String()
			}
			for _, p := range []string{"v4", "pd"} {
				v, ok := got[h+"@"+p]
				s.ExpectLookup("Lookup", h+"@"+p, v, ok)
			}
		}
		for p, us := range s.pools {
			infos, _ := s.la.LookupByPool(s.bg, p)
			m := map[string]string{}
			for _, i := range infos {
				m[i.SubscriberID+"@"+p] = i.Prefix.String()
			}
			for h, v := range s.Held {
				if strings.HasSuffix(h, "@"+p) && m[h] != v {
					s.V("query", "LookupByPool", "%s holds %s, LookupByPool(%s) lists %q", h, v, p, m[h])
				}
			}
			for h := range m {
				if _, held := s.Held[h]; !held {
					s.V("query", "LookupByPool", "LookupByPool(%s) lists %s=%s, which holds nothing", p, h, m[h])
				}
			}
			for _, u := range us {
				info, err := s.la.LookupByIP(s.bg, mustCIDR(u).IP)
				got := ""
				if err == nil && info != nil {
					got = info.SubscriberID + "@" + info.PoolID
				}
				s.ExpectOwner("LookupByIP", u, got)
			}
		}
	}
	if s.Cl.C05 {
		for p, us := range s.pools {
			n := 0
			for h := range s.Held {
				if strings.HasSuffix(h, "@"+p) {
					n++
				}
			}
			al, tot, _, _ := s.la.Stats(s.bg, p)
			if int(al) != n || int(tot) != len(us) {
				s.V("stats", "Stats", "pool %s reports %d/%d, truth %d/%d", p, al, tot, n, len(us))
			}
		}
	}
	if len(s.Viols) == 0 {
		i := 0
		s.Probe("Allocate", func(id string) string {
			// fresh subscribers alternate between the pools until both refuse
			for try := 0; try < 2; try++ {
				pool := []string{"v4", "pd"}[(i+try)%2]
				if p, err := s.la.Allocate(s.bg, id, pool); err == nil {
					i++
					return p.String()
				}
			}
			return ""
		})
	}
	return s.Viols
}

// ---------------- nexus.Client hash allocation over MemoryStore (C01 only) ----------------

type NexusCfg struct {
	CIDR string
	N    int // subscribers sub-0..sub-(N-1)
}

type nexusSys struct {
	*Ref
	c   NexusCfg
	cl  *nexus.Client
	st  *nexus.MemoryStore
	bg  context.Context
	ids []string
}

func NewNexus(cl Clauses, c NexusCfg) explore.System {
	bg := context.Background()
	st := nexus.NewMemoryStore()
	pools := nexus.NewTypedStore[nexus.IPPool](st, "/pool")
	subs := nexus.NewTypedStore[nexus.Subscriber](st, "/subscriber")
	if err := pools.Put(bg, "pool1", &nexus.IPPool{ID: "pool1", CIDR: c.CIDR, Type: "residential"}); err != nil {
		panic(err)
	}
	s := &nexusSys{Ref: NewRef(cl, v4Usable(c.CIDR, 0, 0, "")), c: c, st: st, bg: bg}
	for i := 0; i < c.N; i++ {
		id := fmt.Sprintf("sub-%d", i)
		s.ids = append(s.ids, id)
		if err := subs.Put(bg, id, &nexus.Subscriber{ID: id, IPv4Pool: "pool1", State: "active"}); err != nil {
			panic(err)
		}
	}
	// coded root-cause predicates (independent FNV-1a + offset arithmetic)
	base := net.ParseIP(strings.Split(c.CIDR, "/")[0]).To4()
	masked := mustCIDR(c.CIDR).IP.To4()
	hosts := uint64(len(Units(c.CIDR, 32)) - 2)
	off := func(id string) uint64 {
		var h uint64 = 14695981039346656037
		for i := 0; i < len(id); i++ {
			h = (h ^ uint64(id[i])) * 1099511628211
		}
		return h%hosts + 1
	}
	s.DupWhy = func(h, o, v string) string {
		if off(h) == off(o) {
			return fmt.Sprintf("[cause=hash-collision offset(%s)=offset(%s)=%d of %d hosts]", h, o, off(h), hosts)
		}
		return ""
	}
	s.RangeWhy = func(h, v string) string {
		if !base.Equal(masked) {
			want := net.IPv4(base[0], base[1], base[2], base[3]+byte(off(h))).String()
			if v == want {
				return fmt.Sprintf("[cause=cidr-host-bits-not-masked base=%s offset=%d]", base, off(h))
			}
		}
		return ""
	}
	s.cl = nexus.NewClient(nexus.DefaultClientConfig(), st, zap.NewNop())
	if err := s.cl.VerifStartNoLoop(); err != nil {
		panic(err)
	}
	synctest.Wait()
	return s
}

func (s *nexusSys) Ops() []string {
	var ops []string
	for _, id := range s.ids {
		ops = append(ops, "Allocate("+id+")")
		if _, held := s.Held[id]; held {
			ops = append(ops, "Release("+id+")")
		}
	}
	return ops
}

func (s *nexusSys) Apply(op string) string {
	name, a := args(op)
	defer synctest.Wait() // let the store's watcher goroutines update the client's cache
	if name == "Allocate" {
		ip, err := s.cl.AllocateIPForSubscriber(s.bg, a[0])
		if err != nil {
			return s.OnAlloc("AllocateIPForSubscriber", a[0], "", err.Error())
		}
		return s.OnAlloc("AllocateIPForSubscriber", a[0], ip, "")
	}
	err := s.cl.ReleaseSubscriberIP(s.bg, a[0])
	s.OnRelease(a[0])
	return fmt.Sprint(err == nil)
}

func (s *nexusSys) Fingerprint() string {
	var sb strings.Builder
	for _, id := range s.ids {
		sub, _ := s.cl.GetSubscriber(id)
		if sub != nil {
			fmt.Fprintf(&sb, "%s=%s;", id, sub.IPv4Addr)
		}
	}
	return sb.String() + "|" + s.Ref.String()
}

func (s *nexusSys) Check() []explore.Viol {
	for _, id := range s.ids {
		ip, ok := s.cl.LookupSubscriberIP(id)
		s.ExpectLookup("LookupSubscriberIP", id, ip, ok)
		rec, err := s.cl.Subscribers.Get(s.bg, id)
		if err == nil {
			s.ExpectLookup("store record", id, rec.IPv4Addr, rec.IPv4Addr != "")
		}
	}
	// No probe here: with more provisioned subscribers than hosts a probe over all idle subscribers
	// collides in every state (the hash has no collision handling), which would hide every deeper
	// history. Collisions are found by the explicit Allocate operations of the BFS instead.
	return s.Viols
}

func storeSpecs(cl Clauses, thorough bool, subs []string, d, nd int) []Spec {
	var out []Spec
	faults := 1
	if thorough {
		faults = 2
	}
	for _, c := range []DistCfg{
		{"10.0.0.0/30", false, 0, subs, faults, false}, {"10.0.0.5/29", false, 0, subs, faults, false},
		{"10.0.0.0/29", true, 1, subs, faults, false}, {"10.0.0.8/30", true, 1, subs, faults, false}, {"10.0.0.0/29", true, 2, subs[:2], faults, false},
		// every optional configuration field at its zero value must behave like its documented default:
		// Mode "" = session pool, EpochGrace 0 = grace 1
		{Net: "10.0.0.0/30", Subs: subs, MaxFaults: faults, ModeUnset: true}, {Net: "10.0.0.8/30", Lease: true, Grace: 0, Subs: subs[:2], MaxFaults: faults},
	} {
		c := c
		mode := "session"
		if c.ModeUnset {
			mode = "mode-unset(session)"
		}
		if c.Lease {
			mode = fmt.Sprintf("lease grace=%d", c.Grace)
			if c.Grace == 0 {
				mode = "lease grace=1(unset)"
			}
		}
		out = append(out, Spec{Name: "allocator.DistributedAllocator", Config: fmt.Sprintf("%s %s faults<=%d", c.Net, mode, faults), Depth: d, NoDedup: 2,
			New: func() explore.System { return NewDist(cl, c) }})
	}
	for _, c := range []PoolAllocCfg{{"10.0.0.5/30", 32, subs, faults}, {"2001:db8:0:8::/61", 64, subs, faults}, {"10.1.2.77/24", 27, subs, faults},
		{"2001:db8:0:4::/62", 65, subs[:2], 0}, {"2001:db8:0:1:800::/69", 72, subs[:2], 0}, {"2001:db8::8/125", 128, subs[:2], 0}, {"10.0.2.0/23", 25, subs[:2], 0}} {
		c := c
		out = append(out, Spec{Name: "allocator.PoolAllocator", Config: fmt.Sprintf("%s->/%d faults<=%d", c.Net, c.UnitLen, faults), Depth: d + 1, NoDedup: nd,
			New: func() explore.System { return NewPoolAlloc(cl, c) }})
	}
	out = append(out, Spec{Name: "allocator.LocalAllocator", Config: "v4 10.0.0.5/30->/32 + pd 2001:db8:0:8::/62->/64", Depth: d, NoDedup: nd,
		New: func() explore.System { return NewLocal(cl, subs[:2]) }})
	if cl.C01 {
		for _, c := range []NexusCfg{{"10.0.0.0/29", 8}, {"10.0.0.5/29", 4}, {"10.0.0.0/30", 3}} {
			c := c
			dd := 3
			if thorough {
				dd = 4
			}
			out = append(out, Spec{Name: "nexus.Client", Config: fmt.Sprintf("%s subs=%d", c.CIDR, c.N), Depth: dd, NoDedup: 2, Bubble: true,
				New: func() explore.System { return NewNexus(cl, c) }})
		}
	}
	return out
}
