package pooladapt

import (
	"fmt"

	"verif/explore"
)

// Spec is one (pool implementation, configuration) model.
type Spec struct {
	Name    string // part name prefix (implementation)
	Config  string
	New     func() explore.System
	Depth   int
	NoDedup int
	Bubble  bool // must run inside a synctest bubble (goroutines/timers)
}

func (s Spec) Part() string { return s.Name + "[" + s.Config + "]" }

var abc = []string{"a", "b", "c"}
var abcd = []string{"a", "b", "c", "d"}

// Specs enumerates every model of the given property (C01 or C05 clauses).
// quick: depth 5 (+1 for the small epoch alphabet under C05); thorough: depth 7.
func Specs(cl Clauses, thorough bool) []Spec {
	subs := abc
	d, nd := 5, 3
	if thorough {
		subs = abcd
		d, nd = 7, 4
	}
	var out []Spec
	add := func(name, cfg string, depth, nodedup int, f func() explore.System) {
		out = append(out, Spec{Name: name, Config: cfg, New: f, Depth: depth, NoDedup: nodedup})
	}

	// --- allocator.IPAllocator: every geometry with <= 8 units, v4 and v6, unaligned base text
	type g struct {
		net  string
		unit int
		spec []int // nil = all units
	}
	geoms := []g{
		{"10.0.0.0/30", 32, nil}, {"10.0.0.5/29", 32, []int{0, 3, 7}}, {"10.0.0.0/31", 32, nil}, {"10.0.0.9/32", 32, nil},
		{"10.1.2.77/24", 27, []int{0, 7}}, {"10.0.0.16/28", 30, nil},
		{"2001:db8::/126", 128, nil}, {"2001:db8::5/125", 128, []int{0, 7}},
		{"2001:db8:0:8::/61", 64, []int{0, 1, 7}}, {"2001:db8:0:1800::/53", 56, []int{0, 7}}, {"2001:db8:7::/48", 51, []int{1, 7}},
	}
	// width boundaries for the bitmap allocator (byte, 64-bit half, address end), short histories
	for _, x := range []g{
		{"10.0.2.0/23", 25, []int{0, 3}}, {"10.0.0.0/22", 25, []int{0, 7}}, {"10.127.0.0/15", 17, []int{0, 3}}, {"10.0.0.248/29", 32, []int{0, 7}},
		{"2001:db8:0:4::/62", 65, []int{0, 7}}, {"2001:db8:0:5::/63", 66, []int{0, 7}}, {"2001:db8:0:1::/64", 66, []int{0, 3}}, {"2001:db8:0:4::/62", 63, []int{0, 1}},
		{"2001:db8:0:1:800::/69", 72, []int{0, 7}}, {"2001:db8::8/125", 127, []int{0, 3}}, {"2001:db8::8/125", 128, []int{0, 7}},
	} {
		x := x
		add("allocator.IPAllocator", fmt.Sprintf("%s->/%d (width boundary)", x.net, x.unit), 3, 2, func() explore.System {
			return NewBitmap(cl, BitmapCfg{Net: x.net, UnitLen: x.unit, Subs: subs[:2], SpecUnits: x.spec})
		})
	}
	for _, x := range geoms {
		x := x
		dd, ndd := d, 2
		if thorough {
			dd, ndd = 6, 3
		}
		add("allocator.IPAllocator", fmt.Sprintf("%s->/%d", x.net, x.unit), dd, ndd, func() explore.System {
			return NewBitmap(cl, BitmapCfg{Net: x.net, UnitLen: x.unit, Subs: subs[:3], SpecUnits: x.spec})
		})
	}
	// 2^64-unit boundary: single-step configurations
	for _, x := range []g{{"2001:db8:0:1::/64", 128, nil}, {"2001:db8:1::/48", 128, nil}} {
		x := x
		add("allocator.IPAllocator(huge)", fmt.Sprintf("%s->/%d", x.net, x.unit), 2, 0, func() explore.System {
			return NewBitmapHuge(cl, x.net, x.unit)
		})
	}

	// --- allocator.EpochBitmapAllocator
	ed := d
	if cl.C05 {
		ed = d + 1
	}
	for _, e := range []EpochCfg{{"10.0.0.0/29", 1, subs}, {"10.0.0.5/29", 2, subs}, {"10.0.0.0/30", 1, subs}, {"10.0.0.8/30", 2, subs}, {"10.0.0.0/31", 1, subs[:2]}, {"10.0.0.9/32", 1, subs[:2]}, {"10.0.0.0/29", 3, subs[:2]}, {"10.0.0.16/29", 0, subs[:2]} /* GracePeriod unset = documented default 1 */} {
		e := e
		gtxt := fmt.Sprint(e.Grace)
		if e.Grace == 0 {
			gtxt = "1(unset)"
		}
		add("allocator.EpochBitmapAllocator", fmt.Sprintf("%s grace=%s", e.Net, gtxt), ed, nd, func() explore.System { return NewEpoch(cl, e) })
	}

	// --- dhcp.Pool: reserved ranges, gateway inside / outside
	for _, c := range []DHCPCfg{
		{"10.0.0.0/29", "10.0.0.1", 0, 0, subs}, {"10.0.0.5/29", "10.0.0.3", 1, 1, subs}, {"10.0.0.0/29", "192.168.0.1", 0, 1, subs},
		{"10.0.0.0/30", "10.0.0.9", 0, 0, subs}, {"10.0.0.0/28", "10.0.0.14", 3, 4, subs}, {"10.0.0.0/31", "10.0.0.1", 0, 0, subs[:2]},
	} {
		c := c
		add("dhcp.Pool", fmt.Sprintf("%s gw=%s rs=%d re=%d", c.Net, c.Gateway, c.ReservedStart, c.ReservedEnd), d, nd, func() explore.System { return NewDHCP(cl, c) })
	}

	// --- dhcpv6 pools
	for _, c := range []V6Cfg{{"2001:db8::/125", 0, subs}, {"2001:db8::6/126", 0, subs}, {"2001:db8::1/127", 0, subs[:2]},
		{"2001:db8:0:8::/61", 64, subs}, {"2001:db8:0:1800::/53", 56, subs}, {"2001:db8:7::1/48", 51, subs}, {"2001:db8:5::/59", 60, subs}} {
		c := c
		name := "dhcpv6.AddressPool"
		if c.Delegated != 0 {
			name = "dhcpv6.PrefixPool"
		}
		add(name, fmt.Sprintf("%s->/%d", c.Net, c.Delegated), d+1, nd, func() explore.System { return NewV6(cl, c) })
	}
	// width boundaries: delegation lengths on both sides of every byte / 64-bit-half / address-end boundary
	// (63,64,65,66,72,73,127,128) and pool prefixes straddling them; geometry defects show within a few steps
	for _, c := range []V6Cfg{
		{"2001:db8:0:4::/62", 63, subs}, {"2001:db8:0:4::/62", 64, subs}, {"2001:db8:0:4::/62", 65, subs}, {"2001:db8:0:5::/63", 66, subs},
		{"2001:db8:0:1::/64", 65, subs}, {"2001:db8:0:1::/64", 66, subs}, {"2001:db8:0:1:800::/69", 72, subs}, {"2001:db8:0:1:80::/71", 73, subs},
		{"2001:db8::1:0:0/78", 81, subs}, {"2001:db8::8/125", 127, subs}, {"2001:db8::8/125", 128, subs}, {"2001:db8::c/126", 128, subs},
		{"2001:db8:0:40::/58", 60, subs}, {"2001:db8:80::/41", 44, subs},
	} {
		c := c
		add("dhcpv6.PrefixPool", fmt.Sprintf("%s->/%d (width boundary)", c.Net, c.Delegated), 4, 2, func() explore.System { return NewV6(cl, c) })
	}

	// --- pppoe.IPPool, directly and through IPCP
	for _, c := range []PPPoECfg{{"10.0.0.0/29", "10.0.0.1", subs, false}, {"10.0.0.5/29", "10.0.9.1", subs, false}, {"10.0.0.0/30", "10.0.0.1", subs, false},
		{"10.0.0.0/29", "10.0.0.1", subs[:2], true}, {"10.0.0.0/30", "10.0.0.1", subs[:2], true}} {
		c := c
		name := "pppoe.IPPool"
		if c.IPCP {
			name = "pppoe.IPCP+IPPool"
		}
		add(name, fmt.Sprintf("%s gw=%s", c.Net, c.Gateway), d+1, nd, func() explore.System { return NewPPPoE(cl, c) })
	}

	// --- pool.PeerPool
	for _, c := range []PeerCfg{{"10.0.0.0/29", "10.0.0.1", subs}, {"10.0.0.5/29", "10.9.0.1", subs}, {"10.0.0.0/30", "10.0.0.2", subs}} {
		c := c
		add("pool.PeerPool", fmt.Sprintf("%s gw=%s", c.Net, c.Gateway), d+1, nd, func() explore.System { return NewPeer(cl, c) })
	}

	// --- pool.PeerPool as one node of a cluster: the local node serves subscribers it does not own
	// (owner failed its health probes -> failover; a peer forwards; membership changes under live allocations)
	n2, n3 := []string{"n1", "n2"}, []string{"n1", "n2", "n3"}
	clusters := []struct {
		c     PeerClusterCfg
		depth int
	}{
		{PeerClusterCfg{Net: "10.0.0.0/29", Gateway: "10.0.0.1", Nodes: n2, Subs: subs[:3], Owners: []string{"n2", "n1", "n2"}}, d},
		{PeerClusterCfg{Net: "10.0.0.0/30", Gateway: "10.0.0.2", Nodes: n2, Subs: subs[:2], Owners: []string{"n2", "n1"}}, d},
		{PeerClusterCfg{Net: "10.0.0.8/30", Gateway: "10.9.0.1", Nodes: n3, Subs: subs[:3], Owners: []string{"n2", "n3", "n1"}, Membership: true}, d - 1},
	}
	if thorough {
		clusters = append(clusters, struct {
			c     PeerClusterCfg
			depth int
		}{PeerClusterCfg{Net: "10.0.0.5/29", Gateway: "10.9.0.1", Nodes: n3, Subs: subs, Owners: []string{"n2", "n3", "n1", "n3"}, Membership: true}, d - 2})
	}
	for _, x := range clusters {
		c := x.c
		add("pool.PeerPool", c.String(), x.depth, nd, func() explore.System { return NewPeerCluster(cl, c) })
	}

	out = append(out, storeSpecs(cl, thorough, subs, d, nd)...)
	return out
}
