// Package pooladapt holds what the C01 and C05 harnesses share: a plain-map
// reference model ("who holds what"), an independent computation of the set of
// units a pool may hand out, and one adapter per pool implementation that maps
// a small operation alphabet onto the REAL object.
//
// The reference model only records observations of the public API. It never
// predicts WHICH free unit an allocation returns.
package pooladapt

import (
	"fmt"
	"math/big"
	"net/netip"
	"sort"
	"strings"

	"verif/explore"
)

// Clauses selects the oracle clauses that are evaluated.
//
//	C01: injectivity, range/alignment, same-holder stability, query agreement.
//	C05: conservation (probe), truthful exhaustion, release/expiry/failed
//	     persistence returns the unit, renewed lease kept, stats equal the truth.
type Clauses struct{ C01, C05 bool }

// Ref is the reference model plus the violation sink of one system instance.
type Ref struct {
	Cl       Clauses
	Held     map[string]string // live holder -> value (canonical text)
	Usable   []string          // every value the pool may hand out (from the configuration alone)
	usable   map[string]bool
	Excluded map[string]bool // units taken out of circulation by an explicit operation (MarkUnavailable)
	Viols    []explore.Viol
	// Explain (optional) is the adapter's coded root-cause predicate for
	// conservation-type violations: given the clause that failed, the units
	// involved and (for counters) reported-minus-true, it returns a suffix such
	// as "[cause=...]" when the witness is exactly accounted for by one narrow
	// cause, else "". The harness's classify() maps the suffix to a finding class.
	Explain func(kind string, units []string, delta int64) string
	// DupWhy / RangeWhy (optional): coded root-cause predicate for a duplicate
	// (holder h was given v, which o holds) / out-of-range assignment.
	DupWhy   func(h, o, v string) string
	RangeWhy func(h, v string) string
	// ProbeIDs (optional): names of the fresh subscribers the probe uses.
	ProbeIDs []string
}

func (r *Ref) dupWhy(h, o, v string) string {
	if r.DupWhy != nil {
		if w := r.DupWhy(h, o, v); w != "" {
			return " " + w
		}
	}
	return ""
}

func (r *Ref) rangeWhy(h, v string) string {
	if r.RangeWhy != nil {
		if w := r.RangeWhy(h, v); w != "" {
			return " " + w
		}
	}
	return ""
}

func NewRef(cl Clauses, usable []string) *Ref {
	r := &Ref{Cl: cl, Held: map[string]string{}, Usable: usable, usable: map[string]bool{}, Excluded: map[string]bool{}}
	for _, u := range usable {
		r.usable[u] = true
	}
	return r
}

func (r *Ref) V(kind, site, f string, a ...any) {
	d := fmt.Sprintf(f, a...)
	r.Viols = append(r.Viols, explore.Viol{Kind: kind, Site: site, Detail: d})
}

// Holders returns the live holders, sorted.
func (r *Ref) why(kind string, units []string, delta int64) string {
	if r.Explain == nil {
		return ""
	}
	if w := r.Explain(kind, units, delta); w != "" {
		return " " + w
	}
	return ""
}

func (r *Ref) Holders() []string {
	hs := make([]string, 0, len(r.Held))
	for h := range r.Held {
		hs = append(hs, h)
	}
	sort.Strings(hs)
	return hs
}

// Owner returns the holder of value v ("" = nobody).
func (r *Ref) Owner(v string) string {
	for _, h := range r.Holders() {
		if r.Held[h] == v {
			return h
		}
	}
	return ""
}

func (r *Ref) IsUsable(v string) bool { return r.usable[v] }

// FreeUnits: usable, not excluded, not held.
func (r *Ref) FreeUnits() []string {
	var out []string
	for _, u := range r.Usable {
		if !r.Excluded[u] && r.Owner(u) == "" {
			out = append(out, u)
		}
	}
	return out
}

func (r *Ref) String() string {
	var sb strings.Builder
	for _, h := range r.Holders() {
		fmt.Fprintf(&sb, "%s=%s,", h, r.Held[h])
	}
	ex := make([]string, 0, len(r.Excluded))
	for e := range r.Excluded {
		ex = append(ex, e)
	}
	sort.Strings(ex)
	return sb.String() + "x" + strings.Join(ex, ",")
}

// OnAlloc records the outcome of "holder h asks for an assignment".
// val == "" means the pool refused. refusedWhy is free text for the report.
func (r *Ref) OnAlloc(site, h, val string, refusedWhy string) string {
	old, held := r.Held[h]
	if val == "" {
		if held {
			if r.Cl.C01 {
				r.V("stability", site, "holder %s of %s asked again and was refused (%s)", h, old, refusedWhy)
			}
			return "refused"
		}
		if r.Cl.C05 {
			if free := r.FreeUnits(); len(free) > 0 {
				r.V("exhaustion", site, "new subscriber %s refused (%s) while %d usable unit(s) have no live holder: %v%s", h, refusedWhy, len(free), free, r.why("exhaustion", free, 0))
			}
		}
		return "refused"
	}
	if held {
		if val != old && r.Cl.C01 {
			r.V("stability", site, "holder %s had %s, asking again returned %s", h, old, val)
		}
		r.Held[h] = val
		return val
	}
	if r.Cl.C01 {
		if !r.usable[val] {
			r.V("range", site, "%s was assigned %s, which is not a unit of the configured pool %v%s", h, val, r.Usable, r.rangeWhy(h, val))
		}
		if o := r.Owner(val); o != "" {
			r.V("duplicate", site, "%s was assigned %s, which %s still holds%s", h, val, o, r.dupWhy(h, o, val))
		}
	}
	r.Held[h] = val
	return val
}

func (r *Ref) OnRelease(h string) { delete(r.Held, h) }

// ExpectLookup: query API `site` answered (got, ok) for holder h.
func (r *Ref) ExpectLookup(site, h, got string, ok bool) {
	if !r.Cl.C01 {
		return
	}
	want, held := r.Held[h]
	switch {
	case held && (!ok || got != want):
		r.V("query", site, "%s holds %s but %s answers (%q,%v)", h, want, site, got, ok)
	case !held && ok:
		r.V("query", site, "%s holds nothing but %s answers %q", h, site, got)
	}
}

// ExpectOwner: reverse query API `site` answered holder `got` for value v.
func (r *Ref) ExpectOwner(site, v, got string) {
	if !r.Cl.C01 {
		return
	}
	if want := r.Owner(v); want != got {
		r.V("query", site, "%s is held by %q but %s answers %q", v, want, site, got)
	}
}

// ExpectStats: the pool reports `allocated` of `total`; util is its utilisation
// figure (pass a negative value if the API has none). The utilisation must be
// consistent with the true counts on either the fraction or the percent scale.
func (r *Ref) ExpectStats(site string, allocated, total int64, wantTotal int64, util float64) {
	if !r.Cl.C05 {
		return
	}
	countOff := allocated != int64(len(r.Held))
	if countOff {
		r.V("stats", site, "%s reports %d allocated, %d subscribers hold a unit (%s)%s", site, allocated, len(r.Held), r.String(), r.why("stats", nil, allocated-int64(len(r.Held))))
	}
	if total != wantTotal {
		r.V("stats", site, "%s reports total %d, the pool has %d usable units", site, total, wantTotal)
	}
	if util >= 0 || util != util {
		if wantTotal <= 0 {
			return
		}
		f := float64(len(r.Held)) / float64(wantTotal)
		if countOff && total > 0 {
			// the utilisation figure is derived from the (already reported) wrong count: only demand self-consistency
			f = float64(allocated) / float64(total)
		}
		if !(near(util, f) || near(util, f*100)) {
			r.V("stats", site, "%s reports utilisation %v, truth is %d/%d", site, util, len(r.Held), wantTotal)
		}
	}
}

func near(a, b float64) bool { d := a - b; return d < 1e-9 && d > -1e-9 }

// Probe is the destructive conservation measurement: fresh subscribers ask
// until the pool refuses. alloc returns "" for a refusal.
// Returns the values obtained.
func (r *Ref) Probe(site string, alloc func(id string) string) []string {
	seen := map[string]string{}
	for h, v := range r.Held {
		seen[v] = h
	}
	var got []string
	limit := len(r.Usable) + 3
	for k := 0; k < limit; k++ {
		id := fmt.Sprintf("probe-%d", k)
		if r.ProbeIDs != nil {
			if k >= len(r.ProbeIDs) {
				break
			}
			id = r.ProbeIDs[k]
		}
		v := alloc(id)
		if v == "" {
			break
		}
		if r.Cl.C01 {
			if o, dup := seen[v]; dup {
				r.V("duplicate", site, "fresh subscriber %s was assigned %s, which %s holds%s", id, v, o, r.dupWhy(id, o, v))
			}
			if !r.usable[v] {
				r.V("range", site, "fresh subscriber %s was assigned %s, not a unit of the configured pool %v%s", id, v, r.Usable, r.rangeWhy(id, v))
			}
		}
		if _, dup := seen[v]; !dup {
			seen[v] = id
		}
		got = append(got, v)
	}
	if r.Cl.C05 {
		var lost []string
		for _, u := range r.Usable {
			if _, ok := seen[u]; !ok && !r.Excluded[u] {
				lost = append(lost, u)
			}
		}
		if len(lost) > 0 {
			r.V("leak", site, "usable unit(s) %v are neither held by a live subscriber nor obtainable by new subscribers (held: %s; obtained: %v)%s", lost, r.String(), got, r.why("leak", lost, 0))
		}
	}
	return got
}

// ---- geometry: the set of units of a pool, computed with netip/big only ----

// Units lists every unit prefix of length unitLen inside the (masked) network.
func Units(network string, unitLen int) []netip.Prefix {
	p := netip.MustParsePrefix(network).Masked()
	n := 1 << (unitLen - p.Bits())
	base := new(big.Int).SetBytes(p.Addr().AsSlice())
	step := new(big.Int).Lsh(big.NewInt(1), uint(p.Addr().BitLen()-unitLen))
	out := make([]netip.Prefix, 0, n)
	for i := 0; i < n; i++ {
		v := new(big.Int).Add(base, new(big.Int).Mul(step, big.NewInt(int64(i))))
		b := v.Bytes()
		buf := make([]byte, p.Addr().BitLen()/8)
		copy(buf[len(buf)-len(b):], b)
		a, _ := netip.AddrFromSlice(buf)
		out = append(out, netip.PrefixFrom(a, unitLen))
	}
	return out
}

// PrefixTexts renders units as CIDR text.
func PrefixTexts(us []netip.Prefix) []string {
	out := make([]string, len(us))
	for i, u := range us {
		out[i] = u.String()
	}
	return out
}

// HostTexts renders host units (/32 or /128) as bare addresses, dropping the
// listed positions/addresses.
func HostTexts(us []netip.Prefix, dropFirst, dropLast int, dropAddrs ...string) []string {
	var out []string
	for i, u := range us {
		if i < dropFirst || i >= len(us)-dropLast {
			continue
		}
		s := u.Addr().String()
		skip := false
		for _, d := range dropAddrs {
			if d != "" && netip.MustParseAddr(d) == u.Addr() {
				skip = true
			}
		}
		if !skip {
			out = append(out, s)
		}
	}
	return out
}
