package pooladapt

import (
	"context"
	"encoding/json"
	"fmt"
	"net"
	"sort"
	"strings"
	"sync"
	"time"

	"github.com/codelaboratoryltd/bng/pkg/allocator"
	"github.com/codelaboratoryltd/bng/pkg/dhcp"
	"github.com/codelaboratoryltd/bng/pkg/pool"

	"verif/report"
	"verif/sched"
)

// Engine B: 2-3 threads, 1-2 operations each, keys forced to collide, on the
// lock-protected pools (packages allocator, dhcp, pool are compiled from
// AST-rewritten copies: every Lock/Unlock/RLock/RUnlock is a scheduling point).
// Oracle at the end of EVERY schedule: injectivity and range of what the pool
// says everybody holds, agreement of concurrent results for one subscriber,
// agreement of the query APIs (incl. the allocation store), and a
// fresh-subscriber probe that must not be handed a held or out-of-pool unit.

type cpool struct {
	usable  []string
	alloc   func(h string) string // "" = refused
	release func(h string)
	lookup  func(h string) (string, bool)
	remote  func(h, unit string)                                              // apply a replicated record (DistributedAllocator only)
	extra   func(live map[string]string, add func(kind, site, detail string)) // further query APIs
	stats   func() (allocated, total int)                                     // the pool's own allocated/total figures
	// pools with a persistence format: snapshot = save (MarshalJSON), load the bytes into a FRESH object and
	// verify the loaded object on its own (see verifyLoaded); tick/renew = epoch advance / lease renewal
	snapshot func() []string
	tick     func()
	renew    func(h string)
	unknown  int // subscribers whose final state the harness cannot read back (no lookup API + concurrent release)
}

var bg = context.Background()

func mac(h string) net.HardwareAddr { return macOf(h) }

// knownSubs: every subscriber name the scenarios use.
var knownSubs = []string{"a", "b", "c", "z0", "z1", "z2", "z3", "z4", "z5", "z6", "z7"}

// verifyLoaded judges an object that was loaded from a snapshot, by itself (a snapshot taken while other
// threads run may legitimately be from before or after their operations, but it must be SOME consistent state):
// the subscribers it says hold something hold distinct units of the pool; new subscribers are never handed a
// unit one of them holds; and when the old subscribers ask again afterwards nobody ends up sharing a unit.
func verifyLoaded(usable []string, lookup func(string) (string, bool), alloc func(string) string) []string {
	var out []string
	ok := map[string]bool{}
	for _, u := range usable {
		ok[u] = true
	}
	owner := map[string]string{}
	for _, s := range knownSubs {
		if v, held := lookup(s); held {
			if !ok[v] {
				out = append(out, fmt.Sprintf("loaded snapshot: %s holds %s, not a unit of the pool", s, v))
			}
			if o, dup := owner[v]; dup {
				out = append(out, fmt.Sprintf("loaded snapshot: %s and %s both hold %s", o, s, v))
			}
			owner[v] = s
		}
	}
	for k := 0; k < len(usable)+2; k++ {
		id := fmt.Sprintf("y%d", k)
		v := alloc(id)
		if v == "" {
			break
		}
		if o, dup := owner[v]; dup {
			out = append(out, fmt.Sprintf("loaded snapshot: new subscriber %s was assigned %s, which %s holds", id, v, o))
		}
		owner[v] = id
	}
	for _, s := range knownSubs {
		if v := alloc(s); v != "" {
			if o, dup := owner[v]; dup && o != s {
				out = append(out, fmt.Sprintf("loaded snapshot: %s asked again and holds %s, which %s was assigned from the same loaded state", s, v, o))
			}
			owner[v] = s
		}
	}
	return out
}

func mkBitmap(network string, unit int) func() *cpool {
	return func() *cpool {
		a, err := allocator.NewIPAllocator(network, unit)
		if err != nil {
			panic(err)
		}
		us := PrefixTexts(Units(network, unit))
		return &cpool{usable: us,
			alloc: func(h string) string {
				p, err := a.Allocate(h)
				if err != nil {
					return ""
				}
				return p.String()
			},
			release: func(h string) { a.Release(h) },
			stats:   func() (int, int) { al, tot, _ := a.Stats(); return int(al), int(tot) },
			snapshot: func() []string {
				data, err := json.Marshal(a)
				if err != nil {
					return []string{"MarshalJSON: " + err.Error()}
				}
				n := &allocator.IPAllocator{}
				if err := json.Unmarshal(data, n); err != nil {
					return []string{"snapshot written by MarshalJSON is rejected by UnmarshalJSON: " + err.Error()}
				}
				return verifyLoaded(us, func(h string) (string, bool) {
					if p := n.Lookup(h); p != nil {
						return p.String(), true
					}
					return "", false
				}, func(h string) string {
					if p, err := n.Allocate(h); err == nil {
						return p.String()
					}
					return ""
				})
			},
			lookup: func(h string) (string, bool) {
				p := a.Lookup(h)
				if p == nil {
					return "", false
				}
				return p.String(), true
			},
			extra: func(live map[string]string, add func(kind, site, detail string)) {
				for _, u := range us {
					_, n, _ := net.ParseCIDR(u)
					owner := ""
					for h, v := range live {
						if v == u {
							owner = h
						}
					}
					if got := a.LookupByPrefix(n); got != owner {
						add("query", "LookupByPrefix", fmt.Sprintf("%s: Lookup says owner %q, LookupByPrefix says %q", u, owner, got))
					}
					if a.IsAllocated(n) != (owner != "") {
						add("query", "IsAllocated", fmt.Sprintf("%s: owner %q but IsAllocated=%v", u, owner, a.IsAllocated(n)))
					}
				}
			}}
	}
}

func mkEpoch(network string) func() *cpool {
	return func() *cpool {
		a, err := allocator.NewEpochBitmapAllocator(allocator.EpochBitmapConfig{BaseNetwork: network, PrefixLength: 32, GracePeriod: 1})
		if err != nil {
			panic(err)
		}
		us := HostTexts(Units(network, 32), 1, 1)
		return &cpool{usable: us,
			alloc: func(h string) string {
				ip, err := a.Allocate(bg, h)
				if err != nil {
					return ""
				}
				return ip.String()
			},
			release: func(h string) { a.Release(bg, h) },
			stats:   func() (int, int) { al, tot, _ := a.Stats(); return int(al), int(tot) },
			tick:    func() { a.AdvanceEpoch() },
			renew:   func(h string) { a.Renew(bg, h) },
			snapshot: func() []string {
				data, err := json.Marshal(a)
				if err != nil {
					return []string{"MarshalJSON: " + err.Error()}
				}
				n, _ := allocator.NewEpochBitmapAllocator(allocator.EpochBitmapConfig{BaseNetwork: network, PrefixLength: 32, GracePeriod: 1})
				if err := json.Unmarshal(data, n); err != nil {
					return []string{"snapshot written by MarshalJSON is rejected by UnmarshalJSON: " + err.Error()}
				}
				return verifyLoaded(us, func(h string) (string, bool) {
					if ip := n.Lookup(h); ip != nil {
						return ip.String(), true
					}
					return "", false
				}, func(h string) string {
					if ip, err := n.Allocate(bg, h); err == nil {
						return ip.String()
					}
					return ""
				})
			},
			lookup: func(h string) (string, bool) {
				ip := a.Lookup(h)
				if ip == nil {
					return "", false
				}
				return ip.String(), true
			}}
	}
}

func mkDHCP(network, gw string) func() *cpool {
	return func() *cpool {
		p, err := dhcp.NewPool(dhcp.PoolConfig{ID: 1, Name: "p", Network: network, Gateway: gw})
		if err != nil {
			panic(err)
		}
		us := Units(network, 32)
		c := &cpool{usable: HostTexts(us[1:len(us)-1], 0, 0, gw)}
		c.alloc = func(h string) string {
			ip, err := p.Allocate(mac(h))
			if err != nil {
				return ""
			}
			return ip.String()
		}
		c.release = func(h string) {
			// release the address this subscriber holds (idempotent Allocate is the pool's lookup)
			if ip, err := p.Allocate(mac(h)); err == nil {
				p.Release(ip)
			}
		}
		c.stats = func() (int, int) { st := p.Stats(); return st.Allocated, st.Total }
		c.lookup = nil // filled by the scenario from Stats + idempotent Allocate after the threads finished
		c.extra = func(live map[string]string, add func(kind, site, detail string)) {
			if st := p.Stats(); st.Allocated < len(live) || st.Allocated > len(live)+c.unknown {
				add("query", "Stats", fmt.Sprintf("Stats.Allocated=%d but %d(+%d undetermined) subscribers hold an address", st.Allocated, len(live), c.unknown))
			}
		}
		return c
	}
}

func mkPeer(network, gw string) func() *cpool {
	return func() *cpool {
		p, err := pool.NewPeerPool(pool.PeerPoolConfig{NodeID: "n1", Network: network, Gateway: gw})
		if err != nil {
			panic(err)
		}
		us := Units(network, 32)
		return &cpool{usable: HostTexts(us[1:len(us)-1], 0, 0, gw),
			alloc: func(h string) string {
				r, err := p.Allocate(bg, h, mac(h))
				if err != nil {
					return ""
				}
				return r.IP
			},
			release: func(h string) { p.Release(bg, h) },
			stats:   func() (int, int) { st := p.Stats(); return st.Allocated, st.Total },
			lookup: func(h string) (string, bool) {
				r, ok := p.Get(h)
				if !ok {
					return "", false
				}
				return r.IP, true
			}}
	}
}

func mkPoolAlloc(network string, unit int) func() *cpool {
	return func() *cpool {
		st := allocator.NewMemoryAllocationStore()
		pa, err := allocator.NewPoolAllocator("p", network, unit, st)
		if err != nil {
			panic(err)
		}
		return &cpool{usable: PrefixTexts(Units(network, unit)),
			alloc: func(h string) string {
				p, err := pa.Allocate(bg, h, "")
				if err != nil {
					return ""
				}
				return p.String()
			},
			release: func(h string) { pa.Release(bg, h) },
			stats:   func() (int, int) { al, tot, _ := pa.Stats(); return int(al), int(tot) },
			snapshot: func() []string {
				data, err := json.Marshal(st)
				if err != nil {
					return []string{"MemoryAllocationStore.MarshalJSON: " + err.Error()}
				}
				n := allocator.NewMemoryAllocationStore()
				if err := json.Unmarshal(data, n); err != nil {
					return []string{"store snapshot rejected by UnmarshalJSON: " + err.Error()}
				}
				var out []string
				recs, _ := n.GetByPool(bg, "p")
				owner := map[string]string{}
				for _, r := range recs {
					if o, dup := owner[r.Prefix.String()]; dup {
						out = append(out, fmt.Sprintf("loaded store snapshot: %s and %s both hold %s", o, r.SubscriberID, r.Prefix))
					}
					owner[r.Prefix.String()] = r.SubscriberID
					if got, err := n.GetByIP(bg, r.Prefix.IP); err != nil || got.SubscriberID != r.SubscriberID {
						out = append(out, fmt.Sprintf("loaded store snapshot: %s holds %s but the by-IP index disagrees", r.SubscriberID, r.Prefix))
					}
				}
				return out
			},
			lookup: func(h string) (string, bool) {
				p := pa.Lookup(h)
				if p == nil {
					return "", false
				}
				return p.String(), true
			},
			extra: func(live map[string]string, add func(kind, site, detail string)) {
				recs, _ := st.GetByPool(bg, "p")
				m := map[string]string{}
				for _, r := range recs {
					m[r.SubscriberID] = r.Prefix.String()
				}
				if fmt.Sprint(m) != fmt.Sprint(live) {
					add("query", "store.GetByPool", fmt.Sprintf("allocator says %v, allocation store says %v", live, m))
				}
			}}
	}
}

func mkDist(network string) func() *cpool {
	return func() *cpool {
		st := NewFakeStore()
		da, err := allocator.NewDistributedAllocator(allocator.DistributedConfig{PoolID: "p", BaseNetwork: network, PrefixLen: 32, Mode: allocator.PoolModeSession}, st)
		if err != nil {
			panic(err)
		}
		if err := da.Start(bg); err != nil {
			panic(err)
		}
		return &cpool{usable: HostTexts(Units(network, 32), 0, 0),
			alloc: func(h string) string {
				p, err := da.Allocate(bg, h)
				if err != nil {
					return ""
				}
				return p.IP.String()
			},
			release: func(h string) { da.Release(bg, h) },
			stats:   func() (int, int) { st := da.Stats(); return st.Allocated, st.Total },
			lookup: func(h string) (string, bool) {
				p, ok := da.Get(h)
				if !ok {
					return "", false
				}
				return p.IP.String(), true
			},
			remote: func(h, unit string) {
				rec, _ := json.Marshal(allocator.DistributedAllocation{PoolID: "p", SubscriberID: h, Prefix: unit + "/32"})
				st.RemoteApply("/allocation/p/"+h, rec)
			}}
	}
}

type scen struct {
	tgt     string
	mk      func() *cpool
	name    string
	pre     []string
	threads [][]string
}

// ops: "A:x" allocate for x, "R:x" release x, "P:x:i" replicated record giving x usable unit i.
func scenarios(thorough bool) []scen {
	type tg struct {
		name string
		mk   func() *cpool
	}
	locked := []tg{
		{"allocator.IPAllocator[10.0.0.0/30->/32]", mkBitmap("10.0.0.0/30", 32)},
		{"allocator.IPAllocator[2001:db8:0:8::/62->/64]", mkBitmap("2001:db8:0:8::/62", 64)},
		{"allocator.EpochBitmapAllocator[10.0.0.0/29]", mkEpoch("10.0.0.0/29")},
		{"dhcp.Pool[10.0.0.0/29 gw=.1]", mkDHCP("10.0.0.0/29", "10.0.0.1")},
		{"pool.PeerPool[10.0.0.0/29 gw=.1]", mkPeer("10.0.0.0/29", "10.0.0.1")},
		{"allocator.DistributedAllocator[10.0.0.0/30 session]", mkDist("10.0.0.0/30")},
		{"allocator.PoolAllocator[10.0.0.0/30->/32]", mkPoolAlloc("10.0.0.0/30", 32)},
	}
	var out []scen
	for _, t := range locked {
		// fill the pool so that exactly one unit is left: every target above has >= 4 usable units except
		// the 2-host ones; "fill" is computed per target in setup ("F" = allocate fillers until one unit is left)
		out = append(out,
			scen{t.name, t.mk, "A:a|A:a", nil, [][]string{{"A:a"}, {"A:a"}}},
			scen{t.name, t.mk, "A:a|A:b last unit", []string{"F"}, [][]string{{"A:a"}, {"A:b"}}},
			scen{t.name, t.mk, "A:a|R:a", []string{"A:a"}, [][]string{{"A:a"}, {"R:a"}}},
			scen{t.name, t.mk, "A:b|R:a|A:c", []string{"F", "A:a"}, [][]string{{"A:b"}, {"R:a"}, {"A:c"}}},
			scen{t.name, t.mk, "R:a|R:a", []string{"A:a"}, [][]string{{"R:a"}, {"R:a"}}}, // concurrent double release of one key
		)
		if thorough {
			out = append(out,
				scen{t.name, t.mk, "A:a|A:a|A:a", nil, [][]string{{"A:a"}, {"A:a"}, {"A:a"}}},
				scen{t.name, t.mk, "R:a,A:a|A:b", []string{"F", "A:a"}, [][]string{{"R:a", "A:a"}, {"A:b"}}},
				scen{t.name, t.mk, "A:a,R:a|A:a,R:a", nil, [][]string{{"A:a", "R:a"}, {"A:a", "R:a"}}},
			)
		}
	}
	// persistence: a save (+ load + verification of the loaded object) concurrent with mutators
	for _, t := range []tg{locked[0], locked[2], locked[6]} {
		out = append(out, scen{t.name, t.mk, "M|A:b,R:a", []string{"A:a"}, [][]string{{"M"}, {"A:b", "R:a"}}})
	}
	out = append(out, scen{locked[2].name, locked[2].mk, "M|E,N:a", []string{"A:a", "A:b"}, [][]string{{"M"}, {"E", "N:a"}}})
	d := locked[5]
	out = append(out,
		scen{d.name, d.mk, "A:a|P:b:0", nil, [][]string{{"A:a"}, {"P:b:0"}}},
		scen{d.name, d.mk, "A:a|P:a:1", nil, [][]string{{"A:a"}, {"P:a:1"}}},
	)
	return out
}

type call struct {
	th  int
	op  string
	res string
}

type schedState struct {
	mu    sync.Mutex // harness bookkeeping only (needed by the free-running -race pass)
	p     *cpool
	calls []*call
	fill  []string
	snap  []string // findings of snapshot verification ("M" operations)
}

func doOp(st *schedState, op string) string {
	f := strings.Split(op, ":")
	switch f[0] {
	case "A":
		return st.p.alloc(f[1])
	case "R":
		st.p.release(f[1])
		return "ok"
	case "P":
		var i int
		fmt.Sscan(f[2], &i)
		st.p.remote(f[1], st.p.usable[i])
		return "ok"
	case "M": // save + load into a fresh object + verify the loaded object
		vs := st.p.snapshot()
		st.mu.Lock()
		st.snap = append(st.snap, vs...)
		st.mu.Unlock()
		return fmt.Sprint(len(vs))
	case "E": // epoch tick
		st.p.tick()
		return "ok"
	case "N": // renew
		st.p.renew(f[1])
		return "ok"
	}
	panic("bad op " + op)
}

func (sc scen) part() string { return "sched:" + sc.tgt + " " + sc.name }

func (sc scen) scenario(cl Clauses) *sched.Scenario {
	return &sched.Scenario{
		Name: sc.part(),
		Setup: func(x *sched.Exec) {
			st := &schedState{p: sc.mk()}
			x.Data = st
			for _, op := range sc.pre {
				if op == "F" {
					// leave exactly one unit free AFTER the rest of the prefix
					n := 0
					for _, o := range sc.pre {
						if strings.HasPrefix(o, "A:") {
							n++
						}
					}
					for len(st.fill) < len(st.p.usable)-1-n {
						id := fmt.Sprintf("z%d", len(st.fill))
						if st.p.alloc(id) == "" {
							panic("filler refused")
						}
						st.fill = append(st.fill, id)
					}
					continue
				}
				doOp(st, op)
			}
			for ti, ops := range sc.threads {
				ti, ops := ti, ops
				x.Thread(fmt.Sprintf("T%d", ti), func() {
					for _, op := range ops {
						c := &call{th: ti, op: op}
						st.mu.Lock()
						st.calls = append(st.calls, c)
						st.mu.Unlock()
						c.res = doOp(st, op)
						x.Obs("T%d:%s=%s", ti, op, c.res)
					}
				})
			}
		},
		Check: func(x *sched.Exec) []sched.Viol { return checkSched(sc, x.Data.(*schedState), cl) },
	}
}

func checkSched(sc scen, st *schedState, cl Clauses) []sched.Viol {
	var vs []sched.Viol
	// add: C01 clauses (injectivity, range, stability, query agreement); add5: C05 clauses (conservation, stats)
	add := func(kind, site, detail string) {
		if cl.C01 {
			vs = append(vs, sched.Viol{Kind: kind, Site: site, Detail: detail})
		}
	}
	add5 := func(kind, site, detail string) {
		if cl.C05 {
			vs = append(vs, sched.Viol{Kind: kind, Site: site, Detail: detail})
		}
	}
	usable := map[string]bool{}
	for _, u := range st.p.usable {
		usable[u] = true
	}
	released := map[string]bool{}
	remote := map[string]bool{}
	results := map[string][]string{}
	subs := map[string]bool{}
	for _, op := range sc.pre {
		if f := strings.Split(op, ":"); f[0] == "A" {
			subs[f[1]] = true
		}
	}
	for _, v := range st.snap {
		add("duplicate", "reload", v)
	}
	for _, c := range st.calls {
		f := strings.Split(c.op, ":")
		if len(f) < 2 {
			continue // M, E
		}
		subs[f[1]] = true
		switch f[0] {
		case "R":
			released[f[1]] = true
		case "P":
			remote[f[1]] = true
		case "A":
			if c.res != "" {
				results[f[1]] = append(results[f[1]], c.res)
				if !usable[c.res] {
					add("range", "Allocate", fmt.Sprintf("%s was assigned %s, not a unit of the pool", f[1], c.res))
				}
			}
		}
	}
	all := []string{}
	for s := range subs {
		all = append(all, s)
	}
	all = append(all, st.fill...)
	sort.Strings(all)
	// what the pool says everybody holds now
	live := map[string]string{}
	for _, s := range all {
		if st.p.lookup != nil {
			if v, ok := st.p.lookup(s); ok {
				live[s] = v
			}
		} else {
			// dhcp.Pool: no lookup API; a subscriber whose last concurrent op may have released is skipped
			if released[s] {
				st.p.unknown++
				continue
			}
			if v := st.p.alloc(s); v != "" {
				live[s] = v
			}
		}
	}
	for s, rs := range results {
		if released[s] || remote[s] {
			continue
		}
		for _, r := range rs {
			if r != rs[0] {
				add("stability", "Allocate", fmt.Sprintf("concurrent Allocate calls for %s returned different units %v", s, rs))
			}
		}
		if v, ok := live[s]; !ok {
			add("stability", "Lookup", fmt.Sprintf("%s was assigned %v and never released, but holds nothing", s, rs))
		} else if v != rs[0] {
			add("stability", "Lookup", fmt.Sprintf("%s was assigned %s but holds %s", s, rs[0], v))
		}
	}
	// two subscribers never released must not have been told the same unit
	seen := map[string]string{}
	for _, s := range all {
		v, ok := live[s]
		if !ok {
			continue
		}
		if !usable[v] {
			add("range", "Lookup", fmt.Sprintf("%s holds %s, not a unit of the pool", s, v))
		}
		if o, dup := seen[v]; dup {
			add("duplicate", "Lookup", fmt.Sprintf("%s and %s both hold %s", o, s, v))
		}
		seen[v] = s
	}
	for s, rs := range results {
		if released[s] {
			continue
		}
		for t, rt := range results {
			if s < t && !released[t] && rs[0] == rt[0] {
				add("duplicate", "Allocate", fmt.Sprintf("%s and %s were both assigned %s", s, t, rs[0]))
			}
		}
	}
	if st.p.extra != nil {
		st.p.extra(live, add)
	}
	if cl.C05 {
		// a pool without a lookup API (dhcp.Pool): a subscriber that was released concurrently either holds an
		// address or not; its idempotent Allocate settles it as a holder either way (conservation is unaffected)
		if st.p.lookup == nil {
			for _, s := range all {
				if _, ok := live[s]; !ok && released[s] {
					if v := st.p.alloc(s); v != "" {
						live[s] = v
						if _, dup := seen[v]; !dup {
							seen[v] = s
						}
					}
				}
			}
		}
		if st.p.stats != nil {
			al, tot := st.p.stats()
			if al != len(live) {
				add5("stats", "Stats", fmt.Sprintf("the pool reports %d allocated, %d subscribers hold a unit (%v)", al, len(live), live))
			}
			if tot != len(st.p.usable) {
				add5("stats", "Stats", fmt.Sprintf("the pool reports total %d, it has %d usable units", tot, len(st.p.usable)))
			}
		}
	}
	if len(vs) > 0 {
		return vs
	}
	// probe: fresh subscribers ask until refusal
	var got []string
	for k := 0; k < len(st.p.usable)+2; k++ {
		id := fmt.Sprintf("y%d", k)
		v := st.p.alloc(id)
		if v == "" {
			break
		}
		if o, dup := seen[v]; dup {
			add("duplicate", "Allocate", fmt.Sprintf("fresh subscriber %s was assigned %s, which %s holds", id, v, o))
		}
		if !usable[v] {
			add("range", "Allocate", fmt.Sprintf("fresh subscriber %s was assigned %s, not a unit of the pool", id, v))
		}
		if _, dup := seen[v]; !dup {
			seen[v] = id
		}
		got = append(got, v)
	}
	// conservation: every usable unit is held by a live subscriber or was obtainable
	var lost []string
	for _, u := range st.p.usable {
		if _, ok := seen[u]; !ok {
			lost = append(lost, u)
		}
	}
	if len(lost) > 0 {
		add5("leak", "Allocate", fmt.Sprintf("usable unit(s) %v are neither held by a live subscriber nor obtainable by new subscribers (held: %v; obtained: %v)", lost, live, got))
	}
	return vs
}

// AllocVsReleaseSameSub: the scenario (trace[1] = "threads=[[..] [..]]") runs A:x and R:x for the same
// subscriber on different threads.
func AllocVsReleaseSameSub(tr []string) bool {
	if len(tr) < 2 || !strings.HasPrefix(tr[1], "threads=") {
		return false
	}
	ths := strings.Split(strings.Trim(strings.TrimPrefix(tr[1], "threads="), "[]"), "] [")
	for i, a := range ths {
		for j, b := range ths {
			if i == j {
				continue
			}
			for _, oa := range strings.Fields(a) {
				for _, ob := range strings.Fields(b) {
					if strings.HasPrefix(oa, "A:") && strings.HasPrefix(ob, "R:") && oa[2:] == ob[2:] {
						return true
					}
				}
			}
		}
	}
	return false
}

// RunSched explores every Engine B scenario under the given clauses.
// RacePass is the separate free-running pass (built with -race by bin/check in the thorough tier): the same scenario
// bodies on real goroutines and real locks, many rounds each. It returns the number of executions and the first
// end-state invariant failures (known-finding classes are not filtered here: only data races fail the pass).
func RacePass(cl Clauses, rounds int) (int, []string) {
	n := 0
	var bad []string
	scs := scenarios(true)
	// free-running only: long overlapping save / mutate loops, so that every save overlaps mutations in real time
	rep := func(ops []string, k int) []string {
		var out []string
		for i := 0; i < k; i++ {
			out = append(out, ops...)
		}
		return out
	}
	for _, sc := range scenarios(false) {
		switch sc.name {
		case "M|A:b,R:a":
			scs = append(scs, scen{sc.tgt, sc.mk, "race:M*|(A:b,R:b,A:c,R:c)*", sc.pre, [][]string{rep([]string{"M"}, 12), rep([]string{"A:b", "R:b", "A:c", "R:c"}, 6)}})
		case "M|E,N:a":
			scs = append(scs, scen{sc.tgt, sc.mk, "race:M*|(E,N:a,N:b)*", sc.pre, [][]string{rep([]string{"M"}, 12), rep([]string{"E", "N:a", "N:b"}, 8)}})
		}
	}
	for _, sc := range scs {
		for r := 0; r < rounds; r++ {
			x := sched.RunFree(sc.scenario(cl))
			if vs := checkSched(sc, x.Data.(*schedState), cl); len(vs) > 0 && len(bad) < 5 {
				bad = append(bad, fmt.Sprintf("%s: %v", sc.part(), vs[0]))
			}
			n++
		}
	}
	return n, bad
}

func RunSched(run *report.Run, cl Clauses, classify func(*report.Violation)) {
	bound := 2
	if run.Thorough() {
		bound = 3
	}
	for _, sc := range scenarios(run.Thorough()) {
		name := sc.part()
		if !run.WantPart(name) {
			continue
		}
		e := &sched.Explorer{Bound: bound, Budget: 3 * time.Minute}
		res := e.Explore(sc.scenario(cl))
		run.AddPart(report.Part{Name: name, Engine: "B:sched-dfs", Bound: fmt.Sprintf("preemptions<=%d completed=%d maxpoints=%d", bound, res.Bound, res.MaxPoints),
			Executions: res.Executions, Outcomes: int64(len(res.Outcomes)), Exhaustive: res.Exhaustive, States: int64(len(res.Outcomes))})
		for _, f := range res.Failures {
			x1 := sched.RunOnce(sc.scenario(cl), f.Choices)
			x2 := sched.RunOnce(sc.scenario(cl), f.Choices)
			if strings.Join(x1.Log, "|") != strings.Join(x2.Log, "|") || strings.Join(x1.Log, "|") != strings.Join(f.Log, "|") {
				run.HarnessError("non-deterministic replay of schedule in " + name)
				continue
			}
			for _, v := range f.Viols {
				tr := append([]string{"pre=" + strings.Join(sc.pre, ","), "threads=" + fmt.Sprint(sc.threads)}, f.Schedule...)
				rv := report.Violation{Part: name, Kind: v.Kind, Site: v.Site, Detail: v.Detail + " | observations: " + strings.Join(f.Log, " "), Config: sc.tgt, Trace: tr,
					Extra: map[string]any{"choices": f.Choices}}
				classify(&rv)
				run.Violation(rv)
			}
		}
		if len(res.Failures) == 0 {
			var o []string
			for k := range res.Outcomes {
				o = append(o, k)
			}
			sort.Strings(o)
			run.Sample(map[string]any{"part": name, "executions": res.Executions, "outcomes": o})
		}
	}
}

// ReplaySched re-executes a recorded schedule.
func ReplaySched(run *report.Run, v report.Violation, cl Clauses, prop string) int {
	for _, sc := range scenarios(true) {
		if sc.part() != v.Part {
			continue
		}
		var choices []int
		if cs, ok := v.Extra["choices"].([]any); ok {
			for _, c := range cs {
				choices = append(choices, int(c.(float64)))
			}
		}
		x := sched.RunOnce(sc.scenario(cl), choices)
		vs := checkSched(sc, x.Data.(*schedState), cl)
		if x.PanicText != "" {
			vs = append(vs, sched.Viol{Kind: "panic", Detail: x.PanicText})
		}
		for _, f := range vs {
			fmt.Printf("VIOLATION property=%s replay=%s\n  kind=%s site=%s detail=%s\n  observations: %s\n", prop, *report.FlagReplay, f.Kind, f.Site, f.Detail, strings.Join(x.Log, " "))
		}
		if len(vs) > 0 {
			return 1
		}
		fmt.Println("replay: no violation")
		return 0
	}
	fmt.Println("HARNESS-ERROR unknown scenario", v.Part)
	return 2
}
