package pooladapt

import (
	"context"
	"fmt"
	"net"

	"github.com/codelaboratoryltd/bng/pkg/dhcp"
	"github.com/codelaboratoryltd/bng/pkg/dhcpv6"
	"github.com/codelaboratoryltd/bng/pkg/pool"
	"github.com/codelaboratoryltd/bng/pkg/pppoe"
	"go.uber.org/zap"

	"verif/deepdump"
	"verif/explore"
)

func mustIP(s string) net.IP {
	ip := net.ParseIP(s)
	if ip == nil {
		panic("bad ip " + s)
	}
	return ip
}

func ipText(ip net.IP) string {
	if ip == nil {
		return ""
	}
	return ip.String()
}

// macOf maps a holder name to a locally administered MAC.
func macOf(h string) net.HardwareAddr {
	// injective on the harness's names: FNV-1a over the whole name + its length and last byte
	var x uint32 = 2166136261
	for i := 0; i < len(h); i++ {
		x = (x ^ uint32(h[i])) * 16777619
	}
	return net.HardwareAddr{0x02, byte(len(h)), h[len(h)-1], byte(x >> 16), byte(x >> 8), byte(x)}
}

// v4Usable: hosts of an IPv4 network without network/broadcast address, the
// first rs and last re hosts, and the gateway.
func v4Usable(network string, rs, re int, gw string) []string {
	us := Units(network, 32)
	if len(us) < 3 {
		return nil
	}
	hosts := us[1 : len(us)-1]
	return HostTexts(hosts, rs, re, gw)
}

// ---------------- dhcp.Pool ----------------

type DHCPCfg struct {
	Net, Gateway               string
	ReservedStart, ReservedEnd int
	Subs                       []string
}

type dhcpSys struct {
	*Ref
	c DHCPCfg
	p *dhcp.Pool
}

func NewDHCP(cl Clauses, c DHCPCfg) explore.System {
	p, err := dhcp.NewPool(dhcp.PoolConfig{ID: 1, Name: "p", Network: c.Net, Gateway: c.Gateway, ReservedStart: c.ReservedStart, ReservedEnd: c.ReservedEnd})
	if err != nil {
		panic(err)
	}
	return &dhcpSys{Ref: NewRef(cl, v4Usable(c.Net, c.ReservedStart, c.ReservedEnd, c.Gateway)), c: c, p: p}
}

func (s *dhcpSys) Ops() []string {
	var ops []string
	for _, h := range s.c.Subs {
		ops = append(ops, "Allocate("+h+")")
		if _, held := s.Held[h]; held {
			ops = append(ops, "Release("+h+")")
		}
	}
	// releasing / declining by address: first two usable units (held or free)
	for i := 0; i < 2 && i < len(s.Usable); i++ {
		ops = append(ops, fmt.Sprintf("ReleaseIP(%d)", i), fmt.Sprintf("MarkUnavailable(%d)", i))
	}
	return ops
}

func (s *dhcpSys) Apply(op string) string {
	name, a := args(op)
	switch name {
	case "Allocate":
		ip, err := s.p.Allocate(macOf(a[0]))
		if err != nil {
			return s.OnAlloc("Allocate", a[0], "", err.Error())
		}
		return s.OnAlloc("Allocate", a[0], ipText(ip), "")
	case "Release":
		v, held := s.Held[a[0]]
		if !held {
			return "skip"
		}
		s.p.Release(mustIP(v))
		s.OnRelease(a[0])
		return "ok"
	case "ReleaseIP":
		var i int
		fmt.Sscan(a[0], &i)
		u := s.Usable[i]
		s.p.Release(mustIP(u))
		if o := s.Owner(u); o != "" {
			s.OnRelease(o)
		}
		return "ok"
	case "MarkUnavailable":
		var i int
		fmt.Sscan(a[0], &i)
		s.p.MarkUnavailable(mustIP(s.Usable[i]))
		s.Excluded[s.Usable[i]] = true
		// retiring an address that is held (DHCP DECLINE of a conflicting address) ends its holder's
		// reservation: the holder asks again and gets a different address (fix C02-F2)
		if o := s.Owner(s.Usable[i]); o != "" {
			s.OnRelease(o)
		}
		return "ok"
	}
	panic("unknown op " + op)
}

func (s *dhcpSys) Fingerprint() string {
	return deepdump.Dump(s.p, deepdump.Options{}) + "|" + s.Ref.String()
}

func (s *dhcpSys) Check() []explore.Viol {
	st := s.p.Stats()
	if len(s.Viols) > 0 {
		return s.Viols
	}
	got := s.Probe("Allocate", func(id string) string {
		ip, err := s.p.Allocate(macOf(id))
		if err != nil {
			return ""
		}
		return ipText(ip)
	})
	if s.Cl.C05 {
		// Stats (taken before the probe): Allocated = live holders; Available = what new subscribers could obtain; Total = both
		if st.Allocated != len(s.Held) {
			s.V("stats", "Stats", "Stats.Allocated=%d, %d subscribers hold an address", st.Allocated, len(s.Held))
		}
		if st.Available != len(got) {
			s.V("stats", "Stats", "Stats.Available=%d, new subscribers could obtain %d address(es)", st.Available, len(got))
		}
		if st.Total != st.Allocated+st.Available {
			s.V("stats", "Stats", "Stats.Total=%d != Allocated %d + Available %d", st.Total, st.Allocated, st.Available)
		}
	}
	return s.Viols
}

// ---------------- dhcpv6.AddressPool / PrefixPool ----------------

type V6Cfg struct {
	Net       string
	Delegated int // 0 = address pool, else delegation length
	Subs      []string
}

type v6Sys struct {
	*Ref
	c  V6Cfg
	ap *dhcpv6.AddressPool
	pp *dhcpv6.PrefixPool
}

func NewV6(cl Clauses, c V6Cfg) explore.System {
	s := &v6Sys{c: c}
	var err error
	if c.Delegated == 0 {
		s.ap, err = dhcpv6.NewAddressPool(c.Net, 3600, 7200)
		// the pool hands out every address of the network except the all-zero (subnet-router anycast) one
		s.Ref = NewRef(cl, HostTexts(Units(c.Net, 128), 1, 0))
	} else {
		s.pp, err = dhcpv6.NewPrefixPool(c.Net, uint8(c.Delegated), 3600, 7200)
		s.Ref = NewRef(cl, PrefixTexts(Units(c.Net, c.Delegated)))
	}
	if err != nil {
		panic(err)
	}
	return s
}

func (s *v6Sys) alloc(id string) string {
	if s.ap != nil {
		return ipText(s.ap.Allocate(id))
	}
	if p := s.pp.Allocate(id); p != nil {
		return p.String()
	}
	return ""
}

func (s *v6Sys) Ops() []string {
	var ops []string
	for _, h := range s.c.Subs {
		ops = append(ops, "Allocate("+h+")", "Release("+h+")")
	}
	return ops
}

func (s *v6Sys) Apply(op string) string {
	name, a := args(op)
	switch name {
	case "Allocate":
		return s.OnAlloc("Allocate", a[0], s.alloc("duid-"+a[0]), "nil")
	case "Release":
		if s.ap != nil {
			s.ap.Release("duid-" + a[0])
		} else {
			s.pp.Release("duid-" + a[0])
		}
		s.OnRelease(a[0])
		return "ok"
	}
	panic("unknown op " + op)
}

func (s *v6Sys) Fingerprint() string {
	if s.ap != nil {
		return deepdump.Dump(s.ap, deepdump.Options{}) + "|" + s.Ref.String()
	}
	return deepdump.Dump(s.pp, deepdump.Options{}) + "|" + s.Ref.String()
}

func (s *v6Sys) Check() []explore.Viol {
	if len(s.Viols) == 0 {
		s.Probe("Allocate", func(id string) string { return s.alloc("duid-" + id) })
	}
	return s.Viols
}

// ---------------- pppoe.IPPool (+ IPCP state machines sharing one) ----------------

type PPPoECfg struct {
	Net, Gateway string
	Subs         []string
	IPCP         bool // drive the pool through two IPCPStateMachines (Up/Down) instead of directly
}

type pppoeSys struct {
	*Ref
	c  PPPoECfg
	p  *pppoe.IPPool
	sm map[string]*pppoe.IPCPStateMachine
	up map[string]bool
}

func NewPPPoE(cl Clauses, c PPPoECfg) explore.System {
	p, err := pppoe.NewIPPool(c.Net, c.Gateway)
	if err != nil {
		panic(err)
	}
	s := &pppoeSys{Ref: NewRef(cl, v4Usable(c.Net, 0, 0, c.Gateway)), c: c, p: p, sm: map[string]*pppoe.IPCPStateMachine{}, up: map[string]bool{}}
	if c.IPCP {
		for _, h := range c.Subs {
			cfg := pppoe.DefaultIPCPConfig()
			cfg.IPPool = p
			s.sm[h] = pppoe.NewIPCPStateMachine(cfg, "sess-"+h, func(uint16, []byte) {}, zap.NewNop())
		}
	}
	return s
}

func (s *pppoeSys) Ops() []string {
	var ops []string
	for _, h := range s.c.Subs {
		if s.c.IPCP {
			ops = append(ops, "Up("+h+")", "Down("+h+")")
		} else {
			ops = append(ops, "Allocate("+h+")", "Release("+h+")")
		}
	}
	return ops
}

func (s *pppoeSys) Apply(op string) string {
	name, a := args(op)
	switch name {
	case "Allocate":
		return s.OnAlloc("Allocate", a[0], ipText(s.p.Allocate("sess-"+a[0])), "nil")
	case "Release":
		s.p.Release("sess-" + a[0])
		s.OnRelease(a[0])
		return "ok"
	case "Up":
		// lower layer up: the session is given its address (dynamic: from the pool)
		s.sm[a[0]].Up()
		s.up[a[0]] = true
		return s.OnAlloc("IPCP.Up", a[0], ipText(s.sm[a[0]].GetNegotiatedOptions().PeerIP), "no peer address")
	case "Down":
		// lower layer down: the session's address goes back to the pool
		s.sm[a[0]].Down()
		s.up[a[0]] = false
		s.OnRelease(a[0])
		return "ok"
	}
	panic("unknown op " + op)
}

func (s *pppoeSys) Fingerprint() string {
	fp := deepdump.Dump(s.p, deepdump.Options{}) + "|" + s.Ref.String()
	for _, h := range s.c.Subs {
		if m := s.sm[h]; m != nil {
			fp += fmt.Sprintf("|%s:%v:%s", h, m.GetState(), ipText(m.GetNegotiatedOptions().PeerIP))
		}
	}
	return fp
}

func (s *pppoeSys) Check() []explore.Viol {
	if s.c.IPCP && s.Cl.C01 {
		for _, h := range s.c.Subs {
			if s.up[h] {
				got := ipText(s.sm[h].GetNegotiatedOptions().PeerIP)
				s.ExpectLookup("GetNegotiatedOptions", h, got, got != "")
			}
		}
	}
	if len(s.Viols) == 0 {
		s.Probe("Allocate", func(id string) string { return ipText(s.p.Allocate("sess-" + id)) })
	}
	return s.Viols
}

// ---------------- pool.PeerPool (single node: every subscriber is local) ----------------

type PeerCfg struct {
	Net, Gateway string
	Subs         []string
}

type peerSys struct {
	*Ref
	c  PeerCfg
	p  *pool.PeerPool
	bg context.Context
}

func NewPeer(cl Clauses, c PeerCfg) explore.System {
	p, err := pool.NewPeerPool(pool.PeerPoolConfig{NodeID: "n1", Network: c.Net, Gateway: c.Gateway})
	if err != nil {
		panic(err)
	}
	return &peerSys{Ref: NewRef(cl, v4Usable(c.Net, 0, 0, c.Gateway)), c: c, p: p, bg: context.Background()}
}

func (s *peerSys) Ops() []string {
	var ops []string
	for _, h := range s.c.Subs {
		ops = append(ops, "Allocate("+h+")", "Release("+h+")")
	}
	return ops
}

func (s *peerSys) alloc(id string) string {
	r, err := s.p.Allocate(s.bg, id, macOf(id))
	if err != nil || r == nil {
		return ""
	}
	if r.SubscriberID != id {
		s.V("query", "Allocate", "response for %s names subscriber %q", id, r.SubscriberID)
	}
	return r.IP
}

func (s *peerSys) Apply(op string) string {
	name, a := args(op)
	switch name {
	case "Allocate":
		return s.OnAlloc("Allocate", a[0], s.alloc(a[0]), "error")
	case "Release":
		err := s.p.Release(s.bg, a[0])
		if err != nil && s.Cl.C05 {
			s.V("release", "Release", "Release(%s): %v", a[0], err)
		}
		s.OnRelease(a[0])
		return fmt.Sprint(err == nil)
	}
	panic("unknown op " + op)
}

func (s *peerSys) Fingerprint() string {
	return deepdump.Dump(s.p, deepdump.Options{SkipTypes: map[string]bool{"http.Client": true}}) + "|" + s.Ref.String()
}

func (s *peerSys) Check() []explore.Viol {
	for _, h := range append(append([]string{}, s.c.Subs...), "nobody") {
		r, ok := s.p.Get(h)
		got := ""
		if r != nil {
			got = r.IP
		}
		s.ExpectLookup("Get", h, got, ok)
	}
	st := s.p.Stats()
	if len(s.Viols) > 0 {
		return s.Viols
	}
	got := s.Probe("Allocate", s.alloc)
	if s.Cl.C05 {
		if st.Allocated != len(s.Held) || st.Available != len(got) || st.Total != st.Allocated+st.Available || st.Total != len(s.Usable) {
			s.V("stats", "Stats", "Stats{Allocated:%d Available:%d Total:%d}, truth: %d held, %d obtainable, %d usable", st.Allocated, st.Available, st.Total, len(s.Held), len(got), len(s.Usable))
		}
	}
	return s.Viols
}

// MacOf is macOf for the Engine B scenarios.
func MacOf(h string) net.HardwareAddr { return macOf(h) }
