package pooladapt

import (
	"encoding/json"
	"fmt"
	"net"
	"strings"

	"github.com/codelaboratoryltd/bng/pkg/allocator"

	"verif/deepdump"
	"verif/explore"
)

// ---------------- allocator.IPAllocator ----------------

type BitmapCfg struct {
	Net     string
	UnitLen int
	Subs    []string // full-alphabet subscribers
	// SpecUnits: unit indexes used by AllocateSpecific/SetAllocation/ReleasePrefix (nil = all).
	SpecUnits []int
	// Repeat: C05 adds "apply the same SetAllocation twice"/"reload twice" ops.
	Repeat bool
}

type bitmapSys struct {
	*Ref
	c     BitmapCfg
	a     *allocator.IPAllocator
	units []string
	bad   map[string]*net.IPNet // out-of-range / wrong-length prefixes
}

func mustCIDR(s string) *net.IPNet {
	_, n, err := net.ParseCIDR(s)
	if err != nil {
		panic(err)
	}
	return n
}

func NewBitmap(cl Clauses, c BitmapCfg) explore.System {
	a, err := allocator.NewIPAllocator(c.Net, c.UnitLen)
	if err != nil {
		panic(err)
	}
	us := Units(c.Net, c.UnitLen)
	s := &bitmapSys{Ref: NewRef(cl, PrefixTexts(us)), c: c, a: a, units: PrefixTexts(us), bad: map[string]*net.IPNet{}}
	// one prefix after the pool's end (same length) and one of the wrong length
	last := us[len(us)-1]
	bits := last.Addr().BitLen()
	if bits == 32 {
		s.bad["oor"] = mustCIDR(fmt.Sprintf("203.0.113.0/%d", c.UnitLen))
	} else {
		s.bad["oor"] = mustCIDR(fmt.Sprintf("3fff:ffff:ffff:ffff::/%d", c.UnitLen))
	}
	wl := c.UnitLen - 1
	if wl < 0 {
		wl = 1
	}
	s.bad["wl"] = &net.IPNet{IP: mustCIDR(s.units[0]).IP, Mask: net.CIDRMask(wl, bits)}
	return s
}

func (s *bitmapSys) specUnits() []int {
	if s.c.SpecUnits != nil {
		return s.c.SpecUnits
	}
	out := make([]int, len(s.units))
	for i := range out {
		out[i] = i
	}
	return out
}

func (s *bitmapSys) Ops() []string {
	var ops []string
	for _, h := range s.c.Subs {
		ops = append(ops, "Allocate("+h+")", "Release("+h+")")
	}
	targets := []string{}
	for _, i := range s.specUnits() {
		targets = append(targets, fmt.Sprint(i))
	}
	targets = append(targets, "oor", "wl")
	for _, h := range s.c.Subs[:min(2, len(s.c.Subs))] {
		for _, t := range targets {
			ops = append(ops, "AllocateSpecific("+h+","+t+")", "SetAllocation("+h+","+t+")")
		}
	}
	for _, t := range targets {
		ops = append(ops, "ReleasePrefix("+t+")")
	}
	ops = append(ops, "Reload")
	return ops
}

func (s *bitmapSys) prefix(t string) (*net.IPNet, string) {
	if p, ok := s.bad[t]; ok {
		return p, ""
	}
	var i int
	fmt.Sscan(t, &i)
	return mustCIDR(s.units[i]), s.units[i]
}

func args(op string) (name string, a []string) {
	i := strings.IndexByte(op, '(')
	if i < 0 {
		return op, nil
	}
	return op[:i], strings.Split(strings.TrimSuffix(op[i+1:], ")"), ",")
}

func (s *bitmapSys) Apply(op string) string {
	name, a := args(op)
	switch name {
	case "Allocate":
		p, err := s.a.Allocate(a[0])
		if err != nil {
			return s.OnAlloc("Allocate", a[0], "", err.Error())
		}
		return s.OnAlloc("Allocate", a[0], p.String(), "")
	case "Release":
		_, held := s.Held[a[0]]
		err := s.a.Release(a[0])
		if held && err != nil && s.Cl.C05 {
			s.V("release", "Release", "holder %s could not release: %v", a[0], err)
		}
		s.OnRelease(a[0])
		return fmt.Sprint(err == nil)
	case "AllocateSpecific", "SetAllocation":
		p, unit := s.prefix(a[1])
		var err error
		if name == "AllocateSpecific" {
			err = s.a.AllocateSpecific(a[0], p)
		} else {
			err = s.a.SetAllocation(a[0], p)
		}
		if err != nil {
			// a refusal changes nothing; refusing a free valid unit to a subscriber that holds nothing is a false refusal
			if _, held := s.Held[a[0]]; s.Cl.C05 && unit != "" && s.Owner(unit) == "" && !held {
				s.V("exhaustion", name, "%s refused free unit %s to %s: %v", name, unit, a[0], err)
			}
			return "err"
		}
		if unit == "" {
			if s.Cl.C01 {
				s.V("range", name, "%s accepted %s (%s), which is not a unit of the pool", name, p, a[1])
			}
			return "ok-bad"
		}
		if o := s.Owner(unit); o != "" && o != a[0] && s.Cl.C01 {
			s.V("duplicate", name, "%s gave %s to %s while %s holds it", name, unit, a[0], o)
		}
		if old, held := s.Held[a[0]]; held && old != unit && name == "AllocateSpecific" && s.Cl.C01 {
			s.V("stability", name, "%s holds %s and was additionally given %s", a[0], old, unit)
		}
		s.Held[a[0]] = unit
		return "ok"
	case "ReleasePrefix":
		p, unit := s.prefix(a[0])
		err := s.a.ReleasePrefix(p)
		if unit != "" {
			if o := s.Owner(unit); o != "" {
				if err != nil && s.Cl.C05 {
					s.V("release", "ReleasePrefix", "held unit %s could not be released: %v", unit, err)
				}
				s.OnRelease(o)
			}
		}
		return fmt.Sprint(err == nil)
	case "Reload":
		data, err := json.Marshal(s.a)
		if err != nil {
			panic(err)
		}
		n := &allocator.IPAllocator{}
		if err := json.Unmarshal(data, n); err != nil {
			s.V("reload", "UnmarshalJSON", "state written by MarshalJSON is rejected: %v", err)
			return "err"
		}
		s.a = n
		return "ok"
	}
	panic("unknown op " + op)
}

func (s *bitmapSys) Fingerprint() string {
	return deepdump.Dump(s.a, deepdump.Options{}) + "|" + s.Ref.String()
}

func (s *bitmapSys) Check() []explore.Viol {
	if s.Cl.C01 {
		for _, h := range append(append([]string{}, s.c.Subs...), "nobody") {
			p := s.a.Lookup(h)
			got := ""
			if p != nil {
				got = p.String()
			}
			s.ExpectLookup("Lookup", h, got, p != nil)
		}
		for _, u := range s.units {
			p := mustCIDR(u)
			s.ExpectOwner("LookupByPrefix", u, s.a.LookupByPrefix(p))
			if got, want := s.a.IsAllocated(p), s.Owner(u) != ""; got != want {
				s.V("query", "IsAllocated", "IsAllocated(%s)=%v, reference owner %q", u, got, s.Owner(u))
			}
			if !s.a.Contains(p) {
				s.V("query", "Contains", "Contains(%s)=false for a unit of the pool", u)
			}
		}
		list := map[string]string{}
		for _, al := range s.a.ListAllocations() {
			if prev, dup := list[al.SubscriberID]; dup {
				s.V("query", "ListAllocations", "%s listed twice (%s, %s)", al.SubscriberID, prev, al.Prefix)
			}
			list[al.SubscriberID] = al.Prefix.String()
		}
		if fmt.Sprint(list) != fmt.Sprint(s.Held) {
			s.V("query", "ListAllocations", "ListAllocations=%v, reference %v", list, s.Held)
		}
	}
	al, tot, util := s.a.Stats()
	s.ExpectStats("Stats", int64(al), int64(tot), int64(len(s.Usable)), util)
	if len(s.Viols) == 0 {
		s.Probe("Allocate", func(id string) string {
			p, err := s.a.Allocate(id)
			if err != nil {
				return ""
			}
			return p.String()
		})
	}
	return s.Viols
}

// ---------------- 2^64-unit boundary (single-step configurations) ----------------

type hugeSys struct {
	*Ref
	a   *allocator.IPAllocator
	net *net.IPNet
	ul  int
}

func NewBitmapHuge(cl Clauses, network string, unitLen int) explore.System {
	a, err := allocator.NewIPAllocator(network, unitLen)
	if err != nil {
		panic(err)
	}
	return &hugeSys{Ref: NewRef(cl, nil), a: a, net: mustCIDR(network), ul: unitLen}
}

func (s *hugeSys) Ops() []string { return []string{"Allocate(a)", "Allocate(b)", "Release(a)"} }

func (s *hugeSys) Apply(op string) string {
	name, a := args(op)
	if name == "Release" {
		s.a.Release(a[0])
		s.OnRelease(a[0])
		return "ok"
	}
	p, err := s.a.Allocate(a[0])
	if err != nil {
		// the pool has >= 2^64 units and at most two holders: a refusal is never truthful
		if s.Cl.C05 {
			s.V("exhaustion", "Allocate", "pool %s->/%d refused %s with %d holder(s): %v [cause=unit-count-overflows-uint64]", s.net, s.ul, a[0], len(s.Held), err)
		}
		if _, held := s.Held[a[0]]; held && s.Cl.C01 {
			s.V("stability", "Allocate", "holder %s refused on asking again: %v", a[0], err)
		}
		return "refused"
	}
	v := p.String()
	ones, _ := p.Mask.Size()
	if s.Cl.C01 {
		if !s.net.Contains(p.IP) || ones != s.ul || !p.IP.Equal(p.IP.Mask(p.Mask)) {
			s.V("range", "Allocate", "%s was assigned %s: not an aligned /%d inside %s", a[0], v, s.ul, s.net)
		}
		if old, held := s.Held[a[0]]; held && old != v {
			s.V("stability", "Allocate", "holder %s had %s, got %s", a[0], old, v)
		} else if o := s.Owner(v); o != "" && o != a[0] {
			s.V("duplicate", "Allocate", "%s was assigned %s, held by %s", a[0], v, o)
		}
	}
	s.Held[a[0]] = v
	return v
}

func (s *hugeSys) Fingerprint() string {
	return deepdump.Dump(s.a, deepdump.Options{}) + "|" + s.Ref.String()
}

func (s *hugeSys) Check() []explore.Viol {
	if al, _, _ := s.a.Stats(); s.Cl.C05 && int(al) != len(s.Held) {
		s.V("stats", "Stats", "Stats reports %d allocated, %d held", al, len(s.Held))
	}
	return s.Viols
}
