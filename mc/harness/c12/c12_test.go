// C12 — Allocations survive restart and replication unchanged.
//
// Engine A (verif/explore) on the REAL allocator code:
//
//	part "dist"  allocator.DistributedAllocator (session and lease mode) over the
//	             harness's fake ordered store (store_test.go): histories of
//	             Allocate/Renew/Release/AdvanceEpoch/Tick, remote puts/deletes
//	             delivered through the Watch callback, failure of the next
//	             Put/Get/Delete/Query, a crash after the k-th store call of an
//	             operation, and restart on the surviving content with every
//	             permutation of the Query result.           oracle R1..R4
//	part "sched:*" Engine B (verif/sched): 2-3 threads on colliding subscribers, every mutex operation
//	             and every fake-store call a scheduling point, all schedules with <= 2 (thorough 3)
//	             preemptions; R1/R2/R3 + stability at the end of every schedule (sched_test.go)
//	part "pool"  two allocator.PoolAllocator sharing one AllocationStore whose next Save/Remove can fail: bitmap and
//	             store record agree per (pool, subscriber) after every operation (pool_test.go)
//	part "r5-*"  IPAllocator, EpochBitmapAllocator, MemoryAllocationStore:
//	             X' = Unmarshal(Marshal(X)) in every reachable X answers every
//	             query identically and keeps doing so after each further op. R5
package c12

import (
	"fmt"
	"os"
	"strings"
	"testing"

	"verif/explore"
	"verif/report"
)

func models(run *report.Run) []*explore.Model {
	ms := distModels(run.Thorough())
	ms = append(ms, poolModels(run.Thorough())...)
	ms = append(ms, r5Models(run.Thorough())...)
	return ms
}

func TestCheck(t *testing.T) {
	theT = t
	run := report.New("C12", "model_checking")
	run.Rule = "BFS over allocate/renew/release/epoch/remote-change/fault/crash/restart histories on the real DistributedAllocator over a fake ordered store (R1 restart = store content, R2 uniqueness, R3 agreement after a failed store call, R4 remote change applied as announced or refused); BFS over the real IPAllocator/EpochBitmapAllocator/MemoryAllocationStore with a Marshal/Unmarshal shadow compared on every query after every operation (R5)"
	run.Rule += "; preemption-bounded enumeration of the interleavings of 2-3 concurrent Allocate/AllocateWithMAC/Release/Renew calls on colliding subscribers (store calls are scheduling points, n-th Put failing), R1/R2/R3/stability at the end of every schedule"
	run.Assumptions = []string{
		"store calls are atomic; a crash falls between store calls (the surviving content is the content after the k-th call)",
		"clean stop and crash are the same event for the allocator: it has no shutdown hook, memory is simply lost",
		"remote changes are delivered synchronously through the Watch callback after the replicated content changed",
		"lease-mode epoch ticks are driven by the real epochLoop goroutine on a synctest virtual clock",
	}
	ms := models(run)
	if *report.FlagReplay != "" {
		os.Exit(replay(run, ms))
	}
	for _, m := range ms {
		if run.WantPart(m.Name) {
			m.Run(run)
		}
	}
	runSched(run) // Engine B: interleavings (sched_test.go); runs after Engine A, one controlled execution at a time
	os.Exit(run.Finish())
}

func replay(run *report.Run, ms []*explore.Model) int {
	v, err := report.LoadReplay(*report.FlagReplay)
	if err != nil {
		fmt.Println("HARNESS-ERROR", err)
		return 2
	}
	if strings.HasPrefix(v.Part, "sched:") {
		return replaySched(run, v)
	}
	for _, m := range ms {
		if m.Name+"["+m.Config+"]" == v.Part {
			vs, p := m.Replay(v.Trace)
			if p != "" {
				fmt.Printf("VIOLATION property=C12 replay=%s\n  panic: %s\n", *report.FlagReplay, p)
				return 1
			}
			for _, x := range vs {
				fmt.Printf("VIOLATION property=C12 replay=%s\n  kind=%s site=%s detail=%s\n", *report.FlagReplay, x.Kind, x.Site, x.Detail)
			}
			if len(vs) > 0 {
				return 1
			}
			fmt.Println("replay: no violation")
			return 0
		}
	}
	// the part name embeds tier-dependent bounds: fall back to the model of the same family
	for _, m := range ms {
		if strings.HasPrefix(v.Part, m.Name+"[") && strings.HasPrefix(v.Config, strings.SplitN(m.Config, " ", 2)[0]+" ") {
			vs, p := m.Replay(v.Trace)
			if p != "" || len(vs) > 0 {
				fmt.Printf("VIOLATION property=C12 replay=%s\n  %v %s\n", *report.FlagReplay, vs, p)
				return 1
			}
			fmt.Println("replay: no violation")
			return 0
		}
	}
	fmt.Println("HARNESS-ERROR unknown part", v.Part)
	return 2
}

// classify assigns root-cause classes. Only the classes listed with status "known"
// in /verif/findings.d/C12.json are suppressed; the "fix:*" classes are labels for
// defects repaired by a proposed patch and are still reported as VIOLATION.
func classify(v *report.Violation) {
	dist := strings.HasPrefix(v.Part, "dist[")
	lease := dist && strings.HasPrefix(v.Config, "lease")
	switch {
	// K1: lease mode never installs the recorded address: loadAllocations and
	// handleRemoteChange call epochAllocator.Allocate(subscriber) (first free from the hint).
	// Matched only when (a) restart memory is EXACTLY the positional re-allocation in Query
	// order, or (b) a remote put for a subscriber WITHOUT a mapping ends on an unannounced address.
	case lease && v.Site == "loadAllocations" && (v.Kind == "R1-restart-address/positional" || v.Kind == "R1-restart-lost/positional"):
		v.Class = "C12-K1-lease-reload-reallocates"
	case lease && v.Site == "handleRemoteChange" && v.Kind == "R4-remote-address/new":
		v.Class = "C12-K1-lease-reload-reallocates"
	// K2: the allocation hint (nextFree / nextFreeHint) is not serialised: the restored copy
	// answers every query identically but a later Allocate of a new subscriber picks another free address.
	case strings.HasPrefix(v.Part, "r5-") && v.Kind == "R5-next-op/allocate-choice":
		v.Class = "C12-K2-allocation-hint-not-serialised"
	// K3: MemoryAllocationStore keeps the old by-IP entry when a (pool, subscriber) is saved again
	// with another address (C20 defect, fix C20-F3); the restored store rebuilds by-IP and so differs in GetByIP only.
	case strings.HasPrefix(v.Part, "r5-memstore[") && strings.HasSuffix(v.Kind, "/GetByIP-only+resaved-with-new-address"):
		v.Class = "regression:C20-F3 SaveAllocation keeps the old by-IP entry" // fixed in /repo; no longer a known finding: reported as VIOLATION
	// labels (NOT known findings)
	case strings.HasPrefix(v.Part, "r5-ipalloc[") && strings.HasSuffix(v.Kind, "/Stats-only+reapplied-SetAllocation"):
		v.Class = "fix:C05-F1 SetAllocation re-applied counts twice"
	case dist && v.Kind == "R3-agreement/memory-lost" && (v.Site == "Allocate/put" || v.Site == "AllocateMAC/put"):
		v.Class = "fix:C12-F1 rollback of a pre-existing allocation"
	case dist && v.Kind == "R3-agreement/memory-lost" && v.Site == "Release/delete":
		v.Class = "fix:C12-F2 release before store delete"
	case strings.HasPrefix(v.Part, "r5-epoch[") && !strings.Contains(v.Config, " /32 ") && len(v.Trace) <= 1:
		v.Class = "fix:C12-F3 epoch JSON base network"
	}
}
