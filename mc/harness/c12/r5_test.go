package c12

import (
	"context"
	"encoding/json"
	"fmt"
	"net"
	"sort"
	"strings"
	"time"

	"github.com/codelaboratoryltd/bng/pkg/allocator"

	"verif/deepdump"
	"verif/explore"
)

// ---------------------------------------------------------------------------
// R5: serialise-then-restore yields an object that answers every query
// identically, and keeps doing so after each further operation.
//
// A "robj" wraps one real serialisable object. The system keeps the real object
// X plus shadows: after every operation a new shadow X' = restore(serialise(X))
// is created and compared with X on every query; every operation is also applied
// to the live shadows (age <= lookahead) and the operation's own result and all
// query answers are compared again.
// ---------------------------------------------------------------------------

type robj interface {
	ops() []string
	apply(op string) string // result of the operation (addresses, errors as "err")
	queries() []string      // "name=answer" over the whole small universe, canonical order
	roundTrip() (robj, error)
	dump() string
	// note names a witness condition observed through the real API while applying
	// operations ("" none); it only refines the violation kind for classification.
	note() string
}

type shadow struct {
	o    robj
	age  int
	born string // op after which it was restored
}

type r5sys struct {
	x         robj
	shadows   []*shadow
	lookahead int
	viols     []explore.Viol
	site      string
}

func (s *r5sys) Ops() []string { return s.x.ops() }

func (s *r5sys) v(kind, f string, a ...any) {
	s.viols = append(s.viols, explore.Viol{Kind: kind, Site: s.site, Detail: fmt.Sprintf(f, a...)})
}

// diffQ returns the differing answers and, when every difference is an answer of
// one single query function, that function's name ("" otherwise).
func diffQ(a, b []string) (string, string) {
	var d []string
	only := ""
	for i := range a {
		if i >= len(b) || a[i] != b[i] {
			bb := "<missing>"
			if i < len(b) {
				bb = b[i]
			}
			d = append(d, fmt.Sprintf("original %s / restored %s", a[i], bb))
			fn := a[i]
			if j := strings.IndexAny(fn, "(="); j >= 0 {
				fn = fn[:j]
			}
			if only == "" || only == fn {
				only = fn
			} else {
				only = "*"
			}
		}
	}
	if only == "*" {
		only = ""
	}
	return strings.Join(d, "; "), only
}

func (s *r5sys) kind(base, only string) string {
	if only != "" && s.x.note() != "" {
		return base + "/" + only + "-only+" + s.x.note()
	}
	return base
}

func (s *r5sys) Apply(op string) string {
	obs := s.x.apply(op)
	qx := s.x.queries()
	var keep []*shadow
	for _, sh := range s.shadows {
		so := sh.o.apply(op)
		if so != obs {
			if strings.HasPrefix(op, "Allocate(") && obs != "err" && so != "err" {
				// both copies answered every query identically before this op (otherwise the
				// parent state was already a violation) and both found a free address for a
				// subscriber: they only CHOSE differently. Later answers differ as a consequence.
				s.v("R5-next-op/allocate-choice", "restored after [%s]: %s returned %q on the original and %q on the restored copy", sh.born, op, obs, so)
				continue
			}
			s.v("R5-next-op", "restored after [%s]: %s returned %q on the original and %q on the restored copy", sh.born, op, obs, so)
		}
		if d, only := diffQ(qx, sh.o.queries()); d != "" {
			s.v(s.kind("R5-next-op", only), "restored after [%s], then %s on both: answers differ: %s", sh.born, op, d)
		}
		sh.age++
		if sh.age < s.lookahead {
			keep = append(keep, sh)
		}
	}
	s.shadows = keep
	s.addShadow(op, qx)
	return obs
}

func (s *r5sys) addShadow(born string, qx []string) {
	n, err := s.x.roundTrip()
	if err != nil {
		s.v("R5-roundtrip", "after [%s]: serialise/restore failed: %v", born, err)
		return
	}
	if d, only := diffQ(qx, n.queries()); d != "" {
		s.v(s.kind("R5-roundtrip", only), "after [%s]: restore(serialise(X)) answers differ: %s", born, d)
	}
	if s.lookahead > 0 {
		s.shadows = append(s.shadows, &shadow{o: n, born: born})
	}
}

func (s *r5sys) Fingerprint() string {
	fp := s.x.dump()
	if s.lookahead > 1 { // older shadows are not a function of X alone
		for _, sh := range s.shadows {
			if sh.age > 0 {
				fp += "|sh:" + sh.o.dump()
			}
		}
	}
	return fp
}

func (s *r5sys) Check() []explore.Viol { return s.viols }

func newR5(x robj, site string, lookahead int) *r5sys {
	s := &r5sys{x: x, lookahead: lookahead, site: site}
	s.addShadow("init", x.queries())
	return s
}

var r5subs = []string{"a", "b", "c"}

func errOr(err error, ok string) string {
	if err != nil {
		return "err"
	}
	return ok
}

// ----- IPAllocator -----------------------------------------------------------

type ipObj struct {
	a    *allocator.IPAllocator
	base string
	plen int
	pfx  []*net.IPNet // universe of prefixes (plus one outside the pool)
	// reapplied: some SetAllocation(s, p) was called while Lookup(s) already returned p
	reapplied bool
}

func (o *ipObj) note() string {
	if o.reapplied {
		return "reapplied-SetAllocation"
	}
	return ""
}

func newIPObj(base string, plen int) *ipObj {
	a, err := allocator.NewIPAllocator(base, plen)
	if err != nil {
		panic(err)
	}
	o := &ipObj{a: a, base: base, plen: plen}
	o.fill()
	return o
}

func (o *ipObj) fill() {
	_, total, _ := o.a.Stats()
	bn := o.a.BaseNetwork()
	bits := 32
	if o.a.IsIPv6() {
		bits = 128
	}
	step := uint(bits - o.plen)
	for i := uint64(0); i <= total; i++ { // index == total is just beyond the pool
		ip := append(net.IP(nil), bn.IP...)
		// add i << step to ip (small values only)
		add := i << step
		for b := len(ip) - 1; b >= 0 && add > 0; b-- {
			sum := uint64(ip[b]) + (add & 0xff)
			ip[b] = byte(sum)
			add = (add >> 8) + (sum >> 8)
		}
		o.pfx = append(o.pfx, &net.IPNet{IP: ip, Mask: net.CIDRMask(o.plen, bits)})
	}
}

func (o *ipObj) ops() []string {
	var ops []string
	for _, s := range r5subs {
		ops = append(ops, "Allocate("+s+")", "Release("+s+")")
		for i := 0; i < len(o.pfx)-1 && i < 3; i++ {
			ops = append(ops, fmt.Sprintf("AllocateSpecific(%s,%d)", s, i), fmt.Sprintf("SetAllocation(%s,%d)", s, i))
		}
	}
	for i := 0; i < len(o.pfx)-1 && i < 3; i++ {
		ops = append(ops, fmt.Sprintf("ReleasePrefix(%d)", i))
	}
	return ops
}

func (o *ipObj) apply(op string) string {
	name, a1, a2, _ := parseOp(op)
	var idx int
	switch name {
	case "Allocate":
		p, err := o.a.Allocate(a1)
		if err != nil {
			return "err"
		}
		return p.String()
	case "Release":
		return errOr(o.a.Release(a1), "ok")
	case "AllocateSpecific":
		fmt.Sscan(a2, &idx)
		return errOr(o.a.AllocateSpecific(a1, o.pfx[idx]), "ok")
	case "SetAllocation":
		fmt.Sscan(a2, &idx)
		if cur := o.a.Lookup(a1); cur != nil && cur.String() == o.pfx[idx].String() {
			o.reapplied = true
		}
		return errOr(o.a.SetAllocation(a1, o.pfx[idx]), "ok")
	case "ReleasePrefix":
		fmt.Sscan(a1, &idx)
		return errOr(o.a.ReleasePrefix(o.pfx[idx]), "ok")
	}
	panic("unknown op " + op)
}

func (o *ipObj) queries() []string {
	var q []string
	for _, s := range r5subs {
		p := o.a.Lookup(s)
		if p == nil {
			q = append(q, "Lookup("+s+")=nil")
		} else {
			q = append(q, "Lookup("+s+")="+p.String())
		}
	}
	for _, p := range o.pfx {
		q = append(q, fmt.Sprintf("LookupByPrefix(%s)=%q", p, o.a.LookupByPrefix(p)),
			fmt.Sprintf("IsAllocated(%s)=%v", p, o.a.IsAllocated(p)),
			fmt.Sprintf("Contains(%s)=%v", p, o.a.Contains(p)))
	}
	al, tot, ut := o.a.Stats()
	q = append(q, fmt.Sprintf("Stats=%d/%d/%g", al, tot, ut))
	var la []string
	for _, x := range o.a.ListAllocations() {
		la = append(la, fmt.Sprintf("%s:%s:%d", x.SubscriberID, x.Prefix, x.Index))
	}
	sort.Strings(la)
	q = append(q, "ListAllocations="+strings.Join(la, ","),
		"BaseNetwork="+o.a.BaseNetwork().String(),
		fmt.Sprintf("PrefixLength=%d IsIPv6=%v", o.a.PrefixLength(), o.a.IsIPv6()))
	return q
}

func (o *ipObj) roundTrip() (robj, error) {
	b, err := json.Marshal(o.a)
	if err != nil {
		return nil, err
	}
	n := &allocator.IPAllocator{}
	if err := json.Unmarshal(b, n); err != nil {
		return nil, err
	}
	return &ipObj{a: n, base: o.base, plen: o.plen, pfx: o.pfx, reapplied: o.reapplied}, nil
}

func (o *ipObj) dump() string { return deepdump.Dump(o.a, deepdump.Options{}) }

// ----- EpochBitmapAllocator --------------------------------------------------

type epObj struct {
	a   *allocator.EpochBitmapAllocator
	ips []net.IP
}

func newEpObj(base string, plen int, grace uint64) *epObj {
	a, err := allocator.NewEpochBitmapAllocator(allocator.EpochBitmapConfig{BaseNetwork: base, PrefixLength: plen, GracePeriod: grace})
	if err != nil {
		panic(err)
	}
	o := &epObj{a: a}
	_, n, _ := net.ParseCIDR(base)
	ones, _ := n.Mask.Size()
	total := 1 << (plen - ones)
	for i := 0; i <= total; i++ {
		ip := append(net.IP(nil), n.IP.To4()...)
		ip[3] += byte(i)
		o.ips = append(o.ips, ip)
	}
	return o
}

func (o *epObj) note() string { return "" }

func (o *epObj) ops() []string {
	ops := []string{"AdvanceEpoch"}
	for _, s := range r5subs {
		ops = append(ops, "Allocate("+s+")", "Renew("+s+")", "Release("+s+")")
	}
	return ops
}

func (o *epObj) apply(op string) string {
	name, a1, _, _ := parseOp(op)
	ctx := context.Background()
	switch name {
	case "AdvanceEpoch":
		return fmt.Sprint(o.a.AdvanceEpoch())
	case "Allocate":
		ip, err := o.a.Allocate(ctx, a1)
		if err != nil {
			return "err"
		}
		return ip.String()
	case "Renew":
		return errOr(o.a.Renew(ctx, a1), "ok")
	case "Release":
		return errOr(o.a.Release(ctx, a1), "ok")
	}
	panic("unknown op " + op)
}

func (o *epObj) queries() []string {
	var q []string
	for _, s := range r5subs {
		q = append(q, fmt.Sprintf("Lookup(%s)=%v", s, o.a.Lookup(s)))
	}
	for _, ip := range o.ips {
		q = append(q, fmt.Sprintf("LookupByIP(%s)=%q", ip, o.a.LookupByIP(ip)))
	}
	al, tot, ut := o.a.Stats()
	q = append(q, fmt.Sprintf("Stats=%d/%d/%g", al, tot, ut), fmt.Sprintf("GetCurrentEpoch=%d", o.a.GetCurrentEpoch()))
	return q
}

func (o *epObj) roundTrip() (robj, error) {
	b, err := json.Marshal(o.a)
	if err != nil {
		return nil, err
	}
	n := &allocator.EpochBitmapAllocator{}
	if err := json.Unmarshal(b, n); err != nil {
		return nil, err
	}
	return &epObj{a: n, ips: o.ips}, nil
}

func (o *epObj) dump() string { return deepdump.Dump(o.a, deepdump.Options{}) }

// ----- MemoryAllocationStore -------------------------------------------------

type msObj struct {
	s *allocator.MemoryAllocationStore
	// moved: some (pool, subscriber) was saved again with a different address
	moved bool
}

func (o *msObj) note() string {
	if o.moved {
		return "resaved-with-new-address"
	}
	return ""
}

var (
	msPools = []string{"p1", "p2"}
	msSubs  = []string{"a", "b"}
	msIPs   = []string{"10.0.0.1", "10.0.0.2", "2001:db8::1"}
	msT0    = time.Date(2026, 1, 2, 3, 4, 5, 0, time.UTC)
)

func msPrefix(ip string) *net.IPNet {
	p := net.ParseIP(ip)
	if p4 := p.To4(); p4 != nil {
		return &net.IPNet{IP: p4, Mask: net.CIDRMask(32, 32)}
	}
	return &net.IPNet{IP: p, Mask: net.CIDRMask(128, 128)}
}

func (o *msObj) ops() []string {
	var ops []string
	for _, p := range msPools {
		for _, s := range msSubs {
			for i := range msIPs {
				ops = append(ops, fmt.Sprintf("Save(%s,%s,%d)", p, s, i))
			}
			ops = append(ops, fmt.Sprintf("Remove(%s,%s)", p, s))
		}
	}
	ops = append(ops, "SetPoolTotal(p1,4)")
	return ops
}

func (o *msObj) apply(op string) string {
	name, a1, rest, _ := parseOp(op)
	ctx := context.Background()
	switch name {
	case "Save":
		// parseOp only splits two arguments; the third is the ip index
		parts := strings.Split(strings.TrimSuffix(op[strings.Index(op, "(")+1:], ")"), ",")
		var i int
		fmt.Sscan(parts[2], &i)
		exp := msT0.Add(time.Hour)
		rec := allocator.AllocationRecord{SubscriberID: parts[1], PoolID: parts[0], Prefix: msPrefix(msIPs[i]),
			MAC: "02:00:00:00:00:0" + fmt.Sprint(i+1), AllocatedAt: msT0, ExpiresAt: &exp,
			Metadata: map[string]string{"k": parts[1]}}
		if strings.Contains(msIPs[i], ":") {
			rec.PoolType, rec.DUID, rec.IAID = allocator.PoolTypeIPv6Address, "00:01", 7
		} else {
			rec.PoolType = allocator.PoolTypeIPv4Address
		}
		if old, _ := o.s.GetByPool(ctx, parts[0]); true {
			for _, r := range old {
				if r.SubscriberID == parts[1] && r.Prefix.String() != rec.Prefix.String() {
					o.moved = true
				}
			}
		}
		return errOr(o.s.SaveAllocation(ctx, rec), "ok")
	case "Remove":
		return errOr(o.s.RemoveAllocation(ctx, a1, rest), "ok")
	case "SetPoolTotal":
		o.s.SetPoolTotal("p1", 4)
		return "ok"
	}
	panic("unknown op " + op)
}

func recStr(r allocator.AllocationRecord) string {
	exp := "nil"
	if r.ExpiresAt != nil {
		exp = r.ExpiresAt.UTC().Format(time.RFC3339Nano)
	}
	var md []string
	for k, v := range r.Metadata {
		md = append(md, k+"="+v)
	}
	sort.Strings(md)
	return fmt.Sprintf("{%s %s %s %s %s %s %d %s %s %v}", r.SubscriberID, r.PoolID, r.PoolType, r.Prefix, r.MAC, r.DUID, r.IAID,
		r.AllocatedAt.UTC().Format(time.RFC3339Nano), exp, md)
}

func recsStr(rs []allocator.AllocationRecord) string {
	var out []string
	for _, r := range rs {
		out = append(out, recStr(r))
	}
	sort.Strings(out)
	return strings.Join(out, ",")
}

func (o *msObj) queries() []string {
	ctx := context.Background()
	var q []string
	for _, s := range msSubs {
		rs, _ := o.s.GetBySubscriber(ctx, s)
		q = append(q, "GetBySubscriber("+s+")="+recsStr(rs))
	}
	for _, p := range msPools {
		rs, _ := o.s.GetByPool(ctx, p)
		q = append(q, "GetByPool("+p+")="+recsStr(rs))
		al, tot, _ := o.s.GetPoolUtilization(ctx, p)
		q = append(q, fmt.Sprintf("GetPoolUtilization(%s)=%d/%d", p, al, tot))
	}
	for _, t := range []allocator.PoolType{allocator.PoolTypeIPv4Address, allocator.PoolTypeIPv6Address, allocator.PoolTypeIPv6Prefix} {
		rs, _ := o.s.GetByPoolType(ctx, t)
		q = append(q, "GetByPoolType("+string(t)+")="+recsStr(rs))
	}
	for _, ip := range append(append([]string{}, msIPs...), "10.0.0.9") {
		r, err := o.s.GetByIP(ctx, net.ParseIP(ip))
		if err != nil || r == nil {
			q = append(q, "GetByIP("+ip+")=none")
		} else {
			q = append(q, "GetByIP("+ip+")="+recStr(*r))
		}
	}
	pools, _ := o.s.ListPools(ctx)
	sort.Strings(pools)
	q = append(q, fmt.Sprintf("ListPools=%v Count=%d", pools, o.s.Count()))
	return q
}

func (o *msObj) roundTrip() (robj, error) {
	b, err := json.Marshal(o.s)
	if err != nil {
		return nil, err
	}
	n := allocator.NewMemoryAllocationStore()
	if err := json.Unmarshal(b, n); err != nil {
		return nil, err
	}
	return &msObj{s: n, moved: o.moved}, nil
}

func (o *msObj) dump() string { return deepdump.Dump(o.s, deepdump.Options{IgnoreTimes: true}) }

// ----- models ----------------------------------------------------------------

func r5Models(thorough bool) []*explore.Model {
	depth, look := 4, 1
	if thorough {
		depth, look = 6, 2
	}
	mk := func(name, cfg, site string, d int, newObj func() robj) *explore.Model {
		return &explore.Model{Name: name, Config: fmt.Sprintf("%s lookahead=%d", cfg, look),
			New:   func() explore.System { return newR5(newObj(), site, look) },
			Depth: d, Classify: classify, Budget: 5 * time.Minute}
	}
	return []*explore.Model{
		mk("r5-ipalloc", "10.0.0.0/30 /32", "IPAllocator.MarshalJSON/UnmarshalJSON", depth, func() robj { return newIPObj("10.0.0.0/30", 32) }),
		mk("r5-ipalloc", "2001:db8::/62 /64", "IPAllocator.MarshalJSON/UnmarshalJSON", depth-1, func() robj { return newIPObj("2001:db8::/62", 64) }),
		mk("r5-epoch", "10.0.0.0/29 /32 grace=1", "EpochBitmapAllocator.MarshalJSON/UnmarshalJSON", depth+1, func() robj { return newEpObj("10.0.0.0/29", 32, 1) }),
		mk("r5-epoch", "10.0.0.0/28 /30 grace=1", "EpochBitmapAllocator.MarshalJSON/UnmarshalJSON", depth-1, func() robj { return newEpObj("10.0.0.0/28", 30, 1) }),
		mk("r5-memstore", "2 pools x 2 subscribers x 3 addresses", "MemoryAllocationStore.MarshalJSON/UnmarshalJSON", depth-1, func() robj { return &msObj{s: allocator.NewMemoryAllocationStore()} }),
	}
}
