package c12

import (
	"context"
	"fmt"
	"net"
	"sort"
	"time"

	"github.com/codelaboratoryltd/bng/pkg/allocator"

	"verif/deepdump"
	"verif/explore"
)

// ---------------------------------------------------------------------------
// Part "pool": several allocator.PoolAllocator (bitmap + persisted record) sharing ONE
// AllocationStore, the store wrapped so that the next SaveAllocation / RemoveAllocation
// can fail. Subscribers may hold prefixes in several pools at once.
// Oracle after every operation, for every (pool, subscriber):
//   R3  the pool's bitmap (Lookup) and the store's record of THAT pool agree, in
//       particular after a failed store write;
//   R2  no prefix is held by two subscribers of a pool; the store's by-IP answer is the holder;
//   ST  Allocate for a holder returns the held prefix; frame: nobody else's mapping changes.
// ---------------------------------------------------------------------------

type faultyAllocStore struct {
	*allocator.MemoryAllocationStore
	failSave, failRemove bool
	fired                string
}

var errStoreWrite = fmt.Errorf("injected allocation-store failure")

func (f *faultyAllocStore) SaveAllocation(ctx context.Context, a allocator.AllocationRecord) error {
	if f.failSave {
		f.failSave, f.fired = false, "save"
		return errStoreWrite
	}
	return f.MemoryAllocationStore.SaveAllocation(ctx, a)
}

func (f *faultyAllocStore) RemoveAllocation(ctx context.Context, poolID, sub string) error {
	if f.failRemove {
		f.failRemove, f.fired = false, "remove"
		return errStoreWrite
	}
	return f.MemoryAllocationStore.RemoveAllocation(ctx, poolID, sub)
}

type poolSys struct {
	st        *faultyAllocStore
	pools     []*allocator.PoolAllocator
	ids       []string
	subs      []string
	faults    int
	maxFaults int
	viols     []explore.Viol
}

func newPoolSys(maxFaults int) *poolSys {
	s := &poolSys{st: &faultyAllocStore{MemoryAllocationStore: allocator.NewMemoryAllocationStore()}, subs: subIDs[:2], maxFaults: maxFaults}
	for i, base := range []string{"10.1.0.0/31", "10.2.0.0/31"} {
		id := fmt.Sprintf("pool%d", i+1)
		p, err := allocator.NewPoolAllocator(id, base, 32, s.st)
		if err != nil {
			panic(err)
		}
		s.pools, s.ids = append(s.pools, p), append(s.ids, id)
	}
	return s
}

func (s *poolSys) v(kind, site, f string, a ...any) {
	s.viols = append(s.viols, explore.Viol{Kind: kind, Site: site, Detail: fmt.Sprintf(f, a...)})
}

func (s *poolSys) Ops() []string {
	var ops []string
	for pi := range s.pools {
		for _, sub := range s.subs {
			ops = append(ops, fmt.Sprintf("Allocate(%d,%s)", pi, sub), fmt.Sprintf("Release(%d,%s)", pi, sub))
		}
	}
	if s.faults < s.maxFaults && !s.st.failSave && !s.st.failRemove {
		ops = append(ops, "FailNext(save)", "FailNext(remove)")
	}
	return ops
}

func (s *poolSys) mem(pi int, sub string) string {
	if p := s.pools[pi].Lookup(sub); p != nil {
		return p.String()
	}
	return ""
}

func (s *poolSys) rec(pi int, sub string) string {
	rs, _ := s.st.GetByPool(context.Background(), s.ids[pi])
	for _, r := range rs {
		if r.SubscriberID == sub {
			return r.Prefix.String()
		}
	}
	return ""
}

func (s *poolSys) snapshot() map[string]string {
	m := map[string]string{}
	for pi := range s.pools {
		for _, sub := range s.subs {
			m[fmt.Sprintf("%d/%s", pi, sub)] = s.mem(pi, sub)
		}
	}
	return m
}

func (s *poolSys) Apply(op string) string {
	name, a1, a2, _ := parseOp(op)
	if name == "FailNext" {
		s.faults++
		if a1 == "save" {
			s.st.failSave = true
		} else {
			s.st.failRemove = true
		}
		return "armed"
	}
	var pi int
	fmt.Sscan(a1, &pi)
	sub := a2
	before := s.snapshot()
	s.st.fired = ""
	ctx := context.Background()
	obs := ""
	switch name {
	case "Allocate":
		p, err := s.pools[pi].Allocate(ctx, sub, "02:00:00:00:00:01")
		if err != nil {
			obs = "err"
			if s.st.fired == "" && before[fmt.Sprintf("%d/%s", pi, sub)] != "" {
				s.v("stability", name, "%s: the subscriber holds %s in that pool but Allocate failed: %v", op, before[fmt.Sprintf("%d/%s", pi, sub)], err)
			}
		} else {
			obs = p.String()
			if b := before[fmt.Sprintf("%d/%s", pi, sub)]; b != "" && b != obs {
				s.v("stability", name, "%s: held %s, Allocate returned %s", op, b, obs)
			}
		}
	case "Release":
		obs = errStr(s.pools[pi].Release(ctx, sub))
	default:
		panic("unknown op " + op)
	}
	for k, b := range before {
		if k != fmt.Sprintf("%d/%s", pi, sub) {
			var qi int
			var qs string
			fmt.Sscanf(k, "%d/", &qi)
			qs = k[len(fmt.Sprint(qi))+1:]
			if g := s.mem(qi, qs); g != b {
				s.v("frame", name, "%s changed the mapping of %s in pool %d: %q -> %q", op, qs, qi, b, g)
			}
		}
	}
	if s.st.fired != "" {
		obs += " fault:" + s.st.fired
	}
	return obs
}

func (s *poolSys) Fingerprint() string {
	return deepdump.Dump(s.pools, deepdump.Options{IgnoreTimes: true, SkipTypes: map[string]bool{"c12.faultyAllocStore": true}}) +
		deepdump.Dump(s.st.MemoryAllocationStore, deepdump.Options{IgnoreTimes: true}) + fmt.Sprint(s.st.failSave, s.st.failRemove, s.faults)
}

func (s *poolSys) Check() []explore.Viol {
	ctx := context.Background()
	for pi := range s.pools {
		holder := map[string]string{}
		for _, sub := range s.subs {
			m, r := s.mem(pi, sub), s.rec(pi, sub)
			if m != r {
				s.v("R3-agreement", "PoolAllocator", "pool %s: the bitmap maps %s to %q but the store's record for that pool says %q", s.ids[pi], sub, m, r)
			}
			if m == "" {
				continue
			}
			if o, dup := holder[m]; dup {
				s.v("R2-unique", "PoolAllocator", "pool %s: %s is held by both %s and %s", s.ids[pi], m, o, sub)
			}
			holder[m] = sub
			_, n, _ := net.ParseCIDR(m)
			if g, err := s.st.GetByIP(ctx, n.IP); err != nil || g == nil || g.SubscriberID != sub || g.PoolID != s.ids[pi] {
				s.v("R2-reverse", "GetByIP", "pool %s: %s holds %s but the store's by-IP answer is %v (%v)", s.ids[pi], sub, m, g, err)
			}
		}
	}
	// every record in the store belongs to a bitmap entry of its pool (nothing persisted that memory forgot)
	for pi := range s.pools {
		rs, _ := s.st.GetByPool(ctx, s.ids[pi])
		sort.Slice(rs, func(i, j int) bool { return rs[i].SubscriberID < rs[j].SubscriberID })
		for _, r := range rs {
			if s.mem(pi, r.SubscriberID) != r.Prefix.String() {
				s.v("R3-agreement", "PoolAllocator", "pool %s: the store records %s=%s but the bitmap says %q", s.ids[pi], r.SubscriberID, r.Prefix, s.mem(pi, r.SubscriberID))
			}
		}
	}
	return s.viols
}

func poolModels(thorough bool) []*explore.Model {
	depth, faults := 5, 1
	if thorough {
		depth, faults = 7, 2
	}
	return []*explore.Model{{Name: "pool", Config: fmt.Sprintf("2 PoolAllocators x 2 subscribers, one store, faults<=%d", faults),
		New: func() explore.System { return newPoolSys(faults) }, Depth: depth, Classify: classify, Budget: 5 * time.Minute}}
}
