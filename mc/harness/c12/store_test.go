package c12

import (
	"context"
	"encoding/json"
	"errors"
	"fmt"
	"sort"
	"strings"
	"sync"

	"github.com/codelaboratoryltd/bng/pkg/allocator"

	"verif/sched"
)

// fstore is the harness's fake ordered allocator.Store:
//   - content is a plain map; Query returns the matching records in sorted key
//     order permuted by the harness-chosen permutation index perm;
//   - every call is appended to an operation log;
//   - failNext[kind] makes the next call of that kind fail without effect;
//   - arm(k) models a crash: exactly k further calls take effect, every later
//     call is refused and changes nothing (the process is gone; its memory is
//     abandoned by the harness), so the surviving content is exactly the
//     content after the k-th store operation;
//   - Watch callbacks are recorded so the harness can deliver remote changes.
type fstore struct {
	mu        sync.Mutex
	data      map[string][]byte
	perm      int
	failNext  map[string]bool
	fired     string // kind of the injected failure consumed during the current op ("" none)
	calls     int
	crashAt   int // -1: not armed
	dead      bool
	callbacks []func(key string, value []byte, deleted bool)
	log       []string
	// failPutSeq: fail the n-th Put that reaches the store (1-based, 0 = none); used by the
	// Engine B scenarios where "the next Put" would depend on the schedule.
	failPutSeq int
	putSeq     int
}

// pt makes every store operation a scheduling point of Engine B (entry and return), so a
// thread can be preempted "inside store.Put". It is a no-op outside a controlled execution.
// It must be called WITHOUT f.mu held (only one logical thread runs at a time).
func pt(label string) {
	if x := sched.Active(); x != nil && !x.Aborted() {
		x.Point(label)
	}
}

var (
	errInjected = errors.New("injected store failure")
	errDead     = errors.New("store gone (node crashed)")
	errNoKey    = errors.New("key not found")
)

func newFstore(data map[string][]byte, perm int) *fstore {
	d := map[string][]byte{}
	for k, v := range data {
		d[k] = append([]byte(nil), v...)
	}
	return &fstore{data: d, perm: perm, failNext: map[string]bool{}, crashAt: -1}
}

func (f *fstore) arm(k int) {
	f.mu.Lock()
	f.calls, f.crashAt = 0, k
	f.mu.Unlock()
}

// enter is called with mu held at the start of every store call.
func (f *fstore) enter(kind, key string) error {
	if f.dead {
		return errDead
	}
	if f.crashAt >= 0 && f.calls >= f.crashAt {
		f.dead = true
		f.log = append(f.log, "CRASH before "+kind+" "+key)
		return errDead
	}
	f.calls++
	if f.failNext[kind] {
		delete(f.failNext, kind)
		f.fired = kind
		f.log = append(f.log, kind+" "+key+" => FAIL")
		return errInjected
	}
	f.log = append(f.log, kind+" "+key)
	return nil
}

func (f *fstore) Get(ctx context.Context, key string) ([]byte, error) {
	pt("store.Get")
	r, err := f.get(ctx, key)
	pt("store.Get/return")
	return r, err
}

func (f *fstore) get(ctx context.Context, key string) ([]byte, error) {
	f.mu.Lock()
	defer f.mu.Unlock()
	if err := f.enter("get", key); err != nil {
		return nil, err
	}
	v, ok := f.data[key]
	if !ok {
		return nil, errNoKey
	}
	return append([]byte(nil), v...), nil
}

func (f *fstore) Put(ctx context.Context, key string, value []byte) error {
	pt("store.Put")
	err := f.put(ctx, key, value)
	pt("store.Put/return")
	return err
}

func (f *fstore) put(ctx context.Context, key string, value []byte) error {
	f.mu.Lock()
	defer f.mu.Unlock()
	if err := f.enter("put", key); err != nil {
		return err
	}
	f.putSeq++
	if f.failPutSeq > 0 && f.putSeq == f.failPutSeq {
		f.fired = "put"
		f.log = append(f.log, "put "+key+" => FAIL (put #"+fmt.Sprint(f.putSeq)+")")
		return errInjected
	}
	f.data[key] = append([]byte(nil), value...)
	return nil
}

func (f *fstore) Delete(ctx context.Context, key string) error {
	pt("store.Delete")
	err := f.del(ctx, key)
	pt("store.Delete/return")
	return err
}

func (f *fstore) del(ctx context.Context, key string) error {
	f.mu.Lock()
	defer f.mu.Unlock()
	if err := f.enter("delete", key); err != nil {
		return err
	}
	delete(f.data, key)
	return nil
}

func (f *fstore) Query(ctx context.Context, prefix string) ([]allocator.KeyValue, error) {
	pt("store.Query")
	r, err := f.query(ctx, prefix)
	pt("store.Query/return")
	return r, err
}

func (f *fstore) query(ctx context.Context, prefix string) ([]allocator.KeyValue, error) {
	f.mu.Lock()
	defer f.mu.Unlock()
	if err := f.enter("query", prefix); err != nil {
		return nil, err
	}
	var keys []string
	for k := range f.data {
		if strings.HasPrefix(k, prefix) {
			keys = append(keys, k)
		}
	}
	sort.Strings(keys)
	keys = permute(keys, f.perm)
	out := make([]allocator.KeyValue, 0, len(keys))
	for _, k := range keys {
		out = append(out, allocator.KeyValue{Key: k, Value: append([]byte(nil), f.data[k]...)})
	}
	return out, nil
}

func (f *fstore) Watch(prefix string, cb func(key string, value []byte, deleted bool)) {
	f.mu.Lock()
	defer f.mu.Unlock()
	f.callbacks = append(f.callbacks, cb)
}

// remote applies a change made by ANOTHER node: the replicated content changes
// and the local node's watch callbacks are told (synchronously, harness thread).
func (f *fstore) remote(key string, value []byte, deleted bool) {
	f.mu.Lock()
	if deleted {
		delete(f.data, key)
	} else {
		f.data[key] = append([]byte(nil), value...)
	}
	cbs := append([]func(string, []byte, bool){}, f.callbacks...)
	f.log = append(f.log, fmt.Sprintf("REMOTE %s deleted=%v", key, deleted))
	f.mu.Unlock()
	for _, cb := range cbs {
		cb(key, append([]byte(nil), value...), deleted)
	}
}

func (f *fstore) snapshot() map[string][]byte {
	f.mu.Lock()
	defer f.mu.Unlock()
	d := map[string][]byte{}
	for k, v := range f.data {
		d[k] = append([]byte(nil), v...)
	}
	return d
}

func (f *fstore) isDead() bool { f.mu.Lock(); defer f.mu.Unlock(); return f.dead }
func (f *fstore) takeFired() string {
	f.mu.Lock()
	defer f.mu.Unlock()
	x := f.fired
	f.fired = ""
	return x
}
func (f *fstore) nRecords() int { f.mu.Lock(); defer f.mu.Unlock(); return len(f.data) }

// record returns the (prefix, epoch) stored for key, ok=false if absent/unparsable.
func (f *fstore) record(key string) (prefix string, epoch uint64, ok bool) {
	f.mu.Lock()
	v, present := f.data[key]
	f.mu.Unlock()
	if !present {
		return "", 0, false
	}
	var a allocator.DistributedAllocation
	if json.Unmarshal(v, &a) != nil {
		return "", 0, false
	}
	return a.Prefix, a.Epoch, true
}

// canon renders the content without timestamps (fingerprint).
func (f *fstore) canon() string {
	f.mu.Lock()
	defer f.mu.Unlock()
	var keys []string
	for k := range f.data {
		keys = append(keys, k)
	}
	sort.Strings(keys)
	var sb strings.Builder
	for _, k := range keys {
		var a allocator.DistributedAllocation
		_ = json.Unmarshal(f.data[k], &a)
		fmt.Fprintf(&sb, "%s=%s@%d/%s;", k, a.Prefix, a.Epoch, a.SubscriberID)
	}
	fl := make([]string, 0, len(f.failNext))
	for k := range f.failNext {
		fl = append(fl, k)
	}
	sort.Strings(fl)
	fmt.Fprintf(&sb, "|fail=%v|perm=%d|dead=%v", fl, f.perm, f.dead)
	return sb.String()
}

// permute returns the p-th permutation (factorial number system) of xs.
func permute(xs []string, p int) []string {
	if p < 0 { // reversed order
		out := make([]string, len(xs))
		for i, x := range xs {
			out[len(xs)-1-i] = x
		}
		return out
	}
	rest := append([]string(nil), xs...)
	out := make([]string, 0, len(xs))
	n := len(rest)
	fact := 1
	for i := 2; i <= n; i++ {
		fact *= i
	}
	if fact > 0 {
		p %= fact
	}
	for i := n; i >= 1; i-- {
		fact /= i
		j := 0
		if fact > 0 {
			j = p / fact
			p %= fact
		}
		out = append(out, rest[j])
		rest = append(rest[:j], rest[j+1:]...)
	}
	return out
}

func factorial(n int) int {
	f := 1
	for i := 2; i <= n; i++ {
		f *= i
	}
	return f
}
