package c12

import (
	"context"
	"fmt"
	"net"
	"sort"
	"strings"
	"sync"
	"time"

	"github.com/codelaboratoryltd/bng/pkg/allocator"

	"verif/report"
	"verif/sched"
)

// ---------------------------------------------------------------------------
// Engine B part "sched:*": 2-3 logical threads on colliding subscribers against the
// fake store. pkg/allocator is compiled from the AST-rewritten copy (REWRITE
// allocator:sync,go): every mutex operation is a scheduling point, and so is the
// entry and the return of every fake-store call (store_test.go pt()), so a thread
// can be preempted "inside store.Put". All schedules with <= bound preemptions.
//
// Thread ops: A<s> Allocate, M<s> AllocateWithMAC, R<s> Release, N<s> Renew.
// Oracle at the end of every schedule (the node is quiescent):
//   R3 memory and store agree on every subscriber (no remote writer in these scenarios)
//   R2 no address held by / recorded for two subscribers; Get <-> GetByPrefix agree
//   ST a subscriber whose Allocate succeeded and that nobody released holds that address
//   R1 a node restarted from the surviving store maps every recorded subscriber to the
//      recorded address, for EVERY order of the Query result (session mode)
// ---------------------------------------------------------------------------

type sscen struct {
	name       string
	mode       allocator.PoolMode
	base       string
	pre        []string
	threads    [][]string
	failPutSeq int // fail the n-th Put that reaches the store during the concurrent phase
}

func sscenarios(thorough bool) []sscen {
	ses, lea := allocator.PoolModeSession, allocator.PoolModeLease
	s := []sscen{
		{"A1|R1", ses, "10.0.0.0/30", nil, [][]string{{"A1"}, {"R1"}}, 0},
		{"A1|R1 holder", ses, "10.0.0.0/30", []string{"A1"}, [][]string{{"A1"}, {"R1"}}, 0},
		{"M1|R1", ses, "10.0.0.0/30", nil, [][]string{{"M1"}, {"R1"}}, 0},
		{"A1|A1 put#1 fails", ses, "10.0.0.0/30", nil, [][]string{{"A1"}, {"A1"}}, 1},
		{"A1|A1 put#2 fails", ses, "10.0.0.0/30", nil, [][]string{{"A1"}, {"A1"}}, 2},
		{"A1|R1|A2 one unit left", ses, "10.0.0.0/31", []string{"A3"}, [][]string{{"A1"}, {"R1"}, {"A2"}}, 0},
		{"A1|A2 one unit left", ses, "10.0.0.0/31", []string{"A3"}, [][]string{{"A1"}, {"A2"}}, 0},
		{"A1|A2 mode unset", allocator.PoolMode(""), "10.0.0.0/30", []string{"A3"}, [][]string{{"A1"}, {"A2"}}, 0},
		{"A1|R1 lease", lea, "10.0.0.0/29", nil, [][]string{{"A1"}, {"R1"}}, 0},
	}
	if thorough {
		s = append(s,
			sscen{"A1,R1|A1", ses, "10.0.0.0/30", nil, [][]string{{"A1", "R1"}, {"A1"}}, 0},
			sscen{"R1|R1", ses, "10.0.0.0/30", []string{"A1"}, [][]string{{"R1"}, {"R1"}}, 0},
			sscen{"A1|R1,A2", ses, "10.0.0.0/31", []string{"A3"}, [][]string{{"A1"}, {"R1", "A2"}}, 0},
			sscen{"A1|A1|R1 put#2 fails", ses, "10.0.0.0/30", nil, [][]string{{"A1"}, {"A1"}, {"R1"}}, 2},
			sscen{"A1|N1|R1 lease", lea, "10.0.0.0/29", []string{"A1"}, [][]string{{"A1"}, {"N1"}, {"R1"}}, 0},
			sscen{"A1|A1 put#2 fails lease", lea, "10.0.0.0/29", nil, [][]string{{"A1"}, {"A1"}}, 2},
		)
	}
	return s
}

type scall struct {
	th       int
	op, sub  string
	res      string
	finished bool
}

type sstate struct {
	sc    sscen
	st    *fstore
	da    *allocator.DistributedAllocator
	calls []*scall
	bk    sync.Mutex // harness bookkeeping (free-running -race pass)
}

// ssub maps the digit of a thread op to the structured subscriber id (see subIDs in dist_test.go).
func ssub(op string) string { return subIDs[int(op[1]-'1')] }

func sdo(st *sstate, op string) string {
	sub := ssub(op)
	ctx := context.Background()
	switch op[0] {
	case 'A', 'M':
		var p *net.IPNet
		var err error
		if op[0] == 'M' {
			p, err = st.da.AllocateWithMAC(ctx, sub, net.HardwareAddr{2, 0, 0, 0, 0, 1})
		} else {
			p, err = st.da.Allocate(ctx, sub)
		}
		if err != nil {
			return "err"
		}
		return p.String()
	case 'R':
		return errStr(st.da.Release(ctx, sub))
	case 'N':
		return errStr(st.da.Renew(ctx, sub))
	}
	panic("unknown op " + op)
}

func (sc sscen) scenario() *sched.Scenario {
	return &sched.Scenario{
		Name: sc.name,
		Setup: func(x *sched.Exec) {
			st := &sstate{sc: sc, st: newFstore(nil, 0)}
			da, err := allocator.NewDistributedAllocator(allocator.DistributedConfig{PoolID: poolID, BaseNetwork: sc.base, PrefixLen: 32, Mode: sc.mode, EpochPeriod: time.Hour}, st.st)
			if err != nil {
				panic(err)
			}
			st.da = da
			if sc.mode != allocator.PoolModeLease {
				// session mode Start = load + watch, no goroutine. Lease mode is driven without Start:
				// its epoch loop waits on a real ticker, which is not a scheduling point.
				if err := da.Start(context.Background()); err != nil {
					panic(err)
				}
			}
			x.Data = st
			for _, op := range sc.pre { // sequential prefix: before any thread exists
				sdo(st, op)
			}
			st.st.mu.Lock()
			st.st.putSeq, st.st.failPutSeq = 0, sc.failPutSeq
			st.st.mu.Unlock()
			for ti, ops := range sc.threads {
				ti, ops := ti, ops
				x.Thread(fmt.Sprintf("T%d", ti), func() {
					for _, op := range ops {
						c := &scall{th: ti, op: op, sub: ssub(op)}
						st.bk.Lock()
						st.calls = append(st.calls, c)
						st.bk.Unlock()
						c.res = sdo(st, op)
						c.finished = true
						x.Obs("T%d:%s=%s", ti, op, c.res)
					}
				})
			}
		},
		Check: func(x *sched.Exec) []sched.Viol { return checkSsched(x.Data.(*sstate)) },
	}
}

func checkSsched(st *sstate) []sched.Viol {
	var vs []sched.Viol
	add := func(kind, site, f string, a ...any) {
		vs = append(vs, sched.Viol{Kind: kind, Site: site, Detail: fmt.Sprintf(f, a...)})
	}
	subs := subIDs[:3]
	mem := map[string]string{}
	rec := map[string]string{}
	for _, s := range subs {
		if p, ok := st.da.Get(s); ok && p != nil {
			mem[s] = p.String()
		}
		if p, _, ok := st.st.record(recKey(s)); ok {
			rec[s] = p
		}
	}
	// R3
	for _, s := range subs {
		if mem[s] != rec[s] {
			add("R3-agreement", "concurrent", "at quiescence memory maps %s to %q but the store records %q (memory: %v, store: %v)", s, mem[s], rec[s], mem, rec)
		}
	}
	// R2 (memory and store)
	for _, m := range []struct {
		what string
		v    map[string]string
	}{{"held by", mem}, {"recorded for", rec}} {
		seen := map[string]string{}
		for _, s := range subs {
			if a := m.v[s]; a != "" {
				if o, dup := seen[a]; dup {
					add("R2-unique", "concurrent", "address %s is %s both %s and %s", a, m.what, o, s)
				}
				seen[a] = s
			}
		}
	}
	for _, s := range subs {
		if a := mem[s]; a != "" {
			_, n, _ := net.ParseCIDR(a)
			if r, ok := st.da.GetByPrefix(n); !ok || r != s {
				add("R2-reverse", "GetByPrefix", "%s maps to %s but GetByPrefix(%s) = %q,%v", s, a, a, r, ok)
			}
		}
	}
	// ST: successful Allocate, never the target of a Release in this scenario (prefix included)
	released := map[string]bool{}
	for _, ops := range st.sc.threads {
		for _, op := range ops {
			if op[0] == 'R' {
				released[ssub(op)] = true
			}
		}
	}
	got := map[string][]string{}
	for _, c := range st.calls {
		if (c.op[0] == 'A' || c.op[0] == 'M') && c.finished && c.res != "err" {
			got[c.sub] = append(got[c.sub], c.res)
		}
	}
	for _, s := range subs {
		if released[s] || len(got[s]) == 0 {
			continue
		}
		for _, r := range got[s] {
			if r != got[s][0] {
				add("stability", "Allocate", "concurrent Allocate calls for %s returned different addresses %v", s, got[s])
			}
		}
		if mem[s] != got[s][0] {
			add("stability", "Allocate", "%s was given %s and never released, but the node maps it to %q", s, got[s][0], mem[s])
		}
	}
	if len(vs) > 0 || st.sc.mode == allocator.PoolModeLease {
		return vs
	}
	// R1: restart on the surviving content, every Query order
	keys := make([]string, 0, len(rec))
	for s := range rec {
		keys = append(keys, s)
	}
	sort.Strings(keys)
	for p := 0; p < factorial(len(keys)); p++ {
		ns := newFstore(st.st.snapshot(), p)
		nd, err := allocator.NewDistributedAllocator(allocator.DistributedConfig{PoolID: poolID, BaseNetwork: st.sc.base, PrefixLen: 32, Mode: st.sc.mode}, ns)
		if err != nil {
			panic(err)
		}
		if err := nd.Start(context.Background()); err != nil {
			add("R1-restart", "Start", "restart failed: %v", err)
			continue
		}
		for _, s := range subs {
			g := ""
			if q, ok := nd.Get(s); ok && q != nil {
				g = q.String()
			}
			if g != rec[s] {
				add("R1-restart-address", "loadAllocations", "store records %s=%q but a node restarted with Query order %v maps it to %q", s, rec[s], permute(keys, p), g)
			}
		}
	}
	return vs
}

func (sc sscen) partName() string {
	return "sched:" + sc.name + "[" + string(sc.mode) + " " + sc.base + "]"
}

func runSched(run *report.Run) {
	bound := 2
	if run.Thorough() {
		bound = 3
	}
	for _, sc := range sscenarios(run.Thorough()) {
		name := sc.partName()
		if !run.WantPart(name) {
			continue
		}
		e := &sched.Explorer{Bound: bound, Budget: 4 * time.Minute}
		res := e.Explore(sc.scenario())
		run.AddPart(report.Part{Name: name, Engine: "B:sched-dfs", Bound: fmt.Sprintf("preemptions<=%d completed=%d maxpoints=%d", bound, res.Bound, res.MaxPoints),
			Executions: res.Executions, Outcomes: int64(len(res.Outcomes)), Exhaustive: res.Exhaustive, States: int64(len(res.Outcomes))})
		for _, f := range res.Failures {
			x1 := sched.RunOnce(sc.scenario(), f.Choices)
			x2 := sched.RunOnce(sc.scenario(), f.Choices)
			if strings.Join(x1.Log, "|") != strings.Join(x2.Log, "|") || strings.Join(x1.Log, "|") != strings.Join(f.Log, "|") {
				run.HarnessError("non-deterministic replay of schedule in " + name)
				continue
			}
			for _, v := range f.Viols {
				tr := append([]string{"pre=" + strings.Join(sc.pre, ",")}, f.Schedule...)
				rv := report.Violation{Part: name, Kind: v.Kind, Site: v.Site, Detail: v.Detail + " | observations: " + strings.Join(f.Log, " ") + " | store log: " + strings.Join(x1.Data.(*sstate).st.log, "; "),
					Config: string(sc.mode) + " " + sc.base, Trace: tr, Extra: map[string]any{"choices": f.Choices}}
				classify(&rv)
				run.Violation(rv)
			}
		}
		if len(res.Failures) == 0 {
			var o []string
			for k := range res.Outcomes {
				o = append(o, k)
			}
			sort.Strings(o)
			run.Sample(map[string]any{"part": name, "executions": res.Executions, "outcomes": o})
		}
	}
}

func replaySched(run *report.Run, v report.Violation) int {
	for _, sc := range sscenarios(true) {
		if sc.partName() != v.Part {
			continue
		}
		var choices []int
		if cs, ok := v.Extra["choices"].([]any); ok {
			for _, c := range cs {
				choices = append(choices, int(c.(float64)))
			}
		}
		x := sched.RunOnce(sc.scenario(), choices)
		vs := checkSsched(x.Data.(*sstate))
		if x.PanicText != "" {
			vs = append(vs, sched.Viol{Kind: "panic", Detail: x.PanicText})
		}
		if x.Deadlock {
			vs = append(vs, sched.Viol{Kind: "deadlock", Detail: strings.Join(x.Schedule(), ",")})
		}
		for _, f := range vs {
			fmt.Printf("VIOLATION property=C12 replay=%s\n  kind=%s site=%s detail=%s\n  observations: %s\n", *report.FlagReplay, f.Kind, f.Site, f.Detail, strings.Join(x.Log, " "))
		}
		if len(vs) > 0 {
			return 1
		}
		fmt.Println("replay: no violation")
		return 0
	}
	fmt.Println("HARNESS-ERROR unknown scenario", v.Part)
	return 2
}
