package c12

import (
	"context"
	"encoding/json"
	"fmt"
	"net"
	"sort"
	"strconv"
	"strings"
	"testing"
	"testing/synctest"
	"time"

	"github.com/codelaboratoryltd/bng/pkg/allocator"

	"verif/deepdump"
	"verif/explore"
)

// ---------------------------------------------------------------------------
// Part "dist": the real allocator.DistributedAllocator over the fake store.
// ---------------------------------------------------------------------------

const poolID = "p"

type dcfg struct {
	name        string
	mode        allocator.PoolMode
	base        string
	subs        int
	maxFaults   int
	maxRestarts int
	maxRemote   int
	// zero: build the DistributedConfig with every optional field left at its zero value
	// (Mode "", EpochPeriod 0, EpochGrace 0) - the documented defaults must behave like the explicit ones
	zero bool
	// prefill: the exploration starts from a NON-INITIAL state: this many filler subscribers (f00, f01, ...)
	// are allocated by script before the first explored operation (reaches e.g. the 64-bit word boundary of
	// the bitmap, which BFS from the empty pool cannot reach); releasable names the fillers offered to Release.
	prefill    int
	releasable []int
}

type dsys struct {
	c        dcfg
	st       *fstore
	da       *allocator.DistributedAllocator
	cancel   context.CancelFunc
	down     bool // node is not running (crashed, or Start failed): only Restart is enabled
	faults   int
	restarts int
	remotes  int
	universe []string // allocatable addresses as CIDR strings, ascending
	// acked: allocations the node confirmed to its caller (Allocate returned the address after a
	// successful store write) and that nobody released/overwrote since. They must survive any stop.
	acked map[string]string
	fill  []string // filler subscribers allocated by the scripted prefix
	// conflicted: subscribers whose replicated record could not be applied because the address it names was held
	// here by another subscriber (remote put refused, or record lost to a competing record at restart). They are
	// outside the agreement clause until memory and store agree on them again.
	conflicted map[string]bool
	lastOp     string
	viols      []explore.Viol
}

var theT *testing.T

func bubble(body func()) { synctest.Test(theT, func(*testing.T) { body() }) }

// Subscriber ids with structure: '/', ':', '.', spaces, an id that is a prefix of another id, and an
// id equal to another id's last path element — keys are composed as /allocation/<pool>/<id>, so any
// code that re-derives the id from the key (or the key from the id) must get these right.
// Ids must not contain '(' ')' ',' '!' (operation syntax of this harness).
var subIDs = []string{"olt-1/0/3:100 a.b", "3:100 a.b", "olt-1/0"}

func subName(i int) string { return subIDs[i] }

func recKey(sub string) string { return "/allocation/" + poolID + "/" + sub }

func newDsys(c dcfg) *dsys {
	s := &dsys{c: c, acked: map[string]string{}, conflicted: map[string]bool{}}
	_, n, err := net.ParseCIDR(c.base)
	if err != nil {
		panic(err)
	}
	ones, bits := n.Mask.Size()
	total := 1 << (bits - ones)
	for i := 0; i < total; i++ {
		if c.mode == allocator.PoolModeLease && (i == 0 || i == total-1) {
			continue // epoch allocator never hands out network/broadcast
		}
		ip := append(net.IP(nil), n.IP.To4()...)
		ip[3] += byte(i)
		s.universe = append(s.universe, ip.String()+"/32")
	}
	s.st = newFstore(nil, 0)
	if err := s.boot(); err != nil {
		panic(err)
	}
	for i := 0; i < c.prefill; i++ {
		f := fmt.Sprintf("f%02d", i)
		p, err := s.da.Allocate(context.Background(), f)
		if err != nil {
			panic(fmt.Sprintf("scripted prefix: Allocate(%s): %v", f, err))
		}
		s.fill = append(s.fill, f)
		s.acked[f] = p.String()
	}
	return s
}

// everyone: the explored subscribers plus the fillers of the scripted prefix.
func (s *dsys) everyone() []string {
	out := make([]string, 0, s.c.subs+len(s.fill))
	for i := 0; i < s.c.subs; i++ {
		out = append(out, subName(i))
	}
	return append(out, s.fill...)
}

// boot builds a NEW allocator on the current store and starts it.
func (s *dsys) boot() error {
	dc := allocator.DistributedConfig{PoolID: poolID, BaseNetwork: s.c.base, PrefixLen: 32, Mode: s.c.mode, EpochPeriod: time.Hour}
	if s.c.zero {
		dc = allocator.DistributedConfig{PoolID: poolID, BaseNetwork: s.c.base, PrefixLen: 32, Mode: s.c.mode}
	}
	da, err := allocator.NewDistributedAllocator(dc, s.st)
	if err != nil {
		panic(err)
	}
	ctx, cancel := context.WithCancel(context.Background())
	s.da, s.cancel = da, cancel
	if err := da.Start(ctx); err != nil {
		cancel()
		s.cancel = nil
		return err
	}
	return nil
}

func (s *dsys) stop() {
	if s.cancel != nil {
		s.cancel()
		s.cancel = nil
		if s.lease() {
			synctest.Wait() // let the epoch loop goroutine observe the cancellation and exit
		}
	}
}

// guard keeps the synctest bubble clean if the implementation panics.
func (s *dsys) guard() {
	if r := recover(); r != nil {
		if s.cancel != nil {
			s.cancel()
			s.cancel = nil
		}
		panic(r)
	}
}

func (s *dsys) v(kind, site, f string, a ...any) {
	s.viols = append(s.viols, explore.Viol{Kind: kind, Site: site, Detail: fmt.Sprintf(f, a...)})
}

func (s *dsys) mem(sub string) string {
	p, ok := s.da.Get(sub)
	if !ok || p == nil {
		return ""
	}
	return p.String()
}

func (s *dsys) memAll() map[string]string {
	m := map[string]string{}
	for _, sub := range s.everyone() {
		m[sub] = s.mem(sub)
	}
	return m
}

func (s *dsys) agree(sub string) bool {
	rec, _, ok := s.st.record(recKey(sub))
	g := s.mem(sub)
	if !ok {
		return g == ""
	}
	return g == rec
}

// freeAddrs: addresses neither held in memory nor named by any stored record.
func (s *dsys) freeAddrs() []string {
	used := map[string]bool{}
	for _, a := range s.memAll() {
		used[a] = true
	}
	for _, sub := range s.everyone() {
		if p, _, ok := s.st.record(recKey(sub)); ok {
			used[p] = true
		}
	}
	var out []string
	for _, a := range s.universe {
		if !used[a] {
			out = append(out, a)
		}
	}
	return out
}

func (s *dsys) otherAddr(sub string) string {
	for i := 0; i < s.c.subs; i++ {
		if o := subName(i); o != sub {
			if a := s.mem(o); a != "" {
				return a
			}
		}
	}
	return ""
}

func (s *dsys) lease() bool { return s.c.mode == allocator.PoolModeLease }

func (s *dsys) Ops() []string {
	var ops []string
	restartOps := func() {
		if s.st.nRecords() > 4 { // too many records for every permutation: sorted and reversed order
			ops = append(ops, "Restart(0)", "Restart(-1)")
			return
		}
		n := factorial(s.st.nRecords())
		for p := 0; p < n; p++ {
			ops = append(ops, fmt.Sprintf("Restart(%d)", p))
		}
	}
	if s.down {
		restartOps()
		return ops
	}
	canCrash := s.restarts < s.c.maxRestarts
	for _, k := range s.c.releasable {
		if k < len(s.fill) {
			ops = append(ops, "Release("+s.fill[k]+")")
		}
	}
	for i := 0; i < s.c.subs; i++ {
		sub := subName(i)
		ops = append(ops, "Allocate("+sub+")", "Release("+sub+")")
		if i == 0 {
			ops = append(ops, "AllocateMAC("+sub+")") // the duplicated AllocateWithMAC code path
		}
		if s.lease() {
			ops = append(ops, "Renew("+sub+")")
			if canCrash && s.mem(sub) != "" {
				ops = append(ops, "Renew("+sub+")!crash@1", "Renew("+sub+")!crash@2")
			}
		}
		if s.remotes < s.c.maxRemote {
			if s.mem(sub) != "" {
				ops = append(ops, "RemotePut("+sub+",own)")
			}
			if fr := s.freeAddrs(); len(fr) > 0 {
				ops = append(ops, "RemotePut("+sub+",freelo)")
				if len(fr) > 1 {
					ops = append(ops, "RemotePut("+sub+",freehi)")
				}
			}
			if s.otherAddr(sub) != "" {
				ops = append(ops, "RemotePut("+sub+",other)")
			}
			if _, _, ok := s.st.record(recKey(sub)); ok || s.mem(sub) != "" {
				ops = append(ops, "RemoteDelete("+sub+")")
			}
		}
	}
	if s.lease() {
		ops = append(ops, "AdvanceEpoch", "Tick")
		if canCrash && s.st.nRecords() > 0 {
			ops = append(ops, "Tick!crash@1", "Tick!crash@2", "Tick!crash@3")
		}
	}
	if s.faults < s.c.maxFaults && len(s.st.failNext) == 0 {
		kinds := []string{"put", "delete", "query"}
		if s.lease() {
			kinds = append(kinds, "get")
		}
		for _, k := range kinds {
			ops = append(ops, "FailNext("+k+")")
		}
	}
	if canCrash {
		restartOps()
	}
	return ops
}

func parseOp(op string) (name, a1, a2 string, crash int) {
	crash = -1
	if i := strings.Index(op, "!crash@"); i >= 0 {
		crash, _ = strconv.Atoi(op[i+len("!crash@"):])
		op = op[:i]
	}
	name = op
	if i := strings.Index(op, "("); i >= 0 {
		name = op[:i]
		args := strings.Split(strings.TrimSuffix(op[i+1:], ")"), ",")
		a1 = args[0]
		if len(args) > 1 {
			a2 = args[1]
		}
	}
	return
}

func (s *dsys) Apply(op string) (obs string) {
	defer s.guard()
	name, a1, a2, crash := parseOp(op)
	if s.down && name != "Restart" {
		return "down"
	}
	if crash >= 0 {
		s.st.arm(crash)
	}
	ctx := context.Background()
	var before map[string]string
	agreeBefore := map[string]bool{}
	if !s.down {
		before = s.memAll()
		for i := 0; i < s.c.subs; i++ {
			agreeBefore[subName(i)] = s.agree(subName(i))
		}
	}
	s.st.takeFired()
	frame := "" // subscriber whose mapping the op may change ("" = no frame check, "-" = nobody)
	prevOp := s.lastOp
	s.lastOp = op
	switch name {
	case "Release", "RemotePut", "RemoteDelete":
		delete(s.acked, a1) // the caller / another node asked for the record to go or change
	case "Tick":
		s.acked = map[string]string{} // the epoch loop may legitimately delete expired records
	}

	switch name {
	case "Allocate", "AllocateMAC":
		frame = a1
		var p *net.IPNet
		var err error
		if name == "AllocateMAC" {
			p, err = s.da.AllocateWithMAC(ctx, a1, net.HardwareAddr{2, 0, 0, 0, 0, 1})
		} else {
			p, err = s.da.Allocate(ctx, a1)
		}
		if err != nil {
			obs = "err"
			break
		}
		obs = p.String()
		if s.st.isDead() {
			break
		}
		if before[a1] != "" && before[a1] != obs {
			s.v("stability", name, "%s held %s, Allocate returned %s", a1, before[a1], obs)
		}
		if g := s.mem(a1); g != obs {
			s.v("stability", name, "Allocate(%s) returned %s but Get says %q", a1, obs, g)
		}
		if rec, _, ok := s.st.record(recKey(a1)); !ok || rec != obs {
			s.v("persist", name, "Allocate(%s) succeeded with %s but the stored record is %q (present=%v)", a1, obs, rec, ok)
		}
		s.acked[a1] = obs
	case "Release":
		frame = a1
		err := s.da.Release(ctx, a1)
		obs = errStr(err)
		if err == nil && !s.st.isDead() {
			if g := s.mem(a1); g != "" {
				s.v("persist", "Release", "Release(%s) succeeded but Get still says %s", a1, g)
			}
			if rec, _, ok := s.st.record(recKey(a1)); ok {
				s.v("persist", "Release", "Release(%s) succeeded but the store still records %s", a1, rec)
			}
		}
	case "Renew":
		frame = a1
		err := s.da.Renew(ctx, a1)
		obs = errStr(err)
		if !s.st.isDead() && before[a1] != s.mem(a1) && before[a1] != "" {
			s.v("stability", "Renew", "Renew(%s) changed the address %q -> %q", a1, before[a1], s.mem(a1))
		}
	case "AdvanceEpoch":
		obs = fmt.Sprint(s.da.AdvanceEpoch())
	case "Tick":
		// the real epoch loop goroutine: AdvanceEpoch + cleanupExpiredFromStore
		time.Sleep(time.Hour)
		synctest.Wait()
		obs = fmt.Sprint(s.da.GetCurrentEpoch())
	case "FailNext":
		s.st.mu.Lock()
		s.st.failNext[a1] = true
		s.st.mu.Unlock()
		s.faults++
		return "armed"
	case "RemotePut":
		s.remotes++
		var addr string
		switch a2 {
		case "own":
			addr = before[a1]
		case "freelo":
			addr = s.freeAddrs()[0]
		case "freehi":
			fr := s.freeAddrs()
			addr = fr[len(fr)-1]
		case "other":
			addr = s.otherAddr(a1)
		}
		val, _ := json.Marshal(allocator.DistributedAllocation{PoolID: poolID, SubscriberID: a1, Prefix: addr,
			Epoch: s.da.GetCurrentEpoch(), AllocatedAt: time.Now().UTC()})
		// conflict: the announced address is held, on this node, by ANOTHER subscriber (the replicated content
		// itself double-assigns it); only then can "applied as announced" and "no address twice" not both hold
		conflict := ""
		for sub, b := range before {
			if sub != a1 && b == addr {
				conflict = sub
			}
		}
		s.st.remote(recKey(a1), val, false)
		got := s.mem(a1)
		obs = addr + "=>" + got
		if conflict != "" && got != addr {
			s.conflicted[a1] = true
		}
		// R4 "a change announced by another node is applied with the address it announces": without a conflict
		// there is nothing that could justify keeping the previous mapping (or none) - the node then disagrees with
		// the replicated record until its next restart, which changes the subscriber's address. Session mode only:
		// lease mode cannot install an announced address at all (known finding C12-K1, judged by the clauses below).
		if !s.lease() && conflict == "" && got != addr {
			kind := "R4-remote-not-applied/known-subscriber-moved"
			switch {
			case before[a1] == "":
				kind = "R4-remote-not-applied/new-subscriber"
			case before[a1] == addr:
				kind = "R4-remote-not-applied/same-address"
			}
			rec, _, _ := s.st.record(recKey(a1))
			s.v(kind, "handleRemoteChange", "remote put announced %s=%s; nobody else holds %s here, yet the node maps %s to %q (before: %q) while the replicated record says %s: a restart would change the address",
				a1, addr, addr, a1, got, before[a1], rec)
		}
		// R4: applied with the announced address, or refused (previous mapping kept)
		if got != addr && got != before[a1] {
			kind := "R4-remote-address/moved" // the subscriber had a mapping and it was replaced by a third address
			if before[a1] == "" {
				kind = "R4-remote-address/new" // the subscriber had no mapping and got an address nobody announced
			}
			s.v(kind, "handleRemoteChange", "remote put announced %s=%s (previous %q) but the node now maps %s to %q", a1, addr, before[a1], a1, got)
		}
		for sub, b := range before {
			if sub != a1 && s.mem(sub) != b {
				s.v("R4-remote-frame", "handleRemoteChange", "remote put for %s=%s changed %s: %q -> %q", a1, addr, sub, b, s.mem(sub))
			}
		}
	case "RemoteDelete":
		s.remotes++
		s.st.remote(recKey(a1), nil, true)
		obs = s.mem(a1)
		if obs != "" {
			s.v("R4-remote-delete", "handleRemoteChange", "remote delete of %s not applied: still maps to %s", a1, obs)
		}
		for sub, b := range before {
			if sub != a1 && s.mem(sub) != b {
				s.v("R4-remote-frame", "handleRemoteChange", "remote delete for %s changed %s: %q -> %q", a1, sub, b, s.mem(sub))
			}
		}
	case "Restart":
		p, _ := strconv.Atoi(a1)
		s.restarts++
		s.stop() // abandon the old instance (clean stop and crash are the same: memory is lost)
		old := s.st
		old.mu.Lock()
		old.dead = true
		pending := old.failNext
		old.mu.Unlock()
		s.st = newFstore(old.snapshot(), p)
		// R1 (durability): whatever the stop interrupted, a confirmed allocation is still recorded
		for _, sub := range s.everyone() {
			if a, ok := s.acked[sub]; ok {
				if rec, _, present := s.st.record(recKey(sub)); !present || rec != a {
					s.v("R1-durable", opSiteOf(prevOp), "%s=%s was confirmed to the caller and never released, but after the stop following [%s] the surviving store records %q (present=%v)", sub, a, prevOp, rec, present)
				}
			}
		}
		s.st.failNext = pending // a fault armed before the restart hits the restart's own store calls
		s.st.log = append(append([]string{}, old.log...), fmt.Sprintf("RESTART perm=%d", p))
		if crash >= 0 {
			s.st.arm(crash)
		}
		if err := s.boot(); err != nil {
			s.down = true
			return "start-failed"
		}
		s.down = false
		s.conflicted = map[string]bool{}
		s.st.mu.Lock()
		s.st.perm = 0 // later queries use sorted order (their order cannot matter without a crash in between)
		s.st.mu.Unlock()
		if s.st.isDead() {
			break
		}
		s.checkRestart(p)
		return "started " + s.memString()
	default:
		panic("unknown op " + op)
	}

	if s.st.isDead() {
		// crashed during the operation: the instance (its memory) is abandoned
		s.down = true
		s.stop()
		return obs + " CRASHED"
	}
	if frame != "" {
		for sub, b := range before {
			if sub != frame && s.mem(sub) != b {
				s.v("frame", name, "%s changed the mapping of %s: %q -> %q", op, sub, b, s.mem(sub))
			}
		}
	}
	for sub := range s.conflicted {
		if s.agree(sub) {
			delete(s.conflicted, sub) // memory and store agree on it again: back under the agreement clause
		}
	}
	// R3: a failed store call leaves memory and store in agreement
	if kind := s.st.takeFired(); kind != "" && frame != "" {
		if agreeBefore[frame] && !s.agree(frame) {
			rec, _, ok := s.st.record(recKey(frame))
			k3 := "R3-agreement"
			if before[frame] != "" && s.mem(frame) == "" && ok {
				k3 = "R3-agreement/memory-lost" // the node forgot an allocation the store still records
			}
			s.v(k3, name+"/"+kind, "%s with a failing store %s: before, memory and store agreed on %s (%q); after, memory says %q and the store says %q (present=%v)",
				op, kind, frame, before[frame], s.mem(frame), rec, ok)
		}
		obs += " fault:" + kind
	}
	return obs
}

func opSiteOf(op string) string {
	if i := strings.IndexAny(op, "(!"); i >= 0 {
		return op[:i]
	}
	return op
}

func errStr(err error) string {
	if err != nil {
		return "err"
	}
	return "ok"
}

func (s *dsys) memString() string {
	m := s.memAll()
	ks := make([]string, 0, len(m))
	for k := range m {
		ks = append(ks, k)
	}
	sort.Strings(ks)
	var sb strings.Builder
	for _, k := range ks {
		fmt.Fprintf(&sb, "%s=%s ", k, m[k])
	}
	return sb.String()
}

// checkRestart is R1: the restarted node's memory is the store's content.
func (s *dsys) checkRestart(perm int) {
	m := s.memAll()
	recs := map[string]string{}
	var keys []string
	for _, sub := range s.everyone() {
		if p, _, ok := s.st.record(recKey(sub)); ok {
			recs[sub] = p
			keys = append(keys, sub)
		}
	}
	// "positional": the memory is exactly what re-allocating first-free in Query order
	// gives (i-th record returned by Query gets the i-th allocatable address), i.e. the
	// recorded addresses were ignored. Used only to classify the lease-mode known finding.
	sort.Strings(keys)
	order := permute(keys, perm)
	positional := "/positional"
	pred := map[string]string{}
	for i, sub := range order {
		if i < len(s.universe) {
			pred[sub] = s.universe[i]
		}
	}
	for sub, g := range m {
		if pred[sub] != g {
			positional = ""
		}
	}
	subs := make([]string, 0, len(m))
	for k := range m {
		subs = append(subs, k)
	}
	sort.Strings(subs)
	for _, sub := range subs {
		rec, has := recs[sub]
		g := m[sub]
		switch {
		case !has && g != "":
			s.v("R1-restart-phantom", "loadAllocations", "after restart %s maps to %s but the store has no record for it", sub, g)
		case has && g == rec:
		case has && g == "":
			// acceptable only if the store itself is conflicting: another record claims the same address and won it
			won := false
			for o, r := range recs {
				if o != sub && r == rec && m[o] == rec {
					won = true
				}
			}
			if won {
				s.conflicted[sub] = true
			}
			if !won {
				s.v("R1-restart-lost"+positional, "loadAllocations", "store records %s=%s but after restart %s has no address (store: %v, memory: %v)", sub, rec, sub, recs, m)
			}
		case has:
			s.v("R1-restart-address"+positional, "loadAllocations", "store records %s=%s but after restart the node maps %s to %s (store: %v, memory: %v, query order: %v)", sub, rec, sub, g, recs, m, order)
		}
	}
}

func (s *dsys) Fingerprint() string {
	return deepdump.Dump(s.da, deepdump.Options{IgnoreTimes: true, SkipTypes: map[string]bool{"c12.fstore": true}}) +
		"|" + s.st.canon() + fmt.Sprintf("|down=%v f=%d r=%d rem=%d acked=%v conflicted=%v", s.down, s.faults, s.restarts, s.remotes, s.acked, s.conflicted)
}

// Check: R2 uniqueness + forward/reverse agreement in every state of a running node.
func (s *dsys) Check() []explore.Viol {
	defer s.guard()
	if !s.down {
		m := s.memAll()
		subs := make([]string, 0, len(m))
		for k := range m {
			subs = append(subs, k)
		}
		sort.Strings(subs)
		holder := map[string]string{}
		for _, sub := range subs {
			a := m[sub]
			if a == "" {
				continue
			}
			if o, dup := holder[a]; dup {
				s.v("R2-unique", "Get", "address %s is assigned to both %s and %s", a, o, sub)
			}
			holder[a] = sub
			_, n, err := net.ParseCIDR(a)
			if err != nil {
				s.v("R2-unique", "Get", "Get(%s) returned unparsable %q", sub, a)
				continue
			}
			if r, ok := s.da.GetByPrefix(n); !ok || r != sub {
				s.v("R2-reverse", "GetByPrefix", "%s maps to %s but GetByPrefix(%s) = %q,%v", sub, a, a, r, ok)
			}
		}
		for _, a := range s.universe {
			_, n, _ := net.ParseCIDR(a)
			if r, ok := s.da.GetByPrefix(n); ok && r != "" && m[r] != a {
				s.v("R2-reverse", "GetByPrefix", "GetByPrefix(%s) = %s but Get(%s) = %q", a, r, r, m[r])
			}
		}
		// R1/R4 agreement, session mode, every state of a running node: a restart installs the store's content, so a
		// subscriber recorded in the store keeps its address across a stop at this point only if the node maps it to the
		// recorded address NOW. Exempt: records that could not be applied because of a conflict (see conflicted), and
		// lease mode (expiry and known finding C12-K1 make memory and store differ by design there).
		if !s.lease() && !s.st.isDead() {
			for _, sub := range subs {
				rec, _, ok := s.st.record(recKey(sub))
				if ok && m[sub] != rec && !s.conflicted[sub] {
					s.v("R1-agreement-drift", opSiteOf(s.lastOp), "after [%s] the store records %s=%s but the running node maps %s to %q: a stop at this point changes the subscriber's address", s.lastOp, sub, rec, sub, m[sub])
				}
			}
		}
	}
	s.stop()
	return s.viols
}

func distModels(thorough bool) []*explore.Model {
	type b struct{ depth, nd, faults, restarts, remote int }
	q := b{4, 0, 1, 1, 2}
	if thorough {
		q = b{6, 0, 2, 2, 3}
	}
	cfgs := []dcfg{
		{"session/30", allocator.PoolModeSession, "10.0.0.0/30", 3, q.faults, q.restarts, q.remote, false, 0, nil},
		{"lease/29", allocator.PoolModeLease, "10.0.0.0/29", 3, q.faults, q.restarts, q.remote, false, 0, nil},
		{"lease/30", allocator.PoolModeLease, "10.0.0.0/30", 3, q.faults, q.restarts, q.remote, false, 0, nil},
		// Mode left unset: "session" by default (NewDistributedAllocator's default arm, every `mode == PoolModeLease` test)
		{"mode-unset/30", allocator.PoolMode(""), "10.0.0.0/30", 3, q.faults, q.restarts, q.remote, true, 0, nil},
		// lease mode with EpochPeriod/EpochGrace left unset (1h / 1 epoch by default)
		{"lease-defaults/29", allocator.PoolModeLease, "10.0.0.0/29", 2, q.faults, q.restarts, q.remote, true, 0, nil},
		// non-initial start state: indexes 0..64 of a 128-unit pool are taken (first bitmap word full, first bit of
		// the second word taken); release/allocate histories around the word boundary
		{"session-prefilled65/25", allocator.PoolModeSession, "10.0.0.0/25", 2, 0, 1, 0, false, 65, []int{3, 62, 64}},
	}
	var ms []*explore.Model
	for _, c := range cfgs {
		c := c
		depth, exec := q.depth, bubble
		if c.name == "session/30" {
			// session mode starts no goroutine and reads no clock that matters: no bubble needed, one level deeper
			depth, exec = q.depth+1, nil
		} else if c.mode != allocator.PoolModeLease {
			exec = nil
		} else if c.zero {
			depth = q.depth - 1
		}
		ms = append(ms, &explore.Model{
			Name:   "dist",
			Config: fmt.Sprintf("%s subs=%d faults<=%d restarts<=%d remote<=%d", c.name, c.subs, c.maxFaults, c.maxRestarts, c.maxRemote),
			New:    func() explore.System { return newDsys(c) },
			Depth:  depth, NoDedupDepth: q.nd, Exec: exec, Classify: classify,
			Budget: 8 * time.Minute,
		})
	}
	return ms
}
