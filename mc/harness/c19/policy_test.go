package c19

// Engine A part "control-plane policy histories": "the policy set through the control plane is the one enforced"
// is a statement about HISTORIES of the control plane (define / redefine / remove named policies, apply a policy
// or direct values to a subscriber, apply again, remove), not about one call. Every history to the stated depth
// is executed on the real qos.Manager + radius.PolicyManager writing into real kernel maps; after every operation
// the bytes in qos_egress / qos_ingress are decoded with the C layout and compared with what the last successful
// set call asked for.

import (
	"encoding/binary"
	"fmt"
	"net"
	"sort"
	"strings"

	"github.com/codelaboratoryltd/bng/pkg/qos"
	"github.com/codelaboratoryltd/bng/pkg/radius"
	"go.uber.org/zap"

	cebpf "github.com/cilium/ebpf"

	"verif/deepdump"
	"verif/explore"
	"verif/nativebpf"
	"verif/report"
)

type pval struct {
	down, up uint64
	burst    uint32
	prio     uint8
}

// distinct download/upload/burst/priority everywhere so that any mix-up shows
var pvals = map[string]pval{
	"a": {10_000_000, 5_000_000, 100_000, 1},
	"b": {20_000_000, 2_000_000, 500_000, 2},
	"c": {0, 0, 0, 0},                       // unlimited
	"d": {1_000_000_000, 100_000_000, 0, 5}, // burst derived by the manager
}

var psubs = map[string]net.IP{ // byte-palindromic: independent of the byte-order finding recorded under C06
	"s1": net.IPv4(10, 7, 7, 10).To4(),
	"s2": net.IPv4(10, 9, 9, 10).To4(),
}

type psys struct {
	k    *nativebpf.Kernel
	pm   *radius.PolicyManager
	mgr  *qos.Manager
	defs map[string]string // policy name -> value id currently defined
	want map[string]*pval  // subscriber -> what the last successful set asked for (nil = none)
	// alt: after a set call that FAILED (fault injected at one of its two kernel-map writes) the caller was told so and
	// the state of each direction may be the previous contract or the requested one - but a subscriber that had a
	// contract must not end up unlimited. alt holds the requested values of such a failed call.
	alt       map[string]*pval
	faultUsed bool
	viols     []explore.Viol
	last      string
}

func newPsys(k *nativebpf.Kernel) *psys {
	for _, mn := range []string{"qos_egress", "qos_ingress"} {
		if err := k.ClearMap(mn); err != nil {
			panic(err)
		}
	}
	pm := radius.NewPolicyManager()
	mgr, err := qos.NewManager(qos.ManagerConfig{Interface: "lo"}, pm, zap.NewNop())
	if err != nil {
		panic(err)
	}
	mgr.VerifSetMaps(k.Coll.Maps)
	return &psys{k: k, pm: pm, mgr: mgr, defs: map[string]string{}, want: map[string]*pval{}, alt: map[string]*pval{}}
}

func (s *psys) Ops() []string {
	o := []string{
		"def P a", "def P b", "def Q c", "undef P",
		"apply s1 P", "apply s1 Q", "apply s2 P",
		"set s1 d", "set s1 a",
		"rm s1",
	}
	if !s.faultUsed { // at most one deviation per history: one kernel-map write of one set call fails
		o = append(o, "set s1 b !qos_ingress", "set s1 b !qos_egress")
	}
	return o
}

// withFault runs f while the named kernel map of the manager is replaced by a closed handle (every operation on it
// fails with EBADF), then restores the real maps.
func (s *psys) withFault(mapName string, f func()) {
	dead, err := s.k.Coll.Maps[mapName].Clone()
	if err != nil {
		panic(err)
	}
	dead.Close()
	ms := map[string]*cebpf.Map{}
	for n, m := range s.k.Coll.Maps {
		ms[n] = m
	}
	ms[mapName] = dead
	s.mgr.VerifSetMaps(ms)
	defer s.mgr.VerifSetMaps(s.k.Coll.Maps)
	f()
}

func (s *psys) v(kind, site, f string, a ...any) {
	s.viols = append(s.viols, explore.Viol{Kind: kind, Site: site, Detail: fmt.Sprintf(f, a...)})
}

func (s *psys) Apply(op string) string {
	f := strings.Fields(op)
	s.last = op
	switch f[0] {
	case "def":
		v := pvals[f[2]]
		if err := s.pm.AddPolicy(&radius.QoSPolicy{Name: f[1], DownloadBPS: v.down, UploadBPS: v.up, BurstSize: v.burst, Priority: v.prio}); err != nil {
			return "err"
		}
		s.defs[f[1]] = f[2]
		return "ok"
	case "undef":
		s.pm.RemovePolicy(f[1])
		delete(s.defs, f[1])
		return "ok"
	case "apply":
		err := s.mgr.SetSubscriberPolicy(psubs[f[1]], f[2])
		id, defined := s.defs[f[2]]
		if !defined {
			if err == nil {
				s.v("policy-unknown-accepted", "SetSubscriberPolicy", "%s: policy %s is not defined but the call reported success", op, f[2])
			}
			return "err" // nothing was set: the previous contract stays
		}
		if err != nil {
			s.v("policy-rejected", "SetSubscriberPolicy", "%s: %v", op, err)
			return "err"
		}
		v := pvals[id]
		s.want[f[1]] = &v
		delete(s.alt, f[1])
		return "ok"
	case "set":
		v := pvals[f[2]]
		if len(f) == 4 { // fault variant
			s.faultUsed = true
			var err error
			s.withFault(strings.TrimPrefix(f[3], "!"), func() {
				err = s.mgr.SetSubscriberQoS(&qos.SubscriberQoS{IP: psubs[f[1]], DownloadBPS: v.down, UploadBPS: v.up, BurstBytes: v.burst, Priority: v.prio})
			})
			if err == nil {
				s.v("fault-swallowed", "SetSubscriberQoS", "%s: a kernel-map write failed but the call reported success", op)
			}
			s.alt[f[1]] = &v
			return "err"
		}
		delete(s.alt, f[1])
		if err := s.mgr.SetSubscriberQoS(&qos.SubscriberQoS{IP: psubs[f[1]], DownloadBPS: v.down, UploadBPS: v.up, BurstBytes: v.burst, Priority: v.prio}); err != nil {
			s.v("policy-rejected", "SetSubscriberQoS", "%s: %v", op, err)
			return "err"
		}
		s.want[f[1]] = &v
		return "ok"
	case "rm":
		if err := s.mgr.RemoveSubscriberQoS(psubs[f[1]]); err != nil {
			s.v("policy-rejected", "RemoveSubscriberQoS", "%s: %v", op, err)
			return "err"
		}
		delete(s.want, f[1])
		delete(s.alt, f[1])
		return "ok"
	}
	panic("unknown op " + op)
}

func (s *psys) entries() string {
	var b strings.Builder
	for _, sub := range []string{"s1", "s2"} {
		for _, mn := range []string{"qos_egress", "qos_ingress"} {
			raw, _ := s.k.Coll.Maps[mn].LookupBytes([]byte(psubs[sub]))
			fmt.Fprintf(&b, "%s/%s=%x;", sub, mn, raw)
		}
	}
	return b.String()
}

func (s *psys) Fingerprint() string {
	var d []string
	for n, id := range s.defs {
		d = append(d, n+"="+id)
	}
	sort.Strings(d)
	// the manager's own tracking table (a set call may consult it), the definitions and the kernel bytes
	for sub, a := range s.alt {
		d = append(d, fmt.Sprintf("alt:%s=%v", sub, *a))
	}
	sort.Strings(d)
	return fmt.Sprint(s.faultUsed) + strings.Join(d, ",") + "|" + s.entries() + "|" +
		deepdump.Dump(s.mgr, deepdump.Options{SkipTypes: map[string]bool{"ebpf.Map": true, "ebpf.Collection": true, "zap.Logger": true, "radius.PolicyManager": true}})
}

func (s *psys) Check() []explore.Viol {
	for _, sub := range []string{"s1", "s2"} {
		w, a := s.want[sub], s.alt[sub]
		for dir, mn := range []string{"qos_egress", "qos_ingress"} {
			raw, err := s.k.Coll.Maps[mn].LookupBytes([]byte(psubs[sub]))
			present := err == nil && raw != nil
			// acceptable contracts for this direction: the last successfully set one, or (after a failed set) the requested one
			var acc []*pval
			if w != nil {
				acc = append(acc, w)
			}
			if a != nil {
				acc = append(acc, a)
			}
			if !present {
				if w != nil { // had a contract (and a failed update does not take it away): must still be limited
					s.v("policy-not-written", mn, "after %q subscriber %s has a contract but %s has no entry under the wire bytes of its address: unlimited (err=%v)", s.last, sub, mn, err)
				}
				continue
			}
			if len(acc) == 0 {
				s.v("policy-not-removed", mn, "after %q subscriber %s has no QoS contract but %s still holds %x", s.last, sub, mn, raw)
				continue
			}
			// C layout: tokens u64, last_update u64, rate_bps u64, burst_bytes u32, priority u8
			gotTokens := binary.LittleEndian.Uint64(raw[0:8])
			gotRate := binary.LittleEndian.Uint64(raw[16:24])
			gotBurst := binary.LittleEndian.Uint32(raw[24:28])
			ok := false
			for _, c := range acc {
				wantRate, wantBurst := c.down, c.burst
				if dir == 1 {
					wantRate = c.up
				}
				if dir == 1 || c.burst == 0 {
					wantBurst = gotBurst // derived by the manager (documented default), not part of the request
				}
				if gotRate == wantRate && gotBurst == wantBurst && gotTokens <= uint64(gotBurst) && raw[28] == c.prio && gotBurst != 0 {
					ok = true
				}
			}
			if !ok {
				c := acc[0]
				s.v("policy-mismatch", mn, "after %q the contract last set for %s is down=%d up=%d burst=%d prio=%d; map %s enforces rate=%d burst=%d tokens=%d prio=%d",
					s.last, sub, c.down, c.up, c.burst, c.prio, mn, gotRate, gotBurst, gotTokens, raw[28])
			}
		}
	}
	return s.viols
}

const policyPart = "control-plane policy histories"

func policyModel(run *report.Run, k *nativebpf.Kernel) *explore.Model {
	depth := 5
	if run.Thorough() {
		depth = 7
	}
	return &explore.Model{Name: policyPart, Config: "policies P,Q x values a,b,c(unlimited),d(derived burst); subscribers s1,s2",
		New: func() explore.System { return newPsys(k) }, Depth: depth, NoDedupDepth: 3,
		Workers: 1, // all instances share the two kernel maps of the loaded object (cleared by New)
	}
}

func runPolicyHistories(run *report.Run, k *nativebpf.Kernel) {
	if run.WantPart(policyPart) {
		policyModel(run, k).Run(run)
	}
}
