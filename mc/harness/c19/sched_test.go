package c19

// Engine B part "sched:*": concurrent control-plane callers on one subscriber (a CoA changing the policy while the
// session is torn down, two policy changes at once). "The policy set through the control plane is the one
// enforced": at the end of EVERY schedule (preemption-bounded; scheduling points at every kernel-map call and every
// lock operation of the rewritten qos package) the two kernel maps must hold what SOME sequential order of the
// same calls produces - in particular both directions must belong to the same contract. The reference is the real
// Manager run sequentially.

import (
	"fmt"
	"sort"
	"strings"
	"time"

	"github.com/codelaboratoryltd/bng/pkg/qos"
	"github.com/codelaboratoryltd/bng/pkg/radius"
	"go.uber.org/zap"

	"verif/nativebpf"
	"verif/report"
	"verif/sched"
)

type bscen struct {
	name    string
	pre     []string
	threads [][]string
}

func bscenarios(thorough bool) []bscen {
	s := []bscen{
		{"set(s1,a)|set(s1,b)", nil, [][]string{{"set s1 a"}, {"set s1 b"}}},
		{"set(s1,b)|rm(s1)", []string{"set s1 a"}, [][]string{{"set s1 b"}, {"rm s1"}}},
		{"apply(s1,P)|rm(s1)", []string{"def P a"}, [][]string{{"apply s1 P"}, {"rm s1"}}},
		{"set(s1,a)|set(s2,b)", nil, [][]string{{"set s1 a"}, {"set s2 b"}}},
	}
	if thorough {
		s = append(s,
			bscen{"set(s1,a)|set(s1,b)|rm(s1)", nil, [][]string{{"set s1 a"}, {"set s1 b"}, {"rm s1"}}},
			bscen{"rm(s1),set(s1,b)|set(s1,d)", []string{"set s1 a"}, [][]string{{"rm s1", "set s1 b"}, {"set s1 d"}}},
		)
	}
	return s
}

func bfresh(k *nativebpf.Kernel) (*qos.Manager, *radius.PolicyManager) {
	for _, mn := range []string{"qos_egress", "qos_ingress"} {
		if err := k.ClearMap(mn); err != nil {
			panic(err)
		}
	}
	pm := radius.NewPolicyManager()
	m, err := qos.NewManager(qos.ManagerConfig{Interface: "lo"}, pm, zap.NewNop())
	if err != nil {
		panic(err)
	}
	m.VerifSetMaps(k.Coll.Maps)
	return m, pm
}

func bdo(m *qos.Manager, pm *radius.PolicyManager, op string) string {
	f := strings.Fields(op)
	var err error
	switch f[0] {
	case "def":
		v := pvals[f[2]]
		err = pm.AddPolicy(&radius.QoSPolicy{Name: f[1], DownloadBPS: v.down, UploadBPS: v.up, BurstSize: v.burst, Priority: v.prio})
	case "apply":
		err = m.SetSubscriberPolicy(psubs[f[1]], f[2])
	case "set":
		v := pvals[f[2]]
		err = m.SetSubscriberQoS(&qos.SubscriberQoS{IP: psubs[f[1]], DownloadBPS: v.down, UploadBPS: v.up, BurstBytes: v.burst, Priority: v.prio})
	case "rm":
		err = m.RemoveSubscriberQoS(psubs[f[1]])
	default:
		panic("unknown op " + op)
	}
	if err != nil {
		return "err"
	}
	return "ok"
}

// bentries: the contract fields of every entry of both maps (tokens / last_update are run-time state)
func bentries(k *nativebpf.Kernel) string {
	var out []string
	for _, mn := range []string{"qos_egress", "qos_ingress"} {
		it := k.Coll.Maps[mn].Iterate()
		var key, val []byte
		for it.Next(&key, &val) {
			out = append(out, fmt.Sprintf("%s[%x]=%x", mn, key, val[16:]))
		}
	}
	sort.Strings(out)
	return strings.Join(out, " ")
}

func (sc bscen) sequentialOutcomes(k *nativebpf.Kernel) map[string]string {
	out := map[string]string{}
	idx := make([]int, len(sc.threads))
	var order []string
	var rec func()
	rec = func() {
		done := true
		for t := range sc.threads {
			if idx[t] < len(sc.threads[t]) {
				done = false
				order = append(order, sc.threads[t][idx[t]])
				idx[t]++
				rec()
				idx[t]--
				order = order[:len(order)-1]
			}
		}
		if done {
			m, pm := bfresh(k)
			for _, op := range sc.pre {
				bdo(m, pm, op)
			}
			for _, op := range order {
				bdo(m, pm, op)
			}
			out[bentries(k)] = strings.Join(order, ",")
		}
	}
	rec()
	return out
}

func (sc bscen) scenario(k *nativebpf.Kernel, seq map[string]string) *sched.Scenario {
	return &sched.Scenario{
		Name: sc.name,
		Setup: func(x *sched.Exec) {
			var m *qos.Manager
			var pm *radius.PolicyManager
			x.Sequential(func() {
				m, pm = bfresh(k)
				for _, op := range sc.pre {
					bdo(m, pm, op)
				}
			})
			for ti, ops := range sc.threads {
				ti, ops := ti, ops
				x.Thread(fmt.Sprintf("T%d", ti), func() {
					for _, op := range ops {
						x.Obs("T%d:%s=%s", ti, op, bdo(m, pm, op))
					}
				})
			}
		},
		Check: func(x *sched.Exec) []sched.Viol {
			got := bentries(k)
			if _, ok := seq[got]; ok {
				return nil
			}
			var want []string
			for e, o := range seq {
				want = append(want, fmt.Sprintf("[%s] after order %s", e, o))
			}
			sort.Strings(want)
			return []sched.Viol{{Kind: "policy-not-as-set", Site: "qos maps",
				Detail: fmt.Sprintf("after the concurrent calls the kernel maps hold [%s]; no sequential order of the same calls produces that: %s", got, strings.Join(want, " | "))}}
		},
	}
}

func runSched(run *report.Run, k *nativebpf.Kernel) {
	bound := 2
	if run.Thorough() {
		bound = 3
	}
	for _, sc := range bscenarios(run.Thorough()) {
		name := "sched:" + sc.name
		if !run.WantPart(name) {
			continue
		}
		seq := sc.sequentialOutcomes(k)
		e := &sched.Explorer{Bound: bound, Budget: 3 * time.Minute}
		res := e.Explore(sc.scenario(k, seq))
		run.AddPart(report.Part{Name: name, Engine: "B:sched-dfs", Bound: fmt.Sprintf("preemptions<=%d completed=%d maxpoints=%d; %d sequential reference outcomes", bound, res.Bound, res.MaxPoints, len(seq)),
			Executions: res.Executions, Outcomes: int64(len(res.Outcomes)), Exhaustive: res.Exhaustive, States: int64(len(res.Outcomes))})
		for _, f := range res.Failures {
			x1 := sched.RunOnce(sc.scenario(k, seq), f.Choices)
			x2 := sched.RunOnce(sc.scenario(k, seq), f.Choices)
			if strings.Join(x1.Log, "|") != strings.Join(x2.Log, "|") || strings.Join(x1.Log, "|") != strings.Join(f.Log, "|") {
				run.HarnessError("non-deterministic replay of schedule in " + name)
				continue
			}
			for _, v := range f.Viols {
				tr := append([]string{"pre=" + strings.Join(sc.pre, ","), "threads=" + fmt.Sprint(sc.threads)}, f.Schedule...)
				rv := report.Violation{Part: name, Kind: v.Kind, Site: v.Site, Detail: v.Detail + " | observations: " + strings.Join(f.Log, " "), Trace: tr,
					Extra: map[string]any{"choices": f.Choices}}
				classifySched(&rv)
				run.Violation(rv)
			}
		}
	}
}

func classifySched(v *report.Violation) {}

func replaySched(k *nativebpf.Kernel, v report.Violation) int {
	for _, sc := range bscenarios(true) {
		if "sched:"+sc.name != v.Part {
			continue
		}
		var choices []int
		if cs, ok := v.Extra["choices"].([]any); ok {
			for _, c := range cs {
				choices = append(choices, int(c.(float64)))
			}
		}
		seq := sc.sequentialOutcomes(k)
		s := sc.scenario(k, seq)
		x := sched.RunOnce(s, choices)
		vs := s.Check(x)
		if x.PanicText != "" {
			vs = append(vs, sched.Viol{Kind: "panic", Detail: x.PanicText})
		}
		if x.Deadlock {
			vs = append(vs, sched.Viol{Kind: "deadlock", Detail: strings.Join(x.Schedule(), ",")})
		}
		for _, q := range vs {
			fmt.Printf("VIOLATION property=C19 replay=%s\n  kind=%s site=%s detail=%s\n", *report.FlagReplay, q.Kind, q.Site, q.Detail)
		}
		if len(vs) > 0 {
			return 1
		}
		fmt.Println("replay: no violation")
		return 0
	}
	fmt.Println("HARNESS-ERROR unknown part", v.Part)
	return 2
}
