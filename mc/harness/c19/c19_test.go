// C19 — Rate limiter admits no more than the contract and never starves a subscriber.
//
// Engine C, explicit-state: the token bucket value is written by the REAL
// qos.Manager (SetSubscriberQoS / SetSubscriberPolicy) into a real kernel map
// created from the compiled object, its raw bytes are handed to the natively
// compiled qos_ratelimit.c, and every arrival sequence over sizes x gaps to the
// stated depth is executed (full tree, no deduplication) against an exact
// (__int128) reference. Saturating periodic runs decide the starvation clause.
package c19

import (
	"bufio"
	"encoding/binary"
	"encoding/hex"
	"encoding/json"
	"fmt"
	"math/big"
	"net"
	"os"
	"os/exec"
	"path/filepath"
	"strings"
	"sync"
	"testing"

	"github.com/codelaboratoryltd/bng/pkg/qos"
	"github.com/codelaboratoryltd/bng/pkg/radius"
	"go.uber.org/zap"

	"verif/explore"
	"verif/nativebpf"
	"verif/report"
)

type cfg struct {
	rate   uint64
	burst  uint32
	origin uint64
	dir    int // 0 egress, 1 ingress
}

type c19sum struct {
	Summary  bool  `json:"summary"`
	Nodes    int64 `json:"nodes"`
	Admitted int64 `json:"admitted"`
	Dropped  int64 `json:"dropped"`
	Viol     int64 `json:"violations"`
	PRuns    int64 `json:"periodic_runs"`
	PViol    int64 `json:"periodic_violations"`
	// drained-bucket part (refill ladder + boundary tree)
	DNodes      int64 `json:"drained_nodes"`
	DAdmitted   int64 `json:"drained_admitted"`
	DDropped    int64 `json:"drained_dropped"`
	DrainSteps  int64 `json:"drain_steps"`
	Probes      int64 `json:"probes"`
	ProbeSteps  int64 `json:"probe_steps"`
	ProbeCapped int64 `json:"probes_capped"`
	LadderGaps  int   `json:"ladder_gaps"`
	BoundGaps   int   `json:"boundary_gaps"`
}

type c19vio struct {
	Violation string          `json:"violation"`
	Phase     string          `json:"phase"` // "" = sequence tree / periodic run, "drained" = drained-bucket part
	Detail    string          `json:"detail"`
	Rate      uint64          `json:"rate_bps"`
	Burst     uint32          `json:"burst"`
	Gap       uint64          `json:"gap_ns"`
	Size      uint32          `json:"size"`
	Packets   uint64          `json:"packets"`
	Admitted  uint64          `json:"admitted_bytes"`
	Ideal     uint64          `json:"ideal_bytes"`
	Seq       [][]json.Number `json:"seq"` // numbers kept as written: time stamps do not fit a float64
}

func classify(v *report.Violation, x c19vio) {
	// recorded finding C19-K1: token_bucket_check sets last_update = now on every packet, discarding the
	// fraction of a token the elapsed time was worth (integer division). Whenever the credit per arrival
	// gap*(rate/8)/1e9 is not a whole number the subscriber loses that fraction on every packet; when it is
	// below 1 the subscriber never earns anything. Narrow predicate: a starvation witness whose per-arrival
	// credit has a non-zero fractional part. Periodic runs whose per-arrival credit is a whole number of
	// tokens (e.g. 1 Gbit/s at 8 ms) are unaffected by the finding and must still pass.
	if x.Violation == "starvation" && x.Rate > 0 && x.Gap > 0 {
		bps := new(big.Int).SetUint64(x.Rate / 8)
		prod := new(big.Int).Mul(bps, new(big.Int).SetUint64(x.Gap))
		if new(big.Int).Mod(prod, big.NewInt(1000000000)).Sign() != 0 {
			v.Class = "C19-K1-fractional-credit-discarded"
		}
	}
}

func runC19(bin string, args ...string) ([]c19vio, c19sum, error) {
	cmd := exec.Command(bin, append([]string{"--enum", "c19"}, args...)...)
	out, err := cmd.StdoutPipe()
	if err != nil {
		return nil, c19sum{}, err
	}
	cmd.Stderr = os.Stderr
	if err := cmd.Start(); err != nil {
		return nil, c19sum{}, err
	}
	var vs []c19vio
	var sum c19sum
	sc := bufio.NewScanner(out)
	sc.Buffer(make([]byte, 1<<20), 1<<24)
	for sc.Scan() {
		line := sc.Text()
		if strings.Contains(line, `"summary":true`) {
			json.Unmarshal([]byte(line), &sum)
		} else if strings.HasPrefix(line, `{"violation"`) {
			var x c19vio
			if json.Unmarshal([]byte(line), &x) == nil {
				vs = append(vs, x)
			}
		}
	}
	err = cmd.Wait()
	if !sum.Summary {
		return vs, sum, fmt.Errorf("%s %v: no summary (err=%v)", bin, args, err)
	}
	return vs, sum, nil
}

func TestCheck(t *testing.T) {
	run := report.New("C19", "model_checking")
	run.Rule = "(1) full tree of arrival sequences over sizes {34,64,1500,65535} x gaps {0,1ns,50ns,1us,1ms,8ms,1s,1day,product-overflow gap} to the stated depth, for rates {1k,1M,100M,1G,100G,0 bit/s} x bursts {1,1500,65536,2^32-1} x clock origins {0,2^63,2^64-2days} x {egress,ingress}; every window of every sequence checked against exact arithmetic; saturating periodic runs (5 gaps x 4 sizes) for the starvation bound; initial bucket bytes written by the real qos.Manager into a kernel map; (2) drained bucket: after a greedy back-to-back burst that empties the bucket (one super-arrival), a refill ladder (every gap 2^k-1, 2^k, 2^k+1 for k=1..63, {1,2,5}x10^k ns, both sides of the gaps where elapsed*(rate/8) crosses 2^16..2^64, burst/rate x {1/4,1/2,1-,1,1+,2}) and the full tree over sizes x the configuration's boundary gaps {0,1ns,1s,2^31,2^32-1,2^32,2^32+1,2^33, product crossing 2^32/2^63/2^64 both sides, burst/rate x {1/2,1-,1,2}}, each node followed by a bounded greedy probe burst; same exact window oracle; rates additionally {8k,64k bit/s}, bursts additionally the control plane's default"
	run.Assumptions = []string{"qos_ratelimit.c compiled natively (x86-64) with shim helpers; kernel clock supplied by the harness", "single CPU: concurrent updates of one bucket from several CPUs are not modelled"}
	dir, err := nativebpf.Build()
	defer os.RemoveAll(dir)
	if err != nil {
		run.HarnessError(err.Error())
		os.Exit(run.Finish())
	}
	if err := nativebpf.KernelBuild(filepath.Join(dir, "k")); err != nil {
		run.HarnessError(err.Error())
		os.Exit(run.Finish())
	}
	k, err := nativebpf.KernelLoad(filepath.Join(dir, "k"), "qos_ratelimit", 4096)
	if err != nil {
		run.HarnessError("kernel maps unavailable: " + err.Error())
		os.Exit(run.Finish())
	}
	defer k.Close()
	bin := filepath.Join(dir, "drv_qos_ratelimit")
	if *report.FlagReplay != "" {
		os.Exit(replay(bin, run, k))
	}

	depth, periodic, bdepth := 3, "100000", 2
	if run.Thorough() {
		depth, periodic, bdepth = 4, "1000000", 3
	}
	pm := radius.NewPolicyManager()
	mgr, err := qos.NewManager(qos.ManagerConfig{Interface: "lo"}, pm, zap.NewNop())
	if err != nil {
		run.HarnessError(err.Error())
		os.Exit(run.Finish())
	}
	mgr.VerifSetMaps(k.Coll.Maps)
	ip := net.IPv4(10, 7, 7, 10).To4() // byte-palindromic: unaffected by the byte-order finding recorded under C06
	key := []byte(ip)

	// slow plans (1, 8, 64 kbit/s) are the ones whose burst is worth many seconds of traffic: an idle gap can be
	// long in nanoseconds (past 2^31, 2^32, 2^33 ...) and still be worth less than the burst.
	rates := []uint64{1000, 8000, 64000, 1000000, 100000000, 1000000000, 100000000000, 0}
	// 0 = not set: the control plane derives the burst (64 KiB minimum, 1 s of traffic, 10 MiB maximum)
	bursts := []uint32{0, 1, 1500, 65536, 4294967295}
	origins := []uint64{0, 1 << 63, ^uint64(0) - 2*86400*1000000000}
	type job struct {
		c   cfg
		hex string
	}
	var jobs []job
	// The native enumeration is a function of (bucket bytes, clock origin, direction) only. Several requests yield the
	// same bucket bytes (the ingress burst is always derived; an unset burst of a slow plan equals the explicit 64 KiB):
	// every request is still pushed through the control plane and decoded above, the enumeration runs once per value.
	seen := map[string]bool{}
	requested := 0
	for _, r := range rates {
		for _, b := range bursts {
			// control plane writes the policy (alternating between the direct API and a named RADIUS policy)
			var err error
			if (r/1000+uint64(b))%2 == 0 {
				err = mgr.SetSubscriberQoS(&qos.SubscriberQoS{IP: ip, DownloadBPS: r, UploadBPS: r, BurstBytes: b, Priority: 3})
			} else {
				name := fmt.Sprintf("p-%d-%d", r, b)
				pm.AddPolicy(&radius.QoSPolicy{Name: name, DownloadBPS: r, UploadBPS: r, BurstSize: b, Priority: 3})
				err = mgr.SetSubscriberPolicy(ip, name)
			}
			if err != nil {
				run.Violation(report.Violation{Part: "policy", Kind: "policy-rejected", Site: "SetSubscriberQoS", Detail: err.Error()})
				continue
			}
			for dir, mn := range []string{"qos_egress", "qos_ingress"} {
				raw, err := k.Coll.Maps[mn].LookupBytes(key)
				if err != nil || raw == nil {
					run.Violation(report.Violation{Part: "policy", Kind: "policy-not-written", Site: mn, Detail: fmt.Sprintf("after SetSubscriberQoS(%s) map %s has no entry under the wire bytes of the address (err=%v)", ip, mn, err)})
					continue
				}
				// "the policy set through the control plane is the one enforced": decode with the C layout
				// (tokens u64, last_update u64, rate_bps u64, burst_bytes u32, priority u8)
				gotRate := binary.LittleEndian.Uint64(raw[16:24])
				gotBurst := binary.LittleEndian.Uint32(raw[24:28])
				gotTokens := binary.LittleEndian.Uint64(raw[0:8])
				wantBurst := b
				if dir == 1 || b == 0 {
					wantBurst = gotBurst // ingress burst is derived by the manager (documented default); not part of the request
				}
				if gotRate != r || gotBurst != wantBurst || gotTokens > uint64(gotBurst) || raw[28] != 3 {
					run.Violation(report.Violation{Part: "policy", Kind: "policy-mismatch", Site: mn, Detail: fmt.Sprintf("requested rate=%d burst=%d prio=3; map %s holds rate=%d burst=%d tokens=%d prio=%d", r, b, mn, gotRate, gotBurst, gotTokens, raw[28])})
				}
				for _, o := range origins {
					requested++
					id := fmt.Sprintf("%x/%d/%d", raw, o, dir)
					if seen[id] {
						continue
					}
					seen[id] = true
					jobs = append(jobs, job{cfg{r, gotBurst, o, dir}, hex.EncodeToString(raw)})
				}
			}
		}
	}
	runPolicyHistories(run, k)
	runSched(run, k)
	var mu sync.Mutex
	var wg sync.WaitGroup
	sem := make(chan struct{}, 16)
	var nodes, admitted, dropped, pruns int64
	var dadm, ddrop int64
	var dnodes, drainSteps, probes, probeSteps, probeCapped int64
	var ladderMax, boundMax int
	for _, j := range jobs {
		wg.Add(1)
		sem <- struct{}{}
		go func(j job) {
			defer wg.Done()
			defer func() { <-sem }()
			vs, sum, err := runC19(bin, fmt.Sprint(depth), periodic, fmt.Sprint(j.c.origin), j.hex, fmt.Sprint(j.c.dir), fmt.Sprint(bdepth))
			mu.Lock()
			defer mu.Unlock()
			if err != nil {
				run.HarnessError(err.Error())
				return
			}
			nodes += sum.Nodes
			admitted += sum.Admitted
			dropped += sum.Dropped
			pruns += sum.PRuns
			dnodes += sum.DNodes
			dadm += sum.DAdmitted
			ddrop += sum.DDropped
			drainSteps += sum.DrainSteps
			probes += sum.Probes
			probeSteps += sum.ProbeSteps
			probeCapped += sum.ProbeCapped
			ladderMax = max(ladderMax, sum.LadderGaps)
			boundMax = max(boundMax, sum.BoundGaps)
			for _, x := range vs {
				part := fmt.Sprintf("bucket[dir=%d]", j.c.dir)
				if x.Phase != "" {
					part = fmt.Sprintf("bucket-%s[dir=%d]", x.Phase, j.c.dir)
				}
				v := report.Violation{Part: part, Kind: x.Violation, Site: "token_bucket_check",
					Config: fmt.Sprintf("rate=%d burst=%d origin=%d dir=%d", j.c.rate, j.c.burst, j.c.origin, j.c.dir),
					Detail: fmt.Sprintf("%s: rate=%d bit/s burst=%d origin=%d gap=%dns size=%d packets=%d admitted=%dB exact-bucket=%dB", x.Detail, x.Rate, x.Burst, j.c.origin, x.Gap, x.Size, x.Packets, x.Admitted, x.Ideal),
					Trace:  []string{fmt.Sprint(x.Seq)},
					Extra:  map[string]any{"depth": depth, "periodic": periodic, "origin": fmt.Sprint(j.c.origin), "hex": j.hex, "dir": j.c.dir, "bdepth": bdepth}}
				if x.Phase != "" { // a sequence witness, not a periodic run: show the sequence instead of the periodic-run fields
					v.Detail = fmt.Sprintf("%s: rate=%d bit/s burst=%d origin=%d seq[time ns, bytes, 1 admitted/0 dropped/2 greedy back-to-back burst, total admitted]=%v", x.Detail, x.Rate, x.Burst, j.c.origin, x.Seq)
				}
				classify(&v, x)
				run.Violation(v)
			}
		}(j)
	}
	wg.Wait()
	run.AddPart(report.Part{Name: "token-bucket sequence tree", Engine: "C:native-dfs", Bound: fmt.Sprintf("depth=%d, %d requested configurations (rate x burst x origin x direction) = %d distinct (bucket value, origin, direction), alphabet 4 sizes x 9 gaps", depth, requested, len(jobs)),
		States: nodes, Transitions: nodes, Outcomes: 2, Exhaustive: true, Note: fmt.Sprintf("admitted=%d dropped=%d", admitted, dropped)})
	limited := 0
	for _, j := range jobs {
		if j.c.rate != 0 {
			limited++
		}
	}
	run.AddPart(report.Part{Name: "drained-bucket refill ladder + boundary tree", Engine: "C:native-dfs",
		Bound:  fmt.Sprintf("start: bucket emptied by a greedy back-to-back burst; ladder depth 1 over <=%d gaps x 4 sizes; boundary tree depth=%d over <=%d gaps x 4 sizes; bounded greedy probe burst (<=16 x 65535 B, then 1500/64/34 B until dropped) after every node; %d distinct configurations with a rate limit", ladderMax, bdepth, boundMax, limited),
		States: dnodes, Transitions: dnodes + probeSteps + drainSteps, Outcomes: 2, Exhaustive: true,
		Note: fmt.Sprintf("admitted=%d dropped=%d probes=%d (of which %d reached the probe cap) probe-packets=%d drain-packets=%d", dadm, ddrop, probes, probeCapped, probeSteps, drainSteps)})
	run.AddPart(report.Part{Name: "saturating periodic arrivals", Engine: "C:native", Bound: fmt.Sprintf("%s packets per run", periodic), Executions: pruns, Exhaustive: true})
	run.Sample(map[string]any{"config": jobs[0].c, "bucket_value_written_by_manager": jobs[0].hex})
	os.Exit(run.Finish())
}

func replay(bin string, run *report.Run, k *nativebpf.Kernel) int {
	v, err := report.LoadReplay(*report.FlagReplay)
	if err != nil {
		fmt.Println("HARNESS-ERROR", err)
		return 2
	}
	if strings.HasPrefix(v.Part, "sched:") {
		return replaySched(k, v)
	}
	if strings.HasPrefix(v.Part, policyPart) {
		vs, p := policyModel(run, k).Replay(v.Trace)
		if p != "" {
			vs = append(vs, explore.Viol{Kind: "panic", Detail: p})
		}
		for _, x := range vs {
			fmt.Printf("VIOLATION property=C19 replay=%s\n  kind=%s site=%s detail=%s\n", *report.FlagReplay, x.Kind, x.Site, x.Detail)
		}
		if len(vs) > 0 {
			return 1
		}
		fmt.Println("replay: no violation")
		return 0
	}
	g := func(k string) string { return fmt.Sprint(v.Extra[k]) }
	args := []string{g("depth"), g("periodic"), g("origin"), g("hex"), g("dir")}
	if _, ok := v.Extra["bdepth"]; ok { // replay files written before the drained-bucket part existed have none
		args = append(args, g("bdepth"))
	}
	vs, _, err := runC19(bin, args...)
	if err != nil {
		fmt.Println("HARNESS-ERROR", err)
		return 2
	}
	// the job is re-run as a whole; only what the file recorded counts (same kind, same part of the enumeration) —
	// a periodic-run finding of the same configuration is not a reproduction of a sequence witness and vice versa
	n := 0
	for _, x := range vs {
		wantPart := "bucket["
		if x.Phase != "" {
			wantPart = "bucket-" + x.Phase + "["
		}
		if x.Violation != v.Kind || !strings.HasPrefix(v.Part, wantPart) {
			continue
		}
		n++
		fmt.Printf("VIOLATION property=C19 replay=%s\n  %s %s rate=%d burst=%d gap=%d size=%d seq=%v\n", *report.FlagReplay, x.Violation, x.Detail, x.Rate, x.Burst, x.Gap, x.Size, x.Seq)
	}
	if n > 0 {
		return 1
	}
	fmt.Println("replay: no violation")
	return 0
}
