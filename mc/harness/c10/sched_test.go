package c10

import (
	"encoding/json"
	"fmt"
	"net"
	"sort"
	"strings"
	"sync"
	"testing"
	"time"

	"verif/report"
	"verif/sched"
)

// Engine B scenarios: small thread sets with subscribers forced to collide.
// Each thread op is "A<i>" (AllocateNAT) or "D<i>" (DeallocateNAT); pre is a
// sequential prefix executed before the threads start.
type scen struct {
	name    string
	c       cfg
	pre     []string
	threads [][]string
}

func scenarios(thorough bool) []scen {
	one := cfg{"singleblock-2ip", 1024, 1031, 4, 2, 4, true, 0, 0} // 2 blocks per IP, 2 IPs
	tiny := cfg{"nondividing-1ip", 1000, 1009, 3, 1, 4, false, 0, 0}
	tinyBulk := cfg{"nondividing-1ip-bulk", 1000, 1009, 3, 1, 4, true, 0, 0}
	s := []scen{
		{"A0|A0", one, nil, [][]string{{"A0"}, {"A0"}}},
		{"A0|A1", one, nil, [][]string{{"A0"}, {"A1"}}},
		{"A0|A1 last block", tiny, []string{"A2", "A3"}, [][]string{{"A0"}, {"A1"}}},
		{"A2|D0", one, []string{"A0", "A1"}, [][]string{{"A2"}, {"D0"}}},
		{"D0|D0", one, []string{"A0", "A1"}, [][]string{{"D0"}, {"D0"}}},
		{"A0|D0", one, []string{"A0"}, [][]string{{"A0"}, {"D0"}}},
		{"D0,A0|A2", tiny, []string{"A0", "A1"}, [][]string{{"D0", "A0"}, {"A2"}}},
		{"A2|D0|A3", tiny, []string{"A0", "A1"}, [][]string{{"A2"}, {"D0"}, {"A3"}}},
		// the logger's background flusher (Flush / FlushPortBlocks) racing with callers that log
		{"F|A2,A3", one, []string{"A0", "A1"}, [][]string{{"F"}, {"A2", "A3"}}},
		{"F|D0,A2", tinyBulk, []string{"A0", "A1"}, [][]string{{"F"}, {"D0", "A2"}}},
		{"F|A2|D1", tiny, []string{"A0", "A1"}, [][]string{{"F"}, {"A2"}, {"D1"}}},
	}
	if thorough {
		s = append(s,
			scen{"A0|A0|A0", one, nil, [][]string{{"A0"}, {"A0"}, {"A0"}}},
			scen{"A0,D0|A0,D0", one, nil, [][]string{{"A0", "D0"}, {"A0", "D0"}}},
			scen{"D0,A2|D1,A3", tiny, []string{"A0", "A1", "A2"}, [][]string{{"D0", "A2"}, {"D1", "A3"}}},
		)
	}
	return s
}

type call struct {
	th   int
	op   string
	res  string
	done bool
}

type schedState struct {
	mu     sync.Mutex // harness bookkeeping only (needed by the free-running pass)
	s      *sys
	calls  []*call
	preRes []string
	// virtual: the execution runs under the controlled scheduler with a virtual, self-ticking clock (NowTick), so
	// the timestamps in the log are deterministic and strictly ordered by the moment they were TAKEN
	virtual bool
}

func doOp(s *sys, op string) string {
	if op == "F" {
		s.lg.Flush()
		s.lg.FlushPortBlocks()
		return "flushed"
	}
	var i int
	fmt.Sscanf(op[1:], "%d", &i)
	if op[0] == 'A' {
		a, err := s.m.AllocateNAT(subIP(i))
		if err != nil {
			return "err"
		}
		return fmt.Sprintf("%s:%d-%d", a.PublicIP, a.PortStart, a.PortEnd)
	}
	if err := s.m.DeallocateNAT(subIP(i)); err != nil {
		return "err"
	}
	return "ok"
}

func (sc scen) scenario() *sched.Scenario {
	return &sched.Scenario{
		Name: sc.name,
		Setup: func(x *sched.Exec) {
			x.NowTick = time.Second // every clock read is one second later than the previous one
			st := &schedState{s: newSys(sc.c), virtual: sched.Active() == x}
			x.Data = st
			for _, op := range sc.pre {
				st.preRes = append(st.preRes, doOp(st.s, op))
			}
			for ti, ops := range sc.threads {
				ti, ops := ti, ops
				x.Thread(fmt.Sprintf("T%d", ti), func() {
					for _, op := range ops {
						c := &call{th: ti, op: op}
						st.mu.Lock()
						st.calls = append(st.calls, c)
						st.mu.Unlock()
						c.res = doOp(st.s, op)
						c.done = true
						x.Obs("T%d:%s=%s", ti, op, c.res)
					}
				})
			}
		},
		Check: func(x *sched.Exec) []sched.Viol { return checkSched(sc, x.Data.(*schedState)) },
	}
}

// checkSched: end-state invariants + same-subscriber agreement + conservation probe.
func checkSched(sc scen, st *schedState) []sched.Viol {
	var vs []sched.Viol
	add := func(kind, site, f string, a ...any) {
		vs = append(vs, sched.Viol{Kind: kind, Site: site, Detail: fmt.Sprintf(f, a...)})
	}
	m := st.s.m
	// which subscribers were the target of a Deallocate in the concurrent part
	dealloc := map[int]bool{}
	allocRes := map[int][]string{}
	for _, c := range st.calls {
		if c.op == "F" {
			continue
		}
		var i int
		fmt.Sscanf(c.op[1:], "%d", &i)
		if c.op[0] == 'D' {
			dealloc[i] = true
		} else if c.res != "err" {
			allocRes[i] = append(allocRes[i], c.res)
		}
	}
	live := map[int]block{}
	for i := 0; i < sc.c.subs; i++ {
		if g := m.GetAllocation(subIP(i)); g != nil {
			live[i] = block{g.PublicIP.String(), int(g.PortStart), int(g.PortEnd)}
		}
	}
	for i, rs := range allocRes {
		if dealloc[i] {
			continue
		}
		for _, r := range rs {
			if r != rs[0] {
				add("stability", "AllocateNAT", "concurrent AllocateNAT calls for subscriber %d returned different blocks %v", i, rs)
			}
		}
		lb, ok := live[i]
		if !ok {
			add("stability", "GetAllocation", "subscriber %d was allocated %v and never released, but has no allocation", i, rs)
		} else if got := fmt.Sprintf("%s:%d-%d", lb.pub, lb.start, lb.end); got != rs[0] {
			add("stability", "GetAllocation", "subscriber %d was returned %s but holds %s", i, rs[0], got)
		}
	}
	ids := []int{}
	for i := range live {
		ids = append(ids, i)
	}
	sort.Ints(ids)
	for _, i := range ids {
		b := live[i]
		if b.start < sc.c.start || b.end > sc.c.end || b.end-b.start+1 != sc.c.per {
			add("range", "AllocateNAT", "subscriber %d block %v violates range/size", i, b)
		}
		for _, j := range ids {
			if j > i && b.pub == live[j].pub && b.start <= live[j].end && live[j].start <= b.end {
				add("overlap", "AllocateNAT", "subscribers %d %v and %d %v overlap", i, b, j, live[j])
			}
		}
	}
	// pool counters equal the truth
	perPool := map[string]int{}
	for _, b := range live {
		perPool[b.pub]++
	}
	for _, pe := range m.GetPoolStats() {
		if pe.Subscribers != perPool[pe.PublicIP.String()] {
			add("count", "GetPoolStats", "public %s counts %d subscribers, %d blocks are live", pe.PublicIP, pe.Subscribers, perPool[pe.PublicIP.String()])
		}
	}
	vs = append(vs, checkLog(sc, st, live)...)
	if len(vs) > 0 {
		return vs
	}
	// conservation probe: fresh subscribers allocate until refusal; every block distinct, total = capacity
	capacity := sc.c.publics * ((sc.c.end - sc.c.start + 1) / sc.c.per)
	all := []block{}
	for _, b := range live {
		all = append(all, b)
	}
	for k := 0; k < capacity+2; k++ {
		a, err := m.AllocateNAT(net.IPv4(100, 64, 1, byte(k)))
		if err != nil {
			break
		}
		nb := block{a.PublicIP.String(), int(a.PortStart), int(a.PortEnd)}
		for _, o := range all {
			if o.pub == nb.pub && o.start <= nb.end && nb.start <= o.end {
				add("overlap", "AllocateNAT", "probe allocation %v overlaps live %v", nb, o)
			}
		}
		if nb.start < sc.c.start || nb.end > sc.c.end {
			add("range", "AllocateNAT", "probe allocation %v outside range", nb)
		}
		all = append(all, nb)
	}
	if len(all) != capacity {
		add("count", "AllocateNAT", "after the concurrent phase %d blocks could be held in total, capacity is %d", len(all), capacity)
	}
	return vs
}

// checkLog: N4 under concurrency. From the log ALONE (records in write order): every block assignment and release
// that happened is recorded exactly once, no record assigns a block while the log still shows it held by another
// subscriber, and the holders the log ends with are exactly the live allocations.
func checkLog(sc scen, st *schedState, live map[int]block) []sched.Viol {
	var vs []sched.Viol
	add := func(kind, f string, a ...any) {
		vs = append(vs, sched.Viol{Kind: kind, Site: "Logger", Detail: fmt.Sprintf(f, a...)})
	}
	st.s.lg.Flush()
	st.s.lg.FlushPortBlocks()
	type rec struct {
		EventType  string    `json:"event_type"`
		PrivateIP  string    `json:"private_ip"`
		PublicIP   string    `json:"public_ip"`
		PortStart  int       `json:"port_start"`
		PortEnd    int       `json:"port_end"`
		PublicPort int       `json:"public_port"`
		Timestamp  time.Time `json:"timestamp"`
	}
	// N4 time dimension: an auditor resolves (public address, port, TIME) with the records' timestamps, i.e. reads the
	// records in TIMESTAMP order (the order in the file is an accident of which writer got the logger lock first).
	// Read that way the log must never assign a block while it still shows an overlapping block held by another
	// subscriber, and must end with exactly the live allocations. A record stamped with a time taken before the
	// block actually changed hands breaks this.
	type stamped struct {
		b      block
		ts     time.Time
		what   string
		sub    string
		assign bool
	}
	var seen []stamped
	held := map[string]block{}
	assigns, releases := map[string]int{}, map[string]int{}
	for _, line := range strings.Split(strings.TrimSpace(st.s.buf.String()), "\n") {
		if line == "" {
			continue
		}
		var r rec
		if err := json.Unmarshal([]byte(line), &r); err != nil {
			add("log", "unparsable log line %q", line)
			continue
		}
		if st.virtual && (r.EventType == "port_block_assign" || r.EventType == "allocate" || r.EventType == "port_block_release" || r.EventType == "deallocate") {
			stt := r.PortStart
			if r.EventType == "allocate" || (r.EventType == "deallocate" && r.PortStart == 0) {
				stt = r.PublicPort
			}
			nb := block{r.PublicIP, stt, stt + sc.c.per - 1}
			what := fmt.Sprintf("%s %v %s", r.EventType, nb, r.PrivateIP)
			if r.Timestamp.IsZero() {
				add("log-time", "record %q carries no timestamp", what)
			}
			seen = append(seen, stamped{nb, r.Timestamp, what, r.PrivateIP, r.EventType == "port_block_assign" || r.EventType == "allocate"})
		}
		switch r.EventType {
		case "port_block_assign", "allocate":
			stt := r.PortStart
			if r.EventType == "allocate" {
				stt = r.PublicPort
			}
			nb := block{r.PublicIP, stt, stt + sc.c.per - 1}
			for p, o := range held {
				if p != r.PrivateIP && o.pub == nb.pub && o.start <= nb.end && nb.start <= o.end {
					add("log-ambiguous", "log assigns %v to %s while the log still shows %s holding %v", nb, r.PrivateIP, p, o)
				}
			}
			held[r.PrivateIP] = nb
			assigns[r.PrivateIP]++
		case "port_block_release", "deallocate":
			delete(held, r.PrivateIP)
			releases[r.PrivateIP]++
		}
	}
	if st.virtual {
		sort.SliceStable(seen, func(i, j int) bool { return seen[i].ts.Before(seen[j].ts) })
		heldT := map[string]stamped{}
		for _, r := range seen {
			if !r.assign {
				delete(heldT, r.sub)
				continue
			}
			for p, o := range heldT {
				if p != r.sub && o.b.pub == r.b.pub && o.b.start <= r.b.end && r.b.start <= o.b.end {
					add("log-time-ambiguous", "read in timestamp order, record %q (%s) assigns a block while %q (%s) still shows %s holding an overlapping one: the time in between is attributed to two subscribers",
						r.what, r.ts.Format("15:04:05"), o.what, o.ts.Format("15:04:05"), p)
				}
			}
			heldT[r.sub] = r
		}
		for i, b := range live {
			if h, ok := heldT[subIP(i).String()]; !ok || h.b != b {
				add("log-time", "read in timestamp order the log ends with %v for subscriber %d, which holds %v", h.b, i, b)
			}
		}
		if len(heldT) != len(live) {
			var recs []string
			for _, r := range seen {
				recs = append(recs, r.ts.Format("15:04:05")+" "+r.what)
			}
			add("log-time", "read in timestamp order the log ends with %d held blocks, %d are live; records in timestamp order: %s", len(heldT), len(live), strings.Join(recs, " | "))
		}
	}
	// expected record counts from the calls that succeeded (pre + threads)
	wantA, wantD := map[string]int{}, map[string]int{}
	seenA := map[int]string{}
	note := func(op, res string) {
		if op == "F" {
			return
		}
		var i int
		fmt.Sscanf(op[1:], "%d", &i)
		ip := subIP(i).String()
		if op[0] == 'A' && res != "err" {
			if seenA[i] != res { // a re-allocate that returns the block already held logs nothing
				wantA[ip]++
				seenA[i] = res
			}
		}
		if op[0] == 'D' && res == "ok" && seenA[i] != "" {
			wantD[ip]++
			seenA[i] = ""
		}
	}
	for i, op := range sc.pre {
		note(op, st.preRes[i])
	}
	// thread calls: order between threads is unknown, so only per-subscriber totals are compared when each
	// subscriber is touched by a single thread (true for the logger scenarios)
	perSub := map[int]map[int]bool{}
	for _, c := range st.calls {
		if c.op == "F" {
			continue
		}
		var i int
		fmt.Sscanf(c.op[1:], "%d", &i)
		if perSub[i] == nil {
			perSub[i] = map[int]bool{}
		}
		perSub[i][c.th] = true
	}
	single := true
	for _, ths := range perSub {
		if len(ths) > 1 {
			single = false
		}
	}
	if single {
		for _, c := range st.calls {
			note(c.op, c.res)
		}
		for ip, n := range wantA {
			if assigns[ip] != n {
				add("log-missing", "%d block assignments happened for %s, the log has %d assign records", n, ip, assigns[ip])
			}
		}
		for ip, n := range assigns {
			if wantA[ip] == 0 && n > 0 {
				add("log-missing", "the log has %d assign records for %s, no assignment happened", n, ip)
			}
		}
		for ip, n := range wantD {
			if releases[ip] != n {
				add("log-missing", "%d releases happened for %s, the log has %d release records", n, ip, releases[ip])
			}
		}
		for i, b := range live {
			if hb, ok := held[subIP(i).String()]; !ok || hb != b {
				add("log", "subscriber %d holds %v, the log ends with %v", i, b, hb)
			}
		}
		if len(held) != len(live) {
			add("log", "log ends with %d held blocks, %d are live", len(held), len(live))
		}
	}
	return vs
}

// TestRacePass is the separate free-running pass (built with -race by bin/check in the thorough tier): the same
// scenario bodies on real goroutines and real locks, many rounds each; end-state invariants are evaluated too.
func TestRacePass(t *testing.T) {
	n := 0
	for _, sc := range scenarios(true) {
		for round := 0; round < 300; round++ {
			x := sched.RunFree(sc.scenario())
			if vs := checkSched(sc, x.Data.(*schedState)); len(vs) > 0 {
				fmt.Printf("RACEPASS-INVARIANT-FAIL free-running %s: %v\n", sc.name, vs)
			}
			n++
		}
	}
	fmt.Printf("RACEPASS executions=%d\n", n)
}

func runSched(run *report.Run) {
	bound := 2
	if run.Thorough() {
		bound = 3
	}
	for _, sc := range scenarios(run.Thorough()) {
		name := "sched:" + sc.name + "[" + sc.c.name + "]"
		if !run.WantPart(name) {
			continue
		}
		e := &sched.Explorer{Bound: bound, Budget: 5 * time.Minute}
		res := e.Explore(sc.scenario())
		run.AddPart(report.Part{Name: name, Engine: "B:sched-dfs", Bound: fmt.Sprintf("preemptions<=%d completed=%d maxpoints=%d", bound, res.Bound, res.MaxPoints),
			Executions: res.Executions, Outcomes: int64(len(res.Outcomes)), Exhaustive: res.Exhaustive, States: int64(len(res.Outcomes))})
		for _, f := range res.Failures {
			// determinism: the same schedule must produce the same observations twice
			x1 := sched.RunOnce(sc.scenario(), f.Choices)
			x2 := sched.RunOnce(sc.scenario(), f.Choices)
			if strings.Join(x1.Log, "|") != strings.Join(x2.Log, "|") || strings.Join(x1.Log, "|") != strings.Join(f.Log, "|") {
				run.HarnessError("non-deterministic replay of schedule in " + name)
				continue
			}
			for _, v := range f.Viols {
				tr := append([]string{"pre=" + strings.Join(sc.pre, ",")}, f.Schedule...)
				run.Violation(report.Violation{Part: name, Kind: v.Kind, Site: v.Site, Detail: v.Detail + " | observations: " + strings.Join(f.Log, " "), Config: sc.c.name, Trace: tr,
					Extra: map[string]any{"choices": f.Choices}})
			}
		}
		if len(res.Failures) == 0 {
			var o []string
			for k := range res.Outcomes {
				o = append(o, k)
			}
			sort.Strings(o)
			run.Sample(map[string]any{"part": name, "executions": res.Executions, "outcomes": o})
		}
	}
}

func replaySched(run *report.Run, v report.Violation) int {
	for _, sc := range scenarios(true) {
		if "sched:"+sc.name+"["+sc.c.name+"]" != v.Part {
			continue
		}
		var choices []int
		if cs, ok := v.Extra["choices"].([]any); ok {
			for _, c := range cs {
				choices = append(choices, int(c.(float64)))
			}
		}
		x := sched.RunOnce(sc.scenario(), choices)
		vs := checkSched(sc, x.Data.(*schedState))
		if x.PanicText != "" {
			vs = append(vs, sched.Viol{Kind: "panic", Detail: x.PanicText})
		}
		for _, f := range vs {
			fmt.Printf("VIOLATION property=C10 replay=%s\n  kind=%s site=%s detail=%s\n  observations: %s\n", *report.FlagReplay, f.Kind, f.Site, f.Detail, strings.Join(x.Log, " "))
		}
		if len(vs) > 0 {
			return 1
		}
		fmt.Println("replay: no violation")
		return 0
	}
	fmt.Println("HARNESS-ERROR unknown scenario", v.Part)
	return 2
}
