// C10 — CGNAT port blocks never overlap and are always attributable.
// Engine A: BFS over Allocate/Deallocate/Get histories on the real nat.Manager
// with a real nat.Logger writing to a buffer. Engine B part lives in sched_test.go.
package c10

import (
	"bytes"
	"encoding/binary"
	"encoding/json"
	"fmt"
	"net"
	"os"
	"path/filepath"
	"sort"
	"strings"
	"testing"
	"time"

	cebpf "github.com/cilium/ebpf"
	"github.com/codelaboratoryltd/bng/pkg/nat"
	"go.uber.org/zap"

	"verif/deepdump"
	"verif/explore"
	"verif/report"
)

type cfg struct {
	name            string
	start, end, per int
	publics         int
	subs            int
	bulk            bool
	fileLog         int // >0: file-backed logger with MaxFileSize = fileLog bytes (log rotation in play); records are read back from all files
	mapCap          int // >0: a real kernel subscriber_nat map with this capacity (a later write fails with E2BIG: fault injection)
}

type block struct {
	pub        string
	start, end int
}

type sys struct {
	logDir           string
	kmap             *cebpf.Map
	c                cfg
	m                *nat.Manager
	lg               *nat.Logger
	buf              *bytes.Buffer
	ref              map[int]block // reference: live holder -> block (from API observations)
	viols            []explore.Viol
	nAlloc, nDealloc int // successful alloc/dealloc operations that must be logged
	// fault dimension of the file-backed configurations: one operation of the history runs while the log directory
	// is unreachable (renamed away and back). Records written DURING the fault may be lost and are not judged;
	// every record written after it must be on disk.
	faultUsed        bool
	fAlloc, fDealloc int // successful operations executed under the fault (their records are optional)
	// retention: "Quiet+Sweep" = nothing is logged for longer than MaxAge (all files of the log directory are
	// back-dated), then the hourly retention sweep runs. Rotated files may legitimately age out: their content is
	// archived by the harness first (as an operator would before deleting history). The LIVE file holds the only
	// copy of its records and receives all later ones: it must survive.
	sweepUsed bool
	archive   bytes.Buffer
	// "grow" configurations: the pool starts with 203.0.113.2 only and is extended WHILE allocations exist
	// (AddPublic(1): a numerically lower address, AddPublic(3): a higher one, AddPublic(2): the address it
	// already has, e.g. an overlapping range added by the operator); each at most once per history.
	pubs  map[string]bool
	grown map[int]bool
}

func subIP(i int) net.IP { return net.IPv4(100, 64, 0, byte(10+i)) }

func newSys(c cfg) *sys {
	m, err := nat.NewManager(nat.ManagerConfig{Interface: "lo", PortsPerSubscriber: c.per, PortRangeStart: c.start, PortRangeEnd: c.end}, zap.NewNop())
	if err != nil {
		panic(err)
	}
	lcfg := nat.LoggerConfig{Enabled: true, Format: nat.LogFormatJSON, BulkLogging: c.bulk, BufferSize: 50}
	logDir := ""
	if c.fileLog > 0 {
		base := filepath.Join(report.Root(), ".work", "c10-logs")
		os.MkdirAll(base, 0o755)
		logDir, _ = os.MkdirTemp(base, "l")
		lcfg.FilePath = filepath.Join(logDir, "nat.log")
		lcfg.MaxFileSize = int64(c.fileLog)
		lcfg.BufferSize = 1     // write through: every record crosses the rotation logic on its own
		lcfg.MaxAge = time.Hour // retention is on: see the "Quiet+Sweep" operation
	}
	lg, err := nat.NewLogger(lcfg, zap.NewNop())
	if err != nil {
		panic(err)
	}
	buf := &bytes.Buffer{}
	if c.fileLog == 0 {
		lg.VerifSetWriter(buf)
	}
	m.SetLogger(lg)
	if strings.Contains(c.name, "grow") {
		if err := m.AddPublicIP(net.IPv4(203, 0, 113, 2)); err != nil {
			panic(err)
		}
	} else if strings.Contains(c.name, "range-api") {
		// the pool is configured through the range API (one call for all public addresses)
		if err := m.AddPublicIPRange(net.IPv4(203, 0, 113, 1), net.IPv4(203, 0, 113, byte(c.publics))); err != nil {
			panic(err)
		}
	} else {
		for i := 0; i < c.publics; i++ {
			if err := m.AddPublicIP(net.IPv4(203, 0, 113, byte(1+i))); err != nil {
				panic(err)
			}
		}
	}
	st := &sys{c: c, m: m, lg: lg, buf: buf, ref: map[int]block{}, logDir: logDir}
	if strings.Contains(c.name, "grow") {
		st.pubs, st.grown = map[string]bool{"203.0.113.2": true}, map[int]bool{}
	}
	if c.mapCap > 0 {
		// the value size is what the control plane marshals (checked against the C declaration by C06)
		km, err := cebpf.NewMap(&cebpf.MapSpec{Type: cebpf.Hash, KeySize: 4, ValueSize: uint32(binary.Size(nat.SubscriberNAT{})), MaxEntries: uint32(c.mapCap)})
		if err == nil {
			st.kmap = km
			m.VerifSetMaps(map[string]*cebpf.Map{"subscriber_nat": km})
		}
	}
	return st
}

func (s *sys) Ops() []string {
	var ops []string
	for i := 0; i < s.c.subs; i++ {
		ops = append(ops, fmt.Sprintf("Allocate(%d)", i), fmt.Sprintf("Deallocate(%d)", i))
	}
	if s.pubs != nil {
		for _, x := range []int{1, 3, 2} {
			if !s.grown[x] {
				ops = append(ops, fmt.Sprintf("AddPublic(%d)", x))
			}
		}
	}
	if s.logDir != "" && !s.sweepUsed {
		ops = append(ops, "Quiet+Sweep")
	}
	if s.logDir != "" && !s.faultUsed { // at most one deviation per history
		for i := 0; i < s.c.subs; i++ {
			ops = append(ops, fmt.Sprintf("Allocate(%d)@nodir", i), fmt.Sprintf("Deallocate(%d)@nodir", i))
		}
	}
	return ops
}

func (s *sys) v(kind, site, f string, a ...any) {
	s.viols = append(s.viols, explore.Viol{Kind: kind, Site: site, Detail: fmt.Sprintf(f, a...)})
}

func (s *sys) Apply(op string) string {
	var i int
	if op == "Quiet+Sweep" {
		s.sweepUsed = true
		s.lg.Flush()
		s.lg.FlushPortBlocks()
		names, _ := filepath.Glob(filepath.Join(s.logDir, "nat.log.*"))
		sort.Strings(names)
		for _, n := range names {
			b, _ := os.ReadFile(n)
			s.archive.Write(b)
			os.Remove(n) // archived: whether retention would have deleted it or not no longer matters
		}
		old := time.Now().Add(-3 * time.Hour)
		os.Chtimes(filepath.Join(s.logDir, "nat.log"), old, old)
		s.lg.VerifCleanOldLogs()
		return "swept"
	}
	if strings.HasPrefix(op, "AddPublic(") {
		fmt.Sscanf(op, "AddPublic(%d)", &i)
		s.grown[i] = true
		ip := net.IPv4(203, 0, 113, byte(i))
		if err := s.m.AddPublicIP(ip); err != nil {
			return "err"
		}
		s.pubs[ip.String()] = true
		return "ok"
	}
	fault := strings.HasSuffix(op, "@nodir")
	if fault {
		op = strings.TrimSuffix(op, "@nodir")
		s.faultUsed = true
		if err := os.Rename(s.logDir, s.logDir+".away"); err != nil {
			panic(err)
		}
		defer func() {
			if err := os.Rename(s.logDir+".away", s.logDir); err != nil {
				panic(err)
			}
		}()
	}
	switch {
	case strings.HasPrefix(op, "Allocate("):
		fmt.Sscanf(op, "Allocate(%d)", &i)
		a, err := s.m.AllocateNAT(subIP(i))
		if err != nil {
			if old, held := s.ref[i]; held {
				s.v("stability", "AllocateNAT", "holder %d of %v got error on re-allocate: %v", i, old, err)
			}
			return "err"
		}
		b := block{a.PublicIP.String(), int(a.PortStart), int(a.PortEnd)}
		if old, held := s.ref[i]; held {
			if old != b {
				s.v("stability", "AllocateNAT", "holder %d had %v, re-allocate returned %v", i, old, b)
			}
		} else {
			s.nAlloc++
			if fault {
				s.fAlloc++
			}
		}
		s.ref[i] = b
		return fmt.Sprintf("%s:%d-%d", b.pub, b.start, b.end)
	case strings.HasPrefix(op, "Deallocate("):
		fmt.Sscanf(op, "Deallocate(%d)", &i)
		err := s.m.DeallocateNAT(subIP(i))
		if err != nil {
			return "err"
		}
		if _, held := s.ref[i]; held {
			s.nDealloc++
			if fault {
				s.fDealloc++
			}
		}
		delete(s.ref, i)
		return "ok"
	}
	panic("unknown op " + op)
}

func (s *sys) Fingerprint() string {
	return deepdump.Dump(s.m, deepdump.Options{IgnoreTimes: true, SkipTypes: map[string]bool{"nat.Logger": true, "nat.ManagerConfig": true}}) +
		fmt.Sprint(s.buf.Len() > 0, s.grown) + s.logFiles()
}

// logFiles: the observable state of a file-backed log (the logger object itself is not part of the fingerprint):
// size of the current file, number of rotated files, whether the fault was used.
func (s *sys) logFiles() string {
	if s.logDir == "" {
		return ""
	}
	var cur int64 = -1
	if fi, err := os.Stat(filepath.Join(s.logDir, "nat.log")); err == nil {
		cur = fi.Size()
	}
	names, _ := filepath.Glob(filepath.Join(s.logDir, "nat.log.*"))
	return fmt.Sprintf("|file=%d rotated=%d fault=%v/%d/%d sweep=%v", cur, len(names), s.faultUsed, s.fAlloc, s.fDealloc, s.sweepUsed)
}

// Check: N1 non-overlap, N2 range/size, N3 stability via GetAllocation, N4 log attribution.
func (s *sys) Check() []explore.Viol {
	ids := make([]int, 0, len(s.ref))
	for i := range s.ref {
		ids = append(ids, i)
	}
	sort.Ints(ids)
	for _, i := range ids {
		b := s.ref[i]
		// N2: a configured public address
		if s.pubs != nil {
			if !s.pubs[b.pub] {
				s.v("range", "AllocateNAT", "holder %d block %v is on a public address that was not configured (%v)", i, b, s.pubs)
			}
		} else if ip := net.ParseIP(b.pub).To4(); ip == nil || ip[0] != 203 || ip[1] != 0 || ip[2] != 113 || int(ip[3]) < 1 || int(ip[3]) > s.c.publics {
			s.v("range", "AllocateNAT", "holder %d block %v is on a public address that was not configured (203.0.113.1..%d)", i, b, s.c.publics)
		}
		if b.start < s.c.start || b.end > s.c.end || b.end < b.start {
			s.v("range", "AllocateNAT", "holder %d block %v outside configured range %d-%d", i, b, s.c.start, s.c.end)
		}
		if b.end-b.start+1 != s.c.per {
			s.v("size", "AllocateNAT", "holder %d block %v has size %d, configured %d", i, b, b.end-b.start+1, s.c.per)
		}
		// N3: GetAllocation agrees
		g := s.m.GetAllocation(subIP(i))
		if g == nil {
			s.v("stability", "GetAllocation", "holder %d has block %v but GetAllocation returns nil", i, b)
		} else if gb := (block{g.PublicIP.String(), int(g.PortStart), int(g.PortEnd)}); gb != b {
			s.v("stability", "GetAllocation", "holder %d has %v, GetAllocation says %v", i, b, gb)
		}
		// N1
		for _, j := range ids {
			if j <= i {
				continue
			}
			c := s.ref[j]
			if b.pub == c.pub && b.start <= c.end && c.start <= b.end {
				s.v("overlap", "AllocateNAT", "holders %d %v and %d %v overlap", i, b, j, c)
			}
		}
	}
	for i := 0; i < s.c.subs; i++ {
		if _, held := s.ref[i]; !held {
			if g := s.m.GetAllocation(subIP(i)); g != nil {
				s.v("stability", "GetAllocation", "non-holder %d has allocation %v:%d", i, g.PublicIP, g.PortStart)
			}
		}
	}
	if s.kmap != nil {
		defer s.kmap.Close()
		// the kernel map holds exactly the live allocations
		n := 0
		it := s.kmap.Iterate()
		var k uint32
		var v []byte
		for it.Next(&k, &v) {
			n++
		}
		if n != len(s.ref) {
			s.v("kernel-map", "subscriber_nat", "kernel map holds %d entries, %d allocations are live", n, len(s.ref))
		}
	}
	subsTotal := 0
	for _, pe := range s.m.GetPoolStats() {
		subsTotal += pe.Subscribers
	}
	if subsTotal != len(s.ref) {
		s.v("count", "GetPoolStats", "pool entries count %d subscribers, %d allocations are live", subsTotal, len(s.ref))
	}
	if n := s.m.GetAllocationCount(); n != len(s.ref) {
		s.v("count", "GetAllocationCount", "manager reports %d allocations, reference has %d", n, len(s.ref))
	}
	// N4: the log alone attributes every (public, port) to exactly the reference holder
	s.lg.Flush()
	s.lg.FlushPortBlocks()
	if s.logDir != "" {
		// read the records back from every file of the log directory: rotated files (oldest first), then the current one
		s.lg.Stop()
		names, _ := filepath.Glob(filepath.Join(s.logDir, "nat.log.*"))
		sort.Strings(names)
		names = append(names, filepath.Join(s.logDir, "nat.log"))
		s.buf.Write(s.archive.Bytes())
		for _, n := range names {
			b, _ := os.ReadFile(n)
			s.buf.Write(b)
		}
		os.RemoveAll(s.logDir)
	}
	type rec struct {
		EventType  string `json:"event_type"`
		PrivateIP  string `json:"private_ip"`
		PublicIP   string `json:"public_ip"`
		PortStart  int    `json:"port_start"`
		PortEnd    int    `json:"port_end"`
		PublicPort int    `json:"public_port"`
	}
	// first pass: count the records. With a fault in the history the records of the operation that ran under it are
	// optional; if any of them is missing the log is (legitimately) not a complete history and only the counts of
	// the records written outside the fault are demanded.
	lines := strings.Split(strings.TrimSpace(s.buf.String()), "\n")
	ca, cr := 0, 0
	for _, line := range lines {
		var r rec
		if json.Unmarshal([]byte(line), &r) == nil {
			switch r.EventType {
			case "port_block_assign", "allocate":
				ca++
			case "port_block_release", "deallocate":
				cr++
			}
		}
	}
	if s.faultUsed && (ca != s.nAlloc || cr != s.nDealloc) {
		if ca < s.nAlloc-s.fAlloc || ca > s.nAlloc || cr < s.nDealloc-s.fDealloc || cr > s.nDealloc {
			s.v("log-missing", "Logger", "%d allocations / %d releases happened (%d / %d of them while the log directory was unreachable), log has %d / %d records: records written AFTER the fault are missing",
				s.nAlloc, s.nDealloc, s.fAlloc, s.fDealloc, ca, cr)
		}
		return s.viols
	}
	live := map[string]block{} // private ip -> block, reconstructed from the log only
	assigns, releases := 0, 0
	for _, line := range lines {
		if line == "" {
			continue
		}
		var r rec
		if err := json.Unmarshal([]byte(line), &r); err != nil {
			s.v("log", "Logger", "unparsable log line %q", line)
			continue
		}
		switch r.EventType {
		case "port_block_assign", "allocate":
			st := r.PortStart
			if r.EventType == "allocate" {
				st = r.PublicPort
			}
			en := r.PortEnd
			if en == 0 {
				en = st + s.c.per - 1 // non-bulk records carry the block start; size is configuration
			}
			nb := block{r.PublicIP, st, en}
			for p, o := range live {
				if p != r.PrivateIP && o.pub == nb.pub && o.start <= nb.end && nb.start <= o.end {
					s.v("log-ambiguous", "Logger", "log assigns %v to %s while %s still holds %v: (address, port, time) maps to two subscribers", nb, r.PrivateIP, p, o)
				}
			}
			live[r.PrivateIP] = nb
			assigns++
		case "port_block_release", "deallocate":
			st := r.PortStart
			if r.EventType == "deallocate" {
				st = r.PublicPort
			}
			o, ok := live[r.PrivateIP]
			if !ok || o.pub != r.PublicIP || o.start != st {
				s.v("log", "Logger", "log releases %s %s:%d which the log does not show as held (%v)", r.PrivateIP, r.PublicIP, st, o)
			}
			delete(live, r.PrivateIP)
			releases++
		}
	}
	if assigns != s.nAlloc || releases != s.nDealloc {
		s.v("log-missing", "Logger", "%d allocations / %d releases happened, log has %d / %d records", s.nAlloc, s.nDealloc, assigns, releases)
	}
	for _, i := range ids {
		if lb, ok := live[subIP(i).String()]; !ok || lb != s.ref[i] {
			s.v("log", "Logger", "log-derived holder of %d is %v, reference %v", i, lb, s.ref[i])
		}
	}
	if len(live) != len(s.ref) {
		s.v("log", "Logger", "log shows %d live blocks, reference %d", len(live), len(s.ref))
	}
	return s.viols
}

func configs(thorough bool) []cfg {
	subs := 4
	if thorough {
		subs = 6
	}
	var out []cfg
	for _, bulk := range []bool{true, false} {
		out = append(out,
			cfg{"std-1ip", 1024, 65535, 1024, 1, subs, bulk, 0, 0},
			cfg{"nondividing-1ip", 1000, 1009, 3, 1, subs, bulk, 0, 0},
			cfg{"nondividing-2ip", 1000, 1009, 3, 2, subs, bulk, 0, 0},
			cfg{"edge65535-2ip", 65530, 65535, 2, 2, subs, bulk, 0, 0},
			cfg{"singleblock-3ip", 1024, 1031, 8, 3, subs, bulk, 0, 0},
		)
	}
	// the same geometries with the pool built through AddPublicIPRange instead of repeated AddPublicIP
	out = append(out,
		cfg{"nondividing-2ip range-api", 1000, 1009, 3, 2, subs, true, 0, 0},
		cfg{"singleblock-3ip range-api", 1024, 1031, 8, 3, subs, false, 0, 0},
	)
	// the pool is extended while allocations exist (lower / higher / already present address)
	out = append(out,
		cfg{"singleblock-grow", 1024, 1031, 8, 1, subs, true, 0, 0},
		cfg{"nondividing-grow", 1000, 1009, 3, 1, subs, false, 0, 0},
	)
	// file-backed logger with rotation: at most one rotation within the explored depth (700 bytes), and several (250 bytes)
	out = append(out,
		cfg{"nondividing-2ip file-log-rotate700", 1000, 1009, 3, 2, 3, true, 700, 0},
		cfg{"nondividing-2ip file-log-rotate250", 1000, 1009, 3, 2, 3, false, 250, 0},
	)
	// fault dimension: the kernel map is full after 1 / 2 entries, so a later AllocateNAT fails at its map write
	out = append(out,
		cfg{"nondividing-2ip kernel-map-cap1", 1000, 1009, 3, 2, subs, true, 0, 1},
		cfg{"nondividing-1ip kernel-map-cap2", 1000, 1009, 3, 1, subs, false, 0, 2},
	)
	return out
}

func classify(v *report.Violation) {}

func models(run *report.Run) []*explore.Model {
	depth, nd := 6, 4
	if run.Thorough() {
		depth, nd = 8, 5
	}
	var ms []*explore.Model
	for _, c := range configs(run.Thorough()) {
		c := c
		d, n := depth, nd
		if c.fileLog > 0 {
			// file-backed configurations carry two extra dimensions (directory fault, retention sweep) and do real
			// file I/O per step: quick 5 / thorough 6 levels instead of 6 / 8
			d, n = depth-1, nd-1
			if run.Thorough() {
				d, n = depth-2, nd-1
			}
		}
		ms = append(ms, &explore.Model{
			Name: "nat.Manager", Config: fmt.Sprintf("%s bulk=%v subs=%d", c.name, c.bulk, c.subs),
			New:   func() explore.System { return newSys(c) },
			Depth: d, NoDedupDepth: n, Classify: classify, Budget: 6 * time.Minute,
		})
	}
	return ms
}

func TestCheck(t *testing.T) {
	run := report.New("C10", "model_checking")
	run.Rule = "BFS over Allocate/Deallocate histories on the real nat.Manager+nat.Logger; every state checked for non-overlap, range/size, stability, log attribution"
	run.Assumptions = []string{"eBPF maps nil (control-plane bookkeeping only)", "log order = write order (timestamps not used)"}
	ms := models(run)
	if *report.FlagReplay != "" {
		os.Exit(replay(run, ms))
	}
	for _, m := range ms {
		if run.WantPart(m.Name) {
			m.Run(run)
		}
	}
	runSched(run)
	os.Exit(run.Finish())
}

func replay(run *report.Run, ms []*explore.Model) int {
	v, err := report.LoadReplay(*report.FlagReplay)
	if err != nil {
		fmt.Println("HARNESS-ERROR", err)
		return 2
	}
	if strings.HasPrefix(v.Part, "sched:") {
		return replaySched(run, v)
	}
	for _, m := range ms {
		if m.Name+"["+m.Config+"]" == v.Part {
			vs, p := m.Replay(v.Trace)
			if p != "" {
				fmt.Printf("VIOLATION property=C10 replay=%s\n  panic: %s\n", *report.FlagReplay, p)
				return 1
			}
			for _, x := range vs {
				fmt.Printf("VIOLATION property=C10 replay=%s\n  kind=%s site=%s detail=%s\n", *report.FlagReplay, x.Kind, x.Site, x.Detail)
			}
			if len(vs) > 0 {
				return 1
			}
			fmt.Println("replay: no violation")
			return 0
		}
	}
	fmt.Println("HARNESS-ERROR unknown part", v.Part)
	return 2
}
