// C11 — PPP control protocols open only on mutual agreement and always terminate.
//
// One adapter drives the REAL LCPStateMachine, IPCPStateMachine and
// IPV6CPStateMachine through the RFC 1661 event alphabet. Engine A (this file):
// breadth-first search with fingerprints, every execution inside a synctest
// bubble (restart-timer expiry = time.Sleep(restart); synctest.Wait()).
// Engine B (sched_test.go): timer callback versus packet interleavings.
//
// The monitors are written from the property statement / RFC 1661, not from the
// code: they only look at the packets handed to the send callback, at
// IsOpened()/GetState() and at the events the harness itself delivered.
package c11

import (
	"bytes"
	"encoding/binary"
	"fmt"
	"net"
	"os"
	"sort"
	"strings"
	"sync"
	"testing"
	"testing/synctest"
	"time"

	"github.com/codelaboratoryltd/bng/pkg/pppoe"
	"go.uber.org/zap"

	"verif/deepdump"
	"verif/explore"
	"verif/report"
	"verif/sched"
)

const restart = 3 * time.Second

// ---------------------------------------------------------------- configuration

type cfg struct {
	proto   string // "lcp" | "ipcp" | "ipv6cp"
	peer    string // ipcp only: "static" | "pool" | "none"
	maxConf int
	maxTerm int // lcp only (IPCP/IPv6CP have a single MaxRetransmit)
	maxFail int // lcp only: Max-Failure (Configure-Naks before Naks are converted to Rejects)
}

func (c cfg) String() string {
	s := c.proto
	if c.proto == "ipcp" {
		s += " peer=" + c.peer
	}
	if c.proto == "lcp" {
		return fmt.Sprintf("%s max-configure=%d max-terminate=%d max-failure=%d", s, c.maxConf, c.maxTerm, c.maxFail)
	}
	return fmt.Sprintf("%s max-retransmit=%d", s, c.maxConf)
}

var (
	assignedIP = net.IPv4(10, 0, 0, 50).To4()  // the address assigned to the session
	otherIP    = net.IPv4(10, 0, 0, 66).To4()  // an address nobody assigned
	localIP    = net.IPv4(10, 0, 0, 1).To4()   // our own IPCP address
	nakLocalIP = net.IPv4(10, 0, 0, 2).To4()   // suggested by the peer in a Configure-Nak
	dnsIP      = net.IPv4(10, 0, 0, 53).To4()  // configured primary DNS
	localMagic = uint32(0x11223344)
	localIfID  = uint64(0x0200000000000001)
)

// fake pool: the source of truth for "the address assigned to the session" in
// peer=pool mode. An address is assigned from Allocate until the next Release;
// successive allocations alternate between two addresses so that a stale
// address kept across Down/Up would be noticed.
type pool struct {
	allocs, releases int
	cur              net.IP // nil = nothing assigned at the moment
}

func (p *pool) Allocate(string) net.IP {
	p.cur = net.IPv4(10, 0, 0, byte(50+p.allocs%2)).To4()
	p.allocs++
	return p.cur
}

func (p *pool) Release(string) { p.releases++; p.cur = nil }

// machine is the common surface of the three automata.
type machine interface {
	Up()
	Down()
	Open()
	Close()
	ReceivePacket([]byte) error
	IsOpened() bool
	VerifC11RestartTimer() any
}

type armed interface{ Armed() bool }

// ---------------------------------------------------------------- system under test + monitors

type pkt struct {
	code, id byte
	data     []byte
}

type sys struct {
	c     cfg
	m     machine
	state func() string
	pool  *pool
	obj   any // real object for deepdump

	mu   sync.Mutex // the send callback may run on a timer goroutine
	sent []pkt

	// monitor state (all derived from delivered events and sent packets)
	haveCR, havePrev bool
	lastCR, prevCR   byte   // identifiers of our most recent / previous Configure-Request
	lastCRData       []byte // options of our most recent Configure-Request
	acked            bool   // an Ack carrying lastCR was received after lastCR was sent
	weAcked          bool   // our reply to the peer's most recent Configure-Request was an Ack
	peerID           byte   // identifier counter of the simulated peer (starts at 100: never collides with the automaton's own counter)
	haveOrig         bool
	lastOrig         byte   // identifier of the last packet the automaton ORIGINATED (Configure-/Terminate-Request, Code-/Protocol-Reject, Echo-Request), i.e. the last value of its own identifier counter seen on the wire
	crRun, trRun     int    // Configure-/Terminate-Requests sent since the last event that was not a timeout
	assigned         net.IP // address assigned to the session (nil = none)
	scanned          int    // sent[:scanned] already processed by the monitors
	concurrent       bool   // Engine B concurrent phase: retransmission counting suspended
	altAssigned      net.IP // Engine B concurrent phase: the address assigned when the phase began (a racing Up/Down may change it)
	altValid         bool
	nakRun           int    // Configure-Naks sent since the last Configure-Ack sent / Down (Max-Failure is about this run)
	inflight         map[byte]int // identifiers of Configure-Acks currently being delivered (possibly not yet processed)
	hist             []string
	histState        []string // automaton state before each event
	stuckOrigin      string   // "<state>+<event>@<state>" after which the automaton first was in a transient state with no timer
	viols            []explore.Viol
}

func newSys(c cfg) *sys {
	s := &sys{c: c, peerID: 100, inflight: map[byte]int{}}
	lg := zap.NewNop()
	send := func(proto uint16, data []byte) {
		p := pkt{}
		if len(data) >= 4 {
			p.code, p.id = data[0], data[1]
			p.data = append([]byte(nil), data[4:]...)
		}
		s.mu.Lock()
		s.sent = append(s.sent, p)
		s.track(p)
		s.mu.Unlock()
	}
	switch c.proto {
	case "lcp":
		lc := pppoe.DefaultLCPConfig()
		lc.MagicNumber = localMagic
		lc.MaxConfigure, lc.MaxTerminate, lc.MaxRetransmit = c.maxConf, c.maxTerm, c.maxConf
		lc.RestartTimer = restart
		lc.MaxFailure = c.maxFail
		m, err := pppoe.NewLCPStateMachine(lc, send, lg)
		if err != nil {
			panic(err)
		}
		s.m, s.obj, s.state = m, m, func() string { return m.GetState().String() }
		m.SetOnStateChange(func(_, n pppoe.LCPState) { s.entered(n.String()) })
	case "ipcp":
		ic := pppoe.DefaultIPCPConfig()
		ic.LocalIP = localIP
		ic.PrimaryDNS = dnsIP
		ic.MaxRetransmit, ic.RestartTimer = c.maxConf, restart
		switch c.peer {
		case "static":
			ic.PeerIP = assignedIP
			s.assigned = assignedIP
		case "pool":
			s.pool = &pool{}
			ic.IPPool = s.pool
		}
		m := pppoe.NewIPCPStateMachine(ic, "sess-1", send, lg)
		s.m, s.obj, s.state = m, m, func() string { return m.GetState().String() }
		m.SetOnStateChange(func(_, n pppoe.IPCPState) { s.entered(n.String()) })
	case "ipv6cp":
		vc := pppoe.IPV6CPConfig{LocalInterfaceID: localIfID, MaxRetransmit: c.maxConf, RestartTimer: restart}
		m, err := pppoe.NewIPV6CPStateMachine(vc, send, lg)
		if err != nil {
			panic(err)
		}
		s.m, s.obj, s.state = m, m, func() string { return m.GetState().String() }
		m.SetOnStateChange(func(_, n pppoe.IPV6CPState) { s.entered(n.String()) })
	}
	return s
}

// track: P1 bookkeeping, done the moment a packet is handed to the send
// callback (called with s.mu held). What the automaton has put on the wire is
// the only source for "our most recent Configure-Request" and "our last reply".
func (s *sys) track(p pkt) {
	switch p.code {
	case 1, 5, 7, 8, 9:
		s.lastOrig, s.haveOrig = p.id, true
	}
	switch p.code {
	case 1:
		if s.haveCR {
			s.prevCR, s.havePrev = s.lastCR, true
		}
		s.lastCR, s.lastCRData, s.haveCR = p.id, p.data, true
		s.acked = false
	case 2:
		s.weAcked, s.nakRun = true, 0
	case 3:
		s.weAcked = false
		s.nakRun++
	case 4:
		s.weAcked = false
	}
}

// entered: This-Layer-Up observed through the state-change callback. P1 is
// evaluated at the very moment the automaton reports Opened, so that an Opened
// that is left again before the event (or the concurrent phase) ends is seen.
// A Configure-Ack that is being delivered right now counts as received.
func (s *sys) entered(state string) {
	if state != "Opened" {
		return
	}
	s.mu.Lock()
	ack := s.acked || (s.haveCR && s.inflight[s.lastCR] > 0)
	we, last := s.weAcked, s.lastCR
	s.mu.Unlock()
	if !(ack && we) {
		s.v("P1-opened-without-agreement", "enter-Opened", "the automaton entered Opened but peer-acked-our-latest-request=%v (latest id %d) we-acked-peer's-latest-request=%v", ack, last, we)
	}
}

func (s *sys) v(kind, site, f string, a ...any) {
	s.viols = append(s.viols, explore.Viol{Kind: kind, Site: site, Detail: fmt.Sprintf(f, a...) + " | history: " + strings.Join(s.hist, " ")})
}

func (s *sys) timerArmed() bool {
	t := s.m.VerifC11RestartTimer()
	if t == nil {
		return false
	}
	a, ok := t.(armed)
	if !ok {
		panic("C11 needs pkg/pppoe compiled from the time-rewritten copy (REWRITE pppoe:sync,go,time)")
	}
	return a.Armed()
}

// ---------------------------------------------------------------- option encodings and the oracle's view of them

func opt(t byte, d ...byte) []byte { return append([]byte{t, byte(2 + len(d))}, d...) }
func u16(v uint16) []byte         { b := make([]byte, 2); binary.BigEndian.PutUint16(b, v); return b }
func u32(v uint32) []byte         { b := make([]byte, 4); binary.BigEndian.PutUint32(b, v); return b }
func u64(v uint64) []byte         { b := make([]byte, 8); binary.BigEndian.PutUint64(b, v); return b }
func cat(bs ...[]byte) []byte     { return bytes.Join(bs, nil) }

// reqSpec is one Configure-Request of the alphabet with the oracle's
// classification of each option: which ones a peer may legitimately Nak and
// which ones it may legitimately Reject (RFC 1661 5.3/5.4; RFC 2516 for the MRU
// ceiling; RFC 1332 / RFC 5072 for the NCP options).
type reqSpec struct {
	opts     []byte
	nakTypes map[byte]bool // option types that are "offending: value not acceptable"
	rejOpts  [][]byte      // encoded options that may be Rejected: not recognisable / not negotiable, and (Max-Failure, RFC 1661 4.6) value-unacceptable ones, always exactly as they stood in the request
}

func (s *sys) request(name string) reqSpec {
	switch s.c.proto {
	case "lcp":
		okMRU, okMagic := opt(1, u16(1492)...), opt(5, u32(0x55667788)...)
		switch name {
		case "RCR+":
			return reqSpec{opts: cat(okMRU, okMagic)}
		case "RCR+pfc":
			return reqSpec{opts: cat(okMRU, okMagic, opt(7), opt(8))}
		case "RCR-nak": // MRU above the PPPoE ceiling
			return reqSpec{opts: cat(opt(1, u16(2000)...), okMagic), nakTypes: map[byte]bool{1: true}, rejOpts: [][]byte{opt(1, u16(2000)...)}}
		case "RCR-rej": // unknown option type
			return reqSpec{opts: cat(okMRU, opt(0x63, 1, 2)), rejOpts: [][]byte{opt(0x63, 1, 2)}}
		case "RCR-mixed": // acceptable + value-unacceptable (magic 0) + unknown
			return reqSpec{opts: cat(okMRU, opt(5, u32(0)...), opt(0x63, 1, 2)), nakTypes: map[byte]bool{5: true}, rejOpts: [][]byte{opt(0x63, 1, 2), opt(5, u32(0)...)}}
		}
	case "ipcp":
		// An IP-Address option is acceptable only if it names the address assigned
		// to the session; anything else (0.0.0.0, a foreign address, any address
		// while nothing is assigned) is an offending option that may be Nak'd with
		// the assigned address or, when there is none to offer, Rejected.
		vj := opt(2, 0, 0x2d, 15, 1)     // Van Jacobson compression: not supported -> Reject
		dns0 := opt(129, 0, 0, 0, 0)     // DNS 0.0.0.0: to be Nak'd with the configured server
		spec := func(ip net.IP, extra ...[]byte) reqSpec {
			a := opt(3, ip...)
			r := reqSpec{opts: a, nakTypes: map[byte]bool{}}
			if s.assigned == nil || !ip.Equal(s.assigned) {
				r.nakTypes[3] = true
				r.rejOpts = append(r.rejOpts, a)
			}
			for _, e := range extra {
				r.opts = cat(r.opts, e)
				switch e[0] {
				case 2:
					r.rejOpts = append(r.rejOpts, e)
				case 129:
					r.nakTypes[129] = true
				}
			}
			return r
		}
		switch name {
		case "RCR(0.0.0.0)":
			return spec(net.IPv4zero.To4())
		case "RCR(assigned)":
			return spec(s.wanted())
		case "RCR(other)":
			return spec(otherIP)
		case "RCR-rej":
			return spec(s.wanted(), vj)
		case "RCR-mixed":
			return spec(otherIP, dns0, vj)
		}
	case "ipv6cp":
		switch name {
		case "RCR+":
			return reqSpec{opts: opt(1, u64(0x0200000000000099)...)}
		case "RCR-nak": // zero interface identifier must be Nak'd (RFC 5072 4.1)
			return reqSpec{opts: opt(1, u64(0)...), nakTypes: map[byte]bool{1: true}, rejOpts: [][]byte{opt(1, u64(0)...)}}
		case "RCR-rej":
			return reqSpec{opts: cat(opt(1, u64(0x0200000000000099)...), opt(2, 0, 0x61)), rejOpts: [][]byte{opt(2, 0, 0x61)}}
		case "RCR-mixed":
			return reqSpec{opts: cat(opt(1, u64(0)...), opt(2, 0, 0x61)), nakTypes: map[byte]bool{1: true}, rejOpts: [][]byte{opt(2, 0, 0x61), opt(1, u64(0)...)}}
		}
	}
	panic("unknown request " + name)
}

func (s *sys) requestNames() []string {
	switch s.c.proto {
	case "lcp":
		return []string{"RCR+", "RCR+pfc", "RCR-nak", "RCR-rej", "RCR-mixed"}
	case "ipcp":
		return []string{"RCR(0.0.0.0)", "RCR(assigned)", "RCR(other)", "RCR-rej", "RCR-mixed"}
	}
	return []string{"RCR+", "RCR-nak", "RCR-rej", "RCR-mixed"}
}

// nakBody / rejBody: what the simulated peer puts in a Configure-Nak / -Reject.
func (s *sys) nakBody() []byte {
	switch s.c.proto {
	case "lcp":
		return opt(1, u16(1400)...)
	case "ipcp":
		return opt(3, nakLocalIP...)
	}
	return opt(1, u64(0x0200000000000042)...)
}

func (s *sys) rejBody() []byte {
	switch s.c.proto {
	case "lcp":
		return opt(3, 0xc0, 0x23)
	case "ipcp":
		return opt(3, localIP...)
	}
	return opt(1, u64(localIfID)...)
}

func splitOpts(b []byte) ([][]byte, bool) {
	var out [][]byte
	for len(b) > 0 {
		if len(b) < 2 || b[1] < 2 || int(b[1]) > len(b) {
			return out, false
		}
		out = append(out, b[:b[1]])
		b = b[b[1]:]
	}
	return out, true
}

// ---------------------------------------------------------------- alphabet

var adminOps = []string{"Up", "Down", "Open", "Close"}

func (s *sys) packetOps() []string {
	ops := append([]string{}, s.requestNames()...)
	if s.haveCR {
		ops = append(ops, "RCA", "RCN", "RCJ")
	}
	if s.haveCR && s.haveOrig && s.lastOrig != s.lastCR {
		// the automaton has consumed identifiers after its most recent request
		// (Code-Reject, Terminate-Request, ...): an Ack/Nak/Reject naming the last
		// identifier it put on the wire does NOT acknowledge that request
		ops = append(ops, "RCA-lastsent", "RCN-lastsent", "RCJ-lastsent")
	}
	ops = append(ops, "RCA-stale", "RCN-stale", "RCJ-stale", "RTR", "RTA",
		"CodeRej-critical", "CodeRej-noncritical", "ProtoRej-self", "ProtoRej-other",
		"Echo0", "Echo3", "Echo4", "Echo8", "Unknown")
	return ops
}

// packetOpsAll: the packet alphabet of a state in which a request is outstanding.
func (s *sys) packetOpsAll() []string {
	s.haveCR, s.haveOrig, s.lastOrig = true, true, s.lastCR+1
	return s.packetOps()
}

func (s *sys) Ops() []string {
	ops := append([]string{}, adminOps...)
	if s.timerArmed() {
		ops = append(ops, "TO")
	}
	return append(ops, s.packetOps()...)
}

func build(code, id byte, data []byte) []byte {
	b := make([]byte, 4+len(data))
	b[0], b[1] = code, id
	binary.BigEndian.PutUint16(b[2:], uint16(4+len(data)))
	copy(b[4:], data)
	return b
}

func (s *sys) staleID() byte {
	if s.havePrev && s.prevCR != s.lastCR {
		return s.prevCR
	}
	if s.haveCR {
		return s.lastCR + 77
	}
	return 0 // nothing was ever requested: any Ack is unsolicited
}

func (s *sys) selfProto() uint16 {
	switch s.c.proto {
	case "lcp":
		return pppoe.ProtocolLCP
	case "ipcp":
		return pppoe.ProtocolIPCP
	}
	return pppoe.ProtocolIPv6CP
}

// event describes what is delivered for an op.
type event struct {
	op      string
	packet  []byte // nil for admin events / TO
	id      byte
	req     *reqSpec // set for Configure-Requests
	matchCA bool     // Configure-Ack carrying the identifier of our most recent request
	renego  bool     // event that must leave Opened (P2)
}

// refreshAssigned: in pool mode the assigned address is whatever the pool has
// handed out and not yet got back.
func (s *sys) refreshAssigned() {
	if s.pool != nil {
		s.assigned = s.pool.cur
	}
}

// wanted: the address a peer asks for in the "assigned" requests: the assigned
// one, or (nothing assigned) the address it would typically get.
func (s *sys) wanted() net.IP {
	if s.assigned != nil {
		return s.assigned
	}
	return assignedIP
}

func (s *sys) mkEvent(op string) event {
	s.refreshAssigned()
	e := event{op: op}
	switch op {
	case "Up", "Open", "TO":
		return e
	case "Down", "Close":
		e.renego = true
		return e
	}
	s.peerID++
	e.id = s.peerID
	switch {
	case strings.HasPrefix(op, "RCR"):
		r := s.request(op)
		e.req, e.renego = &r, true
		e.packet = build(1, e.id, r.opts)
	case op == "RCA":
		e.id, e.matchCA, e.renego = s.lastCR, true, true
		e.packet = build(2, e.id, s.lastCRData)
	case op == "RCN":
		e.id, e.renego = s.lastCR, true
		e.packet = build(3, e.id, s.nakBody())
	case op == "RCJ":
		e.id, e.renego = s.lastCR, true
		e.packet = build(4, e.id, s.rejBody())
	case op == "RCA-lastsent":
		e.id = s.lastOrig
		e.packet = build(2, e.id, s.lastCRData)
		if s.haveCR && e.id == s.lastCR { // only enabled when they differ; kept consistent anyway
			e.matchCA, e.renego = true, true
		}
	case op == "RCN-lastsent":
		e.id = s.lastOrig
		e.packet = build(3, e.id, s.nakBody())
	case op == "RCJ-lastsent":
		e.id = s.lastOrig
		e.packet = build(4, e.id, s.rejBody())
	case op == "RCA-stale":
		e.id = s.staleID()
		e.packet = build(2, e.id, s.lastCRData)
	case op == "RCN-stale":
		e.id = s.staleID()
		e.packet = build(3, e.id, s.nakBody())
	case op == "RCJ-stale":
		e.id = s.staleID()
		e.packet = build(4, e.id, s.rejBody())
	case op == "RTR":
		e.renego = true
		e.packet = build(5, e.id, []byte("bye"))
	case op == "RTA":
		e.renego = true
		e.packet = build(6, e.id, nil)
	case op == "CodeRej-critical":
		e.packet = build(7, e.id, build(1, s.lastCR, s.lastCRData))
	case op == "CodeRej-noncritical":
		e.packet = build(7, e.id, build(9, 1, u32(localMagic)))
	case op == "ProtoRej-self":
		e.packet = build(8, e.id, cat(u16(s.selfProto()), []byte{1, 1, 0, 4}))
	case op == "ProtoRej-other":
		e.packet = build(8, e.id, cat(u16(0x80fd), []byte{1, 1, 0, 4}))
	case op == "Echo0":
		e.packet = build(9, e.id, nil)
	case op == "Echo3":
		e.packet = build(9, e.id, []byte{0x55, 0x66, 0x77})
	case op == "Echo4":
		e.packet = build(9, e.id, u32(0x55667788))
	case op == "Echo8":
		e.packet = build(9, e.id, cat(u32(0x55667788), []byte("data")))
	case op == "Unknown":
		e.packet = build(0x55, e.id, []byte{1, 2, 3})
	default:
		panic("unknown op " + op)
	}
	return e
}

// deliver executes the event on the real automaton.
func (s *sys) deliver(e event) {
	switch e.op {
	case "Up":
		s.m.Up()
	case "Down":
		s.m.Down()
	case "Open":
		s.m.Open()
	case "Close":
		s.m.Close()
	case "TO":
		s.fireTimer()
	default:
		_ = s.m.ReceivePacket(e.packet)
	}
}

// fireTimer lets the restart timer expire. Engine A: virtual time of the
// synctest bubble. Engine B sequential prefix: the scheduler's virtual clock,
// callback run inline.
func (s *sys) fireTimer() {
	if x := sched.Active(); x != nil {
		x.RunDueInline(restart)
		return
	}
	time.Sleep(restart)
	synctest.Wait()
}

func (s *sys) Apply(op string) string {
	e := s.mkEvent(op)
	s.hist = append(s.hist, op)
	s.histState = append(s.histState, s.state())
	wasOpened := s.m.IsOpened()
	s.begin(e)
	s.deliver(e)
	s.end([]event{e}, wasOpened)
	return s.state()
}

// begin: bookkeeping before the event is delivered.
func (s *sys) begin(e event) {
	if e.op != "TO" {
		s.crRun, s.trRun = 0, 0
	}
	if e.op == "Down" {
		s.nakRun = 0
	}
	if e.packet != nil && len(e.packet) > 0 && e.packet[0] == 2 {
		s.mu.Lock()
		s.inflight[e.id]++
		s.mu.Unlock()
	}
}

// end: run the monitors over everything sent since the last scan.
// es: the event(s) whose processing has just finished (one, or the events of an
// Engine B concurrent phase).
func (s *sys) end(es []event, wasOpened bool) {
	s.refreshAssigned()
	s.mu.Lock()
	newPkts := append([]pkt(nil), s.sent[s.scanned:]...)
	s.scanned = len(s.sent)
	for _, e := range es {
		if e.packet != nil && len(e.packet) > 0 && e.packet[0] == 2 && s.inflight[e.id] > 0 {
			s.inflight[e.id]--
		}
	}
	s.mu.Unlock()
	s.scan(es, newPkts)
	e := es[len(es)-1]
	renego := false
	for _, x := range es {
		renego = renego || x.renego
		if x.matchCA && s.haveCR && x.id == s.lastCR {
			// the Ack named the request that is (still) our most recent one
			s.acked = true
		}
	}
	if st := s.state(); !restStates[st] && !s.timerArmed() {
		if s.stuckOrigin == "" {
			s.stuckOrigin = s.histState[len(s.histState)-1] + "+" + e.op + "@" + st
		}
	} else {
		s.stuckOrigin = ""
	}
	opened := s.m.IsOpened()
	// P2
	if wasOpened && renego && opened {
		s.v("P2-stays-opened", e.op, "automaton was Opened, %s was delivered and it still reports Opened", e.op)
	}
	// P1
	if opened && !(s.acked && s.weAcked) {
		s.v("P1-opened-without-agreement", e.op, "IsOpened()=true in state %s but peer-acked-our-latest-request=%v (latest id %d) we-acked-peer's-latest-request=%v",
			s.state(), s.acked, s.lastCR, s.weAcked)
	}
	// P6 (counting part)
	if !s.concurrent {
		if s.crRun > atLeastOne(s.c.maxConf) {
			s.v("P6-too-many-configure-requests", e.op, "%d Configure-Requests sent without any input from the peer, configured maximum %d", s.crRun, s.c.maxConf)
		}
		if s.trRun > atLeastOne(s.maxTerm()) {
			s.v("P6-too-many-terminate-requests", e.op, "%d Terminate-Requests sent without any input from the peer, configured maximum %d", s.trRun, s.maxTerm())
		}
	}
}

func (s *sys) stuckSite(st string) string {
	if s.stuckOrigin != "" {
		return s.stuckOrigin
	}
	return s.lastInput() + "@" + st
}

// lastInput: the last event that was not a timeout (with the state it was delivered in).
func (s *sys) lastInput() string {
	for i := len(s.hist) - 1; i >= 0; i-- {
		if s.hist[i] != "TO" {
			return s.histState[i] + "+" + s.hist[i]
		}
	}
	return "init"
}

// atLeastOne: the first transmission of a request is not a retransmission; the
// events that mandate it (Open/Up, Close, a Nak, ...) do so whatever the
// configured maximum, so a maximum of 0 still allows that one packet.
func atLeastOne(n int) int {
	if n < 1 {
		return 1
	}
	return n
}

func (s *sys) maxTerm() int {
	if s.c.proto == "lcp" {
		return s.c.maxTerm
	}
	return s.c.maxConf
}

var codeName = map[byte]string{1: "Configure-Request", 2: "Configure-Ack", 3: "Configure-Nak", 4: "Configure-Reject", 5: "Terminate-Request", 6: "Terminate-Ack", 7: "Code-Reject", 8: "Protocol-Reject", 9: "Echo-Request", 10: "Echo-Reply"}

// scan applies P3, P4, P5 and the P6 counting to packets sent while the events
// es were processed. Replies are matched to the event they answer by identifier
// (the simulated peer never reuses one).
func (s *sys) scan(es []event, ps []pkt) {
	ops := make([]string, len(es))
	for i, e := range es {
		ops[i] = e.op
	}
	site := strings.Join(ops, "||")
	cfgReplies := make([]int, len(es))
	anyPacket := false
	for _, e := range es {
		anyPacket = anyPacket || e.packet != nil
	}
	for _, p := range ps {
		switch p.code {
		case 1:
			s.crRun++
		case 5:
			s.trRun++
		case 2, 3, 4, 6, 10: // replies
			if !anyPacket {
				s.v("P3-reply-without-request", site, "%s id=%d sent while processing %s (no request in progress)", codeName[p.code], p.id, site)
				continue
			}
			ei := -1
			for i, e := range es {
				if e.packet != nil && e.id == p.id {
					ei = i
				}
			}
			if ei < 0 {
				s.v("P3-identifier-not-echoed", site, "%s carries id %d, which is not the identifier of the packet being answered (%s)", codeName[p.code], p.id, site)
				continue
			}
			e := es[ei]
			if p.code == 6 || p.code == 10 {
				continue
			}
			if e.req == nil {
				s.v("P3-reply-without-request", e.op, "%s sent in answer to %s, which is not a Configure-Request", codeName[p.code], e.op)
				continue
			}
			cfgReplies[ei]++
			if cfgReplies[ei] > 1 {
				s.v("P4-multiple-replies", e.op, "more than one Configure-Ack/Nak/Reject sent for one Configure-Request")
			}
			s.checkReply(e, p)
		}
	}
	if len(es) == 1 && es[0].req != nil && cfgReplies[0] == 0 {
		s.weAcked = false // the peer's most recent request has not been answered at all
	}
}

// addrAmbiguous: during a concurrent phase the assignment changed (pool address
// drawn or given back by a racing Up/Down), so a request may legitimately have
// been judged against either value.
func (s *sys) addrAmbiguous() bool {
	return s.c.proto == "ipcp" && s.altValid && !s.altAssigned.Equal(s.assigned)
}

func (s *sys) checkReply(e event, p pkt) {
	switch p.code {
	case 2:
		if !bytes.Equal(p.data, e.req.opts) {
			s.v("P4-ack-options-differ", e.op, "Configure-Ack options % x differ from the request's options % x", p.data, e.req.opts)
		}
		if s.c.proto == "ipcp" { // P5
			os, _ := splitOpts(p.data)
			for _, o := range os {
				if o[0] == 3 && len(o) == 6 && !net.IP(o[2:]).Equal(s.assigned) && !(s.addrAmbiguous() && net.IP(o[2:]).Equal(s.altAssigned)) {
					s.v("P5-acked-unassigned-address", e.op, "IPCP Configure-Ack for address %v, address assigned to the session: %v", net.IP(o[2:]), s.assigned)
				}
			}
		}
	case 3:
		os, ok := splitOpts(p.data)
		if !ok || len(os) == 0 {
			s.v("P4-nak-malformed", e.op, "Configure-Nak with malformed or empty option list % x", p.data)
		}
		for _, o := range os {
			if !e.req.nakTypes[o[0]] && !(o[0] == 3 && s.addrAmbiguous()) {
				s.v("P4-nak-lists-acceptable-option", e.op, "Configure-Nak lists option type %d which is not an offending option of the request % x", o[0], e.req.opts)
			}
		}
	case 4:
		os, ok := splitOpts(p.data)
		if !ok || len(os) == 0 {
			s.v("P4-reject-malformed", e.op, "Configure-Reject with malformed or empty option list % x", p.data)
		}
		for _, o := range os {
			found := false
			for _, r := range e.req.rejOpts {
				found = found || bytes.Equal(o, r)
			}
			if o[0] == 3 && s.addrAmbiguous() && bytes.Contains(e.req.opts, o) {
				found = true
			}
			if !found {
				s.v("P4-reject-lists-acceptable-option", e.op, "Configure-Reject lists option % x which is not an offending option of the request % x", o, e.req.opts)
			}
		}
	}
}

// ---------------------------------------------------------------- fingerprint

// Fields excluded from the fingerprint:
//   identifier / lastIdentifier: only compared for equality with identifiers the
//     harness derives from them (RCA = current, RCA-stale = any other); replaced
//     by haveCR/havePrev and by "the last identifier the automaton put on the wire
//     differs from that of its most recent Configure-Request" (all read off the
//     sent frames). Sound below 256 packets per execution.
//   failureCount (LCP): a private Nak counter; what Max-Failure is about, the run of
//     Configure-Naks SENT, is counted by the monitor from the frames (nakRun,
//     capped at Max-Failure+1) and is part of the fingerprint instead.
var skipFields = map[string]bool{
	"LCPStateMachine.identifier": true, "LCPStateMachine.lastIdentifier": true, "LCPStateMachine.failureCount": true,
	"IPCPStateMachine.identifier": true, "IPCPStateMachine.lastIdentifier": true,
	"IPV6CPStateMachine.identifier": true, "IPV6CPStateMachine.lastIdentifier": true,
}

func (s *sys) coarse() string {
	s.refreshAssigned()
	d := deepdump.Dump(s.obj, deepdump.Options{IgnoreTimes: true, SkipFields: skipFields, SkipTypes: map[string]bool{"vtime.Timer": true, "c11.pool": true}})
	p := ""
	if s.pool != nil {
		p = fmt.Sprintf("pool(cur=%v,next=%d)", s.pool.cur, s.pool.allocs%2)
	}
	return fmt.Sprintf("%s|armed=%v|cr=%v,%v,%v|acked=%v|weAcked=%v|assigned=%v|%s", d, s.timerArmed(), s.haveCR, s.havePrev, s.haveOrig && s.haveCR && s.lastOrig != s.lastCR, s.acked, s.weAcked, s.assigned != nil, p) + fmt.Sprintf("|naks=%d", s.nakRunFP())
}

// nakRunFP: the run of Configure-Naks sent, as far as Max-Failure can tell runs apart.
func (s *sys) nakRunFP() int {
	if s.c.proto != "lcp" {
		return 0
	}
	if s.nakRun > s.c.maxFail {
		return s.c.maxFail + 1
	}
	return s.nakRun
}

func (s *sys) Fingerprint() string {
	fp := s.coarse() + fmt.Sprintf("|run=%d,%d", s.crRun, s.trRun)
	registry.note(s)
	return fp
}

// ---------------------------------------------------------------- end-of-state oracle (P6 probe)

var restStates = map[string]bool{"Initial": true, "Starting": true, "Closed": true, "Stopped": true, "Opened": true}

// Check: P6 against a silent peer. From the current state nothing but restart
// timer expiries happen; the automaton must stop (no timer left) after at most
// the configured number of requests and must then be in a state in which no
// negotiation or termination is pending.
func (s *sys) Check() []explore.Viol {
	if len(s.viols) > 0 {
		s.m.Down()
		return s.viols
	}
	limit := 2*(s.c.maxConf+s.maxTerm()) + 4
	n := 0
	for ; s.timerArmed() && n < limit; n++ {
		s.Apply("TO")
	}
	if s.timerArmed() {
		s.v("P6-never-stops", "TO", "restart timer still armed after %d consecutive expiries with a silent peer (state %s)", n, s.state())
	} else if st := s.state(); !restStates[st] {
		s.viols = append(s.viols, explore.Viol{Kind: "P6-stuck-without-timer", Site: s.stuckSite(st), Expand: true, Detail: fmt.Sprintf("silent peer: the automaton rests in %s with no restart timer armed (it will neither retransmit nor give up)", st) + " | history: " + strings.Join(s.hist, " ")})
	}
	s.m.Down() // stops any timer so that the bubble can end
	return s.viols
}

// ---------------------------------------------------------------- registry of explored states (seeds for Engine B)

type seed struct {
	path  []string
	state string
	class string // quick tier: one seed per class
	haveCR bool
}

type reg struct {
	mu     sync.Mutex
	depth  map[string]map[string]int // config -> coarse fingerprint -> shortest depth seen
	seeds  map[string]map[string]seed
	// pairSeeds: config -> class (state, monitor flags, timer armed, retransmissions exhausted) -> shortest path; seeds of the two-thread scenarios
	pairSeeds map[string]map[string]seed
	active    bool
}

var registry = &reg{depth: map[string]map[string]int{}, seeds: map[string]map[string]seed{}, pairSeeds: map[string]map[string]seed{}}

func (r *reg) note(s *sys) {
	if !r.active {
		return
	}
	key := s.c.String()
	c := s.coarse()
	armedNow := s.timerArmed()
	r.mu.Lock()
	defer r.mu.Unlock()
	if r.depth[key] == nil {
		r.depth[key], r.seeds[key], r.pairSeeds[key] = map[string]int{}, map[string]seed{}, map[string]seed{}
	}
	better := func(old seed, ok bool) bool {
		np := strings.Join(s.hist, " ")
		return !ok || len(s.hist) < len(old.path) || (len(s.hist) == len(old.path) && np < strings.Join(old.path, " "))
	}
	pc := fmt.Sprintf("%s|%v,%v|armed=%v|%v", s.state(), s.acked, s.weAcked, armedNow, s.crRun+s.trRun >= s.c.maxConf)
	if old, ok := r.pairSeeds[key][pc]; better(old, ok) {
		r.pairSeeds[key][pc] = seed{path: append([]string(nil), s.hist...), state: s.state(), class: pc, haveCR: s.haveCR}
	}
	if d, ok := r.depth[key][c]; !ok || len(s.hist) < d {
		r.depth[key][c] = len(s.hist)
	}
	if armedNow {
		// one seed per state irrespective of the length of the Nak run (it only
		// matters for Nak-answered requests, which the BFS covers for every run)
		c := c[:strings.LastIndex(c, "|naks=")]
		old, ok := r.seeds[key][c]
		np := strings.Join(s.hist, " ")
		if !ok || len(s.hist) < len(old.path) || (len(s.hist) == len(old.path) && np < strings.Join(old.path, " ")) {
			r.seeds[key][c] = seed{path: append([]string(nil), s.hist...), state: s.state(),
				class: fmt.Sprintf("%s|%v|%v,%v", s.state(), s.crRun+s.trRun >= s.c.maxConf, s.acked, s.weAcked)}
		}
	}
}

// ---------------------------------------------------------------- models

func configs(thorough bool) []cfg {
	cs := []cfg{
		{proto: "lcp", maxConf: 3, maxTerm: 2, maxFail: 1},
		// boundary values of the retransmission limits (0 and 1 for each) and of Max-Failure
		{proto: "lcp", maxConf: 0, maxTerm: 1, maxFail: 0},
		{proto: "lcp", maxConf: 1, maxTerm: 0, maxFail: 1},
		{proto: "ipcp", peer: "static", maxConf: 3},
		{proto: "ipcp", peer: "pool", maxConf: 3},
		{proto: "ipcp", peer: "none", maxConf: 3},
		{proto: "ipv6cp", maxConf: 3},
	}
	if thorough {
		cs = append(cs, cfg{proto: "lcp", maxConf: 3, maxTerm: 3, maxFail: 0}, cfg{proto: "lcp", maxConf: 2, maxTerm: 3, maxFail: 2},
			cfg{proto: "ipcp", peer: "static", maxConf: 1}, cfg{proto: "ipv6cp", maxConf: 1})
	}
	return cs
}

func bubble(t *testing.T) func(func()) {
	return func(body func()) { synctest.Test(t, func(*testing.T) { body() }) }
}

func models(run *report.Run, t *testing.T) []*explore.Model {
	depth, nd := 8, 3
	budget := 25 * time.Second
	if run.Thorough() {
		depth, nd = 12, 4
		budget = 100 * time.Second
	}
	var ms []*explore.Model
	for _, c := range configs(run.Thorough()) {
		c := c
		ms = append(ms, &explore.Model{
			Name: "fsm", Config: c.String(),
			New:   func() explore.System { return newSys(c) },
			Depth: depth, NoDedupDepth: nd, Exec: bubble(t), Classify: classify, Budget: budget,
		})
	}
	return ms
}

func TestCheck(t *testing.T) {
	run := report.New("C11", "model_checking")
	run.Rule = "BFS with fingerprints over the RFC 1661 event alphabet on the real LCP/IPCP/IPv6CP automata (virtual time); monitors P1-P6 on every transition, silent-peer probe in every state; timer-callback versus packet interleavings (preemption bound 2) from every state with an armed restart timer"
	run.Assumptions = []string{
		"identifiers do not wrap within one execution (< 256 packets)",
		"IPCP peer=pool: the address assigned to the session is what the (fake) pool handed out at Up() and has not got back by Release(); successive allocations alternate between two addresses",
		"IPv6CP interface-identifier collision and LCP magic-number collision requests are outside the alphabet (they draw fresh random numbers)",
	}
	ms := models(run, t)
	if *report.FlagReplay != "" {
		os.Exit(replay(run, ms))
	}
	registry.active = true
	for _, m := range ms {
		if run.WantPart(m.Name + "[" + m.Config + "]") {
			m.Run(run)
		}
	}
	registry.active = false
	runSched(run)
	os.Exit(run.Finish())
}

func replay(run *report.Run, ms []*explore.Model) int {
	v, err := report.LoadReplay(*report.FlagReplay)
	if err != nil {
		fmt.Println("HARNESS-ERROR", err)
		return 2
	}
	if strings.HasPrefix(v.Part, "sched:") {
		return replaySched(run, v)
	}
	for _, m := range ms {
		if m.Name+"["+m.Config+"]" == v.Part {
			vs, p := m.Replay(v.Trace)
			if p != "" {
				fmt.Printf("VIOLATION property=C11 replay=%s\n  panic: %s\n", *report.FlagReplay, p)
				return 1
			}
			sort.SliceStable(vs, func(i, j int) bool { return vs[i].Kind < vs[j].Kind })
			for _, x := range vs {
				fmt.Printf("VIOLATION property=C11 replay=%s\n  kind=%s site=%s detail=%s\n", *report.FlagReplay, x.Kind, x.Site, x.Detail)
			}
			if len(vs) > 0 {
				return 1
			}
			fmt.Println("replay: no violation")
			return 0
		}
	}
	fmt.Println("HARNESS-ERROR unknown part", v.Part)
	return 2
}
