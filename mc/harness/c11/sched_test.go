package c11

import (
	"fmt"
	"sort"
	"strings"
	"time"

	"verif/report"
	"verif/sched"
)

// Engine B: restart-timer callback versus event delivery.
//
// Seeds are the states found by the BFS in which a restart timer is armed. For
// each seed and each event e of the alphabet the scenario is
//
//	Setup     sequential prefix (the BFS path; timer expiries run inline on the virtual clock)
//	thread P  virtual time reaches the restart period (the timer has FIRED, its
//	          callback is a thread of its own now), then deliver e
//	thread T  the fired timer callback (the automaton's timeout())
//	epilogue  (idle thread, runs when P and T are done) optional sequential suffix
//	          of further events, then the silent-peer probe
//
// All interleavings of P and T at lock operations up to the preemption bound are
// executed with the same monitors as Engine A. End states of the concurrent
// phase that the BFS never expanded ("race-only states", e.g. Ack-Rcvd with a
// retransmitted request outstanding) are explored further: every event of the
// alphabet is applied to them as a suffix (two events in the thorough tier).

type bScen struct {
	c      cfg
	prefix []string
	ev     string
	ev2    string // "" = ev races with the fired restart timer; otherwise ev and ev2 are delivered by two threads (no timer expiry)
	suffix []string
}

type bData struct {
	s      *sys
	coarse string // coarse fingerprint after the concurrent phase
	armed  bool
	ops    []string // ops enabled after the concurrent phase
	skip   bool     // event not enabled in the seed state (nothing executed)
}

func (b bScen) name() string {
	if b.ev2 != "" {
		return "sched2:" + b.c.String()
	}
	return "sched:" + b.c.String()
}

func (b bScen) scenario() *sched.Scenario {
	return &sched.Scenario{
		Name: b.name(),
		Setup: func(x *sched.Exec) {
			s := newSys(b.c)
			d := &bData{s: s}
			x.Data = d
			for _, op := range b.prefix {
				s.Apply(op)
			}
			if strings.HasSuffix(b.ev, "-lastsent") && !(s.haveOrig && s.lastOrig != s.lastCR) {
				d.skip = true // identical to the matching variant in this seed state
				s.m.Down()
				x.Thread("P", func() {})
				return
			}
			// The event is prepared (identifiers chosen, monitors primed) before the
			// threads start and evaluated after they have both finished, so that P
			// contains nothing but the delivery itself: monitor reads would only add
			// scheduling points that are equivalent to "timer first" / "timer last".
			es := []event{s.mkEvent(b.ev)}
			label := "||" + b.ev
			if b.ev2 != "" {
				es = append(es, s.mkEvent(b.ev2))
				label += "||" + b.ev2
			}
			s.hist = append(s.hist, label)
			s.histState = append(s.histState, s.state())
			wasOpened := s.m.IsOpened()
			for _, e := range es {
				s.begin(e)
			}
			s.concurrent = true
			s.refreshAssigned()
			s.altAssigned, s.altValid = s.assigned, true
			if b.ev2 == "" {
				x.Thread("P", func() {
					x.Advance(restart)
					s.deliver(es[0])
					x.Obs("P:%s", b.ev)
				})
			} else {
				x.Thread("P", func() {
					s.deliver(es[0])
					x.Obs("P:%s", b.ev)
				})
				x.Thread("Q", func() {
					s.deliver(es[1])
					x.Obs("Q:%s", b.ev2)
				})
			}
			x.IdleThread("epilogue", func() {
				// monitors over everything the threads (and the timer thread) sent
				s.end(es, wasOpened)
				s.altValid = false
				s.concurrent = false
				s.crRun, s.trRun = 0, 0
				d.coarse, d.armed, d.ops = s.coarse(), s.timerArmed(), s.Ops()
				x.Obs("joined=%s armed=%v", s.state(), d.armed)
				for _, f := range b.suffix {
					if len(s.viols) > 0 {
						break
					}
					if !contains(s.Ops(), f) {
						continue // not enabled in the state reached (e.g. TO without a timer, -lastsent without a consumed identifier)
					}
					x.Obs("S:%s=%s", f, s.Apply(f))
				}
				if len(s.viols) == 0 {
					s.Check() // silent-peer probe (timer expiries inline)
				}
				x.Obs("viols=%d", len(s.viols))
			})
		},
		Check: func(x *sched.Exec) []sched.Viol {
			d := x.Data.(*bData)
			var vs []sched.Viol
			for _, v := range d.s.viols {
				vs = append(vs, sched.Viol{Kind: v.Kind, Site: v.Site, Detail: v.Detail})
			}
			return vs
		},
	}
}

// seedsFor returns the seeds of one configuration in a deterministic order; in
// the quick tier one representative per (state, counters, monitor flags) class.
func seedsFor(c cfg, thorough bool, pairs bool) []seed {
	registry.mu.Lock()
	defer registry.mu.Unlock()
	m := registry.seeds[c.String()]
	if pairs {
		m = registry.pairSeeds[c.String()]
		thorough = true // already one per class
	}
	keys := make([]string, 0, len(m))
	for k := range m {
		keys = append(keys, k)
	}
	sort.Slice(keys, func(i, j int) bool {
		a, b := m[keys[i]], m[keys[j]]
		if len(a.path) != len(b.path) {
			return len(a.path) < len(b.path)
		}
		return strings.Join(a.path, " ") < strings.Join(b.path, " ")
	})
	var out []seed
	seen := map[string]bool{}
	for _, k := range keys {
		sd := m[k]
		if !thorough {
			if seen[sd.class] {
				continue
			}
			seen[sd.class] = true
		}
		out = append(out, sd)
	}
	return out
}

func expandedBelow(c cfg, coarse string, depth int) bool {
	registry.mu.Lock()
	defer registry.mu.Unlock()
	d, ok := registry.depth[c.String()][coarse]
	return ok && d < depth
}

func bfsDepth(thorough bool) int {
	if thorough {
		return 12
	}
	return 8
}

// pairEvents: the events delivered by two receive/admin threads in the quick and
// thorough tiers: every Configure-Request of the alphabet, the matching
// Ack/Nak/Reject, Terminate-Request/-Ack, Close and Down.
func pairEvents(c cfg) []string {
	ev := append([]string{}, newSys(c).requestNames()...)
	return append(ev, "RCA", "RCN", "RCJ", "RTR", "RTA", "Close", "Down")
}

func runSched(run *report.Run) {
	bound, bound2 := 2, 1
	budget := 60 * time.Second
	if run.Thorough() {
		bound, bound2 = 3, 2
		budget = 12 * time.Minute
	}
	start := time.Now()
	for _, c := range configs(run.Thorough()) {
		// part 1: event versus fired restart timer, from every state with an armed timer
		probe := newSys(c)
		events := append(append([]string{}, adminOps...), probe.packetOpsAll()...)
		var scens []bScen
		seeds := seedsFor(c, run.Thorough(), false)
		for _, sd := range seeds {
			for _, ev := range events {
				scens = append(scens, bScen{c: c, prefix: sd.path, ev: ev})
			}
		}
		runPart(run, bScen{c: c}.name(), c, scens, events, bound, start, budget, fmt.Sprintf("seeds=%d events=%d", len(seeds), len(events)))
		// part 2: two threads delivering events, from one state per (state, flags, timer) class
		pe := pairEvents(c)
		scens = nil
		seeds = seedsFor(c, run.Thorough(), true)
		np := 0
		for _, sd := range seeds {
			if !sd.haveCR {
				continue // nothing outstanding: Ack/Nak/Reject variants are not defined, no request in flight to race with
			}
			for i, e1 := range pe {
				for _, e2 := range pe[i:] {
					scens = append(scens, bScen{c: c, prefix: sd.path, ev: e1, ev2: e2})
				}
			}
			np++
		}
		runPart(run, bScen{c: c, ev2: "x"}.name(), c, scens, events, bound2, start, budget, fmt.Sprintf("seeds=%d event-pairs=%d", np, len(pe)*(len(pe)+1)/2))
	}
}

func runPart(run *report.Run, name string, c cfg, scens []bScen, events []string, bound int, start time.Time, budget time.Duration, what string) {
	if !run.WantPart(name) {
		return
	}
	part := report.Part{Name: name, Engine: "B:sched-dfs", Exhaustive: true}
	outcomes := map[string]bool{}
	novel := map[string]bool{}
	maxPoints, nScen, nNovel, nSuffix := 0, 0, 0, 0
	for _, b := range scens {
		if time.Since(start) > budget {
			part.Exhaustive = false
			part.Note = fmt.Sprintf("budget hit after %d of %d scenarios", nScen, len(scens))
			break
		}
		nScen++
		// first pass: all interleavings of the concurrent phase
		var novelHere []struct {
			choices []int
			ops     []string
		}
		sc := b.scenario()
		inner := sc.Check
		sc.Check = func(x *sched.Exec) []sched.Viol {
			vs := inner(x)
			d := x.Data.(*bData)
			if len(vs) == 0 && !d.skip && !novel[d.coarse] && !expandedBelow(c, d.coarse, bfsDepth(run.Thorough())) {
				novel[d.coarse] = true
				novelHere = append(novelHere, struct {
					choices []int
					ops     []string
				}{x.Choices(), d.ops})
			}
			return vs
		}
		res := (&sched.Explorer{Bound: bound, Budget: time.Minute}).Explore(sc)
		part.Executions += res.Executions
		if res.MaxPoints > maxPoints {
			maxPoints = res.MaxPoints
		}
		if !res.Exhaustive {
			part.Exhaustive = false
		}
		for k := range res.Outcomes {
			outcomes[k] = true
		}
		reportFailures(run, b, res.Failures)
		// second pass: race-only end states get every event as a suffix
		for _, nv := range novelHere {
			nNovel++
			var suffixes [][]string
			for _, f := range nv.ops {
				suffixes = append(suffixes, []string{f})
				if run.Thorough() {
					for _, g := range events {
						suffixes = append(suffixes, []string{f, g})
					}
					suffixes = append(suffixes, []string{f, "TO"})
				}
			}
			for _, sf := range suffixes {
				bs := b
				bs.suffix = sf
				x := sched.RunOnce(bs.scenario(), nv.choices)
				part.Executions++
				nSuffix++
				outcomes[strings.Join(x.Log, "|")] = true
				vs := bs.scenario().Check(x)
				if x.PanicText != "" {
					vs = append(vs, sched.Viol{Kind: "panic", Site: "thread", Detail: x.PanicText})
				}
				if len(vs) > 0 {
					reportFailures(run, bs, []sched.Failure{{Viols: vs, Choices: nv.choices, Schedule: x.Schedule(), Log: x.Log}})
				}
			}
		}
	}
	part.Bound = fmt.Sprintf("%s scenarios=%d preemptions<=%d maxpoints=%d race-only-states=%d suffix-runs=%d", what, nScen, bound, maxPoints, nNovel, nSuffix)
	part.Outcomes = int64(len(outcomes))
	part.States = int64(nNovel)
	run.AddPart(part)
	run.Sample(map[string]any{"part": name, "what": what, "scenarios": nScen, "executions": part.Executions, "race_only_states": nNovel})
}

func reportFailures(run *report.Run, b bScen, fs []sched.Failure) {
	for _, f := range fs {
		x1 := sched.RunOnce(b.scenario(), f.Choices)
		x2 := sched.RunOnce(b.scenario(), f.Choices)
		if strings.Join(x1.Log, "|") != strings.Join(x2.Log, "|") || strings.Join(x1.Log, "|") != strings.Join(f.Log, "|") {
			run.HarnessError("non-deterministic replay of schedule in " + b.name() + " prefix=" + strings.Join(b.prefix, ",") + " ev=" + b.ev)
			continue
		}
		for _, v := range f.Viols {
			tr := append([]string{}, b.prefix...)
			if b.ev2 != "" {
				tr = append(tr, "|| "+b.ev+" vs "+b.ev2)
			} else {
				tr = append(tr, "|| "+b.ev+" vs fired restart timer")
			}
			tr = append(tr, f.Schedule...)
			for _, sf := range b.suffix {
				tr = append(tr, "then "+sf)
			}
			rv := report.Violation{Part: b.name(), Kind: v.Kind, Site: v.Site, Detail: v.Detail + " | observations: " + strings.Join(f.Log, " "), Config: b.c.String(), Trace: tr,
				Extra: map[string]any{"choices": f.Choices, "prefix": b.prefix, "event": b.ev, "event2": b.ev2, "suffix": b.suffix}}
			if v.Kind == "panic" {
				rv.Site = b.ev
			}
			classify(&rv)
			run.Violation(rv)
		}
	}
}

func contains(xs []string, x string) bool {
	for _, y := range xs {
		if y == x {
			return true
		}
	}
	return false
}

func strs(v any) []string {
	var out []string
	if xs, ok := v.([]any); ok {
		for _, x := range xs {
			out = append(out, fmt.Sprint(x))
		}
	}
	return out
}

func replaySched(run *report.Run, v report.Violation) int {
	for _, c := range configs(true) {
		b := bScen{c: c}
		b.ev2, _ = v.Extra["event2"].(string)
		if b.name() != v.Part {
			continue
		}
		b.prefix, b.suffix = strs(v.Extra["prefix"]), strs(v.Extra["suffix"])
		b.ev, _ = v.Extra["event"].(string)
		var choices []int
		if cs, ok := v.Extra["choices"].([]any); ok {
			for _, c := range cs {
				choices = append(choices, int(c.(float64)))
			}
		}
		sc := b.scenario()
		x := sched.RunOnce(sc, choices)
		vs := sc.Check(x)
		if x.PanicText != "" {
			vs = append(vs, sched.Viol{Kind: "panic", Detail: x.PanicText})
		}
		for _, f := range vs {
			fmt.Printf("VIOLATION property=C11 replay=%s\n  kind=%s site=%s detail=%s\n  observations: %s\n", *report.FlagReplay, f.Kind, f.Site, f.Detail, strings.Join(x.Log, " "))
		}
		if len(vs) > 0 {
			return 1
		}
		fmt.Println("replay: no violation")
		return 0
	}
	fmt.Println("HARNESS-ERROR unknown scenario", v.Part)
	return 2
}
