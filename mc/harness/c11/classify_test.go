package c11

import "verif/report"

func classify(v *report.Violation) {}
