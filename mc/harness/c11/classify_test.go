package c11

import (
	"strings"

	"verif/report"
)

// classify assigns root-cause classes to violations that are recorded as known
// findings in /verif/findings.d/C11.json. Each predicate is keyed to one root
// cause; anything else stays unclassified and is reported as a VIOLATION.
func classify(v *report.Violation) {
	// Echo-Request carrying fewer than 4 data bytes (no room for the magic
	// number) delivered to the LCP automaton in Opened: receiveEchoRequest
	// slices replyData[:4] of a shorter buffer. Crash-freedom of the PPPoE
	// parsers is property C09, which owns the repair.
	if v.Kind == "panic" && (v.Site == "Echo0" || v.Site == "Echo3") &&
		strings.Contains(v.Detail, "receiveEchoRequest") && strings.Contains(v.Detail, "slice bounds out of range [:4]") {
		v.Class = "C11-K1-lcp-echo-request-short-data-panic"
	}
}
