package c11

import "verif/report"

// classify assigns root-cause classes of known findings (/verif/findings.d/C11.json).
// There are none at present: C11-K1 (LCP Echo-Request with fewer than 4 data
// bytes panicked in receiveEchoRequest) was repaired by the C09 fixes, so a
// regression of it is reported as a VIOLATION like anything else.
func classify(v *report.Violation) {}
