package c02

import (
	"fmt"
	"net"
	"sort"
	"strings"
	"sync"
	"time"

	"github.com/insomniacslk/dhcp/dhcpv4"

	"verif/explore"
	"verif/harness/dhcpdrv"
	"verif/report"
	"verif/sched"
)

// Engine B: the DHCPv4 server handles every packet in its own goroutine
// (server4.Serve), so handlers of two packets interleave at every lock operation.
// Each scenario = sequential prefix + 2 logical threads each delivering ONE packet
// (or running the expiry cleanup); all interleavings up to the preemption bound are
// enumerated. At the end of every schedule: the observed replies are folded into the
// client views, every client that was OFFERed sends its REQUEST sequentially, and
// the same monitors + obtainability probe as in Engine A run (v4sys.Check).

type sscen struct {
	name    string
	pre     []string // sequential prefix (Engine A op syntax); "expired" = the pool hands out leases that are already expired
	threads []string // one op per thread: "m1:DISCOVER", "m2:REQ-x" (REQUEST for m1's address), "m1:RELEASE", "m1:REQ-renew", "cleanup"
}

func schedScenarios(thorough bool) []sscen {
	fill4 := []string{"f1:DISCOVER", "f1:REQ-sel", "f2:DISCOVER", "f2:REQ-sel", "f3:DISCOVER", "f3:REQ-sel", "f4:DISCOVER", "f4:REQ-sel"}
	s := []sscen{
		{"DISCOVER(m1)|DISCOVER(m2) last free address", fill4, []string{"m1:DISCOVER", "m2:DISCOVER"}},
		{"REQUEST(m1,x)|REQUEST(m2,x) x offered to m1", []string{"m1:DISCOVER"}, []string{"m1:REQ-sel", "m2:REQ-x"}},
		{"RELEASE(m1)|REQUEST(m1) renew", []string{"m1:DISCOVER", "m1:REQ-sel"}, []string{"m1:RELEASE", "m1:REQ-renew"}},
		{"RELEASE(m1)|expiry cleanup", []string{"expired", "m1:DISCOVER", "m1:REQ-sel"}, []string{"m1:RELEASE", "cleanup"}},
		{"REQUEST(m1) renew|expiry cleanup", []string{"expired", "m1:DISCOVER", "m1:REQ-sel"}, []string{"m1:REQ-renew", "cleanup"}},
		{"RELEASE(m1)|DISCOVER(m2) last free address", append(append([]string{}, fill4...), "m1:DISCOVER", "m1:REQ-sel"), []string{"m1:RELEASE", "m2:DISCOVER"}},
		{"DECLINE(m1)|DISCOVER(m1)", []string{"m1:DISCOVER", "m1:REQ-sel"}, []string{"m1:DECLINE-mine", "m1:DISCOVER"}},
	}
	if thorough {
		s = append(s,
			sscen{"DISCOVER(m1)|DISCOVER(m1) same client", nil, []string{"m1:DISCOVER", "m1:DISCOVER"}},
			sscen{"DISCOVER(m1)|DISCOVER(m2)|DISCOVER(m3) two free", fill4[:6], []string{"m1:DISCOVER", "m2:DISCOVER", "m3:DISCOVER"}},
		)
	}
	return s
}

type sreply struct {
	client, kind, target string
	replies              []dhcpdrv.Reply
}

type sstate struct {
	s    *v4sys
	obs  []*sreply
	done int
	bk   sync.Mutex // harness bookkeeping (free-running -race pass)
}

func (sc sscen) part() string { return "sched:" + sc.name }

func (sc sscen) scenario() *sched.Scenario {
	return &sched.Scenario{
		Name: sc.name,
		Setup: func(x *sched.Exec) {
			// Time is real here (the dhcp package is rewritten for sync/go only). An expired lease is
			// produced deterministically by a pool whose lease time is negative (ExpiresAt = now - 1 s).
			c := v4cfg{name: "sched", clients: 3}
			if len(sc.pre) > 0 && sc.pre[0] == "expired" {
				c.lease = -time.Second
			}
			s := newV4sys(c, nil)
			for i := 1; i <= 4; i++ {
				s.addClient(fmt.Sprintf("f%d", i), []byte{2, 0, 0, 0, 2, byte(i)})
			}
			st := &sstate{s: s}
			x.Data = st
			for _, op := range sc.pre {
				if op != "expired" {
					s.Apply(op)
				}
			}
			s.viols = nil // the prefix is Engine A's business
			if c.lease < 0 {
				// from now on leases have the normal length again (Pool.LeaseTime is an exported field):
				// a renewal racing with the cleanup produces an UNEXPIRED lease
				s.d.Pool.LeaseTime = v4Lease
			}
			for ti, op := range sc.threads {
				ti, op := ti, op
				x.Thread(fmt.Sprintf("T%d", ti), func() {
					if op == "cleanup" {
						s.d.Cleanup()
						x.Obs("T%d:cleanup", ti)
						st.bk.Lock()
						st.done++
						st.bk.Unlock()
						return
					}
					i := strings.Index(op, ":")
					n, kind := op[:i], op[i+1:]
					m, target := s.rawMsg(n, kind)
					r := &sreply{client: n, kind: kind, target: target}
					st.bk.Lock()
					st.obs = append(st.obs, r)
					st.bk.Unlock()
					r.replies = s.d.Send(m)
					var o []string
					for _, q := range r.replies {
						o = append(o, q.String())
					}
					x.Obs("T%d:%s=%s", ti, op, strings.Join(o, ","))
					st.bk.Lock()
					st.done++
					st.bk.Unlock()
				})
			}
		},
		Check: func(x *sched.Exec) []sched.Viol { return checkSched(sc, x.Data.(*sstate)) },
	}
}

// rawMsg builds the packet of a thread op without touching the monitors.
func (s *v4sys) rawMsg(n, kind string) (dhcpdrv.Msg, string) {
	v := s.view[n]
	m := dhcpdrv.Msg{CHAddr: s.hw[n]}
	target := ""
	switch kind {
	case "DISCOVER":
		m.Type = dhcpv4.MessageTypeDiscover
	case "REQ-sel":
		m.Type, target, m.ServerID = dhcpv4.MessageTypeRequest, v.offer, s.d.ServerIP()
		m.ReqIP = net.ParseIP(target)
	case "REQ-x": // the address offered/leased to m1
		target = s.view["m1"].offer
		if target == "" {
			target = s.view["m1"].leased
		}
		m.Type, m.ServerID, m.ReqIP = dhcpv4.MessageTypeRequest, s.d.ServerIP(), net.ParseIP(target)
	case "REQ-renew":
		m.Type, target = dhcpv4.MessageTypeRequest, v.leased
		m.CIAddr = net.ParseIP(target)
	case "RELEASE":
		m.Type, target, m.ServerID = dhcpv4.MessageTypeRelease, v.leased, s.d.ServerIP()
		m.CIAddr = net.ParseIP(target)
	case "DECLINE-mine":
		m.Type, target, m.ServerID = dhcpv4.MessageTypeDecline, v.leased, s.d.ServerIP()
		m.ReqIP = net.ParseIP(target)
	default:
		panic("unknown thread op " + kind)
	}
	return m, target
}

func checkSched(sc sscen, st *sstate) []sched.Viol {
	s := st.s
	conv := func() []sched.Viol {
		var out []sched.Viol
		for _, v := range s.viols {
			out = append(out, sched.Viol{Kind: v.Kind, Site: v.Site, Detail: v.Detail})
		}
		return out
	}
	if st.done != len(sc.threads) {
		return []sched.Viol{{Kind: "harness", Site: "sched", Detail: "not every thread finished"}}
	}
	now := s.now()
	// concurrent ACKs: two different clients acknowledged for one address
	acked := map[string]string{}
	sort.SliceStable(st.obs, func(i, j int) bool { return st.obs[i].client < st.obs[j].client })
	released := map[string]bool{}
	for _, o := range st.obs {
		if o.kind == "RELEASE" || o.kind == "DECLINE-mine" {
			released[o.client] = true
		}
	}
	for _, o := range st.obs {
		v := s.view[o.client]
		for _, r := range o.replies {
			x := ip4s(r.YIAddr)
			switch r.Type {
			case dhcpv4.MessageTypeOffer:
				if !isUsable(x) {
					s.v("O3-outside-pool", "DISCOVER", "%s was OFFERed %q", o.client, x)
				}
				if s.declined[x] {
					s.v("O5-declined-reoffered", "DISCOVER", "%s was OFFERed %s which was declined earlier", o.client, x)
				}
				v.offer = x
				v.pinned[x] = true
				s.offers[o.client+"/"+x] = offerRec{ip: x, at: now}
			case dhcpv4.MessageTypeAck:
				if !isUsable(x) {
					s.v("O3-outside-pool", "REQUEST", "%s was ACKed %q", o.client, x)
				}
				if other, dup := acked[x]; dup && other != o.client {
					s.v("O1-ack-leased-to-other", "REQUEST", "%s and %s were both ACKed %s concurrently", other, o.client, x)
				}
				acked[x] = o.client
				if !released[o.client] {
					v.leased, v.prev, v.offer = x, x, ""
					v.bound, v.boundUntil = x, now.Add(r.Pkt.IPAddressLeaseTime(0))
					delete(v.pinned, x)
					delete(s.offers, o.client+"/"+x)
				}
			case dhcpv4.MessageTypeNak:
				v.leased, v.offer = "", ""
			}
		}
	}
	// a client that RELEASEd/DECLINEd concurrently with its own REQUEST/DISCOVER: whatever the
	// order, the lease table is the truth about what it still holds
	for n := range released {
		v := s.view[n]
		v.leased, v.bound = "", ""
		for _, l := range s.d.Leases() {
			if s.who(l.Key) == n {
				v.leased, v.prev = ip4s(l.IP), ip4s(l.IP)
			}
		}
		if sc.threads[0] == n+":DECLINE-mine" {
			// the order of DECLINE and the concurrent DISCOVER is not observable from outside: forget
			// the concurrent OFFER; the sequential follow-up DISCOVER below must not return the address
			for _, o := range st.obs {
				if o.kind == "DECLINE-mine" && o.target != "" {
					s.declined[o.target] = true
				}
			}
			if v.leased != "" && s.declined[v.leased] {
				s.v("O5-declined-reoffered", "DECLINE", "%s still holds a lease on %s after declining it", n, v.leased)
			}
		}
		v.offer = ""
		for k := range s.offers {
			if strings.HasPrefix(k, n+"/") {
				delete(s.offers, k)
			}
		}
	}
	s.postCheck("sched-end")
	if len(s.viols) > 0 {
		return conv()
	}
	// follow-up: every client holding an OFFER requests it (sequentially, full monitors)
	for _, n := range append([]string(nil), s.names...) {
		if released[n] && s.view[n].leased == "" {
			s.msg(n, "DISCOVER", "")
		}
		if s.view[n].offer != "" && s.view[n].leased == "" {
			s.msg(n, "REQ-sel", "")
		}
	}
	if len(s.viols) == 0 {
		s.hook = nil // no soft reporting here: known classes are matched by classify()
		s.Check()
	}
	return conv()
}

func runSched(run *report.Run) {
	bound := 2
	for _, sc := range schedScenarios(run.Thorough()) {
		name := sc.part()
		if !run.WantPart(name) {
			continue
		}
		e := &sched.Explorer{Bound: bound, Budget: 4 * time.Minute}
		res := e.Explore(sc.scenario())
		run.AddPart(report.Part{Name: name, Engine: "B:sched-dfs", Bound: fmt.Sprintf("preemptions<=%d completed=%d maxpoints=%d", bound, res.Bound, res.MaxPoints),
			Executions: res.Executions, Outcomes: int64(len(res.Outcomes)), Exhaustive: res.Exhaustive, States: int64(len(res.Outcomes))})
		for _, f := range res.Failures {
			x1 := sched.RunOnce(sc.scenario(), f.Choices)
			x2 := sched.RunOnce(sc.scenario(), f.Choices)
			if strings.Join(x1.Log, "|") != strings.Join(x2.Log, "|") || strings.Join(x1.Log, "|") != strings.Join(f.Log, "|") {
				run.HarnessError("non-deterministic replay of schedule in " + name)
				continue
			}
			for _, v := range f.Viols {
				tr := append([]string{"pre=" + strings.Join(sc.pre, ","), "threads=" + strings.Join(sc.threads, "|")}, f.Schedule...)
				rv := report.Violation{Part: name, Kind: v.Kind, Site: v.Site, Detail: v.Detail + " | observations: " + strings.Join(f.Log, " "), Config: "k3 /29", Trace: tr,
					Extra: map[string]any{"choices": f.Choices}}
				classify(&rv)
				run.Violation(rv)
			}
		}
		if len(res.Failures) == 0 {
			var o []string
			for k := range res.Outcomes {
				o = append(o, k)
			}
			sort.Strings(o)
			run.Sample(map[string]any{"part": name, "executions": res.Executions, "outcomes": o})
		}
	}
}

func replaySched(run *report.Run, v report.Violation) int {
	for _, sc := range schedScenarios(true) {
		if sc.part() != v.Part {
			continue
		}
		var choices []int
		if cs, ok := v.Extra["choices"].([]any); ok {
			for _, c := range cs {
				choices = append(choices, int(c.(float64)))
			}
		}
		x := sched.RunOnce(sc.scenario(), choices)
		var vs []sched.Viol
		if x.PanicText != "" {
			vs = append(vs, sched.Viol{Kind: "panic", Detail: x.PanicText})
		} else {
			vs = checkSched(sc, x.Data.(*sstate))
		}
		for _, f := range vs {
			fmt.Printf("VIOLATION property=C02 replay=%s\n  kind=%s site=%s detail=%s\n  observations: %s\n", *report.FlagReplay, f.Kind, f.Site, f.Detail, strings.Join(x.Log, " "))
		}
		if len(vs) > 0 {
			return 1
		}
		fmt.Println("replay: no violation")
		return 0
	}
	fmt.Println("HARNESS-ERROR unknown scenario", v.Part)
	return 2
}

var _ = explore.Viol{}
