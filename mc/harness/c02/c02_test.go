// C02 — DHCP servers never bind one address or prefix to two clients.
// Engine A: BFS over client message / time histories on the real dhcp.Server and
// dhcpv6.Server inside synctest bubbles (v4_test.go, v6_test.go).
// Engine B: schedule exploration of DHCPv4 handler pairs (sched_test.go).
package c02

import (
	"fmt"
	"os"
	"strings"
	"testing"
	"testing/synctest"
	"time"

	"verif/explore"
	"verif/report"
)

func bubbleSleep(d time.Duration) {
	time.Sleep(d)
	synctest.Wait()
}

type tracer interface{ setHooks(soft func(v explore.Viol, class string, trace []string)) }

func models(t *testing.T, run *report.Run) []*explore.Model {
	exec := func(body func()) { synctest.Test(t, func(*testing.T) { body() }) }
	replaying := *report.FlagReplay != ""
	var ms []*explore.Model
	mk := func(name, config string, depth, nd int, budget time.Duration, newSys func() explore.System) {
		part := name + "[" + config + "]"
		m := &explore.Model{Name: name, Config: config, Depth: depth, NoDedupDepth: nd, Exec: exec, Classify: classify, Budget: budget}
		m.New = func() explore.System {
			s := newSys()
			if tr, ok := s.(tracer); ok && !replaying {
				tr.setHooks(func(v explore.Viol, class string, trace []string) {
					run.Violation(report.Violation{Part: part, Kind: v.Kind, Site: v.Site, Detail: v.Detail, Config: config, Trace: trace, Class: class})
				})
			}
			return s
		}
		ms = append(ms, m)
	}
	// when replaying, the models of both tiers are available
	v4c, v6c := v4configs(run.Thorough()), v6configs(run.Thorough())
	if replaying {
		v4c, v6c = append(v4configs(false), v4configs(true)...), append(v6configs(false), v6configs(true)...)
	}
	seen := map[string]bool{}
	for _, c := range v4c {
		c := c
		if seen["4"+c.name] {
			continue
		}
		seen["4"+c.name] = true
		mk("dhcpv4", c.name, c.depth, c.nodedup, c.budget, func() explore.System { return newV4sys(c.v4cfg, bubbleSleep) })
	}
	for _, c := range v6c {
		c := c
		if seen["6"+c.name] {
			continue
		}
		seen["6"+c.name] = true
		mk("dhcpv6", c.name, c.depth, c.nodedup, c.budget, func() explore.System { return newV6sys(c) })
	}
	return ms
}

func TestCheck(t *testing.T) {
	run := report.New("C02", "model_checking")
	run.Rule = "BFS over DHCPv4/DHCPv6 client message and time-advance histories (symbolic address arguments resolved from client observations) on the real servers in synctest bubbles; reply-stream and lease-table monitors O1-O5 after every message, destructive obtainability probe O6 in every state; schedule enumeration of DHCPv4 handler pairs"
	run.Assumptions = []string{
		"eBPF fast path not loaded (Loader map calls fail), no RADIUS/Nexus/QoS/NAT attached",
		"an un-requested OFFER reserves its address for 60 s (offer hold); every time step of the alphabet exceeds it",
		"an expired lease may stay reserved until the next one-minute cleanup tick (ticker emulated at server start + k*60 s)",
		"a client that sends RELEASE gives up its own binding even if ciaddr names another address (RELEASE is keyed by chaddr); a RELEASE never affects another client's lease, offer or reservation",
		"client identity = chaddr; a relayed message with option 82 also speaks for its circuit-id (the server's relay-aware index)",
		"DHCPv6: replies captured from a loopback UDP socket read non-blockingly; message handler called synchronously (the receive loop is sequential)",
	}
	ms := models(t, run)
	if *report.FlagReplay != "" {
		os.Exit(replay(run, ms))
	}
	for _, m := range ms {
		if run.WantPart(m.Name + "[" + m.Config + "]") {
			m.Run(run)
		}
	}
	runSched(run)
	os.Exit(run.Finish())
}

func replay(run *report.Run, ms []*explore.Model) int {
	v, err := report.LoadReplay(*report.FlagReplay)
	if err != nil {
		fmt.Println("HARNESS-ERROR", err)
		return 2
	}
	if strings.HasPrefix(v.Part, "sched:") {
		return replaySched(run, v)
	}
	for _, m := range ms {
		if m.Name+"["+m.Config+"]" == v.Part {
			vs, p := m.Replay(v.Trace)
			if p != "" {
				fmt.Printf("VIOLATION property=C02 replay=%s\n  panic: %s\n", *report.FlagReplay, p)
				return 1
			}
			for _, x := range vs {
				fmt.Printf("VIOLATION property=C02 replay=%s\n  kind=%s site=%s detail=%s\n", *report.FlagReplay, x.Kind, x.Site, x.Detail)
			}
			if len(vs) > 0 {
				return 1
			}
			fmt.Println("replay: no violation")
			return 0
		}
	}
	fmt.Println("HARNESS-ERROR unknown part", v.Part)
	return 2
}
