package c02

import (
	"crypto/sha256"
	"encoding/hex"
	"regexp"
	"strings"

	"verif/report"
)

// Root-cause classes of known findings (see /verif/findings.d/C02.json). Every predicate
// is narrow: kind + site + a witness condition that pins the root cause. Anything else
// that breaks the same clause stays an unclassified VIOLATION.
const (
	// soft-reported from v4sys.Check: every unobtainable address is pinned in the pool's
	// MAC->IP table by a MAC that has no lease-table entry.
	classV4Orphan = "C02-K-v4-allocation-without-lease-never-reclaimed"
	// the relay-aware circuit-id index shares one line's binding between MACs
	classV4Circuit = "C02-K-v4-circuit-id-shared-binding"
	classV4CircuitStale = "C02-K-v4-circuit-id-index-stale-after-circuit-change"
	classV6NoExpiry = "C02-K-v6-no-lease-expiry"
	classV6Orphan   = "C02-K-v6-advertise-without-binding-never-reclaimed"
	classV6Decline  = "C02-K-v6-decline-handled-as-release"
	classV6Anycast  = "C02-K-v6-allocator-hands-out-subnet-anycast"
)

var reTwoCircuits = regexp.MustCompile(`\(circuit "([^"]*)"\) and \S+ \(circuit "([^"]*)"\)`)

func traceHas(v *report.Violation, sub string) bool {
	for _, t := range v.Trace {
		if strings.Contains(t, sub) {
			return true
		}
	}
	return false
}

func classify(v *report.Violation) {
	switch {
	case strings.HasPrefix(v.Part, "dhcpv4"):
		// two lease-table entries on one address, both carrying the same non-empty circuit-id:
		// a second MAC arrived on a known subscriber line and the lease was duplicated, not moved
		if v.Kind == "O2-two-bindings" {
			if m := reTwoCircuits.FindStringSubmatch(v.Detail); m != nil && m[1] != "" && m[1] == m[2] {
				v.Class = classV4Circuit
			}
		}
		// an address was acknowledged while under a live offer that the server made through the
		// circuit-id index (address of the line's lease held by another MAC, no reservation made)
		if v.Kind == "O1-ack-offered-to-other" && strings.Contains(v.Detail, "offer made through the circuit-id index") {
			v.Class = classV4Circuit
		}
		// consequences of an earlier take-over of a line's lease by a second MAC (the first MAC's
		// entry had expired but was still in the table, so the duplicate was not an O2 at that
		// moment): both entries exist, releasing/expiring one frees the address under the other.
		// The monitor marks the witness: the take-over ACK was served from ANOTHER MAC's lease-table
		// entry that carried the request's own circuit-id (not from a stale index entry).
		if (v.Kind == "O1-ack-leased-to-other" || v.Kind == "O2-two-bindings") && strings.Contains(v.Detail, "{line take-over earlier: ") {
			v.Class = classV4Circuit
		}
		// ... and the first holder's expired-but-present entry lets it DECLINE the shared address:
		// the server retires it while the second holder's lease on it lives on and is restated
		if v.Kind == "O5-declined-reoffered" && strings.Contains(v.Detail, "{declined address was duplicated by a line take-over: ") {
			v.Class = classV4Circuit
		}
		// a client whose circuit-id changed (second relayed REQUEST with another circuit-id) leaves
		// its old circuit-id index entry behind, pointing at a lease object that is no longer in the
		// table; a later relayed DISCOVER on the old circuit-id is OFFERed that dead lease's address
		// (the REQUEST that follows is NAKed: only the offer / the declined address is the problem)
		if (v.Kind == "O1-ack-offered-to-other" || v.Kind == "O5-declined-reoffered") && staleCircuitUsed(v.Trace) {
			v.Class = classV4CircuitStale
		}
	case strings.HasPrefix(v.Part, "dhcpv6"):
		// the v6 server keeps no record of declined addresses at all (handleDecline = handleRelease):
		// a declined address going out again is always this root cause
		if v.Kind == "O5-declined-reoffered" && traceHas(v, ":DECLINE") {
			v.Class = classV6Decline
		}
		// ... and the same shortcut releases the decliner's delegated PREFIX although only the
		// address was declined: the prefix is then bound to someone else while its holder still has it
		if v.Kind == "O1-ack-leased-to-other" && strings.Contains(v.Detail, "binds prefix") {
			if m := reHolder.FindStringSubmatch(v.Detail); m != nil && traceHas(v, m[1]+":DECLINE") {
				v.Class = classV6Decline
			}
		}
	}
}

var reHolder = regexp.MustCompile(`which (\S+) holds \(unexpired\)`)

// digest shortens a state dump to a 128-bit hash: the explorer keeps every fingerprint of a
// run in memory (millions of multi-kilobyte dumps in the thorough tier otherwise).
func digest(dump string) string {
	h := sha256.Sum256([]byte(dump))
	return hex.EncodeToString(h[:16])
}

var reRelReq = regexp.MustCompile(`^(\S+):rREQ-(?:sel|renew|other)/(\S+)$`)

// staleCircuitUsed: one client sent relayed REQUESTs with two different circuit-ids and a relayed
// DISCOVER on the FIRST of them follows.
func staleCircuitUsed(trace []string) bool {
	for i, t := range trace {
		m := reRelReq.FindStringSubmatch(t)
		if m == nil {
			continue
		}
		for j := i + 1; j < len(trace); j++ {
			m2 := reRelReq.FindStringSubmatch(trace[j])
			if m2 == nil || m2[1] != m[1] || m2[2] == m[2] {
				continue
			}
			for _, u := range trace[j+1:] {
				if strings.HasSuffix(u, ":rDISCOVER/"+m[2]) {
					return true
				}
			}
		}
	}
	return false
}
