package c02

import (
	"verif/explore"
	"verif/report"
)

type v6cfg struct {
	name           string
	depth, nodedup int
}

func v6configs(thorough bool) []v6cfg          { return nil }
func newV6sys(c v6cfg) explore.System          { return nil }
func runSched(run *report.Run)                 {}
func replaySched(run *report.Run, v report.Violation) int { return 2 }
