package c02

import (
	"fmt"
	"net"
	"sort"
	"strings"
	"time"

	"github.com/codelaboratoryltd/bng/pkg/dhcpv6"

	"verif/deepdump"
	"verif/explore"
	"verif/harness/dhcpdrv"
)

// ---------------------------------------------------------------- DHCPv6 system
//
// Real dhcpv6.Server; address pool 2001:db8::/126 (::1..::3 assignable), prefix
// pool 2001:db8:100::/62 delegating /64 (4 prefixes), lifetimes 60/120 s.
// The reference model is purely observational: a client's binding is what the
// last Reply told it, valid for the valid-lifetime the Reply carried.

const (
	v6Pref, v6Valid = 60, 120
	v6AddrPool      = "2001:db8::/126"
	v6PfxPool       = "2001:db8:100::/62"
	v6OffLink       = "2001:db8:ffff::1"
	advHold         = 60 * time.Second
)

type v6cfg struct {
	name           string
	clients        int
	na, pd         bool
	integrated     bool
	depth, nodedup int
	budget         time.Duration
	// alpha selects the message alphabet:
	//  "base": every message kind under the client's usual IAIDs (one CONFIRM variant)
	//  "iaid": IAID-focused: rapid-commit SOLICIT, REQUEST, RENEW, RELEASE under the usual IAID, under a
	//          second IAID of the same client-id, and with TWO IA options of a kind in one message
	//  "full": everything (thorough tier)
	alpha string
	// prefix pool geometry (legacy pool): "" / 0 = 2001:db8:100::/62 delegating /64
	pfxPool string
	deleg   int
}

func v6configs(thorough bool) []v6cfg {
	if thorough {
		return []v6cfg{
			{"legacy na+pd k3", 3, true, true, false, 6, 2, 3 * time.Minute, "full", "", 0},
			{"legacy na-only k3", 3, true, false, false, 6, 0, 150 * time.Second, "full", "", 0},
			{"legacy pd-only k3", 3, false, true, false, 6, 0, 150 * time.Second, "full", "", 0},
			{"integrated na+pd k3", 3, true, true, true, 6, 2, 2 * time.Minute, "full", "", 0},
			{"legacy na+pd k2 iaid", 2, true, true, false, 7, 0, 2 * time.Minute, "iaid", "", 0},
			// prefix-pool geometries whose delegation index lies on both sides of / beyond bit 64
			{"legacy pd-only k2 /63->/65", 2, false, true, false, 5, 0, time.Minute, "base", "2001:db8:200::/63", 65},
			{"legacy pd-only k2 /62->/66", 2, false, true, false, 4, 0, time.Minute, "base", "2001:db8:200::/62", 66},
			{"legacy pd-only k2 /64->/66", 2, false, true, false, 4, 0, time.Minute, "base", "2001:db8:200::/64", 66},
			{"legacy pd-only k2 /60->/64", 2, false, true, false, 3, 0, time.Minute, "base", "2001:db8:200::/60", 64},
			{"legacy pd-only k2 /64->/72", 2, false, true, false, 2, 0, time.Minute, "base", "2001:db8:200::/64", 72},
			// delegation lengths that end inside a byte (length mod 8 = 6, 7, 5, 3, 1)
			{"legacy pd-only k2 /60->/62", 2, false, true, false, 4, 0, time.Minute, "base", "2001:db8:300::/60", 62},
			{"legacy pd-only k2 /61->/63", 2, false, true, false, 4, 0, time.Minute, "base", "2001:db8:300::/61", 63},
			{"legacy pd-only k2 /53->/55", 2, false, true, false, 4, 0, time.Minute, "base", "2001:db8:300::/53", 55},
			{"legacy pd-only k2 /49->/51", 2, false, true, false, 3, 0, time.Minute, "base", "2001:db8:300::/49", 51},
			{"legacy pd-only k2 /55->/57", 2, false, true, false, 3, 0, time.Minute, "base", "2001:db8:300::/55", 57},
		}
	}
	return []v6cfg{
		{"legacy na+pd k2", 2, true, true, false, 5, 2, 5 * time.Minute, "base", "", 0},
		{"legacy na+pd k2 iaid", 2, true, true, false, 6, 2, 3 * time.Minute, "iaid", "", 0},
		{"legacy pd-only k2", 2, false, true, false, 4, 0, 2 * time.Minute, "base", "", 0},
		{"legacy pd-only k2 iaid", 2, false, true, false, 4, 0, 2 * time.Minute, "iaid", "", 0},
		{"integrated na+pd k2", 2, true, true, true, 4, 2, 2 * time.Minute, "base", "", 0},
		{"integrated na+pd k2 iaid", 2, true, true, true, 4, 0, 2 * time.Minute, "iaid", "", 0},
		// prefix-pool geometry with the delegation index straddling bit 64 (and one fully beyond it)
		{"legacy pd-only k2 /63->/65", 2, false, true, false, 3, 0, time.Minute, "base", "2001:db8:200::/63", 65},
		{"legacy pd-only k2 /64->/66", 2, false, true, false, 2, 0, time.Minute, "base", "2001:db8:200::/64", 66},
		// delegation lengths that end inside a byte (length mod 8 = 6 and 7)
		{"legacy pd-only k2 /60->/62", 2, false, true, false, 3, 0, time.Minute, "base", "2001:db8:300::/60", 62},
		{"legacy pd-only k2 /53->/55", 2, false, true, false, 2, 0, time.Minute, "base", "2001:db8:300::/53", 55},
	}
}

type bound struct {
	val   string
	until time.Time
}

type v6client struct {
	duid         []byte
	wantNA       bool // IA kinds of the last SOLICIT
	wantPD       bool
	addr, pfx    bound // latest bindings as told by Replies (used to resolve symbolic arguments)
	// extra: bindings a Reply DISPLACED (a different value was bound while this one was unexpired
	// and the client never released it): the client still holds them. Empty on a server that keeps
	// one value per client whatever the IAID.
	extra []bound
	advA, advP   bound // advertised values (until = advertise time + hold)
	everA, everP map[string]bool
	// pinA/pinP: value of the latest ADVERTISE that was never followed by a Reply binding,
	// RELEASE or DECLINE of this client (survives the advertise hold)
	pinA, pinP string
}

type v6sys struct {
	c        v6cfg
	d        *dhcpdrv.V6
	names    []string
	cl       map[string]*v6client
	byDUID   map[string]string
	declined map[string]bool
	usableA  []string
	usableP  []string
	viols    []explore.Viol
	hook     func(v explore.Viol, class string, trace []string)
	trace    []string
}

func (s *v6sys) setHooks(h func(v explore.Viol, class string, trace []string)) { s.hook = h }

func (s *v6sys) soft(v explore.Viol, class string) {
	if s.hook == nil {
		s.viols = append(s.viols, v)
		return
	}
	s.hook(v, class, append([]string(nil), s.trace...))
}

func newV6sys(c v6cfg) explore.System {
	cfg := dhcpdrv.V6Config{DelegationLength: 64, Preferred: v6Pref, Valid: v6Valid, Integrated: c.integrated}
	s := &v6sys{c: c, cl: map[string]*v6client{}, byDUID: map[string]string{}, declined: map[string]bool{}}
	if c.na {
		cfg.AddressPool = v6AddrPool
		s.usableA = []string{"2001:db8::1", "2001:db8::2", "2001:db8::3"}
	}
	if c.pd {
		pool, deleg := v6PfxPool, 64
		if c.pfxPool != "" {
			pool, deleg = c.pfxPool, c.deleg
		}
		cfg.PrefixPool, cfg.DelegationLength = pool, uint8(deleg)
		s.usableP = subPrefixes(pool, deleg)
	}
	s.d = dhcpdrv.NewV6(cfg)
	for i := 1; i <= c.clients; i++ {
		s.addClient(fmt.Sprintf("d%d", i), []byte{0, 3, 0, 1, 2, 0, 0, 0, 0, byte(i)})
	}
	return s
}

// subPrefixes lists every /deleg prefix that tiles the pool (what a correct pool can hand out).
func subPrefixes(pool string, deleg int) []string {
	_, n, err := net.ParseCIDR(pool)
	if err != nil {
		panic(err)
	}
	ones, _ := n.Mask.Size()
	var out []string
	for i := 0; i < 1<<(deleg-ones); i++ {
		ip := append(net.IP(nil), n.IP.To16()...)
		for b := 0; b < deleg-ones; b++ { // bit b of the index sits at address bit deleg-1-b
			if i&(1<<b) != 0 {
				pos := deleg - 1 - b
				ip[pos/8] |= 1 << (7 - pos%8)
			}
		}
		out = append(out, (&net.IPNet{IP: ip, Mask: net.CIDRMask(deleg, 128)}).String())
	}
	return out
}

func (s *v6sys) addClient(n string, duid []byte) {
	s.names = append(s.names, n)
	s.cl[n] = &v6client{duid: duid, everA: map[string]bool{}, everP: map[string]bool{}}
	s.byDUID[string(duid)] = n
}

func (s *v6sys) who(duid string) string {
	if n, ok := s.byDUID[duid]; ok {
		return n
	}
	return fmt.Sprintf("duid[%x]", duid)
}

func (s *v6sys) v(kind, site, f string, a ...any) {
	s.viols = append(s.viols, explore.Viol{Kind: kind, Site: site, Detail: fmt.Sprintf(f, a...)})
}

func (c *v6client) holdsExtra(x string, now time.Time) bool {
	for _, e := range c.extra {
		if e.val == x && e.live(now) {
			return true
		}
	}
	return false
}

func (b bound) live(now time.Time) bool { return b.val != "" && now.Before(b.until) }

func (s *v6sys) otherAddr(me string) string {
	for _, n := range s.names {
		if n != me && s.cl[n].addr.val != "" {
			return s.cl[n].addr.val
		}
	}
	return ""
}

func (s *v6sys) Ops() []string {
	var ops []string
	base, iaid := s.c.alpha != "iaid", s.c.alpha != "base"
	full := s.c.alpha == "full"
	for _, n := range s.names {
		c := s.cl[n]
		add := func(k string) { ops = append(ops, n+":"+k) }
		holds := c.addr.val != "" || c.pfx.val != ""
		if base {
			if s.c.na {
				add("SOL-na")
			}
			if s.c.pd {
				add("SOL-pd")
			}
			if s.c.na && s.c.pd {
				add("SOL-both")
			}
			add("REQ-other")
			add("REQ-nosid")
			if holds {
				add("REBIND")
			}
			if c.addr.val != "" {
				add("DECLINE")
				if full {
					add("CONFIRM-mine")
				}
			}
			if s.otherAddr(n) != "" {
				add("CONFIRM-other")
			}
			if full || s.otherAddr(n) == "" {
				add("CONFIRM-offlink")
			}
		}
		add("SOL-rapid")
		add("REQ-ours")
		if holds {
			add("RENEW")
			add("RELEASE")
		}
		if iaid {
			// IAID dimension: the same client-id under a second IAID, and two IA options of one
			// kind (usual + second IAID) in one message
			add("REQ-ours2")
			add("REQ-ours-alt")
			if holds {
				add("RENEW-alt")
			}
			if full {
				add("SOL-2")
				add("SOL-rapid-alt")
				if holds {
					add("REBIND-alt")
				}
			}
		}
	}
	if base {
		ops = append(ops, "+60s")
	}
	ops = append(ops, "+121s")
	return ops
}

func (s *v6sys) Apply(op string) string {
	s.trace = append(s.trace, op)
	if strings.HasPrefix(op, "+") {
		var sec int
		fmt.Sscanf(op, "+%ds", &sec)
		bubbleSleep(time.Duration(sec) * time.Second)
		s.postCheck("time")
		return "ok"
	}
	i := strings.Index(op, ":")
	return s.msg(op[:i], op[i+1:])
}

const (
	iaidNA, iaidPD       = 1, 2 // the client's usual IAIDs
	iaidNAalt, iaidPDalt = 3, 4 // a second IAID under the same client-id
)

func iaNA(addr string) dhcpv6.Option { return iaNAid(iaidNA, addr) }
func iaPD(pfx string) dhcpv6.Option  { return iaPDid(iaidPD, pfx) }

func iaNAid(iaid uint32, addr string) dhcpv6.Option {
	ia := &dhcpv6.IANA{IAID: iaid}
	if addr != "" {
		ia.Options = []dhcpv6.Option{dhcpv6.MakeIAAddressOption(&dhcpv6.IAAddress{Address: net.ParseIP(addr), PreferredLifetime: v6Pref, ValidLifetime: v6Valid})}
	}
	return dhcpv6.MakeIANAOption(ia)
}

func iaPDid(iaid uint32, pfx string) dhcpv6.Option {
	ia := &dhcpv6.IAPD{IAID: iaid}
	if pfx != "" {
		ip, n, _ := net.ParseCIDR(pfx)
		l, _ := n.Mask.Size()
		ia.Options = []dhcpv6.Option{dhcpv6.MakeIAPrefixOption(&dhcpv6.IAPrefix{PreferredLifetime: v6Pref, ValidLifetime: v6Valid, PrefixLength: uint8(l), Prefix: ip})}
	}
	return dhcpv6.MakeIAPDOption(ia)
}

// tlvs walks DHCPv6 options (code(2) length(2) data) in b with the harness's own
// decoder: what a client on the wire sees does not depend on the repository's parsers.
func tlvs(b []byte, f func(code uint16, data []byte)) {
	for len(b) >= 4 {
		code := uint16(b[0])<<8 | uint16(b[1])
		l := int(b[2])<<8 | int(b[3])
		if 4+l > len(b) {
			return
		}
		f(code, b[4:4+l])
		b = b[4+l:]
	}
}

func be32(b []byte) uint32 { return uint32(b[0])<<24 | uint32(b[1])<<16 | uint32(b[2])<<8 | uint32(b[3]) }

// values extracts (addresses with valid lifetime, prefixes with valid lifetime) from a response.
// The IA_NA / IA_PD contents are decoded from the option bytes independently of pkg/dhcpv6
// (RFC 8415 21.4, 21.6, 21.21, 21.22).
func values(m *dhcpv6.Message) (addrs, pfxs []bound, status []string) {
	now := time.Now()
	for _, o := range m.Options {
		switch o.Code {
		case dhcpv6.OptIANA:
			if len(o.Data) < 12 {
				continue
			}
			tlvs(o.Data[12:], func(code uint16, d []byte) {
				if code == uint16(dhcpv6.OptIAAddr) && len(d) >= 24 {
					addrs = append(addrs, bound{net.IP(append([]byte(nil), d[:16]...)).String(), now.Add(time.Duration(be32(d[20:24])) * time.Second)})
				} else if code == uint16(dhcpv6.OptStatusCode) && len(d) >= 2 {
					status = append(status, fmt.Sprintf("na-status%d", int(d[0])<<8|int(d[1])))
				}
			})
		case dhcpv6.OptIAPD:
			if len(o.Data) < 12 {
				continue
			}
			tlvs(o.Data[12:], func(code uint16, d []byte) {
				if code == uint16(dhcpv6.OptIAPrefix) && len(d) >= 25 {
					n := net.IPNet{IP: net.IP(append([]byte(nil), d[9:25]...)), Mask: net.CIDRMask(int(d[8]), 128)}
					pfxs = append(pfxs, bound{n.String(), now.Add(time.Duration(be32(d[4:8])) * time.Second)})
				} else if code == uint16(dhcpv6.OptStatusCode) && len(d) >= 2 {
					status = append(status, fmt.Sprintf("pd-status%d", int(d[0])<<8|int(d[1])))
				}
			})
		case dhcpv6.OptStatusCode:
			if len(o.Data) >= 2 {
				status = append(status, fmt.Sprintf("status%d", int(o.Data[0])<<8|int(o.Data[1])))
			}
		}
	}
	return
}

func inList(l []string, x string) bool {
	for _, y := range l {
		if x == y {
			return true
		}
	}
	return false
}

func (s *v6sys) msg(n, kind string) string {
	c := s.cl[n]
	now := time.Now()
	m := &dhcpv6.Message{Options: []dhcpv6.Option{dhcpv6.MakeClientIDOption(c.duid)}}
	ours := dhcpv6.Option{Code: dhcpv6.OptServerID, Data: s.d.ServerDUID()}
	idNA, idPD := uint32(iaidNA), uint32(iaidPD)
	if strings.HasSuffix(kind, "-alt") { // same client-id, second IAID
		kind = strings.TrimSuffix(kind, "-alt")
		idNA, idPD = iaidNAalt, iaidPDalt
	}
	wantIAs := func() {
		na, pd := c.wantNA, c.wantPD
		if !na && !pd {
			na, pd = s.c.na, s.c.pd
		}
		if na {
			m.Options = append(m.Options, iaNAid(idNA, c.advA.val))
		}
		if pd {
			m.Options = append(m.Options, iaPDid(idPD, c.advP.val))
		}
	}
	heldIAs := func() {
		if c.addr.val != "" {
			m.Options = append(m.Options, iaNAid(idNA, c.addr.val))
		}
		if c.pfx.val != "" {
			m.Options = append(m.Options, iaPDid(idPD, c.pfx.val))
		}
		for _, e := range c.extra { // displaced bindings the client still holds
			if strings.Contains(e.val, "/") {
				m.Options = append(m.Options, iaPDid(iaidPDalt, e.val))
			} else {
				m.Options = append(m.Options, iaNAid(iaidNAalt, e.val))
			}
		}
	}
	twoIAs := func() { // two IA options of each configured kind (IAID usual + second) in ONE message
		if s.c.na {
			m.Options = append(m.Options, iaNAid(iaidNA, c.advA.val), iaNAid(iaidNAalt, ""))
		}
		if s.c.pd {
			m.Options = append(m.Options, iaPDid(iaidPD, c.advP.val), iaPDid(iaidPDalt, ""))
		}
	}
	switch kind {
	case "SOL-2":
		m.Type = dhcpv6.MsgTypeSolicit
		c.wantNA, c.wantPD = s.c.na, s.c.pd
		twoIAs()
	case "REQ-ours2":
		m.Type = dhcpv6.MsgTypeRequest
		m.Options = append(m.Options, ours)
		twoIAs()
	case "SOL-na", "SOL-pd", "SOL-both", "SOL-rapid":
		m.Type = dhcpv6.MsgTypeSolicit
		c.wantNA = kind == "SOL-na" || ((kind == "SOL-both" || kind == "SOL-rapid") && s.c.na)
		c.wantPD = kind == "SOL-pd" || ((kind == "SOL-both" || kind == "SOL-rapid") && s.c.pd)
		if c.wantNA {
			m.Options = append(m.Options, iaNAid(idNA, ""))
		}
		if c.wantPD {
			m.Options = append(m.Options, iaPDid(idPD, ""))
		}
		if kind == "SOL-rapid" {
			m.Options = append(m.Options, dhcpv6.Option{Code: dhcpv6.OptRapidCommit})
		}
	case "REQ-ours":
		m.Type = dhcpv6.MsgTypeRequest
		m.Options = append(m.Options, ours)
		wantIAs()
	case "REQ-other":
		m.Type = dhcpv6.MsgTypeRequest
		m.Options = append(m.Options, dhcpv6.Option{Code: dhcpv6.OptServerID, Data: []byte{0, 3, 0, 1, 0xde, 0xad, 0xbe, 0xef, 0, 1}})
		wantIAs()
	case "REQ-nosid":
		m.Type = dhcpv6.MsgTypeRequest
		wantIAs()
	case "RENEW":
		m.Type = dhcpv6.MsgTypeRenew
		m.Options = append(m.Options, ours)
		heldIAs()
	case "REBIND":
		m.Type = dhcpv6.MsgTypeRebind
		heldIAs()
	case "RELEASE":
		m.Type = dhcpv6.MsgTypeRelease
		m.Options = append(m.Options, ours)
		heldIAs()
	case "DECLINE":
		m.Type = dhcpv6.MsgTypeDecline
		m.Options = append(m.Options, ours, iaNA(c.addr.val))
	case "CONFIRM-mine":
		m.Type = dhcpv6.MsgTypeConfirm
		m.Options = append(m.Options, iaNA(c.addr.val))
	case "CONFIRM-other":
		m.Type = dhcpv6.MsgTypeConfirm
		m.Options = append(m.Options, iaNA(s.otherAddr(n)))
	case "CONFIRM-offlink":
		m.Type = dhcpv6.MsgTypeConfirm
		m.Options = append(m.Options, iaNA(v6OffLink))
	default:
		panic("unknown v6 op " + kind)
	}
	site := strings.SplitN(kind, "-", 2)[0]
	preAddr, prePfx := c.addr, c.pfx
	sentNA, sentPD := false, false
	for _, o := range m.Options {
		sentNA = sentNA || o.Code == dhcpv6.OptIANA
		sentPD = sentPD || o.Code == dhcpv6.OptIAPD
	}

	resp := s.d.Send(m)
	var obs []string
	for _, r := range resp {
		addrs, pfxs, status := values(r)
		switch r.Type {
		case dhcpv6.MsgTypeAdvertise:
			obs = append(obs, fmt.Sprintf("ADVERTISE %v %v %v", vals(addrs), vals(pfxs), status))
			// an ADVERTISE restating the client's own binding is not a separate reservation
			for _, a := range addrs {
				s.handedOut(n, site, "ADVERTISE", "address", a.val, s.usableA)
				c.advA, c.pinA = bound{a.val, now.Add(advHold)}, a.val
				if preAddr.val == a.val {
					c.pinA = ""
					c.advA.until = now
				}
			}
			for _, p := range pfxs {
				s.handedOut(n, site, "ADVERTISE", "prefix", p.val, s.usableP)
				c.advP, c.pinP = bound{p.val, now.Add(advHold)}, p.val
				if prePfx.val == p.val {
					c.pinP = ""
					c.advP.until = now
				}
			}
		case dhcpv6.MsgTypeReply:
			obs = append(obs, fmt.Sprintf("REPLY %v %v %v", vals(addrs), vals(pfxs), status))
			if m.Type == dhcpv6.MsgTypeConfirm || m.Type == dhcpv6.MsgTypeRelease || m.Type == dhcpv6.MsgTypeDecline {
				if len(addrs)+len(pfxs) > 0 {
					s.v("O1-unexpected-values", site, "%s: Reply to %s carries bindings %v %v", n, kind, vals(addrs), vals(pfxs))
				}
				continue
			}
			for _, a := range addrs {
				s.handedOut(n, site, "REPLY", "address", a.val, s.usableA)
				s.acked(n, site, "address", a.val, preAddr)
				if c.addr.live(now) && c.addr.val != a.val {
					c.extra = append(c.extra, c.addr)
				}
				c.addr, c.advA, c.pinA = a, bound{}, ""
				c.everA[a.val] = true
			}
			for _, p := range pfxs {
				s.handedOut(n, site, "REPLY", "prefix", p.val, s.usableP)
				s.acked(n, site, "prefix", p.val, prePfx)
				if c.pfx.live(now) && c.pfx.val != p.val {
					c.extra = append(c.extra, c.pfx)
				}
				c.pfx, c.advP, c.pinP = p, bound{}, ""
				c.everP[p.val] = true
			}
			// O4: renewing an own unexpired binding must return the same value
			if m.Type == dhcpv6.MsgTypeRenew || m.Type == dhcpv6.MsgTypeRebind {
				if sentNA && preAddr.live(now) && !inList(vals(addrs), preAddr.val) {
					s.v("O4-renew-refused", site, "%s renewed its unexpired address %s and the Reply carries %v %v", n, preAddr.val, vals(addrs), status)
				}
				if sentPD && prePfx.live(now) && !inList(vals(pfxs), prePfx.val) {
					s.v("O4-renew-refused", site, "%s renewed its unexpired prefix %s and the Reply carries %v %v", n, prePfx.val, vals(pfxs), status)
				}
			}
		default:
			obs = append(obs, fmt.Sprintf("type%d", r.Type))
		}
	}
	if (m.Type == dhcpv6.MsgTypeRenew || m.Type == dhcpv6.MsgTypeRebind) && len(resp) == 0 && (preAddr.live(now) || prePfx.live(now)) {
		s.v("O4-renew-refused", site, "%s renewed its unexpired binding and got no answer", n)
	}
	switch m.Type {
	case dhcpv6.MsgTypeRelease:
		c.addr, c.pfx, c.extra = bound{}, bound{}, nil // (an advertised-only value cannot be released: pins stay)
	case dhcpv6.MsgTypeDecline:
		if preAddr.live(now) {
			s.declined[preAddr.val] = true
		}
		c.addr = bound{}
	}
	s.postCheck(site)
	if len(obs) == 0 {
		return "-"
	}
	return strings.Join(obs, ",")
}

func vals(b []bound) []string {
	out := []string{}
	for _, x := range b {
		out = append(out, x.val)
	}
	return out
}

// handedOut: O3 (inside the pool, not the network address) and O5 (not declined) for any value
// the server puts into an Advertise or Reply.
func (s *v6sys) handedOut(n, site, in, what, x string, usable []string) {
	if !inList(usable, x) {
		v := explore.Viol{Kind: "O3-outside-pool", Site: site, Detail: fmt.Sprintf("%s: %s carries %s %s which is not an assignable value of the pool %v", n, in, what, x, usable)}
		if s.c.integrated && x == "2001:db8::" {
			v.Detail += " (it is the pool's base address, i.e. the subnet-router anycast address; the legacy pool skips it)"
			s.soft(v, classV6Anycast)
		} else {
			s.viols = append(s.viols, v)
		}
	}
	if s.declined[x] {
		s.v("O5-declined-reoffered", site, "%s: %s carries %s %s which was declined earlier", n, in, what, x)
	}
}

// acked: O1 and O4 for a value in a Reply that creates/extends a binding.
func (s *v6sys) acked(n, site, what, x string, own bound) {
	now := time.Now()
	for _, on := range s.names {
		if on == n {
			continue
		}
		o := s.cl[on]
		if (o.addr.live(now) && o.addr.val == x) || (o.pfx.live(now) && o.pfx.val == x) || o.holdsExtra(x, now) {
			s.v("O1-ack-leased-to-other", site, "%s: Reply binds %s %s which %s holds (unexpired)", n, what, x, on)
		}
		if (o.advA.live(now) && o.advA.val == x) || (o.advP.live(now) && o.advP.val == x) {
			s.v("O1-ack-offered-to-other", site, "%s: Reply binds %s %s which is currently advertised to %s", n, what, x, on)
		}
	}
	if own.live(now) && own.val != x {
		s.v("O4-renew-changed", site, "%s holds unexpired %s %s but the Reply binds %s", n, what, own.val, x)
	}
}

func (s *v6sys) unexpired(duid, val string) bool {
	n, ok := s.byDUID[duid]
	if !ok {
		return true
	}
	c, now := s.cl[n], time.Now()
	return (c.addr.val == val && c.addr.live(now)) || (c.pfx.val == val && c.pfx.live(now)) || c.holdsExtra(val, now)
}

func (s *v6sys) postCheck(site string) {
	ls := s.d.Leases()
	for i, a := range ls {
		for _, b := range ls[i+1:] {
			if a.Address != nil && a.Address.Equal(b.Address) && s.unexpired(a.DUID, a.Address.String()) && s.unexpired(b.DUID, b.Address.String()) {
				s.v("O2-two-bindings", site, "lease table holds two unexpired bindings on address %s: %s and %s", a.Address, s.who(a.DUID), s.who(b.DUID))
			}
			if a.Prefix != "" && a.Prefix == b.Prefix && s.unexpired(a.DUID, a.Prefix) && s.unexpired(b.DUID, b.Prefix) {
				s.v("O2-two-bindings", site, "lease table holds two unexpired bindings on prefix %s: %s and %s", a.Prefix, s.who(a.DUID), s.who(b.DUID))
			}
		}
	}
}

func (s *v6sys) Fingerprint() string {
	now := time.Now()
	var sb strings.Builder
	sb.WriteString(deepdump.Dump(s.d.Srv, deepdump.Options{Now: now,
		SkipTypes: map[string]bool{"net.UDPConn": true},
		SkipFields: map[string]bool{
			// statistics counters, read only by GetStats()
			"Server.solicitReceived": true, "Server.advertisesSent": true, "Server.requestsRecv": true, "Server.repliesSent": true,
			"Server.renewsRecv": true, "Server.rebindsRecv": true, "Server.releasesRecv": true, "Server.declinesRecv": true, "Server.confirmsRecv": true,
			// peer address of the driver's private receiver (differs per instance; only logged)
			"Lease.ClientLinkAddr": true,
		}}))
	rel := func(b bound) string {
		if b.val == "" {
			return "-"
		}
		return fmt.Sprintf("%s@%d", b.val, b.until.Sub(now).Milliseconds())
	}
	for _, n := range s.names {
		c := s.cl[n]
		fmt.Fprintf(&sb, "|%s:%v%v %s %s %s %s %s %s", n, c.wantNA, c.wantPD, rel(c.addr), rel(c.pfx), rel(c.advA), rel(c.advP), c.pinA, c.pinP)
		for _, e := range c.extra {
			sb.WriteString(" x:" + rel(e))
		}
	}
	var dl []string
	for d := range s.declined {
		dl = append(dl, d)
	}
	sort.Strings(dl)
	fmt.Fprintf(&sb, "|declined=%v", dl)
	return digest(sb.String())
}

// Check: monitors, then the O6 probe (fresh clients SOLICIT+REQUEST until nothing is handed out).
func (s *v6sys) Check() []explore.Viol {
	defer s.d.Close()
	if len(s.viols) > 0 {
		return s.viols
	}
	now := time.Now()
	reserved := map[string]string{}
	for _, n := range s.names {
		c := s.cl[n]
		for _, b := range append([]bound{c.addr, c.pfx}, c.extra...) {
			if b.live(now) {
				reserved[b.val] = "binding of " + n
			}
		}
		for _, b := range []bound{c.advA, c.advP} {
			if b.live(now) {
				if _, ok := reserved[b.val]; !ok {
					reserved[b.val] = "advertised to " + n
				}
			}
		}
	}
	for d := range s.declined {
		if _, ok := reserved[d]; !ok {
			reserved[d] = "declined"
		}
	}
	known := append([]string(nil), s.names...)
	got := map[string]bool{}
	total := len(s.usableA) + len(s.usableP)
	for k := 1; k <= total+2; k++ {
		n := fmt.Sprintf("p%d", k)
		s.addClient(n, []byte{0, 3, 0, 1, 2, 0, 0, 1, byte(k >> 8), byte(k)}) // (two bytes: pools with >255 values)
		s.msg(n, "SOL-both")
		c := s.cl[n]
		if c.advA.val == "" && c.advP.val == "" {
			break
		}
		s.msg(n, "REQ-ours")
		if c.addr.val == "" && c.pfx.val == "" {
			s.v("O6-probe", "probe", "fresh client %s was advertised %s %s but its REQUEST bound nothing", n, c.advA.val, c.advP.val)
			break
		}
		if c.addr.val != "" {
			got[c.addr.val] = true
		}
		if c.pfx.val != "" {
			got[c.pfx.val] = true
		}
	}
	if len(s.viols) > 0 {
		return s.viols
	}
	var missing []string
	for _, u := range append(append([]string(nil), s.usableA...), s.usableP...) {
		if _, r := reserved[u]; !r && !got[u] {
			missing = append(missing, u)
		}
	}
	if len(missing) == 0 {
		return s.viols
	}
	// root-cause evidence: who pins each missing value in the server's allocation tables?
	pa, pp := s.d.Srv.VerifPoolAllocations()
	holder := func(x string) string {
		for _, n := range known {
			du := string(s.cl[n].duid)
			if pa[du] == x || pp[du] == x {
				return n
			}
			if a := s.d.AddrAlloc; a != nil {
				if l := a.Lookup(du); l != nil && l.IP.String() == x {
					return n
				}
			}
			if a := s.d.PfxAlloc; a != nil {
				if l := a.Lookup(du); l != nil && l.String() == x {
					return n
				}
			}
		}
		return ""
	}
	nExpired, nOrphan := 0, 0
	var why []string
	for _, x := range missing {
		h := holder(x)
		if h == "" {
			why = append(why, x+" pinned by nobody known")
			continue
		}
		c := s.cl[h]
		switch {
		case (c.addr.val == x && !c.addr.live(now)) || (c.pfx.val == x && !c.pfx.live(now)):
			nExpired++
			why = append(why, fmt.Sprintf("%s still allocated to %s whose binding's valid lifetime ran out", x, h))
		case c.addr.val != x && c.pfx.val != x && (c.pinA == x || c.pinP == x):
			nOrphan++
			why = append(why, fmt.Sprintf("%s still allocated to %s who holds no binding on it (ADVERTISEd only, hold lapsed)", x, h))
		default:
			why = append(why, fmt.Sprintf("%s still allocated to %s", x, h))
		}
	}
	viol := explore.Viol{Kind: "O6-not-obtainable", Site: "probe",
		Detail: fmt.Sprintf("fresh clients obtained %v; reserved %v; missing %v: %v", keys(got), reserved, missing, why)}
	switch {
	case nExpired+nOrphan == len(missing) && nExpired > 0:
		s.soft(viol, classV6NoExpiry)
	case nOrphan == len(missing):
		s.soft(viol, classV6Orphan)
	default:
		s.viols = append(s.viols, viol)
	}
	return s.viols
}
