package c02

import (
	"fmt"
	"net"
	"sort"
	"strings"
	"time"

	"github.com/insomniacslk/dhcp/dhcpv4"

	"verif/deepdump"
	"verif/explore"
	"verif/harness/dhcpdrv"
)

// ---------------------------------------------------------------- DHCPv4 system
//
// Real dhcp.Server + PoolManager + Pool 10.0.1.0/29 (gateway .1 => usable .2-.6),
// lease 10 min, unloaded ebpf.Loader. Clients send messages whose address
// arguments are SYMBOLIC ("my last offer", "the other client's address", ...)
// and are resolved from what the clients have observed so far.

const (
	v4Lease   = 10 * time.Minute
	offerHold = 60 * time.Second // an un-requested OFFER reserves its address for this long (oracle assumption)
)

var (
	v4Net, v4Gw, v4Bcast = "10.0.1.0", "10.0.1.1", "10.0.1.7"
	v4Outside            = "10.0.2.5"
	v4Usable             = []string{"10.0.1.2", "10.0.1.3", "10.0.1.4", "10.0.1.5", "10.0.1.6"}
	relayIP              = net.IPv4(10, 0, 9, 1)
)

type v4model struct {
	v4cfg
	depth, nodedup int
	budget         time.Duration
}

func v4configs(thorough bool) []v4model {
	if thorough {
		return []v4model{
			{v4cfg{name: "k3 direct+relay+hlen", clients: 3, hlen: true, relay: true}, 6, 2, 4 * time.Minute},
			{v4cfg{name: "k2 direct+relay+hlen", clients: 2, hlen: true, relay: true}, 6, 0, 6 * time.Minute},
		}
	}
	return []v4model{
		{v4cfg{name: "k2 direct+relay+hlen", clients: 2, hlen: true, relay: true}, 5, 2, 5 * time.Minute},
	}
}

type v4cfg struct {
	name    string
	clients int  // m1..mk
	hlen    bool // add pseudo clients m1h0 / m1h16 (chaddr of length 0 / 16)
	relay   bool // relayed variants with circuit-ids c1,c2
	nilLdr  bool
	lease   time.Duration // 0 = v4Lease
}

type cview struct { // what one client has observed
	offer, leased, prev string
	// pinned: the address of the client's latest OFFER that was never followed by an ACK,
	// RELEASE or (valid) DECLINE of this client; survives NAKs and time (root-cause evidence
	// for the "reservation without lease is never reclaimed" class)
	pinned map[string]bool
	// bound: the binding the client was TOLD it has (last ACK: address, lease time), until it
	// releases/declines it or is NAKed. The server forgetting a lease does not end it.
	bound      string
	boundUntil time.Time
}

type offerRec struct {
	ip      string
	at      time.Time
	circuit string
	viaLine bool
}

type v4sys struct {
	c        v4cfg
	d        *dhcpdrv.V4
	names    []string
	hw       map[string][]byte
	byMAC    map[string]string // MAC string -> client name
	view     map[string]*cview
	offers   map[string]offerRec // live (un-requested, un-timed-out) offers by client
	declined map[string]bool
	viols    []explore.Viol
	hook     func(v explore.Viol, class string, trace []string)
	trace    []string
	now      func() time.Time // time source
	// tookOver: ACKs by which a MAC was given the address of ANOTHER MAC's lease-table entry that
	// carried the very circuit-id of the request (witness marker for the circuit-id class)
	tookOver   []string
	tookOverIP map[string]string // address -> how it was taken over
	noStale  bool             // leases are born expired (Engine B "expired" scenarios): skip the expired-not-removed check
}

func (s *v4sys) setHooks(h func(v explore.Viol, class string, trace []string)) { s.hook = h }

// soft reports a finding of an already classified root cause WITHOUT pruning the state
// (its consequences are modelled by the oracle, so descendants stay meaningful). If the class
// is not listed as known the report package turns it into an ordinary VIOLATION. When
// replaying (no hook) it is an ordinary violation.
func (s *v4sys) soft(v explore.Viol, class string) {
	if s.hook == nil {
		s.viols = append(s.viols, v)
		return
	}
	s.hook(v, class, append([]string(nil), s.trace...))
}

func isUsable(ip string) bool {
	for _, u := range v4Usable {
		if u == ip {
			return true
		}
	}
	return false
}

func ip4s(ip net.IP) string {
	if ip == nil || ip.IsUnspecified() {
		return ""
	}
	return ip.String()
}

func newV4sys(c v4cfg, sleep func(time.Duration)) *v4sys { return newV4sysClock(c, sleep, time.Now) }

func newV4sysClock(c v4cfg, sleep func(time.Duration), now func() time.Time) *v4sys {
	s := &v4sys{c: c, hw: map[string][]byte{}, byMAC: map[string]string{}, view: map[string]*cview{},
		offers: map[string]offerRec{}, declined: map[string]bool{}, now: now}
	if c.lease == 0 {
		c.lease = v4Lease
	}
	s.d = dhcpdrv.NewV4(dhcpdrv.V4Config{Network: v4Net + "/29", Gateway: v4Gw, Lease: c.lease, NilLoader: c.nilLdr, Sleep: sleep, Now: now})
	for i := 1; i <= c.clients; i++ {
		s.addClient(fmt.Sprintf("m%d", i), []byte{2, 0, 0, 0, 0, byte(i)})
	}
	if c.hlen {
		s.addClient("m1h0", []byte{})
		s.addClient("m1h16", []byte{2, 0, 0, 0, 0, 1, 9, 9, 9, 9, 9, 9, 9, 9, 9, 9})
	}
	return s
}

func (s *v4sys) addClient(name string, hw []byte) {
	s.names = append(s.names, name)
	s.hw[name] = hw
	s.byMAC[net.HardwareAddr(hw).String()] = name
	s.view[name] = &cview{pinned: map[string]bool{}}
}

func (s *v4sys) pseudo(n string) bool { return strings.Contains(n, "h") }

// otherAddr: the address currently offered/leased to ANOTHER client (first such client in order).
func (s *v4sys) otherAddr(me string) string {
	for _, n := range s.names {
		if n == me {
			continue
		}
		if v := s.view[n]; v.leased != "" {
			return v.leased
		} else if v.offer != "" {
			return v.offer
		}
	}
	return ""
}

func (s *v4sys) Ops() []string {
	var ops []string
	for _, n := range s.names {
		v := s.view[n]
		add := func(k string) { ops = append(ops, n+":"+k) }
		add("DISCOVER")
		if v.offer != "" {
			add("REQ-sel")
		}
		if v.leased != "" {
			add("RELEASE")
		}
		if s.pseudo(n) {
			continue
		}
		// RELEASE naming an address that is not the sender's (with or without a lease of its own)
		add("RELEASE-gw")
		add("RELEASE-out")
		if s.otherAddr(n) != "" {
			add("RELEASE-other")
			add("REQ-other")
			add("DECLINE-other")
		}
		if v.prev != "" {
			add("REQ-reboot")
		}
		if v.leased != "" {
			add("REQ-renew")
			add("DECLINE-mine")
		}
		add("REQ-osrv") // REQUEST naming ANOTHER server in option 54, for my lease / my offer / my previous / a free address
		add("REQ-gw")
		add("REQ-net")
		add("REQ-bcast")
		add("REQ-out")
		add("INFORM")
		if s.c.relay {
			for _, c := range []string{"c1", "c2"} {
				add("rDISCOVER/" + c)
				if v.offer != "" {
					add("rREQ-sel/" + c)
				}
				if v.leased != "" {
					add("rREQ-renew/" + c) // the same client renewing from behind this (possibly different) circuit-id
				}
				if s.otherAddr(n) != "" {
					add("rREQ-other/" + c) // opt50 = another client's address, arriving on this circuit-id
				}
			}
		}
	}
	ops = append(ops, "+300s", "+601s", "+61s")
	return ops
}

func (s *v4sys) v(kind, site, f string, a ...any) {
	d := fmt.Sprintf(f, a...)
	if len(s.tookOver) > 0 && (kind == "O1-ack-leased-to-other" || kind == "O2-two-bindings") {
		d += " {line take-over earlier: " + strings.Join(s.tookOver, "; ") + "}"
	}
	if kind == "O5-declined-reoffered" {
		// the declined address is one that a take-over duplicated: the first holder's (expired but
		// present) entry was used to DECLINE it while the second holder's lease on it lives on
		for ip, how := range s.tookOverIP {
			if strings.Contains(d, " "+ip+" ") {
				d += " {declined address was duplicated by a line take-over: " + how + "}"
			}
		}
	}
	s.viols = append(s.viols, explore.Viol{Kind: kind, Site: site, Detail: d})
}

// held reports whether lease-table entry l still legitimately reserves its address:
// it is unexpired, or it expired but no cleanup tick has happened since.
func (s *v4sys) held(l dhcpdrv.Lease, now time.Time) bool {
	if now.Before(l.ExpiresAt) {
		return true
	}
	return !s.d.LastTick.After(l.ExpiresAt)
}

// same: is a binding (lease key / offer owner bk, circuit bc) held by the client that sent
// the current message (client me, relayed with circuit mc or "")? Identity is the chaddr; a
// relayed message with option 82 additionally speaks for the subscriber line (circuit-id),
// which is how the server indexes leases for relay-aware lookup.
func same(me, mc, bk, bc string) bool {
	return me == bk || (mc != "" && mc == bc)
}

func (s *v4sys) Apply(op string) string {
	s.trace = append(s.trace, op)
	if strings.HasPrefix(op, "+") {
		var sec int
		fmt.Sscanf(op, "+%ds", &sec)
		s.d.Advance(time.Duration(sec) * time.Second)
		now := s.now()
		for n, o := range s.offers {
			if now.Sub(o.at) >= offerHold {
				delete(s.offers, n)
			}
		}
		s.postCheck("time")
		return "ok"
	}
	i := strings.Index(op, ":")
	n, kind := op[:i], op[i+1:]
	circuit := ""
	if j := strings.Index(kind, "/"); j >= 0 {
		kind, circuit = kind[:j], kind[j+1:]
	}
	return s.msg(n, kind, circuit)
}

// msg sends one message of the given symbolic kind from client n and runs the reply monitors.
func (s *v4sys) msg(n, kind, circuit string) string {
	v := s.view[n]
	m := dhcpdrv.Msg{CHAddr: s.hw[n]}
	relayed := strings.HasPrefix(kind, "r")
	if relayed {
		kind = kind[1:]
		m.GIAddr = relayIP
		m.CircuitID = circuit
		m.RemoteID = "relay1"
	}
	target := "" // the address this message is about
	switch kind {
	case "DISCOVER":
		m.Type = dhcpv4.MessageTypeDiscover
	case "REQ-sel":
		m.Type, target = dhcpv4.MessageTypeRequest, v.offer
		m.ServerID = s.d.ServerIP()
	case "REQ-other":
		m.Type, target = dhcpv4.MessageTypeRequest, s.otherAddr(n)
		m.ServerID = s.d.ServerIP()
	case "REQ-osrv":
		// The client "selects" some other server. Whatever this server does with its own OFFER, it
		// must not disturb a LEASE; and the client's un-requested offer here is void from now on.
		m.Type, m.ServerID = dhcpv4.MessageTypeRequest, net.IPv4(10, 0, 1, 99)
		switch {
		case v.leased != "":
			target = v.leased
		case v.offer != "":
			target = v.offer
			delete(s.offers, n+"/"+target) // (the pool reservation may stay or go: pinned[] keeps the evidence)
		case v.prev != "":
			target = v.prev
		default:
			target = "10.0.1.4"
		}
	case "REQ-reboot":
		m.Type, target = dhcpv4.MessageTypeRequest, v.prev
	case "REQ-renew":
		m.Type, target = dhcpv4.MessageTypeRequest, v.leased
		if !relayed {
			m.CIAddr = net.ParseIP(target) // (relayed: broadcast REBINDING-style REQUEST naming the address in option 50)
		}
	case "REQ-gw":
		m.Type, target = dhcpv4.MessageTypeRequest, v4Gw
	case "REQ-net":
		m.Type, target = dhcpv4.MessageTypeRequest, v4Net
	case "REQ-bcast":
		m.Type, target = dhcpv4.MessageTypeRequest, v4Bcast
	case "REQ-out":
		m.Type, target = dhcpv4.MessageTypeRequest, v4Outside
	case "RELEASE":
		m.Type, target = dhcpv4.MessageTypeRelease, v.leased
		m.CIAddr = net.ParseIP(target)
		m.ServerID = s.d.ServerIP()
	case "RELEASE-other", "RELEASE-gw", "RELEASE-out":
		m.Type, m.ServerID = dhcpv4.MessageTypeRelease, s.d.ServerIP()
		target = map[string]string{"RELEASE-other": s.otherAddr(n), "RELEASE-gw": v4Gw, "RELEASE-out": v4Outside}[kind]
		m.CIAddr = net.ParseIP(target)
	case "DECLINE-mine":
		m.Type, target = dhcpv4.MessageTypeDecline, v.leased
		m.ServerID = s.d.ServerIP()
	case "DECLINE-other":
		m.Type, target = dhcpv4.MessageTypeDecline, s.otherAddr(n)
		m.ServerID = s.d.ServerIP()
	case "INFORM":
		m.Type = dhcpv4.MessageTypeInform
		m.CIAddr = net.ParseIP(v.leased)
		if v.leased == "" {
			m.CIAddr = net.ParseIP("10.0.1.4")
		}
	default:
		panic("unknown op kind " + kind)
	}
	if target != "" && m.CIAddr == nil {
		m.ReqIP = net.ParseIP(target)
	}
	site := m.Type.String()

	now := s.now()
	pre := s.d.Leases()
	myKey := net.HardwareAddr(s.hw[n]).String()
	var own, ownAny *dhcpdrv.Lease // my own unexpired binding / my lease-table entry before the message
	for k := range pre {
		if pre[k].Key == myKey {
			ownAny = &pre[k]
			if now.Before(pre[k].ExpiresAt) {
				own = &pre[k]
			}
		}
	}
	mc := ""
	if relayed {
		mc = circuit
	}

	replies := s.d.Send(m)
	var obs []string
	gotAck := ""
	for _, r := range replies {
		obs = append(obs, r.String())
		x := ip4s(r.YIAddr)
		switch r.Type {
		case dhcpv4.MessageTypeOffer:
			if !isUsable(x) {
				s.v("O3-outside-pool", site, "%s was OFFERed %q which is not an assignable pool address", n, x)
			}
			if s.declined[x] {
				s.v("O5-declined-reoffered", site, "%s was OFFERed %s which was declined earlier", n, x)
			}
			v.offer = x
			rec := offerRec{ip: x, at: now, circuit: mc}
			for _, l := range pre {
				if mc != "" && l.CircuitID == mc && l.Key != myKey && ip4s(l.IP) == x {
					rec.viaLine = true // the server offered the address of the line's existing lease (held by another MAC)
				}
			}
			if ownAny != nil && ip4s(ownAny.IP) == x {
				// the OFFER restates the client's own lease: the lease is the reservation
			} else {
				s.offers[n+"/"+x] = rec // (a client can hold offers on two addresses: own reservation + its line's lease)
				v.pinned[x] = true
			}
		case dhcpv4.MessageTypeAck:
			if m.Type == dhcpv4.MessageTypeInform && x == "" {
				continue
			}
			gotAck = x
			if !isUsable(x) {
				s.v("O3-outside-pool", site, "%s was ACKed %q which is not an assignable pool address (gateway/network/broadcast/outside)", n, x)
			}
			if s.declined[x] {
				s.v("O5-declined-reoffered", site, "%s was ACKed %s which was declined earlier", n, x)
			}
			for _, l := range pre {
				if ip4s(l.IP) == x && now.Before(l.ExpiresAt) && !same(myKey, mc, l.Key, l.CircuitID) {
					s.v("O1-ack-leased-to-other", site, "%s was ACKed %s which is leased (unexpired, %v left) to %s", n, x, l.ExpiresAt.Sub(now), s.who(l.Key))
				}
			}
			for ok, o := range s.offers {
				on := ok[:strings.Index(ok, "/")]
				if on != n && o.ip == x && !(mc != "" && mc == o.circuit) {
					how := ""
					if o.viaLine {
						how = fmt.Sprintf(" (offer made through the circuit-id index: address of line %s's lease held by another MAC)", o.circuit)
					}
					s.v("O1-ack-offered-to-other", site, "%s was ACKed %s which is currently offered to %s%s", n, x, on, how)
				}
			}
			for _, on := range s.names {
				if ov := s.view[on]; on != n && ov.bound == x && now.Before(ov.boundUntil) && !s.hasLease(pre, on) {
					s.v("O1-ack-leased-to-other", site, "%s was ACKed %s which %s was acknowledged for (%v left) and never gave up; the server no longer has %s's lease", n, x, on, ov.boundUntil.Sub(now), on)
				}
			}
			for _, l := range pre {
				if mc != "" && l.CircuitID == mc && l.Key != myKey && ip4s(l.IP) == x {
					if s.tookOverIP == nil {
						s.tookOverIP = map[string]string{}
					}
					s.tookOverIP[x] = fmt.Sprintf("%s from %s on circuit %s", n, s.who(l.Key), mc)
					s.tookOver = append(s.tookOver, fmt.Sprintf("%s was ACKed %s from %s's table entry carrying circuit %s", n, x, s.who(l.Key), mc))
				}
			}
			if own != nil && ip4s(own.IP) != x {
				s.v("O4-renew-changed", site, "%s holds an unexpired lease on %s but was ACKed %s", n, ip4s(own.IP), x)
			}
			v.leased, v.prev, v.offer = x, x, ""
			v.bound, v.boundUntil = x, now
			if lt := r.Pkt.IPAddressLeaseTime(0); lt < 1e9*time.Second { // (a negative pool lease time wraps: born expired)
				v.boundUntil = now.Add(lt)
			}
			delete(v.pinned, x)
			delete(s.offers, n+"/"+x)
		case dhcpv4.MessageTypeNak:
			// the client restarts; the server-side reservation of an earlier OFFER is not
			// cancelled by a NAK (it lapses with the offer hold)
			v.leased, v.offer, v.bound = "", "", ""
		}
	}
	switch m.Type {
	case dhcpv4.MessageTypeRequest:
		// O4: a client asking for the address of its own unexpired binding must get it
		// (a REQUEST that names another server may be answered with silence)
		if own != nil && ip4s(own.IP) == target && gotAck != target && kind != "REQ-osrv" {
			s.v("O4-renew-refused", site, "%s asked for its own unexpired lease %s and was answered %v", n, target, obs)
		}
	case dhcpv4.MessageTypeRelease:
		// A client that sends RELEASE gives up its own binding whatever ciaddr says (the server keys
		// RELEASE by chaddr); it never affects anybody else's lease, offer or reservation.
		v.leased, v.bound = "", ""
		if kind == "RELEASE" {
			v.offer = ""
			delete(v.pinned, target)
			delete(s.offers, n+"/"+target)
		}
	case dhcpv4.MessageTypeDecline:
		// A DECLINE has standing only if the sender holds the lease on the address it names
		// (whatever symbolic op produced it); then the address is retired for the horizon.
		if ownAny != nil && ip4s(ownAny.IP) == target {
			s.declined[target] = true
			v.leased, v.offer, v.bound = "", "", ""
			delete(v.pinned, target)
			delete(s.offers, n+"/"+target)
		}
	}
	s.postCheck(site)
	if len(obs) == 0 {
		return "-"
	}
	return strings.Join(obs, ",")
}

func (s *v4sys) hasLease(ls []dhcpdrv.Lease, client string) bool {
	for _, l := range ls {
		if s.who(l.Key) == client {
			return true
		}
	}
	return false
}

func (s *v4sys) who(key string) string {
	if n, ok := s.byMAC[key]; ok {
		return n
	}
	return "mac[" + key + "]"
}

// postCheck: lease-table invariants after every step.
func (s *v4sys) postCheck(site string) {
	now := s.now()
	ls := s.d.Leases()
	for i, a := range ls {
		if !isUsable(ip4s(a.IP)) {
			s.v("O3-outside-pool", site, "lease table binds %s to %q which is not an assignable pool address", s.who(a.Key), ip4s(a.IP))
		}
		if !s.noStale && !s.held(a, now) {
			s.v("O6-expired-not-removed", site, "lease of %s on %s expired at %v, a cleanup tick ran at %v, entry still present", s.who(a.Key), a.IP, a.ExpiresAt.Sub(now), s.d.LastTick.Sub(now))
		}
		for _, b := range ls[i+1:] {
			if a.IP.Equal(b.IP) && now.Before(a.ExpiresAt) && now.Before(b.ExpiresAt) {
				s.v("O2-two-bindings", site, "lease table holds two unexpired bindings on %s: %s (circuit %q) and %s (circuit %q)", a.IP, s.who(a.Key), a.CircuitID, s.who(b.Key), b.CircuitID)
			}
		}
	}
}

func (s *v4sys) Fingerprint() string {
	now := s.now()
	var sb strings.Builder
	sb.WriteString(deepdump.Dump(s.d.Srv, deepdump.Options{Now: now,
		SkipTypes: map[string]bool{"ebpf.Loader": true},
		SkipFields: map[string]bool{
			// statistics counters: read only by Stats()/CircuitIDCollisionStats()
			"Server.requestsTotal": true, "Server.offersTotal": true, "Server.acksTotal": true, "Server.naksTotal": true,
			"Server.releasesTotal": true, "Server.radiusAuthOK": true, "Server.radiusAuthFail": true,
			"Server.circuitIDInsertions": true, "Server.circuitIDCollisions": true,
			// random accounting session id / session start: only copied into RADIUS accounting (no RADIUS client here)
			"Lease.SessionID": true, "Lease.SessionStart": true,
			// hostname option is never sent by this driver
		}}))
	for _, n := range s.names {
		v := s.view[n]
		fmt.Fprintf(&sb, "|%s:%s,%s,%s,%v,%s@%d", n, v.offer, v.leased, v.prev, keys(v.pinned), v.bound, v.boundUntil.Sub(now).Milliseconds())
	}
	var ok []string
	for k, o := range s.offers {
		ok = append(ok, fmt.Sprintf("%s/%s/%v", k, o.circuit, o.viaLine))
	}
	sort.Strings(ok)
	fmt.Fprintf(&sb, "|offers=%v|tookover=%d", ok, len(s.tookOver))
	var dl []string
	for d := range s.declined {
		dl = append(dl, d)
	}
	sort.Strings(dl)
	fmt.Fprintf(&sb, "|declined=%v|tick=%d|ticked=%v", dl, s.d.NextTick.Sub(now).Milliseconds(), s.lastTickRel(now))
	return digest(sb.String())
}

// lastTickRel: for each lease, whether a tick happened after its expiry is what matters; encode
// the age of the last tick (bounded by the lease horizon).
func (s *v4sys) lastTickRel(now time.Time) int64 {
	if s.d.LastTick.IsZero() {
		return -1
	}
	return now.Sub(s.d.LastTick).Milliseconds()
}

// Check returns the monitor violations; if there are none it runs the destructive
// O6 probe: fresh clients DISCOVER+REQUEST until the server refuses. Every address
// that is not held by an unexpired (or not-yet-cleaned) lease, not under a live
// offer and not declined must be obtainable, and nothing else.
func (s *v4sys) Check() []explore.Viol {
	if len(s.viols) > 0 {
		return s.viols
	}
	now := s.now()
	reserved := map[string]string{}
	for _, l := range s.d.Leases() {
		reserved[ip4s(l.IP)] = "lease of " + s.who(l.Key)
	}
	for k, o := range s.offers {
		if _, ok := reserved[o.ip]; !ok {
			reserved[o.ip] = "offer to " + k[:strings.Index(k, "/")]
		}
	}
	for _, n := range s.names {
		if v := s.view[n]; v.bound != "" && now.Before(v.boundUntil) {
			if _, ok := reserved[v.bound]; !ok {
				reserved[v.bound] = "acknowledged binding of " + n + " (no lease-table entry)"
			}
		}
	}
	for d := range s.declined {
		if _, ok := reserved[d]; !ok {
			reserved[d] = "declined"
		}
	}
	expect := 0
	for _, u := range v4Usable {
		if _, r := reserved[u]; !r {
			expect++
		}
	}
	got := map[string]bool{}
	for k := 1; k <= len(v4Usable)+2; k++ {
		n := fmt.Sprintf("p%d", k)
		s.addClient(n, []byte{2, 0, 0, 0, 1, byte(k)})
		if r := s.msg(n, "DISCOVER", ""); !strings.HasPrefix(r, "OFFER") {
			break
		}
		if r := s.msg(n, "REQ-sel", ""); !strings.HasPrefix(r, "ACK") {
			s.v("O6-probe", "probe", "fresh client %s was offered %s but its REQUEST was answered %q", n, s.view[n].offer, r)
			break
		}
		got[s.view[n].leased] = true
	}
	if len(s.viols) > 0 {
		return s.viols
	}
	// Only a SHORTFALL is a violation: an address the oracle counts as reserved merely because an
	// expired lease entry awaits the next cleanup tick may legitimately be obtainable already;
	// obtaining an address that is really held (unexpired lease, live offer, acknowledged binding,
	// declined) is caught by the O1/O5 monitors on the probe's own ACKs.
	var missing []string
	for _, u := range v4Usable {
		if _, r := reserved[u]; !r && !got[u] {
			missing = append(missing, u)
		}
	}
	if len(missing) > 0 {
		// root cause evidence: is each missing address pinned in the pool's MAC->IP table by a
		// client that holds no lease (an allocation that nothing will ever reclaim)?
		ps := s.d.Pool.VerifState()
		leasedIP := map[string]string{}
		for _, l := range s.d.Leases() {
			leasedIP[l.Key] = ip4s(l.IP)
		}
		orphans := 0
		var why []string
		for _, x := range missing {
			pinned := false
			for mac, ip := range ps.Allocated {
				if cv := s.view[s.who(mac)]; ip == x && leasedIP[mac] != x && cv != nil && cv.pinned[x] {
					pinned = true
					why = append(why, fmt.Sprintf("%s pinned by pool entry of %s (no lease on it; its OFFER of %s was never requested)", x, s.who(mac), x))
				} else if ip == x {
					why = append(why, fmt.Sprintf("%s still in the pool's MAC table for %s", x, s.who(mac)))
				}
			}
			if pinned {
				orphans++
			}
		}
		viol := explore.Viol{Kind: "O6-not-obtainable", Site: "probe",
			Detail: fmt.Sprintf("fresh clients obtained %d distinct addresses %v, expected %d (usable %d minus reserved %v); missing %v; %v; now=+%v",
				len(got), keys(got), expect, len(v4Usable), reserved, missing, why, now.Sub(s.d.Start))}
		if len(missing) > 0 && orphans == len(missing) {
			s.soft(viol, "C02-K-v4-allocation-without-lease-never-reclaimed")
		} else {
			s.viols = append(s.viols, viol)
		}
	}
	return s.viols
}

func keys(m map[string]bool) []string {
	var k []string
	for x := range m {
		k = append(k, x)
	}
	sort.Strings(k)
	return k
}
