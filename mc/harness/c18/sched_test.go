package c18

// Engine B part "sched:*": concurrent control-plane callers. "Bindings added or removed through the control plane
// take effect exactly as written" must hold when sessions are brought up concurrently (DHCPv4 and DHCPv6 handlers,
// several subscribers at once): the kernel map bytes at the end of EVERY schedule (preemption-bounded, scheduling
// points at every kernel-map call and every lock operation of the rewritten antispoof package) must be the bytes
// some sequential order of the same calls produces. The reference is the real Manager run sequentially.

import (
	"fmt"
	"net"
	"runtime"
	"sort"
	"strings"
	"time"

	"github.com/codelaboratoryltd/bng/pkg/antispoof"
	"go.uber.org/zap"

	"verif/nativebpf"
	"verif/report"
	"verif/sched"
)

var (
	ipQ   = net.IPv4(10, 9, 9, 10).To4() // byte-palindromic too
	ip6b  = net.ParseIP("2001:db8::6")
	sMACs = map[string]net.HardwareAddr{"A": macA, "B": macB}
	sV4   = map[string]net.IP{"p": ipP, "q": ipQ, "nil": nil}
	sV6   = map[string]net.IP{"x": ip6, "y": ip6b}
)

type bscen struct {
	name    string
	pre     []string
	threads [][]string
}

func bscenarios(thorough bool) []bscen {
	s := []bscen{
		{"B4(A,p)|B4(B,q)", nil, [][]string{{"B4 A p"}, {"B4 B q"}}},
		{"B4(A,p)|B6(A,x)", nil, [][]string{{"B4 A p"}, {"B6 A x"}}},
		{"B6(A,x)|B6(B,y)", nil, [][]string{{"B6 A x"}, {"B6 B y"}}},
		{"B4(A,q)|RM(A)", []string{"B4 A p", "B6 A x"}, [][]string{{"B4 A q"}, {"RM A"}}},
		{"B4(A,p)|B4(A,q)", []string{"B6 A x"}, [][]string{{"B4 A p"}, {"B4 A q"}}},
		{"B4(A,nil)|B6(A,y)", []string{"B4 A p", "B6 A x"}, [][]string{{"B4 A nil"}, {"B6 A y"}}},
	}
	if thorough {
		s = append(s,
			bscen{"B4(A,p)|B6(A,x)|B4(B,q)", nil, [][]string{{"B4 A p"}, {"B6 A x"}, {"B4 B q"}}},
			bscen{"B4(A,p),B6(A,x)|B4(B,q),B6(B,y)", nil, [][]string{{"B4 A p", "B6 A x"}, {"B4 B q", "B6 B y"}}},
			bscen{"RM(A),B4(A,q)|B6(A,y)", []string{"B4 A p", "B6 A x"}, [][]string{{"RM A", "B4 A q"}, {"B6 A y"}}},
		)
	}
	return s
}

type bstate struct {
	k *nativebpf.Kernel
	m *antispoof.Manager
}

func bdo(m *antispoof.Manager, op string) string {
	f := strings.Fields(op)
	var err error
	switch f[0] {
	case "B4":
		err = m.AddBinding(sMACs[f[1]], sV4[f[2]])
	case "B6":
		err = m.AddBindingV6(sMACs[f[1]], sV6[f[2]])
	case "RM":
		err = m.RemoveBinding(sMACs[f[1]])
	default:
		panic("unknown op " + op)
	}
	if err != nil {
		return "err:" + err.Error()
	}
	return "ok"
}

func bfresh(k *nativebpf.Kernel) *antispoof.Manager {
	for _, n := range []string{"subscriber_bindings", "antispoof_config", "allowed_ranges_v4"} {
		if err := k.ClearMap(n); err != nil {
			panic(err)
		}
	}
	m, _ := antispoof.NewManager(antispoof.ManagerConfig{Interface: "lo"}, zap.NewNop())
	m.VerifSetMaps(k.Coll.Maps)
	m.SetMode(antispoof.ModeStrict)
	return m
}

// macKey: the kernel key of a MAC as the program derives it (C06 checks that both sides agree on it)
func bentries(k *nativebpf.Kernel) string {
	var out []string
	it := k.Coll.Maps["subscriber_bindings"].Iterate()
	var key, val []byte
	for it.Next(&key, &val) {
		out = append(out, fmt.Sprintf("%x=%x", key, val))
	}
	sort.Strings(out)
	return strings.Join(out, " ")
}

// sequentialOutcomes: the kernel bytes after every sequential order of the thread operations (per-thread order kept).
func (sc bscen) sequentialOutcomes(k *nativebpf.Kernel) map[string]string {
	out := map[string]string{}
	idx := make([]int, len(sc.threads))
	var order []string
	var rec func()
	rec = func() {
		done := true
		for t := range sc.threads {
			if idx[t] < len(sc.threads[t]) {
				done = false
				order = append(order, sc.threads[t][idx[t]])
				idx[t]++
				rec()
				idx[t]--
				order = order[:len(order)-1]
			}
		}
		if done {
			m := bfresh(k)
			for _, op := range sc.pre {
				bdo(m, op)
			}
			for _, op := range order {
				bdo(m, op)
			}
			out[bentries(k)] = strings.Join(order, ",")
		}
	}
	rec()
	return out
}

func (sc bscen) scenario(k *nativebpf.Kernel, seq map[string]string) *sched.Scenario {
	return &sched.Scenario{
		Name: sc.name,
		Setup: func(x *sched.Exec) {
			var m *antispoof.Manager
			x.Sequential(func() { // kernel-map calls are scheduling points: the prefix runs with scheduling switched off
				m = bfresh(k)
				for _, op := range sc.pre {
					bdo(m, op)
				}
			})
			x.Data = &bstate{k: k, m: m}
			for ti, ops := range sc.threads {
				ti, ops := ti, ops
				x.Thread(fmt.Sprintf("T%d", ti), func() {
					for _, op := range ops {
						x.Obs("T%d:%s=%s", ti, op, bdo(m, op))
					}
				})
			}
		},
		Check: func(x *sched.Exec) []sched.Viol {
			got := bentries(k)
			if _, ok := seq[got]; ok {
				return nil
			}
			var want []string
			for e, o := range seq {
				want = append(want, fmt.Sprintf("[%s] after order %s", e, o))
			}
			sort.Strings(want)
			return []sched.Viol{{Kind: "binding-not-as-written", Site: "subscriber_bindings",
				Detail: fmt.Sprintf("after the concurrent calls (all reported success) the kernel map holds [%s]; no sequential order of the same calls produces that: %s", got, strings.Join(want, " | "))}}
		},
	}
}

func runSched(run *report.Run, k *nativebpf.Kernel) {
	bound := 2
	if run.Thorough() {
		bound = 3
	}
	// one P: sync.Pool and similar per-P caches then behave the same way in every execution of a schedule
	defer runtime.GOMAXPROCS(runtime.GOMAXPROCS(1))
	for _, sc := range bscenarios(run.Thorough()) {
		name := "sched:" + sc.name
		if !run.WantPart(name) {
			continue
		}
		seq := sc.sequentialOutcomes(k)
		e := &sched.Explorer{Bound: bound, Budget: 3 * time.Minute}
		res := e.Explore(sc.scenario(k, seq))
		run.AddPart(report.Part{Name: name, Engine: "B:sched-dfs", Bound: fmt.Sprintf("preemptions<=%d completed=%d maxpoints=%d; %d sequential reference outcomes", bound, res.Bound, res.MaxPoints, len(seq)),
			Executions: res.Executions, Outcomes: int64(len(res.Outcomes)), Exhaustive: res.Exhaustive, States: int64(len(res.Outcomes))})
		for _, f := range res.Failures {
			x1 := sched.RunOnce(sc.scenario(k, seq), f.Choices)
			x2 := sched.RunOnce(sc.scenario(k, seq), f.Choices)
			if strings.Join(x1.Log, "|") != strings.Join(x2.Log, "|") || strings.Join(x1.Log, "|") != strings.Join(f.Log, "|") {
				run.HarnessError("non-deterministic replay of schedule in " + name)
				continue
			}
			for _, v := range f.Viols {
				tr := append([]string{"pre=" + strings.Join(sc.pre, ","), "threads=" + fmt.Sprint(sc.threads)}, f.Schedule...)
				rv := report.Violation{Part: name, Kind: v.Kind, Site: v.Site, Detail: v.Detail + " | observations: " + strings.Join(f.Log, " "), Trace: tr,
					Extra: map[string]any{"choices": f.Choices}}
				run.Violation(rv)
			}
		}
	}
}

func replaySched(run *report.Run, k *nativebpf.Kernel, v report.Violation) int {
	defer runtime.GOMAXPROCS(runtime.GOMAXPROCS(1))
	for _, sc := range bscenarios(true) {
		if "sched:"+sc.name != v.Part {
			continue
		}
		var choices []int
		if cs, ok := v.Extra["choices"].([]any); ok {
			for _, c := range cs {
				choices = append(choices, int(c.(float64)))
			}
		}
		seq := sc.sequentialOutcomes(k)
		s := sc.scenario(k, seq)
		x := sched.RunOnce(s, choices)
		vs := s.Check(x)
		if x.PanicText != "" {
			vs = append(vs, sched.Viol{Kind: "panic", Detail: x.PanicText})
		}
		if x.Deadlock {
			vs = append(vs, sched.Viol{Kind: "deadlock", Detail: strings.Join(x.Schedule(), ",")})
		}
		for _, q := range vs {
			fmt.Printf("VIOLATION property=C18 replay=%s\n  kind=%s site=%s detail=%s\n", *report.FlagReplay, q.Kind, q.Site, q.Detail)
		}
		if len(vs) > 0 {
			return 1
		}
		fmt.Println("replay: no violation")
		return 0
	}
	fmt.Println("HARNESS-ERROR unknown part", v.Part)
	return 2
}
