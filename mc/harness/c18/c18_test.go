// C18 — A subscriber can only source traffic from its bound address.
//
// Map contents are produced ONLY by the real antispoof.Manager (AddBinding,
// AddBindingV6, RemoveBinding, SetMode, AddAllowedRange; every operation
// sequence to the stated depth) writing into real kernel maps created from the
// compiled object; the real BPF bytecode of antispoof_ingress is then executed
// in the kernel (BPF_PROG_TEST_RUN) on a complete product of frames: ethertype x
// sender MAC x source address family (bound, all single-bit neighbours,
// byte-reversed, zero, inside/outside an allowed range) x lengths around the
// header end. The oracle is the property's three clauses evaluated on a plain
// reference model of what the control plane was told.
package c18

import (
	"errors"
	"fmt"
	"net"
	"os"
	"path/filepath"
	"strings"
	"syscall"
	"testing"

	"github.com/codelaboratoryltd/bng/pkg/antispoof"
	"go.uber.org/zap"

	"verif/nativebpf"
	"verif/report"
)

var (
	macA = net.HardwareAddr{0x02, 0x11, 0x22, 0x33, 0x44, 0x55}
	macB = net.HardwareAddr{0x02, 0x66, 0x77, 0x88, 0x99, 0xaa} // never bound
	ipP  = net.IPv4(10, 7, 7, 10).To4()                         // byte-palindromic
	ipN  = net.IPv4(10, 20, 30, 40).To4()                       // not palindromic: hits the recorded byte-order finding
	ip6  = net.ParseIP("2001:db8::5")
)

type binding struct {
	v4      net.IP
	v6      net.IP
	mode    antispoof.Mode
	present bool
}

// model: what the control plane was told (plain reference, no implementation knowledge)
type model struct {
	def    antispoof.Mode
	cur    antispoof.Mode // mode new bindings are written with
	b      binding        // binding of macA
	ranges []*net.IPNet
}

type op struct {
	name string
	do   func(m *antispoof.Manager, md *model) error
}

func mustCIDR(s string) *net.IPNet { _, n, _ := net.ParseCIDR(s); return n }

func ops() []op {
	var o []op
	for _, md := range []antispoof.Mode{antispoof.ModeDisabled, antispoof.ModeStrict, antispoof.ModeLoose, antispoof.ModeLogOnly} {
		md := md
		o = append(o, op{fmt.Sprintf("SetMode(%d)", md), func(m *antispoof.Manager, x *model) error {
			x.def, x.cur = md, md
			return m.SetMode(md)
		}})
	}
	for _, ip := range []net.IP{ipP, ipN} {
		ip := ip
		o = append(o, op{"AddBinding(A," + ip.String() + ")", func(m *antispoof.Manager, x *model) error {
			x.b.v4, x.b.mode, x.b.present = ip, x.cur, true
			return m.AddBinding(macA, ip)
		}})
	}
	// withdrawing the IPv4 half: the binding stays (mode, IPv6 half) but no IPv4 address is bound any more
	o = append(o, op{"AddBinding(A,nil)", func(m *antispoof.Manager, x *model) error {
		x.b.v4, x.b.mode, x.b.present = nil, x.cur, true
		return m.AddBinding(macA, nil)
	}})
	o = append(o, op{"AddBindingV6(A,2001:db8::5)", func(m *antispoof.Manager, x *model) error {
		x.b.v6, x.b.mode, x.b.present = ip6, x.cur, true
		return m.AddBindingV6(macA, ip6)
	}})
	o = append(o, op{"RemoveBinding(A)", func(m *antispoof.Manager, x *model) error {
		x.b = binding{}
		return m.RemoveBinding(macA)
	}})
	for _, r := range []string{"10.7.7.10/32", "10.7.7.10/31", "10.20.0.0/16"} { // nested ranges on one network address included
		r := r
		o = append(o, op{"AddAllowedRange(" + r + ")", func(m *antispoof.Manager, x *model) error {
			x.ranges = append(x.ranges, mustCIDR(r))
			return m.AddAllowedRange(mustCIDR(r))
		}})
	}
	return o
}

func eth(src net.HardwareAddr, etype uint16, vlan bool, payload []byte) []byte {
	f := append([]byte{}, 0x02, 0, 0, 0, 0, 0xfe)
	f = append(f, src...)
	if vlan {
		f = append(f, 0x81, 0x00, 0x00, 0x64)
	}
	f = append(f, byte(etype>>8), byte(etype))
	return append(f, payload...)
}

func ipv4hdr(src net.IP) []byte {
	h := make([]byte, 28)
	h[0] = 0x45
	h[3] = 28
	h[8] = 64
	h[9] = 17
	copy(h[12:], src.To4())
	copy(h[16:], []byte{8, 8, 8, 8})
	return h
}

func ipv6hdr(src net.IP) []byte {
	h := make([]byte, 48)
	h[0] = 0x60
	h[5] = 8
	h[6] = 17
	h[7] = 64
	copy(h[8:], src.To16())
	h[24] = 0x20
	h[39] = 1
	return h
}

func v4sources() []net.IP {
	var out []net.IP
	add := func(ip net.IP) { out = append(out, ip.To4()) }
	for _, base := range []net.IP{ipP, ipN} {
		add(base)
		for bit := 0; bit < 32; bit++ { // every single-bit neighbour
			n := append(net.IP{}, base...)
			n[bit/8] ^= 1 << (bit % 8)
			add(n)
		}
		add(net.IPv4(base[3], base[2], base[1], base[0]))
	}
	add(net.IPv4zero)
	add(net.IPv4(10, 20, 99, 7)) // inside 10.20.0.0/16
	add(net.IPv4(10, 21, 99, 7)) // outside
	add(net.IPv4(255, 255, 255, 255))
	return out
}

func v6sources() []net.IP {
	out := []net.IP{ip6, net.IPv6zero}
	for byteI := 0; byteI < 16; byteI++ {
		n := append(net.IP{}, ip6.To16()...)
		n[byteI] ^= 0x01
		out = append(out, n)
		m := append(net.IP{}, ip6.To16()...)
		m[byteI] ^= 0x80
		out = append(out, m)
	}
	return out
}

func inRange(rs []*net.IPNet, ip net.IP) bool {
	for _, r := range rs {
		if r.Contains(ip) {
			return true
		}
	}
	return false
}

// expect returns the verdict the property demands for a frame carrying a complete IP header,
// or "" when the property does not speak (non-IP, disabled).
func (x *model) expect(sender net.HardwareAddr, v6 bool, src net.IP) string {
	mode := x.def
	var b *binding
	if x.b.present && sender.String() == macA.String() {
		b = &x.b
		mode = b.mode
	}
	switch mode {
	case antispoof.ModeDisabled:
		return "pass"
	case antispoof.ModeLogOnly:
		return "pass"
	case antispoof.ModeStrict:
		if b == nil {
			return "drop" // nothing is bound to this MAC, so no source equals "the address bound to that MAC"
		}
		bound := b.v4
		if v6 {
			bound = b.v6
		}
		if bound != nil && bound.Equal(src) {
			return "pass"
		}
		return "drop"
	case antispoof.ModeLoose:
		if v6 {
			return "" // the control plane offers no IPv6 ranges: nothing to demand
		}
		if inRange(x.ranges, src) {
			return "pass"
		}
		return "drop"
	}
	return ""
}

func rev4(ip net.IP) net.IP { ip = ip.To4(); return net.IPv4(ip[3], ip[2], ip[1], ip[0]).To4() }

func classify(v *report.Violation, x *model, sender net.HardwareAddr, v6 bool, src net.IP, want, got string) {
	if v6 {
		return
	}
	// C18-K1: the recorded IPv4 byte-order finding (see C06-K1-antispoof-binding / -lpm-key). Narrow predicate: the
	// verdict is exactly what the property demands if every IPv4 value the control plane wrote is read byte-reversed.
	y := *x
	if y.b.v4 != nil {
		y.b.v4 = rev4(y.b.v4)
	}
	// a reversed LPM key matches on the reversed address bits: evaluate ranges on the reversed source
	y.ranges = nil
	revWant := y.expect(sender, v6, src)
	mode := x.def
	if x.b.present && sender.String() == macA.String() {
		mode = x.b.mode
	}
	if mode == antispoof.ModeLoose {
		in := false
		for _, r := range x.ranges {
			ones, _ := r.Mask.Size()
			// kernel trie compares the first `ones` bits of the stored bytes (reversed network) with the packet's source bytes
			rn := rev4(r.IP)
			m := net.CIDRMask(ones, 32)
			if rn.Mask(m).Equal(src.Mask(m)) {
				in = true
			}
		}
		revWant = "drop"
		if in {
			revWant = "pass"
		}
	}
	if revWant == got && (mode == antispoof.ModeStrict || mode == antispoof.ModeLoose) {
		v.Class = "C18-K1-ipv4-byte-order"
	}
}

func TestCheck(t *testing.T) {
	run := report.New("C18", "exploration")
	run.Rule = "every control-plane operation sequence to the stated depth over {SetMode x4, AddBinding(A, palindromic|non-palindromic), AddBindingV6, RemoveBinding, AddAllowedRange x2} x frames {IPv4, IPv6, 802.1Q+IPv4, ARP} x sender {bound MAC, unbound MAC} x IPv4 sources {bound, 32 single-bit neighbours, byte-reversed, 0.0.0.0, in/out of range, broadcast} x IPv6 sources {bound, zero, 32 bit-neighbours} x lengths {complete header, header-1}; non-trivial = frames with a complete IP header for which the property demands a verdict"
	run.Assumptions = []string{"program executed as real BPF bytecode in the running kernel (BPF_PROG_TEST_RUN); maps written only through antispoof.Manager", "mode in force for a MAC = mode its binding was written with, else the default mode", "loose mode for IPv6 not judged: the control plane has no IPv6 ranges"}
	dir, err := os.MkdirTemp(filepath.Join(nativebpf.Root(), ".work"), "c18-")
	if err != nil {
		os.MkdirAll(filepath.Join(nativebpf.Root(), ".work"), 0o755)
		dir, err = os.MkdirTemp(filepath.Join(nativebpf.Root(), ".work"), "c18-")
	}
	if err != nil {
		run.HarnessError(err.Error())
		os.Exit(run.Finish())
	}
	defer os.RemoveAll(dir)
	if err := nativebpf.KernelBuild(dir); err != nil {
		run.HarnessError(err.Error())
		os.RemoveAll(dir)
		os.Exit(run.Finish())
	}
	k, err := nativebpf.KernelLoad(dir, "antispoof", 4096)
	if err != nil {
		run.HarnessError("cannot load antispoof object: " + err.Error())
		os.RemoveAll(dir)
		os.Exit(run.Finish())
	}
	defer k.Close()
	if *report.FlagReplay != "" {
		if v, err := report.LoadReplay(*report.FlagReplay); err == nil && strings.HasPrefix(v.Part, "sched:") {
			rc := replaySched(run, k, v)
			os.RemoveAll(dir)
			os.Exit(rc)
		}
	}

	depth := 3
	if run.Thorough() {
		depth = 4
	}
	all := ops()
	var evals, nontrivial, seqs, refused int64
	v4s, v6s := v4sources(), v6sources()
	var rec func(seq []int)
	rec = func(seq []int) {
		// fresh control plane + empty maps, replay the sequence
		for _, n := range []string{"subscriber_bindings", "antispoof_config", "allowed_ranges_v4"} {
			k.ClearMap(n)
		}
		m, _ := antispoof.NewManager(antispoof.ManagerConfig{Interface: "lo"}, zap.NewNop())
		m.VerifSetMaps(k.Coll.Maps)
		md := &model{def: antispoof.ModeStrict, cur: antispoof.ModeStrict}
		m.SetMode(antispoof.ModeStrict) // what Start() writes for the default configuration
		var names []string
		for _, i := range seq {
			names = append(names, all[i].name)
			if err := all[i].do(m, md); err != nil {
				v := report.Violation{Part: "control-plane", Kind: "write-rejected", Site: strings.SplitN(all[i].name, "(", 2)[0], Detail: err.Error(), Trace: names}
				run.Violation(v)
				return
			}
		}
		seqs++
		check := func(sender net.HardwareAddr, v6 bool, vlan bool, src net.IP) {
			var f []byte
			switch {
			case v6:
				f = eth(sender, 0x86dd, false, ipv6hdr(src))
			default:
				f = eth(sender, 0x0800, vlan, ipv4hdr(src))
			}
			for _, cut := range []int{0, 1} {
				hl := 14 + 20
				if v6 {
					hl = 14 + 40
				}
				g := f
				if cut == 1 {
					g = f[:hl-1] // incomplete IP header: the property does not speak; the program must still terminate
				}
				verdict, out, err := k.Run("antispoof_ingress", g)
				evals++
				if err != nil {
					if errors.Is(err, syscall.EINVAL) {
						refused++ // the kernel's test-run facility refuses frames with a truncated IP header; C07 covers them natively
						continue
					}
					run.HarnessError(fmt.Sprintf("%v: len=%d v6=%v vlan=%v cut=%d frame=%x", err, len(g), v6, vlan, cut, g))
					return
				}
				if string(out) != string(g) {
					run.Violation(report.Violation{Part: "frames", Kind: "frame-modified", Site: "antispoof_ingress", Detail: "the program changed the frame", Trace: names})
				}
				if cut == 1 || vlan {
					continue // VLAN-tagged frames are not IPv4 at the Ethernet level for this program: nothing demanded
				}
				want := md.expect(sender, v6, src)
				if want == "" {
					continue
				}
				nontrivial++
				got := "pass"
				if verdict == nativebpf.TC_ACT_SHOT {
					got = "drop"
				} else if verdict != nativebpf.TC_ACT_OK {
					got = fmt.Sprintf("verdict %d", verdict)
				}
				if got != want {
					mode := md.def
					who := "unbound MAC"
					if md.b.present && sender.String() == macA.String() {
						mode = md.b.mode
						who = "bound MAC"
					}
					v := report.Violation{Part: "frames", Kind: fmt.Sprintf("mode%d-%s-should-%s", mode, map[bool]string{false: "ipv4", true: "ipv6"}[v6], want), Site: "antispoof_ingress",
						Detail: fmt.Sprintf("%s, mode in force %d, default %d, binding v4=%v v6=%v, ranges=%v: source %s is %sed, the property demands %s", who, mode, md.def, md.b.v4, md.b.v6, md.ranges, src, got, want),
						Trace:  append(append([]string{}, names...), fmt.Sprintf("frame sender=%s src=%s", sender, src))}
					classify(&v, md, sender, v6, src, want, got)
					run.Violation(v)
				}
			}
		}
		for _, sender := range []net.HardwareAddr{macA, macB} {
			for _, s := range v4s {
				check(sender, false, false, s)
			}
			check(sender, false, true, ipP)
			for _, s := range v6s {
				check(sender, true, false, s)
			}
			// ARP: no IP source; must pass through unmodified and terminate
			verdict, _, err := k.Run("antispoof_ingress", eth(sender, 0x0806, false, make([]byte, 28)))
			evals++
			if err == nil && verdict != nativebpf.TC_ACT_OK && md.expect(sender, false, net.IPv4zero) == "pass" {
				run.Violation(report.Violation{Part: "frames", Kind: "non-ip-dropped", Site: "antispoof_ingress", Detail: "ARP frame dropped although validation is not enforcing", Trace: names})
			}
		}
		if len(seq) < depth {
			for i := range all {
				rec(append(append([]int{}, seq...), i))
			}
		}
	}
	if run.WantPart("antispoof: manager sequences") {
		rec(nil)
	}
	runSched(run, k)
	run.AddEvals(evals, nontrivial)
	run.AddPart(report.Part{Name: "antispoof: manager sequences x frame product (in-kernel)", Engine: "C:kernel-test-run", Bound: fmt.Sprintf("op sequences depth<=%d over %d operations", depth, len(all)), States: seqs, Transitions: evals, Exhaustive: true, Note: fmt.Sprintf("%d truncated-header frames refused by the kernel test-run facility (EINVAL) and skipped", refused)})
	run.Sample(map[string]any{"ops": func() []string {
		var n []string
		for _, o := range all {
			n = append(n, o.name)
		}
		return n
	}(), "v4_sources": len(v4s), "v6_sources": len(v6s)})
	os.RemoveAll(dir)
	os.Exit(run.Finish())
}
