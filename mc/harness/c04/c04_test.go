// C04 — No PPPoE session gets IP service without successful authentication.
//
// Engine A: BFS over discovery/session frame sequences sent by two session
// owners (A, B) and a foreign station (F) to the REAL pppoe.Server, driven
// through the add-only seam /verif/hooks/pppoe/c04.gosrc (in-memory raw socket,
// exported frame entry points). Every execution runs in a synctest bubble
// (handlePADR starts a goroutine; the RADIUS client uses timeouts). The RADIUS
// server is scripted in memory (REWRITE radius:xchg -> verif/shim/vradius).
//
// Oracle (from the property statement): M1 established => authenticated,
// M2 address assigned => authenticated, M3 IPCP Configure-Ack / Nak-with-address
// emitted => authenticated, M4 frames from a MAC that does not own a session
// leave that session untouched. "Authenticated" is decided by the harness:
// the session's OWNER sent a PAP Authenticate-Request whose credentials the
// authentication back end accepts.
package c04

import (
	"context"
	"encoding/binary"
	"fmt"
	"net"
	"os"
	"sort"
	"strings"
	"testing"
	"testing/synctest"
	"time"

	"github.com/codelaboratoryltd/bng/pkg/pppoe"
	bngradius "github.com/codelaboratoryltd/bng/pkg/radius"
	"go.uber.org/zap"
	"layeh.com/radius"
	"layeh.com/radius/rfc2865"

	"verif/deepdump"
	"verif/explore"
	"verif/report"
	"verif/shim/vradius"
)

// ---------------------------------------------------------------- configuration

type cfg struct {
	name   string
	radius string // "" (no RADIUS: every PAP request is accepted), "password" (good accepted, bad rejected), "timeout"
	auth   string // ServerConfig.AuthType: "pap" (default), "both", "chap"
}

var (
	serverMAC = net.HardwareAddr{0x02, 0, 0, 0, 0, 0x01}
	macs      = map[string]net.HardwareAddr{
		"A": {0x02, 0, 0, 0, 0, 0x0a},
		"B": {0x02, 0, 0, 0, 0, 0x0b},
		"F": {0x02, 0, 0, 0, 0, 0x0f},
	}
	foreignIP = net.IPv4(10, 9, 9, 9).To4()
)

const (
	hostPassword = "by-password.radius.test"
	hostTimeout  = "silent.radius.test"
)

// scripted RADIUS server: stateless, decides on the server address and the password.
func scriptedExchange(ctx context.Context, p *radius.Packet, addr string) (*radius.Packet, error) {
	if r, handled, err := scriptedAuthExchange(ctx, p, addr); handled {
		return r, err
	}
	switch {
	case strings.HasPrefix(addr, hostPassword):
		if pw, err := rfc2865.UserPassword_LookupString(p); err == nil && pw == "good" {
			return p.Response(radius.CodeAccessAccept), nil
		}
		return p.Response(radius.CodeAccessReject), nil
	case strings.HasPrefix(addr, hostTimeout):
		<-ctx.Done() // the server never answers: the client's own timeout ends the exchange
		return nil, ctx.Err()
	}
	return nil, fmt.Errorf("scripted RADIUS: unknown server %s", addr)
}

// backendAccepts: the authentication back end's verdict on a PAP request.
func (c cfg) backendAccepts(good bool) bool {
	switch c.radius {
	case "":
		return true // no RADIUS configured: the server's back end accepts every request
	case "password":
		return good
	}
	return false // RADIUS never answers
}

// ---------------------------------------------------------------- system

type sys struct {
	c   cfg
	srv *pppoe.Server

	sidOf    map[string]uint16 // owner -> session id of its most recent PADS
	owner    map[uint16]string // session id -> owner (from PADS frames: destination MAC)
	authOK   map[uint16]bool   // the owner's PAP exchange on this session was accepted by the back end
	cookieOf map[string][]byte // last AC-Cookie offered to the station
	ident    byte
	waits    int
	wrapped  bool // the "id-wrap" op has been used
	cancel   context.CancelFunc // ends the server's receive loop
	t0       time.Time // virtual time at the start of the execution (reference for absolute timestamps)
	hist     []string
	viols    []explore.Viol
}

func newSys(c cfg) *sys {
	sc := pppoe.ServerConfig{Interface: "verif0", ACName: "ac", ServiceName: "internet", ServerIP: "10.0.0.1", ClientPool: "10.0.0.0/28", PoolGateway: "10.0.0.1", AuthType: c.auth}
	srv, err := pppoe.VerifC04NewServer(sc, zap.NewNop(), serverMAC)
	if err != nil {
		panic(err)
	}
	if c.radius != "" {
		host := hostPassword
		if c.radius == "timeout" {
			host = hostTimeout
		}
		rc, err := bngradius.NewClient(bngradius.ClientConfig{Servers: []bngradius.ServerConfig{{Host: host, Port: 1812, Secret: "s3cret"}}, NASID: "bng-verif", Timeout: 2 * time.Second, Retries: 2}, zap.NewNop())
		if err != nil {
			panic(err)
		}
		srv.SetRADIUSClient(rc)
	}
	// Frames reach the server the way they do in production: through the real
	// receiveLoop reading from a (capturing, in-memory) raw socket into its own
	// reused buffer.
	ctx, cancel := context.WithCancel(context.Background())
	srv.VerifC04StartReceiveLoop(ctx)
	return &sys{c: c, srv: srv, cancel: cancel, t0: time.Now(), sidOf: map[string]uint16{}, owner: map[uint16]string{}, authOK: map[uint16]bool{}, cookieOf: map[string][]byte{}}
}

func (s *sys) v(kind, site, f string, a ...any) {
	s.viols = append(s.viols, explore.Viol{Kind: kind, Site: site, Detail: fmt.Sprintf(f, a...) + " | history: " + strings.Join(s.hist, " ")})
}

// ---------------------------------------------------------------- frame builders

func tag(t uint16, v []byte) []byte {
	b := make([]byte, 4+len(v))
	binary.BigEndian.PutUint16(b, t)
	binary.BigEndian.PutUint16(b[2:], uint16(len(v)))
	copy(b[4:], v)
	return b
}

func discovery(code byte, sid uint16, tags ...[]byte) []byte {
	var pl []byte
	for _, t := range tags {
		pl = append(pl, t...)
	}
	b := []byte{0x11, code, byte(sid >> 8), byte(sid), byte(len(pl) >> 8), byte(len(pl))}
	return append(b, pl...)
}

func session(sid uint16, proto uint16, payload []byte) []byte {
	n := 2 + len(payload)
	b := []byte{0x11, 0, byte(sid >> 8), byte(sid), byte(n >> 8), byte(n), byte(proto >> 8), byte(proto)}
	return append(b, payload...)
}

func cp(code, id byte, data []byte) []byte {
	b := make([]byte, 4+len(data))
	b[0], b[1] = code, id
	binary.BigEndian.PutUint16(b[2:], uint16(4+len(data)))
	copy(b[4:], data)
	return b
}

func opt(t byte, d ...byte) []byte { return append([]byte{t, byte(2 + len(d))}, d...) }

func pap(id byte, user, pass string) []byte {
	d := append([]byte{byte(len(user))}, user...)
	d = append(d, byte(len(pass)))
	d = append(d, pass...)
	return cp(1, id, d)
}

// rx puts one frame on the wire (Ethernet header: server MAC or broadcast as
// destination, the station's MAC as source) and returns when the receive loop has
// handled it and is blocked in recv again. A handler that waits (RADIUS timeouts)
// makes virtual time pass here.
func (s *sys) rx(etherType uint16, src net.HardwareAddr, payload []byte) {
	dst := serverMAC
	if len(payload) > 1 && etherType == pppoe.EtherTypePPPoEDiscovery && payload[1] == pppoe.CodePADI {
		dst = net.HardwareAddr{0xff, 0xff, 0xff, 0xff, 0xff, 0xff}
	}
	s.srv.VerifC04Inject(pppoe.BuildEthernetFrame(dst, src, etherType, payload))
	for {
		synctest.Wait()
		if s.srv.VerifC04ReceiveIdle() {
			return
		}
		time.Sleep(250 * time.Millisecond)
	}
}

// ---------------------------------------------------------------- alphabet

var sessionKinds = []string{"LCP-CR", "LCP-Ack", "LCP-Nak", "LCP-TR", "LCP-Echo", "PAP-good", "PAP-bad", "IPCP-CR(0)", "IPCP-CR(assigned)", "IPCP-CR(foreign)", "IPCP-Ack", "IPV6CP-CR", "IP"}

// liveTargets: the ids of all live sessions (a station may hold several: every
// PADR creates one). Ids are handed out sequentially, so they are deterministic.
func (s *sys) liveTargets() []string {
	var out []string
	for _, se := range s.srv.VerifC04Sessions() {
		out = append(out, fmt.Sprint(se.ID))
	}
	return out
}

// Ops: "<frame>[@<target session id>]:<sender>", "wait" (virtual time passes, no frame)
func (s *sys) Ops() []string {
	// Symmetry reduction (stations are interchangeable except through the
	// sessions they own): the first session is always A's, and a station that
	// owns no live session is represented by F.
	ops := []string{"PADI:A", "PADR:A", "PADR-nocookie:A"}
	if len(s.owner) > 0 {
		ops = append(ops, "PADR:B")
	}
	sessions := s.srv.VerifC04Sessions()
	if len(sessions) >= 3 { // bound the table: at most three sessions per execution
		ops = []string{"PADI:A"}
	}
	owns := map[string]bool{}
	for _, se := range sessions {
		owns[s.ownerOfMAC(se.ClientMAC)] = true
	}
	var senders []string
	for _, x := range []string{"A", "B"} {
		if owns[x] {
			senders = append(senders, x)
		}
	}
	senders = append(senders, "F")
	for _, t := range s.liveTargets() {
		for _, snd := range senders {
			ops = append(ops, "PADT@"+t+":"+snd)
			for _, k := range sessionKinds {
				ops = append(ops, k+"@"+t+":"+snd)
			}
		}
	}
	ops = append(ops, "PADT@unused:F")
	if s.waits < maxWaits {
		ops = append(ops, "wait")
	}
	if !s.wrapped && len(sessions) >= 1 && len(sessions) < 3 {
		ops = append(ops, "id-wrap")
	}
	return ops
}

func (s *sys) assignedIP(sid uint16) net.IP {
	for _, se := range s.srv.VerifC04Sessions() {
		if se.ID == sid && se.ClientIP != nil {
			return se.ClientIP.To4()
		}
	}
	return net.IPv4(10, 0, 0, 2).To4() // nothing assigned yet: the first pool address, i.e. what the session would get
}

type snap struct {
	dump  map[uint16]string
	owner map[uint16]string
}

var sessSkip = map[string]bool{
	// traffic statistics: read only by Stats-style getters. The activity
	// timestamp is NOT skipped: it decides whether the idle cleanup reaps the
	// session, so a frame that refreshes it has changed the session.
	"Session.BytesIn": true, "Session.BytesOut": true, "Session.PacketsIn": true, "Session.PacketsOut": true,
}

func (s *sys) snapshot() snap {
	sn := snap{dump: map[uint16]string{}, owner: map[uint16]string{}}
	for _, se := range s.srv.VerifC04Sessions() {
		sn.dump[se.ID] = deepdump.Dump(se, deepdump.Options{Now: s.t0, SkipFields: sessSkip}) // timestamps relative to the start of the execution
		sn.owner[se.ID] = s.ownerOfMAC(se.ClientMAC)
	}
	return sn
}

func (s *sys) ownerOfMAC(m net.HardwareAddr) string {
	for n, a := range macs {
		if a.String() == m.String() {
			return n
		}
	}
	return "?"
}

// maxWaits bounds the number of "wait" ops per execution (each is a deviation
// from the back-to-back frame sequence).
const maxWaits = 1

// waitStep is shorter than any idle timeout: nothing expires, but a later touch
// of a session's activity timestamp becomes visible.
const waitStep = time.Minute

func (s *sys) Apply(op string) string {
	s.hist = append(s.hist, op)
	if op == "id-wrap" {
		// 65533 further sessions have come and gone: the next id to hand out is the
		// last one before the 16-bit counter wraps; the live sessions stay.
		s.wrapped = true
		s.srv.VerifC04SetNextSessionID(65535)
		return "next-id=65535"
	}
	if op == "wait" {
		s.waits++
		time.Sleep(waitStep)
		synctest.Wait()
		s.checkState(op)
		return "t+1m"
	}
	head, snd, _ := strings.Cut(op, ":")
	kind, tgt, _ := strings.Cut(head, "@")
	src := macs[snd]
	before := s.snapshot()
	s.ident++
	var sid uint16
	if tgt == "unused" {
		sid = 0x7777
	} else if tgt != "" {
		var n int
		fmt.Sscanf(tgt, "%d", &n)
		sid = uint16(n)
	}
	papGood := false
	switch kind {
	case "PADI":
		s.rx(pppoe.EtherTypePPPoEDiscovery, src, discovery(pppoe.CodePADI, 0, tag(pppoe.TagServiceName, nil), tag(pppoe.TagHostUniq, []byte(snd))))
	case "PADR":
		ck := s.cookieOf[snd]
		if ck == nil {
			ck = []byte("0123456789abcdef") // the server does not remember cookies; any 16 bytes
		}
		s.rx(pppoe.EtherTypePPPoEDiscovery, src, discovery(pppoe.CodePADR, 0, tag(pppoe.TagServiceName, []byte("internet")), tag(pppoe.TagHostUniq, []byte(snd)), tag(pppoe.TagACCookie, ck)))
	case "PADR-nocookie":
		s.rx(pppoe.EtherTypePPPoEDiscovery, src, discovery(pppoe.CodePADR, 0, tag(pppoe.TagServiceName, []byte("internet")), tag(pppoe.TagHostUniq, []byte(snd))))
	case "PADT":
		s.rx(pppoe.EtherTypePPPoEDiscovery, src, discovery(pppoe.CodePADT, sid))
	case "LCP-CR":
		s.rx(pppoe.EtherTypePPPoESession, src, session(sid, pppoe.ProtocolLCP, cp(1, s.ident, append(opt(1, 0x05, 0xd4), opt(5, 0xaa, 0xbb, 0xcc, 0xdd)...))))
	case "LCP-Ack":
		s.rx(pppoe.EtherTypePPPoESession, src, session(sid, pppoe.ProtocolLCP, cp(2, 1, nil)))
	case "LCP-Nak":
		s.rx(pppoe.EtherTypePPPoESession, src, session(sid, pppoe.ProtocolLCP, cp(3, 1, opt(1, 0x05, 0x78))))
	case "LCP-TR":
		s.rx(pppoe.EtherTypePPPoESession, src, session(sid, pppoe.ProtocolLCP, cp(5, s.ident, nil)))
	case "LCP-Echo":
		s.rx(pppoe.EtherTypePPPoESession, src, session(sid, pppoe.ProtocolLCP, cp(9, s.ident, []byte{0xaa, 0xbb, 0xcc, 0xdd})))
	case "PAP-good":
		papGood = true
		s.rx(pppoe.EtherTypePPPoESession, src, session(sid, pppoe.ProtocolPAP, pap(s.ident, "alice", "good")))
	case "PAP-bad":
		s.rx(pppoe.EtherTypePPPoESession, src, session(sid, pppoe.ProtocolPAP, pap(s.ident, "alice", "bad")))
	case "IPCP-CR(0)":
		s.rx(pppoe.EtherTypePPPoESession, src, session(sid, pppoe.ProtocolIPCP, cp(1, s.ident, opt(3, 0, 0, 0, 0))))
	case "IPCP-CR(assigned)":
		s.rx(pppoe.EtherTypePPPoESession, src, session(sid, pppoe.ProtocolIPCP, cp(1, s.ident, opt(3, s.assignedIP(sid)...))))
	case "IPCP-CR(foreign)":
		s.rx(pppoe.EtherTypePPPoESession, src, session(sid, pppoe.ProtocolIPCP, cp(1, s.ident, opt(3, foreignIP...))))
	case "IPCP-Ack":
		s.rx(pppoe.EtherTypePPPoESession, src, session(sid, pppoe.ProtocolIPCP, cp(2, 1, opt(3, 10, 0, 0, 1))))
	case "IPV6CP-CR":
		// a dual-stack client's IPv6CP Configure-Request (Interface-Identifier option)
		s.rx(pppoe.EtherTypePPPoESession, src, session(sid, pppoe.ProtocolIPv6CP, cp(1, s.ident, opt(1, 0x02, 0, 0, 0xff, 0xfe, 0, 0, 0x0a))))
	case "IP":
		s.rx(pppoe.EtherTypePPPoESession, src, session(sid, pppoe.ProtocolIP, []byte{0x45, 0, 0, 20, 0, 0, 0, 0, 64, 17, 0, 0, 10, 0, 0, 2, 8, 8, 8, 8}))
	default:
		panic("unknown op " + op)
	}
	synctest.Wait() // the LCP negotiation goroutine started by PADR has run
	// the harness's notion of "authenticated": owner + back end accepts
	if (kind == "PAP-good" || kind == "PAP-bad") && before.owner[sid] == snd && s.c.backendAccepts(papGood) {
		s.authOK[sid] = true
	}
	obs := s.observe(op, kind, snd, sid)
	s.checkM4(op, snd, before)
	s.checkState(op)
	return obs
}

// observe parses the frames the server sent while processing op (M3 + bookkeeping).
func (s *sys) observe(op, kind, snd string, target uint16) string {
	var out []string
	for _, f := range s.srv.VerifC04TakeFrames() {
		if len(f.Data) < 20 {
			continue
		}
		p := f.Data[14:]
		code, sid := p[1], binary.BigEndian.Uint16(p[2:4])
		to := s.ownerOfMAC(f.Dst)
		if f.EtherType == pppoe.EtherTypePPPoEDiscovery {
			switch code {
			case pppoe.CodePADO:
				out = append(out, "PADO>"+to)
			case pppoe.CodePADS:
				s.sidOf[to], s.owner[sid] = sid, to
				s.authOK[sid] = false // a new session (ids are reused after the counter wraps) starts unauthenticated
				out = append(out, fmt.Sprintf("PADS(%d)>%s", sid, to))
			}
			continue
		}
		if len(p) < 12 {
			continue
		}
		proto := binary.BigEndian.Uint16(p[6:8])
		c := p[8]
		out = append(out, fmt.Sprintf("%04x/%d(%d)>%s", proto, c, sid, to))
		switch proto {
		case pppoe.ProtocolPAP:
			if c == pppoe.PAPCodeAuthAck && !s.authOK[sid] {
				s.v("M1-auth-ack-without-accept", kind, "PAP Authenticate-Ack sent on session %d although its owner's request was not accepted by the back end (sender %s, back end %q)", sid, snd, s.c.radius)
			}
		case pppoe.ProtocolIPCP:
			if c == 2 && !s.authOK[sid] {
				s.v("M3-ipcp-ack-before-auth", kind, "IPCP Configure-Ack emitted for session %d which has not authenticated", sid)
			}
			if c == 3 && !s.authOK[sid] && hasOpt(p[12:], 3) {
				s.v("M3-ipcp-nak-address-before-auth", kind, "IPCP Configure-Nak carrying an address emitted for session %d which has not authenticated", sid)
			}
		case pppoe.ProtocolIPv6CP:
			// the IPv6 network-control protocol is IP-layer negotiation just as IPCP is
			if c == 2 && !s.authOK[sid] {
				s.v("M3-ipv6cp-ack-before-auth", kind, "IPv6CP Configure-Ack emitted for session %d which has not authenticated", sid)
			}
			if c == 3 && !s.authOK[sid] && hasOpt(p[12:], 1) {
				s.v("M3-ipv6cp-nak-interface-id-before-auth", kind, "IPv6CP Configure-Nak carrying an interface identifier emitted for session %d which has not authenticated", sid)
			}
		}
	}
	return strings.Join(out, ",")
}

func hasOpt(b []byte, t byte) bool {
	for len(b) >= 2 && b[1] >= 2 && int(b[1]) <= len(b) {
		if b[0] == t {
			return true
		}
		b = b[b[1]:]
	}
	return false
}

// M4: every session whose owner is not the sender is untouched and still present.
func (s *sys) checkM4(op, snd string, before snap) {
	after := s.snapshot()
	ids := make([]int, 0, len(before.dump))
	for id := range before.dump {
		ids = append(ids, int(id))
	}
	sort.Ints(ids)
	kind, _, _ := strings.Cut(op, "@")
	for _, i := range ids {
		id := uint16(i)
		if before.owner[id] == snd {
			continue
		}
		ad, ok := after.dump[id]
		if !ok {
			s.v("M4-foreign-frame-removed-session", kind, "session %d (owner %s) disappeared after %s from station %s", id, before.owner[id], op, snd)
		} else if ad != before.dump[id] {
			s.v("M4-foreign-frame-changed-session", kind, "session %d (owner %s) changed after %s from station %s: %s", id, before.owner[id], op, snd, diff(before.dump[id], ad))
		}
	}
}

func diff(a, b string) string {
	i := 0
	for i < len(a) && i < len(b) && a[i] == b[i] {
		i++
	}
	lo := i - 40
	if lo < 0 {
		lo = 0
	}
	end := func(s string) string {
		if i+40 < len(s) {
			return s[lo : i+40]
		}
		return s[lo:]
	}
	return fmt.Sprintf("...%s... -> ...%s...", end(a), end(b))
}

// M1, M2 on the session table.
func (s *sys) checkState(op string) {
	kind, _, _ := strings.Cut(op, "@")
	for _, se := range s.srv.VerifC04Sessions() {
		if se.IsEstablished() && !s.authOK[se.ID] {
			s.v("M1-established-without-auth", kind, "session %d (owner %s) is reported established but its PAP exchange was never accepted", se.ID, s.ownerOfMAC(se.ClientMAC))
		}
		if se.ClientIP != nil && !s.authOK[se.ID] {
			s.v("M2-address-without-auth", kind, "session %d (owner %s) has client address %v but its PAP exchange was never accepted", se.ID, s.ownerOfMAC(se.ClientMAC), se.ClientIP)
		}
	}
}

// ---------------------------------------------------------------- fingerprint

// Excluded from the fingerprint:
//   Session.MagicNumber, Session.SessionID: random per session, only echoed into frames / used as pool key
//   IPPool.allocated: keyed by the random SessionID; its content is determined by the sessions' ClientIP and `available`
//   statistics counters of Session and Server: read only by GetStats
var fpSkip = map[string]bool{
	"Session.MagicNumber": true, "Session.SessionID": true, "IPPool.allocated": true,
	"Session.CreatedAt": true, // never read by the server
	"Session.BytesIn": true, "Session.BytesOut": true, "Session.PacketsIn": true, "Session.PacketsOut": true,
	"Server.padiReceived": true, "Server.padoSent": true, "Server.padrReceived": true, "Server.padsSent": true,
	"Server.padtReceived": true, "Server.padtSent": true, "Server.sessionsTotal": true,
}

func (s *sys) Fingerprint() string {
	// timestamps (LastActivity, EstablishedAt) relative to the current virtual time
	d := deepdump.Dump(s.srv, deepdump.Options{Now: time.Now(), SkipFields: fpSkip, SkipTypes: map[string]bool{"radius.Client": true, "pppoe.verifC04Socket": true}})
	var ok []string
	for id, v := range s.authOK {
		if v {
			ok = append(ok, fmt.Sprint(id))
		}
	}
	sort.Strings(ok)
	return d + "|auth=" + strings.Join(ok, ",") + fmt.Sprintf("|waits=%d,wrapped=%v", s.waits, s.wrapped)
}

func (s *sys) Check() []explore.Viol {
	// end the receive loop so that the bubble can finish
	s.cancel()
	s.srv.VerifC04StopReceiveLoop()
	synctest.Wait()
	return s.viols
}

// ---------------------------------------------------------------- models

func configs(thorough bool) []cfg {
	cs := []cfg{
		{"no-radius", "", "pap"},
		{"radius-by-password", "password", "pap"},
		{"radius-timeout", "timeout", "pap"},
		// non-default AuthType values (documented: "pap", "chap", "both"): a configured
		// RADIUS server decides about every PAP request whatever LCP advertised
		{"radius-by-password auth=both", "password", "both"},
		{"radius-timeout auth=chap", "timeout", "chap"},
	}
	if thorough {
		cs = append(cs,
			cfg{"no-radius auth=both", "", "both"},
			cfg{"radius-by-password auth=chap", "password", "chap"},
			cfg{"radius-timeout auth=both", "timeout", "both"})
	}
	return cs
}

func bubble(t *testing.T) func(func()) {
	return func(body func()) { synctest.Test(t, func(*testing.T) { body() }) }
}

func models(run *report.Run, t *testing.T) []*explore.Model {
	depth, nd := 5, 2
	budget := 30 * time.Second
	if run.Thorough() {
		depth, nd = 6, 3
		budget = 5 * time.Minute
	}
	var ms []*explore.Model
	for _, c := range configs(run.Thorough()) {
		c := c
		ms = append(ms, &explore.Model{
			Name: "pppoe.Server", Config: c.name,
			New:   func() explore.System { return newSys(c) },
			Depth: depth, NoDedupDepth: nd, Exec: bubble(t), Classify: classify, Budget: budget,
		})
	}
	return ms
}

func TestCheck(t *testing.T) {
	run := report.New("C04", "model_checking")
	run.Rule = "BFS over PPPoE discovery/session frame sequences from two owners and a foreign station on the real pppoe.Server (in-memory raw socket, scripted RADIUS); after every frame: established/address/IPCP-ack only after the owner's accepted PAP exchange, and sessions not owned by the sender unchanged"
	run.Assumptions = []string{
		"pppoe.Server has no CHAP handler and no local user table: without RADIUS every PAP request is accepted (that is its back end); CHAP frames are outside the alphabet",
		"frames are well formed (malformed lengths are property C09)",
		"part pppoe.Authenticator: the stand-alone PAP/CHAP authenticator (pkg/pppoe/auth.go) against scripted RADIUS back ends (accept by user/password, silent, Access-Challenge, unreachable); without RADIUS its documented back end accepts every request; RADIUS decides CHAP on the user name only (the CHAP-Password TODO in the code)",
		"stations are interchangeable except through the sessions they own: the first session is A's; a station owning no live session is represented by F",
		"'id-wrap' (at most once) presets the session-id counter to 65535 with the live sessions kept: the state after 65533 further sessions have come and gone",
		"at most three sessions per execution (a station may hold several) and at most one 'wait' (one minute of virtual time without frames)",
	}
	vradius.SetExchange(scriptedExchange)
	ms := append(models(run, t), authModels(run, t)...)
	if *report.FlagReplay != "" {
		os.Exit(replay(run, ms))
	}
	for _, m := range ms {
		if run.WantPart(m.Name + "[" + m.Config + "]") {
			m.Run(run)
		}
	}
	os.Exit(run.Finish())
}

func replay(run *report.Run, ms []*explore.Model) int {
	v, err := report.LoadReplay(*report.FlagReplay)
	if err != nil {
		fmt.Println("HARNESS-ERROR", err)
		return 2
	}
	for _, m := range ms {
		if m.Name+"["+m.Config+"]" == v.Part {
			vs, p := m.Replay(v.Trace)
			if p != "" {
				fmt.Printf("VIOLATION property=C04 replay=%s\n  panic: %s\n", *report.FlagReplay, p)
				return 1
			}
			sort.SliceStable(vs, func(i, j int) bool { return vs[i].Kind < vs[j].Kind })
			for _, x := range vs {
				fmt.Printf("VIOLATION property=C04 replay=%s\n  kind=%s site=%s detail=%s\n", *report.FlagReplay, x.Kind, x.Site, x.Detail)
			}
			if len(vs) > 0 {
				return 1
			}
			fmt.Println("replay: no violation")
			return 0
		}
	}
	fmt.Println("HARNESS-ERROR unknown part", v.Part)
	return 2
}
