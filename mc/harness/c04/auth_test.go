package c04

// Part "pppoe.Authenticator": the PAP/CHAP authenticator of pkg/pppoe/auth.go
// (the component that talks to RADIUS for CHAP). Engine A BFS over request
// sequences on the real Authenticator with the scripted RADIUS exchange; after
// every packet: Authenticate-Ack / CHAP Success, state "success" and a
// successful AuthResult only when the back end accepted THAT request.

import (
	"context"
	"fmt"
	"strings"
	"testing"
	"time"

	"github.com/codelaboratoryltd/bng/pkg/pppoe"
	bngradius "github.com/codelaboratoryltd/bng/pkg/radius"
	"go.uber.org/zap"
	"layeh.com/radius"
	"layeh.com/radius/rfc2865"

	"verif/deepdump"
	"verif/explore"
	"verif/report"
)

const (
	hostByUser    = "by-user.radius.test"
	hostChallenge = "challenge.radius.test"
	hostRefused   = "refused.radius.test"
)

// scriptedAuthExchange: the back ends of the Authenticator part (stateless).
func scriptedAuthExchange(ctx context.Context, p *radius.Packet, addr string) (*radius.Packet, bool, error) {
	switch {
	case strings.HasPrefix(addr, hostByUser):
		user := rfc2865.UserName_GetString(p)
		pw, err := rfc2865.UserPassword_LookupString(p)
		if user == "alice" && (err != nil || pw == "good") {
			return p.Response(radius.CodeAccessAccept), true, nil
		}
		return p.Response(radius.CodeAccessReject), true, nil
	case strings.HasPrefix(addr, hostChallenge):
		return p.Response(radius.CodeAccessChallenge), true, nil
	case strings.HasPrefix(addr, hostRefused):
		return nil, true, fmt.Errorf("scripted RADIUS: connection refused")
	}
	return nil, false, nil
}

type acfg struct {
	name   string
	proto  uint16
	radius string // "", "by-user", "timeout", "challenge", "refused"
}

func (c acfg) accepts(user, pw string, chap bool) bool {
	switch c.radius {
	case "":
		return true // documented back end without RADIUS: accept
	case "by-user":
		return user == "alice" && (chap || pw == "good")
	}
	return false // RADIUS never answers / answers with a challenge / cannot be reached
}

type asent struct {
	proto uint16
	data  []byte
}

type asys struct {
	c     acfg
	a     *pppoe.Authenticator
	sent  []asent
	done  []*pppoe.AuthResult
	lastC byte // identifier of the most recent CHAP challenge seen on the wire
	haveC bool
	papID byte
	hist  []string
	viols []explore.Viol
}

func newASys(c acfg) *asys {
	s := &asys{c: c}
	var rc *bngradius.Client
	if c.radius != "" {
		host := map[string]string{"by-user": hostByUser, "timeout": hostTimeout, "challenge": hostChallenge, "refused": hostRefused}[c.radius]
		var err error
		rc, err = bngradius.NewClient(bngradius.ClientConfig{Servers: []bngradius.ServerConfig{{Host: host, Port: 1812, Secret: "s3cret"}}, NASID: "bng-verif", Timeout: 2 * time.Second, Retries: 2}, zap.NewNop())
		if err != nil {
			panic(err)
		}
	}
	ac := pppoe.DefaultAuthConfig()
	ac.Protocol = c.proto
	s.a = pppoe.NewAuthenticator(ac, rc, func(p uint16, d []byte) { s.sent = append(s.sent, asent{p, append([]byte(nil), d...)}) }, zap.NewNop())
	s.a.SetOnAuthComplete(func(r *pppoe.AuthResult) { s.done = append(s.done, r) })
	return s
}

func (s *asys) v(kind, site, f string, a ...any) {
	s.viols = append(s.viols, explore.Viol{Kind: kind, Site: site, Detail: fmt.Sprintf(f, a...) + " | history: " + strings.Join(s.hist, " ")})
}

var authOps = []string{"start", "pap alice/good", "pap alice/bad", "pap mallory/good", "chap alice", "chap mallory", "chap alice stale-id", "reauth"}

func (s *asys) Ops() []string { return authOps }

func chapResp(id byte, name string) []byte {
	val := []byte("0123456789abcdef")
	d := append([]byte{byte(len(val))}, val...)
	d = append(d, name...)
	return cp(2, id, d)
}

func (s *asys) Apply(op string) string {
	s.hist = append(s.hist, op)
	s.sent, s.done = nil, nil
	before := s.a.GetState()
	f := strings.Fields(op)
	var (
		isReq, chap bool
		user, pw    string
		reqID       byte
		proto       uint16
	)
	switch f[0] {
	case "start":
		_ = s.a.Start()
	case "reauth":
		_ = s.a.SendReauthChallenge()
	case "pap":
		up := strings.SplitN(f[1], "/", 2)
		user, pw = up[0], up[1]
		s.papID++
		reqID, isReq, proto = s.papID, true, pppoe.ProtocolPAP
		_ = s.a.ReceivePacket(pppoe.ProtocolPAP, pap(reqID, user, pw))
	case "chap":
		user, chap, proto = f[1], true, pppoe.ProtocolCHAP
		reqID = s.lastC
		if len(f) > 2 { // a response to an identifier that is not the outstanding challenge's
			reqID = s.lastC + 7
			_ = s.a.ReceivePacket(pppoe.ProtocolCHAP, chapResp(reqID, user))
			s.judgeIgnored(op, before)
			return s.obs()
		}
		isReq = true
		_ = s.a.ReceivePacket(pppoe.ProtocolCHAP, chapResp(reqID, user))
	}
	for _, p := range s.sent {
		if p.proto == pppoe.ProtocolCHAP && len(p.data) >= 2 && p.data[0] == 1 {
			s.lastC, s.haveC = p.data[1], true
		}
	}
	if !isReq {
		// start / reauth never authenticate anybody
		s.judgeNoSuccess(op, before)
		return s.obs()
	}
	want := s.c.accepts(user, pw, chap)
	succCode, failCode := byte(2), byte(3) // PAP Ack / Nak
	if chap {
		succCode, failCode = 3, 4 // CHAP Success / Failure
	}
	var replies []asent
	for _, p := range s.sent {
		if p.proto == proto && len(p.data) >= 2 && (p.data[0] == succCode || p.data[0] == failCode) {
			replies = append(replies, p)
		}
	}
	backend := fmt.Sprintf("back end %q, %s", s.c.radius, map[bool]string{true: "which accepts this request", false: "which does not accept this request"}[want])
	for _, r := range replies {
		if r.data[0] == succCode && !want {
			s.v("A1-success-without-accept", "reply", "%s answered with a success packet (code %d) (%s)", op, r.data[0], backend)
		}
		if r.data[1] != reqID {
			s.v("A2-reply-identifier", "reply", "%s (identifier %d) answered with identifier %d", op, reqID, r.data[1])
		}
	}
	if len(replies) > 1 {
		s.v("A3-reply-count", "reply", "%s answered with %d replies", op, len(replies))
	}
	for _, r := range s.done {
		if r.Success && !want {
			s.v("A1-success-without-accept", "onAuthComplete", "%s reported AuthResult.Success=true (%s)", op, backend)
		}
	}
	if st := s.a.GetState(); st == pppoe.AuthStateSuccess && !want && (len(replies) > 0 || before != pppoe.AuthStateSuccess) {
		s.v("A1-success-without-accept", "GetState", "state is %s after %s (%s)", st, op, backend)
	}
	return s.obs()
}

func (s *asys) judgeNoSuccess(op string, before pppoe.AuthState) {
	for _, p := range s.sent {
		if (p.proto == pppoe.ProtocolPAP && p.data[0] == 2) || (p.proto == pppoe.ProtocolCHAP && p.data[0] == 3) {
			s.v("A1-success-without-accept", "reply", "%s produced a success packet without any request", op)
		}
	}
	if st := s.a.GetState(); st == pppoe.AuthStateSuccess && before != pppoe.AuthStateSuccess {
		s.v("A1-success-without-accept", "GetState", "state became %s by %s", st, op)
	}
	for _, r := range s.done {
		if r.Success {
			s.v("A1-success-without-accept", "onAuthComplete", "%s reported AuthResult.Success=true", op)
		}
	}
}

// judgeIgnored: a CHAP response that does not answer the outstanding challenge changes nothing.
func (s *asys) judgeIgnored(op string, before pppoe.AuthState) {
	s.judgeNoSuccess(op, before)
	if st := s.a.GetState(); st != before {
		s.v("A4-stale-response-acted-on", "GetState", "%s changed the state %s -> %s", op, before, st)
	}
}

func (s *asys) obs() string {
	var sb strings.Builder
	for _, p := range s.sent {
		fmt.Fprintf(&sb, "%04x:%d ", p.proto, p.data[0])
	}
	return sb.String() + s.a.GetState().String()
}

var authFPSkip = map[string]bool{"Authenticator.challenge": true, "Authenticator.lastFailure": true}

func (s *asys) Fingerprint() string {
	return deepdump.Dump(s.a, deepdump.Options{IgnoreTimes: true, SkipFields: authFPSkip, SkipTypes: map[string]bool{"radius.Client": true}}) +
		fmt.Sprintf("|lastC=%d/%v pap=%d", s.lastC, s.haveC, s.papID)
}

func (s *asys) Check() []explore.Viol { return s.viols }

func authConfigs(thorough bool) []acfg {
	cs := []acfg{
		{"pap no-radius", pppoe.ProtocolPAP, ""},
		{"pap radius-by-user", pppoe.ProtocolPAP, "by-user"},
		{"chap radius-by-user", pppoe.ProtocolCHAP, "by-user"},
		{"chap radius-timeout", pppoe.ProtocolCHAP, "timeout"},
		{"pap radius-refused", pppoe.ProtocolPAP, "refused"},
		{"chap radius-challenge", pppoe.ProtocolCHAP, "challenge"},
	}
	if thorough {
		cs = append(cs, acfg{"chap no-radius", pppoe.ProtocolCHAP, ""}, acfg{"pap radius-timeout", pppoe.ProtocolPAP, "timeout"},
			acfg{"pap radius-challenge", pppoe.ProtocolPAP, "challenge"}, acfg{"chap radius-refused", pppoe.ProtocolCHAP, "refused"})
	}
	return cs
}

func authModels(run *report.Run, t *testing.T) []*explore.Model {
	depth, nd := 4, 2
	if run.Thorough() {
		depth, nd = 5, 3
	}
	var ms []*explore.Model
	for _, c := range authConfigs(run.Thorough()) {
		c := c
		ms = append(ms, &explore.Model{
			Name: "pppoe.Authenticator", Config: c.name,
			New:   func() explore.System { return newASys(c) },
			Depth: depth, NoDedupDepth: nd, Exec: bubble(t), Classify: classify, Budget: 2 * time.Minute,
		})
	}
	return ms
}
