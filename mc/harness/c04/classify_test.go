package c04

import "verif/report"

func classify(v *report.Violation) {}
