package c08

// Engine B part of C08: two or three CONCURRENT calls of the accounting API on one
// session, every interleaving at the lock operations of the rewritten pkg/radius
// (REWRITE radius:...,sync,syncb,go) up to a preemption bound. The manager is not
// Start()ed (its workers' tickers run on the real clock); the scripted server
// answers at once and the in-memory file system is the one of the Engine A part.
// Oracle at the end of every schedule: the same A1..A5 check on the server-side
// record stream and the files (A4: an acknowledged Stop is never transmitted
// again), no panic, no deadlock.

import (
	"fmt"
	"net"
	"sort"
	"strings"
	"time"

	"github.com/codelaboratoryltd/bng/pkg/radius"

	"verif/report"
	"verif/sched"
)

type schedScen struct {
	name    string
	pre     []string   // sequential prefix
	threads [][]string // one op list per thread
}

func schedScenarios(thorough bool) []schedScen {
	s := []schedScen{
		{"Stop(0)||Stop(0)", []string{"Start(0)", "Start(1)"}, [][]string{{"Stop(0)"}, {"Stop(0)"}}},
		{"Start(0)||Start(0)", []string{"Start(1)"}, [][]string{{"Start(0)"}, {"Start(0)"}}},
		{"Stop(0)||Stop(1)", []string{"Start(0)", "Start(1)"}, [][]string{{"Stop(0)"}, {"Stop(1)"}}},
		// not included: StopSession(s) racing with the still running StartSession(s). The property quantifies
		// over histories of starts and stops; a stop issued before the start has returned is outside it (on
		// HEAD the Stop can then reach the server before the Start).
	}
	if thorough {
		s = append(s,
			schedScen{"Stop(0)||Stop(0)||Stop(0)", []string{"Start(0)", "Start(1)"}, [][]string{{"Stop(0)"}, {"Stop(0)"}, {"Stop(0)"}}},
			schedScen{"Stop(0)||Stop(0)||Start(2)", []string{"Start(0)", "Start(1)"}, [][]string{{"Stop(0)"}, {"Stop(0)"}, {"Start(2)"}}},
		)
	}
	return s
}

// doOp: the bookkeeping of exec.apply without the synctest parts.
func (x *exec) doOp(op string) string {
	name, i := parseOp(op)
	c := sessCfgs[i]
	switch name {
	case "Start":
		x.invoked[i] = true
		x.e.mu.Lock()
		x.here[i] = true
		x.e.mu.Unlock()
		err := x.am.StartSession(&radius.AccountingSession{SessionID: c.id, Username: c.user, MAC: append(net.HardwareAddr{}, c.mac...),
			FramedIP: append(net.IP{}, c.ip...), NASPort: uint32(100 + i), Class: append([]byte{}, c.class...)})
		if err == nil {
			x.startedOK[i] = true
		}
		return fmt.Sprint(err == nil)
	case "Stop":
		err := x.am.StopSession(c.id, c.cause)
		if err == nil {
			x.stopCalled[i] = true
			x.ended[i] = true
		}
		return fmt.Sprint(err == nil)
	}
	panic("sched: unknown op " + op)
}

func (sc schedScen) scenario() *sched.Scenario {
	return &sched.Scenario{
		Name: sc.name,
		Setup: func(sx *sched.Exec) {
			e := newEnv(faults{Crash: crashPlan{At: -1}})
			x := &exec{e: e, invoked: map[int]bool{}, startedOK: map[int]bool{}, stopCalled: map[int]bool{}, ended: map[int]bool{}, noStart: true}
			sx.Data = x
			x.newManager()
			for _, op := range sc.pre {
				x.doOp(op)
			}
			for ti, ops := range sc.threads {
				ti, ops := ti, ops
				sx.Thread(fmt.Sprintf("T%d", ti), func() {
					for _, op := range ops {
						sx.Obs("T%d:%s=%s", ti, op, x.doOp(op))
					}
				})
			}
		},
		Check: func(sx *sched.Exec) []sched.Viol {
			x := sx.Data.(*exec)
			defer x.e.unmount()
			x.check(scenario{F: faults{Crash: crashPlan{At: -1}}})
			var vs []sched.Viol
			for _, v := range x.out.Viols {
				vs = append(vs, sched.Viol{Kind: v.Kind, Site: "concurrent", Detail: v.Detail})
			}
			return vs
		},
	}
}

func runSched(run *report.Run) {
	bound := 2
	if run.Thorough() {
		bound = 3
	}
	for _, sc := range schedScenarios(run.Thorough()) {
		name := "sched:" + sc.name
		if !run.WantPart(name) {
			continue
		}
		ex := &sched.Explorer{Bound: bound, Budget: 3 * time.Minute}
		res := ex.Explore(sc.scenario())
		run.AddPart(report.Part{Name: name, Engine: "B:sched-dfs", Bound: fmt.Sprintf("preemptions<=%d completed=%d maxpoints=%d; prefix %v", bound, res.Bound, res.MaxPoints, sc.pre),
			Executions: res.Executions, Outcomes: int64(len(res.Outcomes)), Exhaustive: res.Exhaustive})
		fmt.Printf("part %s: schedules=%d outcomes=%d bound-completed=%d exhaustive=%v\n", name, res.Executions, len(res.Outcomes), res.Bound, res.Exhaustive)
		for _, f := range res.Failures {
			// determinism: the same schedule must produce the same observations twice
			x1 := sched.RunOnce(sc.scenario(), f.Choices)
			x2 := sched.RunOnce(sc.scenario(), f.Choices)
			if strings.Join(x1.Log, "|") != strings.Join(x2.Log, "|") || strings.Join(x1.Log, "|") != strings.Join(f.Log, "|") {
				run.HarnessError(fmt.Sprintf("non-deterministic replay of schedule in %s: explored %q, replays %q / %q; violations %v", name, f.Log, x1.Log, x2.Log, f.Viols))
				continue
			}
			for _, v := range f.Viols {
				tr := append([]string{"pre=" + strings.Join(sc.pre, ",")}, f.Schedule...)
				run.Violation(report.Violation{Part: name, Kind: v.Kind, Site: v.Site, Detail: v.Detail + " | observations: " + strings.Join(f.Log, " "), Trace: tr,
					Extra: map[string]any{"choices": f.Choices}})
			}
		}
		if len(res.Failures) == 0 {
			var o []string
			for k := range res.Outcomes {
				o = append(o, k)
			}
			sort.Strings(o)
			if len(o) > 6 {
				o = o[:6]
			}
			run.Sample(map[string]any{"part": name, "schedules": res.Executions, "outcomes": o})
		}
	}
}

func replaySched(v report.Violation) int {
	for _, sc := range schedScenarios(true) {
		if "sched:"+sc.name != v.Part {
			continue
		}
		var choices []int
		if cs, ok := v.Extra["choices"].([]any); ok {
			for _, c := range cs {
				choices = append(choices, int(c.(float64)))
			}
		}
		scn := sc.scenario()
		x := sched.RunOnce(scn, choices)
		vs := scn.Check(x)
		if x.PanicText != "" {
			vs = append(vs, sched.Viol{Kind: "panic", Detail: x.PanicText})
		}
		for _, f := range vs {
			fmt.Printf("VIOLATION property=C08 replay=%s\n  kind=%s site=%s detail=%s\n  observations: %s\n", *report.FlagReplay, f.Kind, f.Site, f.Detail, strings.Join(x.Log, " "))
		}
		if len(vs) > 0 {
			return 1
		}
		fmt.Println("replay: no violation")
		return 0
	}
	fmt.Println("HARNESS-ERROR unknown scenario", v.Part)
	return 2
}
