// C08 — Every started session is accounted to a Stop, across outages and crashes.
//
// Engine A (replay on REAL objects, one fresh instance per execution) with
// fault and crash enumeration. The system under test is the real
// radius.AccountingManager driving the real radius.Client; pkg/radius is
// compiled from a rewritten copy (REWRITE radius:os,xchg) in which
//
//   - import "os" is verif/shim/vfs: an in-memory file system per instance that
//     logs every operation and asks the harness before each one (crash at
//     operation k, torn WriteFile), and
//   - layeh.com/radius.Exchange is verif/shim/vradius.Exchange: a scripted
//     in-memory accounting server per instance (answer or stay silent per
//     request; records every Accounting-Request decoded from its wire bytes).
//
// Every execution runs in its own testing/synctest bubble, so client timeouts,
// retry backoff and interim timers run on a fake clock and "quiesce" is exact.
//
// One execution = (history, outage pattern, crash point):
//
//	history   Start(i) | Stop(i) | Tick(+interim interval) | +3s | Restart(graceful Stop + new manager)
//	          | Kill(process dies between two operations; new manager on the surviving files)
//	outage    a set of requests the server does not answer, named by
//	          (session, status type, occurrence), or "down throughout"
//	hold      one request whose answer stays outstanding (the server has accepted it, the sender waits)
//	          while the following operations run, released before a later operation
//	crash     "before step k" for every environment step k (mutating file
//	          operation or request transmission) of the crash-free execution,
//	          "after the last step", and for WriteFile steps the torn variants
//	          {empty file, first half}. "after step k" leaves the environment in
//	          exactly the state of "before step k+1" (nothing observable happens
//	          between two environment steps), so both sides of every step are covered.
//
// At a crash the environment is frozen for the running instance (no file
// operation takes effect, no request is delivered any more), the instance is
// shut down as an unobservable zombie, and a new manager is started on the
// surviving file system. Then the server is up (unless down throughout), time
// advances past the maximum backoff and the oracle reads the server-side
// record stream and the file system.
package c08

import (
	"bytes"
	"context"
	"crypto/md5"
	"encoding/binary"
	"encoding/json"
	"errors"
	"fmt"
	"hash/fnv"
	"net"
	"os"
	"runtime"
	"sort"
	"strings"
	"sync"
	"sync/atomic"
	"testing"
	"testing/synctest"
	"time"

	"github.com/codelaboratoryltd/bng/pkg/radius"
	"go.uber.org/zap"
	lradius "layeh.com/radius"

	"verif/report"
	"verif/shim/vfs"
	"verif/shim/vradius"
)

const (
	counterStepIn  = 3_000_000_001
	counterStepOut = 1<<31 + 3
)

const (
	nasID      = "bng-verif"
	secret     = "c08-shared-secret"
	interim    = 20 * time.Second
	settle     = 75 * time.Second // > RetryMaxDelay (60 s) + retry ticker (1 s) + client timeout (3 s)
	typStart   = 1
	typStop    = 2
	typInterim = 3
)

type sessCfg struct {
	id, user string
	mac      net.HardwareAddr
	ip       net.IP
	class    []byte
	cause    uint32
	in, out  uint64
}

var sessCfgs = []sessCfg{
	{"sess-A", "alice", net.HardwareAddr{2, 0, 0, 0, 0, 0x0a}, net.IPv4(10, 0, 0, 10).To4(), []byte("class-A"), 1, 1<<32 + 5, 1<<33 + 7},
	{"sess-B", "bob", net.HardwareAddr{2, 0, 0, 0, 0, 0x0b}, net.IPv4(10, 0, 0, 11).To4(), []byte("class-B\x00\xff"), 4, 3, 1<<32 - 1},
	{"sess-C", "carol", net.HardwareAddr{2, 0, 0, 0, 0, 0x0c}, net.IPv4(10, 0, 0, 12).To4(), []byte("c"), 5, 1 << 40, 0},
}

func sessIndex(id string) int {
	for i, s := range sessCfgs {
		if s.id == id {
			return i
		}
	}
	return -1
}

func fmtMAC(m net.HardwareAddr) string {
	return fmt.Sprintf("%02X-%02X-%02X-%02X-%02X-%02X", m[0], m[1], m[2], m[3], m[4], m[5])
}

// ---------------------------------------------------------------- server-side record

type rec struct {
	N         int
	Step      int
	Typ       int
	Sess      string
	User      string
	MAC       string
	IP        string
	Class     []byte
	NAS       string
	Cause     uint32
	In, Out   uint64 // reconstructed: gigawords<<32 | low word
	AuthOK    bool
	Key       string
	Delivered bool // reached the server
	Accepted  bool // the server answered
	AckSeen   bool // the client saw the answer (false if the process died first)
	Epilogue  bool
	Epoch     int
	Op        int // history operation during which the request was transmitted (-1 = startup)
	Held      bool
	SendSeq   int // position of the transmission in the event order (transmissions, receptions, answers seen)
	RecvSeq   int // position of the reception in the server's event order
	AckSeq    int // position of the moment the client saw the answer (0 = never)
}

func (r *rec) String() string {
	st := "dropped"
	switch {
	case !r.Delivered:
		st = "not-sent(crash)"
	case r.Accepted && r.AckSeen:
		st = "acked"
	case r.Accepted:
		st = "accepted,ack-lost(crash)"
	}
	return fmt.Sprintf("#%d %s %s %s", r.N, map[int]string{1: "Start", 2: "Stop", 3: "Interim"}[r.Typ], r.Sess, st)
}

// decode reads the wire form of an Accounting-Request independently of the
// library that built it.
func decode(wire []byte, r *rec) error {
	if len(wire) < 20 || int(binary.BigEndian.Uint16(wire[2:4])) != len(wire) || wire[0] != 4 {
		return fmt.Errorf("not an Accounting-Request of consistent length")
	}
	h := md5.New()
	h.Write(wire[:4])
	h.Write(make([]byte, 16))
	h.Write(wire[20:])
	h.Write([]byte(secret))
	r.AuthOK = bytes.Equal(h.Sum(nil), wire[4:20])
	var inLo, outLo, inGw, outGw uint32
	for off := 20; off < len(wire); {
		if off+2 > len(wire) || wire[off+1] < 2 || off+int(wire[off+1]) > len(wire) {
			return fmt.Errorf("malformed attribute at %d", off)
		}
		t, v := wire[off], wire[off+2:off+int(wire[off+1])]
		u32 := func() uint32 {
			if len(v) == 4 {
				return binary.BigEndian.Uint32(v)
			}
			return 0
		}
		switch t {
		case 40:
			r.Typ = int(u32())
		case 44:
			r.Sess = string(v)
		case 1:
			r.User = string(v)
		case 31:
			r.MAC = string(v)
		case 8:
			r.IP = net.IP(v).String()
		case 25:
			r.Class = append([]byte{}, v...)
		case 32:
			r.NAS = string(v)
		case 49:
			r.Cause = u32()
		case 42:
			inLo = u32()
		case 43:
			outLo = u32()
		case 52:
			inGw = u32()
		case 53:
			outGw = u32()
		}
		off += int(wire[off+1])
	}
	r.In = uint64(inGw)<<32 | uint64(inLo)
	r.Out = uint64(outGw)<<32 | uint64(outLo)
	return nil
}

// ---------------------------------------------------------------- environment

var errCrashed = errors.New("verif: process crashed (environment frozen)")

type crashPlan struct {
	At   int    // environment step, -1 = none
	Mode string // before | after | torn-empty | torn-half
}

type faults struct {
	Drops []string // request keys the server does not answer
	Down  bool     // server down throughout (also after the history)
	Crash crashPlan
	// Hold: the server receives and accepts this request but its answer stays outstanding until it is
	// released right before history operation number ReleaseAt (len(ops) = after the history). The sender
	// is blocked meanwhile (a durable block inside the bubble), so further operations run while the
	// answer is in flight; the client's own timeout may end the wait first (answer lost).
	Hold      string
	ReleaseAt int
	// QueueSize: configuration of the manager's pending queue (0 = 64, ample). Small values make the
	// hand-off channel overflow, so records must reach the server through the retry scan alone.
	QueueSize int
}

func (f faults) String() string {
	s := "drops=" + strings.Join(f.Drops, ",")
	if f.Down {
		s += " server-down-throughout"
	}
	if f.Crash.At >= 0 {
		s += fmt.Sprintf(" crash@%d:%s", f.Crash.At, f.Crash.Mode)
	}
	if f.QueueSize != 0 {
		s += fmt.Sprintf(" QueueSize=%d", f.QueueSize)
	}
	if f.Hold != "" {
		s += fmt.Sprintf(" hold-answer-of=%s release-before-op=%d", f.Hold, f.ReleaseAt)
	}
	return s
}

type env struct {
	mu        sync.Mutex
	id        string
	prefix    string
	addr      string
	fs        *vfs.FS
	f         faults
	drops     map[string]bool
	step      int
	stepDesc  []string
	crashed   bool
	crashDesc string
	serverUp  bool // epilogue: every request is answered
	epilogue  bool
	occ       map[string]int
	recs      []*rec
	epoch     int
	decodeErr string
	curOp     int
	seq       int
	fetchN    map[int]int                // counter source: fetches per session so far (all process instances)
	fetched   map[int]map[[2]uint64]bool // (in,out) pairs the counter source has produced per session
	renames   map[string]int             // effective renames onto each file: how often it was (re)written
	holdCh    chan struct{}
	released  bool
}

var envSeq atomic.Int64

func newEnv(f faults) *env {
	id := fmt.Sprintf("i%d", envSeq.Add(1))
	e := &env{id: id, prefix: "/vfs/" + id, addr: id + ":1813", fs: vfs.New(), f: f, drops: map[string]bool{}, occ: map[string]int{}, curOp: -1,
		fetchN: map[int]int{}, fetched: map[int]map[[2]uint64]bool{}, renames: map[string]int{}}
	for _, d := range f.Drops {
		e.drops[d] = true
	}
	e.fs.SetGate(e.gate)
	vfs.Mount(e.prefix, e.fs)
	vradius.Register(e.addr, e.exchange)
	return e
}

func (e *env) unmount() {
	vfs.Unmount(e.prefix)
	vradius.Unregister(e.addr)
}

func (e *env) rel(p string) string { return strings.TrimPrefix(p, e.prefix+"/acct/") }

// gate: every file operation of the instance.
func (e *env) gate(op *vfs.Op) (vfs.Effect, error) {
	e.mu.Lock()
	defer e.mu.Unlock()
	if e.crashed {
		return vfs.None, errCrashed
	}
	if !op.Mutating {
		return vfs.Full, nil
	}
	k := e.step
	e.step++
	e.stepDesc = append(e.stepDesc, op.Kind+"("+e.rel(op.Path)+")")
	if k != e.f.Crash.At || e.f.Crash.Mode == "after" {
		if op.Kind == "Rename" {
			e.renames[e.rel(op.Path2)]++
		}
	}
	if k != e.f.Crash.At {
		return vfs.Full, nil
	}
	e.crashed = true
	mode := e.f.Crash.Mode
	if strings.HasPrefix(mode, "torn") && op.Kind != "WriteFile" {
		mode = "before" // the step numbering of this execution differs from the crash-free one (scheduling at equal fake instants): plain crash
	}
	e.crashDesc = fmt.Sprintf("%s %s(%s)", mode, op.Kind, e.rel(op.Path))
	switch mode {
	case "after":
		return vfs.Full, errCrashed
	case "torn-empty":
		if op.Kind == "WriteFile" {
			return vfs.TornEmpty, errCrashed
		}
	case "torn-half":
		if op.Kind == "WriteFile" {
			return vfs.TornHalf, errCrashed
		}
	}
	return vfs.None, errCrashed
}

// exchange: every request transmission of the instance (the scripted server).
func (e *env) exchange(ctx context.Context, p *lradius.Packet, addr string) (*lradius.Packet, error) {
	wire, err := p.Encode()
	e.mu.Lock()
	if e.crashed {
		e.mu.Unlock()
		return nil, errCrashed
	}
	r := &rec{N: len(e.recs), Step: e.step, Epilogue: e.epilogue, Epoch: e.epoch, Op: e.curOp}
	if err == nil {
		err = decode(wire, r)
	}
	if err != nil {
		e.decodeErr = err.Error()
	}
	k := e.step
	e.step++
	r.Key = fmt.Sprintf("%s/%d/%d", r.Sess, r.Typ, e.occ[fmt.Sprintf("%s/%d", r.Sess, r.Typ)])
	e.occ[fmt.Sprintf("%s/%d", r.Sess, r.Typ)]++
	e.stepDesc = append(e.stepDesc, "Send("+r.Key+")")
	e.recs = append(e.recs, r)
	if k == e.f.Crash.At && e.f.Crash.Mode != "after" {
		e.crashed = true
		e.crashDesc = "before Send(" + r.Key + ")"
		e.mu.Unlock()
		return nil, errCrashed
	}
	r.Delivered = true
	e.seq++
	r.SendSeq = e.seq
	if !e.serverUp && (e.f.Down || e.drops[r.Key]) {
		e.mu.Unlock()
		<-ctx.Done() // the server stays silent: the client's own timeout ends the exchange
		return nil, ctx.Err()
	}
	r.Accepted = true
	e.seq++
	r.RecvSeq = e.seq
	if k == e.f.Crash.At {
		e.crashed = true
		e.crashDesc = "after Send(" + r.Key + ") was answered"
		e.mu.Unlock()
		return nil, errCrashed
	}
	if e.f.Hold == r.Key && !e.released && !e.serverUp {
		// the answer is outstanding: the sender waits for it (or for its own timeout / cancellation)
		r.Held = true
		ch := make(chan struct{})
		e.holdCh = ch
		e.mu.Unlock()
		select {
		case <-ch:
		case <-ctx.Done():
			return nil, ctx.Err() // answer lost: the server has the record, the client does not know
		}
		e.mu.Lock()
		if e.crashed {
			e.mu.Unlock()
			return nil, errCrashed
		}
	}
	r.AckSeen = true
	e.seq++
	r.AckSeq = e.seq
	e.mu.Unlock()
	return p.Response(lradius.CodeAccountingResponse), nil
}

// release lets the held answer go out.
func (e *env) releaseHeld() {
	e.mu.Lock()
	if e.holdCh != nil && !e.released {
		close(e.holdCh)
	}
	e.released = true
	e.mu.Unlock()
}

func (e *env) isCrashed() bool { e.mu.Lock(); defer e.mu.Unlock(); return e.crashed }

// ---------------------------------------------------------------- one execution

type scenario struct {
	Ops []string
	F   faults
}

type viol struct{ Kind, Site, Detail, Sess string }

type outcome struct {
	Viols               []viol
	Steps               int            // environment steps during the history (crash-free executions)
	StepDesc            []string       // their descriptions
	Keys                []string       // request keys delivered during the history
	KeyOp               map[string]int // history operation during which each of them was transmitted
	Crashed             bool
	CrashDesc           string
	CrashOp             string         // history operation in progress at the crash
	FileWrites          map[string]int // effective (re)writes per file
	InterimRetried      bool
	StopPredatesInterim bool
	RecoveredStop       bool     // A7: the offending Stop was sent by a later process instance than the Interim
	Unanswered          []string // "key@epoch" of requests the server received and left unanswered
	Epochs              int      // process instances started after a crash
	Restarts            int      // graceful restarts
	Stream              string   // accepted records, for evidence
	Signature           uint64
	OpsApplied          int
}

type exec struct {
	e          *env
	am         *radius.AccountingManager
	invoked    map[int]bool
	startedOK  map[int]bool
	stopCalled map[int]bool
	ended      map[int]bool
	restarts   int
	kills      int
	noStart    bool
	here       map[int]bool // sessions started by the current process instance: only they have live counters
	out        outcome
}

func (x *exec) newManager() {
	x.e.mu.Lock()
	x.here = map[int]bool{}
	x.e.mu.Unlock()
	cl, err := radius.NewClient(radius.ClientConfig{Servers: []radius.ServerConfig{{Host: x.e.id, Port: 1812, Secret: secret}}, NASID: nasID, Timeout: 3 * time.Second}, zap.NewNop())
	if err != nil {
		panic(err)
	}
	qs := x.e.f.QueueSize
	if qs == 0 {
		qs = 64
	}
	am, err := radius.NewAccountingManager(cl, radius.AccountingConfig{
		DefaultInterimInterval: interim, InterimEnabled: true, MaxRetries: 10, RetryBaseDelay: time.Second, RetryMaxDelay: 60 * time.Second,
		QueueSize: qs, PersistPath: x.e.prefix + "/acct", ShutdownTimeout: 30 * time.Second, DrainOnShutdown: true,
	}, zap.NewNop())
	if err != nil {
		panic(err)
	}
	am.SetCounterFetcher(func(id string) (*radius.SessionCounters, error) {
		i := sessIndex(id)
		if i < 0 {
			return nil, fmt.Errorf("unknown session")
		}
		// the counter source the harness owns: traffic grows with every reading (and crosses 2^32 boundaries).
		// Like the data-plane maps it is set up by the running process: a new process instance has no
		// counters for sessions it did not start itself.
		e := x.e
		e.mu.Lock()
		if !x.here[i] {
			e.mu.Unlock()
			return nil, fmt.Errorf("no counters for %s in this process", id)
		}
		n := uint64(e.fetchN[i])
		e.fetchN[i]++
		in, out := sessCfgs[i].in+n*counterStepIn, sessCfgs[i].out+n*counterStepOut
		if e.fetched[i] == nil {
			e.fetched[i] = map[[2]uint64]bool{}
		}
		e.fetched[i][[2]uint64{in, out}] = true
		e.mu.Unlock()
		return &radius.SessionCounters{InputOctets: in, OutputOctets: out, InputPackets: 7 + n, OutputPackets: 9 + n}, nil
	})
	x.am = am
	if x.noStart {
		return // Engine B scenarios: no worker goroutines (their tickers run on the real clock)
	}
	if err := am.Start(); err != nil {
		panic(err)
	}
}

func parseOp(op string) (string, int) {
	if i := strings.IndexByte(op, '('); i > 0 {
		var n int
		fmt.Sscanf(op[i:], "(%d)", &n)
		return op[:i], n
	}
	return op, 0
}

func (x *exec) apply(op string) {
	name, i := parseOp(op)
	switch name {
	case "Start":
		c := sessCfgs[i]
		x.invoked[i] = true
		x.e.mu.Lock()
		x.here[i] = true
		x.e.mu.Unlock()
		err := x.am.StartSession(&radius.AccountingSession{SessionID: c.id, Username: c.user, MAC: append(net.HardwareAddr{}, c.mac...),
			FramedIP: append(net.IP{}, c.ip...), NASPort: uint32(100 + i), Class: append([]byte{}, c.class...), CircuitID: "circuit-" + c.id, RemoteID: "remote-" + c.id})
		if err == nil && !x.e.isCrashed() {
			x.startedOK[i] = true
		}
	case "Dup":
		// same session id, a stranger's identity: records must keep carrying the live session's own
		x.am.StartSession(&radius.AccountingSession{SessionID: sessCfgs[i].id, Username: "mallory", MAC: net.HardwareAddr{2, 0, 0, 0, 0, 0xee},
			FramedIP: net.IPv4(10, 0, 0, 99).To4(), NASPort: 999, Class: []byte("class-X"), CircuitID: "circuit-x", RemoteID: "remote-x"})
	case "Stop":
		err := x.am.StopSession(sessCfgs[i].id, sessCfgs[i].cause)
		if err == nil && !x.e.isCrashed() {
			x.stopCalled[i] = true
			x.ended[i] = true
		}
	case "Tick":
		time.Sleep(interim)
	case "+3s":
		time.Sleep(3 * time.Second)
	case "Kill":
		// the process is killed between two operations (no step of its own in progress): freeze the
		// environment, end the zombie unobservably, start a new process on the surviving files
		x.e.mu.Lock()
		x.e.crashed = true
		x.e.mu.Unlock()
		x.am.Stop()
		synctest.Wait()
		x.e.mu.Lock()
		x.e.crashed = false
		x.e.epoch++
		x.e.mu.Unlock()
		for i := range x.invoked {
			x.ended[i] = true
		}
		x.kills++
		x.newManager()
	case "Restart":
		x.am.Stop()
		synctest.Wait()
		if !x.e.isCrashed() {
			for i := range x.invoked {
				x.ended[i] = true
			}
			x.restarts++
			x.newManager()
		}
	default:
		panic("unknown op " + op)
	}
	synctest.Wait()
}

// run executes one scenario inside the current synctest bubble.
func run(sc scenario) outcome {
	e := newEnv(sc.F)
	defer e.unmount()
	x := &exec{e: e, invoked: map[int]bool{}, startedOK: map[int]bool{}, stopCalled: map[int]bool{}, ended: map[int]bool{}}
	x.out.CrashOp = "(startup)"
	x.newManager()
	synctest.Wait()
	for i, op := range sc.Ops {
		if e.isCrashed() {
			break
		}
		if sc.F.Hold != "" && i == sc.F.ReleaseAt {
			e.releaseHeld()
			synctest.Wait()
		}
		e.mu.Lock()
		e.curOp = i
		e.mu.Unlock()
		x.out.CrashOp = op
		x.apply(op)
		x.out.OpsApplied++
	}
	if !e.isCrashed() {
		x.out.CrashOp = ""
	}
	e.mu.Lock()
	x.out.Steps = e.step
	x.out.StepDesc = append([]string{}, e.stepDesc...)
	x.out.KeyOp = map[string]int{}
	for _, r := range e.recs {
		if r.Delivered {
			x.out.Keys = append(x.out.Keys, r.Key)
			x.out.KeyOp[r.Key] = r.Op
		}
	}
	crashed := e.crashed
	x.out.Crashed, x.out.CrashDesc = crashed, e.crashDesc
	if !crashed {
		// crash points range over the steps of the history only. If this execution took fewer steps
		// than the crash-free one it was derived from (scheduling at equal fake instants differs), the
		// planned step was not reached: the plan is disarmed and this is a crash-free execution.
		e.f.Crash.At = -1
	}
	e.mu.Unlock()

	if crashed {
		// the process is dead: the zombie is shut down without any observable effect, then a new
		// process starts on what the file system holds
		x.am.Stop()
		synctest.Wait()
		e.mu.Lock()
		e.crashed = false
		e.f.Crash.At = -1
		e.epoch++
		e.mu.Unlock()
		for i := range x.invoked {
			x.ended[i] = true
		}
		x.newManager()
		synctest.Wait()
	}
	e.releaseHeld()
	synctest.Wait()
	e.mu.Lock()
	e.epilogue = true
	if !sc.F.Down {
		e.serverUp = true
	}
	e.mu.Unlock()
	if !sc.F.Down {
		time.Sleep(settle)
		synctest.Wait()
	}
	x.check(sc)
	// end the instance without observable effect
	e.mu.Lock()
	e.crashed = true
	e.mu.Unlock()
	x.am.Stop()
	synctest.Wait()
	return x.out
}

func (x *exec) v(kind, site, f string, a ...any) {
	x.out.Viols = append(x.out.Viols, viol{Kind: kind, Site: site, Detail: fmt.Sprintf(f, a...)})
}

// vs: a violation about one session.
func (x *exec) vs(sess, kind, site, f string, a ...any) {
	x.out.Viols = append(x.out.Viols, viol{Kind: kind, Site: site, Detail: fmt.Sprintf(f, a...), Sess: sess})
}

// durableStop: does the file system hold a Stop for the session, or the session
// file from which recovery produces one?
func durableStop(files map[string][]byte, prefix string, id string) bool {
	if b, ok := files[prefix+"/acct/sessions/"+id+".json"]; ok {
		var s struct{ SessionID string }
		if json.Unmarshal(b, &s) == nil && s.SessionID == id {
			return true
		}
	}
	if b, ok := files[prefix+"/acct/pending.json"]; ok {
		var m map[string]struct {
			Request *struct {
				SessionID  string
				StatusType int
			} `json:"request"`
		}
		if json.Unmarshal(b, &m) == nil {
			for _, p := range m {
				if p.Request != nil && p.Request.SessionID == id && p.Request.StatusType == typStop {
					return true
				}
			}
		}
	}
	return false
}

func (x *exec) check(sc scenario) {
	e := x.e
	e.mu.Lock()
	recs := append([]*rec{}, e.recs...)
	decodeErr := e.decodeErr
	fetched := e.fetched
	x.out.FileWrites = map[string]int{}
	for k, v := range e.renames {
		x.out.FileWrites[k] = v
	}
	e.mu.Unlock()
	files := e.fs.Files()
	site := "history"
	if x.out.Crashed {
		site = "crash " + generalise(x.out.CrashDesc) + " in " + opName(x.out.CrashOp)
	}
	if decodeErr != "" {
		x.v("A5-identity", site, "request not decodable: %s", decodeErr)
	}
	var stream []string
	accStart, accStop := map[int]int{}, map[int]int{} // first accepted positions (+1)
	// A4 needs real-time order: a Stop is "already acknowledged" from the moment the client saw the answer
	// (AckSeq), which with a held answer can be later than the transmission of other records
	firstAck := map[int]*rec{}
	for _, r := range recs {
		if i := sessIndex(r.Sess); i >= 0 && r.Typ == typStop && r.AckSeen {
			if o, ok := firstAck[i]; !ok || r.AckSeq < o.AckSeq {
				firstAck[i] = r
			}
		}
	}
	for _, r := range recs {
		if !r.Delivered {
			continue
		}
		i := sessIndex(r.Sess)
		// A5: identity
		if i < 0 {
			x.v("A5-identity", site, "record %v carries unknown Acct-Session-Id %q", r, r.Sess)
			continue
		}
		c := sessCfgs[i]
		if r.User != c.user || r.MAC != fmtMAC(c.mac) || r.IP != c.ip.String() || !bytes.Equal(r.Class, c.class) || r.NAS != nasID || !r.AuthOK {
			x.v("A5-identity", site, "record %v: user=%q mac=%q ip=%q class=%q nas=%q authenticator-ok=%v; session has user=%q mac=%q ip=%q class=%q", r, r.User, r.MAC, r.IP, r.Class, r.NAS, r.AuthOK, c.user, fmtMAC(c.mac), c.ip, c.class)
		}
		// A6 (history side): the counters a record reports are a reading the counter source produced for
		// that session (or nothing yet), exactly, through low word + gigawords
		if r.Typ == typStop || r.Typ == typInterim {
			if !(r.In == 0 && r.Out == 0) && !fetched[i][[2]uint64{r.In, r.Out}] {
				x.vs(r.Sess, "A6-counter-split", site, "record %v reports in=%d out=%d, which the session's counter source never produced", r, r.In, r.Out)
			}
		}
		// A7: counters never go backwards: a Stop reports at least what the last Interim reported that had
		// been acknowledged when the Stop was transmitted
		if r.Typ == typStop {
			for _, q := range recs {
				if q.Typ == typInterim && q.Sess == r.Sess && q.AckSeen && q.AckSeq < r.SendSeq && (r.In < q.In || r.Out < q.Out) {
					x.out.RecoveredStop = r.Epoch > q.Epoch
					for _, q0 := range recs {
						if q0.N < q.N && q0.Typ == typInterim && q0.Sess == q.Sess && q0.Delivered && !q0.AckSeen && q0.In == q.In && q0.Out == q.Out {
							x.out.InterimRetried = true // the acknowledged Interim is a retransmission from the retry queue
						}
						if q0.Typ == typStop && q0.Sess == r.Sess && q0.Delivered && q0.SendSeq < q.SendSeq {
							x.out.StopPredatesInterim = true // a Stop of the session had been transmitted before that Interim was
						}
					}
					x.vs(r.Sess, "A7-counters-backwards", site, "%v reports in=%d out=%d, less than the acknowledged %v did (in=%d out=%d)", r, r.In, r.Out, q, q.In, q.Out)
					break
				}
			}
		}
		// A3
		if r.Typ == typStop && !x.invoked[i] {
			x.vs(r.Sess, "A3-stop-for-unstarted", site, "Stop transmitted for %s, for which accounting was never started (%v)", r.Sess, r)
		}
		// A4
		if r.Typ == typStop && !x.out.Crashed && x.kills == 0 {
			if o, ok := firstAck[i]; ok && r.SendSeq > o.AckSeq {
				x.vs(r.Sess, "A4-stop-retransmitted", site, "Stop for %s transmitted again (%v) after the server acknowledged record #%d", r.Sess, r, o.N)
			}
		}
		if r.Accepted {
			stream = append(stream, fmt.Sprintf("%d:%s", r.Typ, r.Sess))
			switch r.Typ {
			case typStart:
				// "never before its Start": the Stop was accepted while no Start of the session had been
				// (a repeated Start arriving after the Stop of a properly started session is not this clause)
				if p, ok := accStop[i]; ok && accStart[i] == 0 {
					x.vs(r.Sess, "A2-start-after-stop", site, "Start for %s accepted (%v) after its Stop had been accepted (record #%d)", r.Sess, r, p-1)
				}
				if _, ok := accStart[i]; !ok {
					accStart[i] = r.N + 1
				}
			case typStop:
				if _, ok := accStop[i]; !ok {
					accStop[i] = r.N + 1
				}
			}
		}
	}
	// A1
	for i := range sessCfgs {
		_, started := accStart[i]
		if !x.ended[i] || !(x.startedOK[i] || started) {
			continue
		}
		if _, ok := accStop[i]; ok {
			continue
		}
		if sc.F.Down {
			if !durableStop(files, e.prefix, sessCfgs[i].id) {
				x.vs(sessCfgs[i].id, "A1-stop-not-durable", site, "%s ended, the server is still down and the file system holds neither a queued Stop nor the session file (files: %s)", sessCfgs[i].id, fileList(files, e.prefix))
			}
			continue
		}
		x.vs(sessCfgs[i].id, "A1-stop-missing", site, "%s ended (Start accepted=%v) but no Stop was accepted after the server was up for %v; files: %s", sessCfgs[i].id, started, settle, fileList(files, e.prefix))
	}
	for _, r := range recs {
		if r.Delivered && !r.Accepted {
			x.out.Unanswered = append(x.out.Unanswered, fmt.Sprintf("%s@%d", r.Key, r.Epoch))
		}
	}
	x.out.Epochs, x.out.Restarts = e.epoch, x.restarts
	x.out.Stream = strings.Join(stream, " ")
	h := fnv.New64a()
	h.Write([]byte(x.out.Stream))
	h.Write([]byte(fileList(files, e.prefix)))
	x.out.Signature = h.Sum64()
}

func fileList(files map[string][]byte, prefix string) string {
	var n []string
	for p, b := range files {
		n = append(n, fmt.Sprintf("%s(%dB)", strings.TrimPrefix(p, prefix+"/acct/"), len(b)))
	}
	sort.Strings(n)
	return "[" + strings.Join(n, " ") + "]"
}

func opName(op string) string { n, _ := parseOp(op); return n }

// generalise removes session names and occurrence numbers from a step description.
func generalise(s string) string {
	for _, c := range sessCfgs {
		s = strings.ReplaceAll(s, c.id, "*")
	}
	if i := strings.Index(s, "Send(*/"); i >= 0 {
		// Send(*/<type>/<occ>) -> Send(<type name>)
		var t, o int
		fmt.Sscanf(s[i:], "Send(*/%d/%d)", &t, &o)
		s = s[:i] + "Send(" + map[int]string{1: "Start", 2: "Stop", 3: "Interim"}[t] + ")" + s[i+len(fmt.Sprintf("Send(*/%d/%d)", t, o)):]
	}
	return s
}

// bubble runs one scenario in a fresh synctest bubble.
func bubble(t *testing.T, sc scenario) (out outcome, panicked string) {
	defer func() {
		if r := recover(); r != nil { // e.g. synctest's deadlock detection
			panicked = fmt.Sprintf("bubble: %v", r)
		}
	}()
	synctest.Test(t, func(*testing.T) {
		defer func() {
			if r := recover(); r != nil {
				buf := make([]byte, 4096)
				n := runtime.Stack(buf, false)
				panicked = fmt.Sprintf("%v\n%s", r, buf[:n])
			}
		}()
		out = run(sc)
	})
	return
}

// ---------------------------------------------------------------- enumeration

// histories returns all canonical operation sequences of exactly length n:
// sessions are introduced in order (Start(i) only for the lowest unused i) and
// used once; Stop(i) is offered for every started session and for ONE session
// that was never started (clause A3).
//
// Dup(i): a second StartSession with the id of session i, which is live at that point, and somebody
// else's identity; it must be refused and leave no trace (at most one Dup per history).
func histories(n, maxSess int) [][]string {
	var out [][]string
	var rec func(prefix []string, started int, active uint, dups int)
	rec = func(prefix []string, started int, active uint, dups int) {
		if len(prefix) == n {
			out = append(out, append([]string{}, prefix...))
			return
		}
		var ops []string
		if started < maxSess {
			ops = append(ops, fmt.Sprintf("Start(%d)", started))
		}
		for i := 0; i <= started && i < maxSess; i++ {
			ops = append(ops, fmt.Sprintf("Stop(%d)", i))
		}
		if dups == 0 {
			for i := 0; i < started; i++ {
				if active&(1<<uint(i)) != 0 {
					ops = append(ops, fmt.Sprintf("Dup(%d)", i))
				}
			}
		}
		ops = append(ops, "Tick", "+3s", "Restart", "Kill")
		for _, op := range ops {
			s, a, d := started, active, dups
			name, i := parseOp(op)
			switch name {
			case "Start":
				a |= 1 << uint(s)
				s++
			case "Stop":
				a &^= 1 << uint(i)
			case "Dup":
				d++
			case "Restart", "Kill":
				a = 0
			}
			rec(append(prefix, op), s, a, d)
		}
	}
	rec(nil, 0, 0, 0)
	return out
}

type bounds struct {
	maxSess, maxLen int
	maxDrops        int
	// longer histories are explored with fewer simultaneous deviations
	dropsAtLen             map[int]int
	torn                   bool
	queueSizes             []int // QueueSize configurations (0 = ample)
	smallQueueNeedsRestart bool
	holdCrash              bool // also enumerate crash points under every held-answer scenario
	budget                 time.Duration
}

type counters struct {
	execs, ops, scenarios, crashRuns, histories, holds atomic.Int64
}

type driver struct {
	t      *testing.T
	run    *report.Run
	part   string
	b      bounds
	cnt    counters
	sigMu  sync.Mutex
	sigs   map[uint64]bool
	start  time.Time
	capped atomic.Bool
}

func (d *driver) overBudget() bool {
	if time.Since(d.start) > d.b.budget {
		d.capped.Store(true)
		return true
	}
	return false
}

func (d *driver) one(sc scenario) outcome {
	out, p := bubble(d.t, sc)
	n := d.cnt.execs.Add(1)
	d.cnt.ops.Add(int64(out.OpsApplied))
	if n == 2 || n == 40 || n%9973 == 0 {
		d.run.Sample(map[string]any{"history": sc.Ops, "faults": sc.F.String(), "crashed": out.CrashDesc, "during": out.CrashOp, "accepted_stream": out.Stream, "violations": len(out.Viols)})
	}
	if p != "" {
		out.Viols = append(out.Viols, viol{Kind: "panic", Site: "history", Detail: p})
	}
	d.sigMu.Lock()
	d.sigs[out.Signature] = true
	d.sigMu.Unlock()
	for _, v := range out.Viols {
		d.report(sc, out, v)
	}
	return out
}

func (d *driver) report(sc scenario, out outcome, v viol) {
	trace := append([]string{}, sc.Ops...)
	trace = append(trace, "| "+sc.F.String())
	if out.Crashed {
		trace = append(trace, "| crashed "+out.CrashDesc+" during "+out.CrashOp)
	}
	trace = append(trace, "| accepted: "+out.Stream)
	rv := report.Violation{Part: d.part, Kind: v.Kind, Site: v.Site, Detail: v.Detail, Config: sc.F.String(), Trace: trace,
		Extra: map[string]any{"ops": sc.Ops, "drops": sc.F.Drops, "down": sc.F.Down, "crash_at": sc.F.Crash.At, "crash_mode": sc.F.Crash.Mode,
			"queue_size": sc.F.QueueSize, "hold": sc.F.Hold, "release_at": sc.F.ReleaseAt, "crash_desc": out.CrashDesc, "crash_op": out.CrashOp, "sess": v.Sess, "file_writes": out.FileWrites["sessions/"+v.Sess+".json"], "recovered_stop": out.RecoveredStop, "interim_retried": out.InterimRetried, "stop_predates_interim": out.StopPredatesInterim, "unanswered": out.Unanswered, "crashed": out.Crashed, "epochs": out.Epochs}}
	classify(&rv)
	d.run.Violation(rv)
}

// explore one history: all outage patterns x all crash points.
func (d *driver) history(ops []string) {
	d.cnt.histories.Add(1)
	for _, qs := range d.b.queueSizes {
		if qs != 0 && d.b.smallQueueNeedsRestart && !hasRestart(ops) {
			// small-queue configurations run with <=2 unanswered requests: the hand-off channel can only overflow while no worker
			// drains it, i.e. during the recovery of a new process (worker busy + 2 more queued needs 3)
			continue
		}
		d.historyCfg(ops, qs)
	}
}

func hasRestart(ops []string) bool {
	for _, op := range ops {
		if op == "Restart" || op == "Kill" {
			return true
		}
	}
	return false
}

// historyCfg: one history under one QueueSize configuration (0 = ample).
func (d *driver) historyCfg(ops []string, qs int) {
	// held answers x crash points: ample queue and histories of length <= 4 only (the product dominates the cost)
	holdCrash := d.b.holdCrash && qs == 0 && len(ops) <= 4
	maxDrops := d.b.maxDrops
	if m, ok := d.b.dropsAtLen[len(ops)]; ok {
		maxDrops = m
	}
	if qs != 0 && maxDrops > 2 {
		maxDrops = 2 // small-queue configurations: at most two unanswered requests
	}
	type pat struct {
		drops []string
		down  bool
	}
	seen := map[string]bool{}
	var frontier []pat
	var all []pat
	frontier = append(frontier, pat{})
	for level := 0; level <= maxDrops && len(frontier) > 0; level++ {
		var next []pat
		for _, p := range frontier {
			key := strings.Join(p.drops, ",")
			if seen[key] {
				continue
			}
			seen[key] = true
			if d.overBudget() {
				return
			}
			out := d.one(scenario{ops, faults{Drops: p.drops, Crash: crashPlan{At: -1}, QueueSize: qs}})
			d.cnt.scenarios.Add(1)
			if len(out.Viols) > 0 {
				continue // violating executions are not extended with further deviations
			}
			all = append(all, p)
			d.crashes(ops, faults{Drops: p.drops, QueueSize: qs}, out)
			if level < maxDrops {
				has := map[string]bool{}
				for _, k := range p.drops {
					has[k] = true
				}
				for _, k := range uniq(out.Keys) {
					if has[k] {
						continue
					}
					nd := append(append([]string{}, p.drops...), k)
					sort.Strings(nd)
					next = append(next, pat{drops: nd})
				}
			}
		}
		frontier = next
	}
	// one answer outstanding: for every request of the deviation-free execution, the server accepts it but
	// its answer is held while the following operations run; released before operation r, for every later r
	if len(all) > 0 {
		base := d.one0(ops, qs)
		for _, k := range uniq(base.Keys) {
			from := base.KeyOp[k] + 1
			if from < 1 {
				from = 1
			}
			for r := from; r <= len(ops); r++ {
				if d.overBudget() {
					return
				}
				f := faults{Hold: k, ReleaseAt: r, Crash: crashPlan{At: -1}, QueueSize: qs}
				out := d.one(scenario{ops, f})
				d.cnt.scenarios.Add(1)
				d.cnt.holds.Add(1)
				if len(out.Viols) == 0 && holdCrash {
					d.crashes(ops, faults{Hold: k, ReleaseAt: r, QueueSize: qs}, out)
				}
			}
		}
	}
	// server down throughout
	if d.overBudget() {
		return
	}
	out := d.one(scenario{ops, faults{Down: true, Crash: crashPlan{At: -1}, QueueSize: qs}})
	d.cnt.scenarios.Add(1)
	if len(out.Viols) == 0 {
		d.crashes(ops, faults{Down: true, QueueSize: qs}, out)
	}
}

// one0: the deviation-free execution of a history (for its request keys); not counted twice in the statistics.
func (d *driver) one0(ops []string, qs int) outcome {
	out, _ := bubble(d.t, scenario{ops, faults{Crash: crashPlan{At: -1}, QueueSize: qs}})
	return out
}

func uniq(s []string) []string {
	seen := map[string]bool{}
	var out []string
	for _, x := range s {
		if !seen[x] {
			seen[x] = true
			out = append(out, x)
		}
	}
	return out
}

func (d *driver) crashes(ops []string, f faults, base outcome) {
	for k := 0; k < base.Steps; k++ {
		if d.overBudget() {
			return
		}
		modes := []string{"before"}
		if k == base.Steps-1 {
			modes = append(modes, "after")
		}
		if d.b.torn && strings.HasPrefix(base.StepDesc[k], "WriteFile(") {
			modes = append(modes, "torn-empty", "torn-half")
		}
		for _, m := range modes {
			ff := f
			ff.Crash = crashPlan{At: k, Mode: m}
			d.one(scenario{ops, ff})
			d.cnt.crashRuns.Add(1)
		}
	}
}

func (d *driver) explore() report.Part {
	d.start = time.Now()
	d.sigs = map[uint64]bool{}
	workers := runtime.NumCPU()
	for n := 0; n <= d.b.maxLen; n++ {
		hs := histories(n, d.b.maxSess)
		var next int64 = -1
		var wg sync.WaitGroup
		for w := 0; w < workers; w++ {
			wg.Add(1)
			go func() {
				defer wg.Done()
				for {
					j := atomic.AddInt64(&next, 1)
					if int(j) >= len(hs) || d.overBudget() {
						return
					}
					d.history(hs[j])
				}
			}()
		}
		wg.Wait()
		fmt.Printf("part %s: histories of length %d done (%d), executions so far %d, %.1fs\n", d.part, n, len(hs), d.cnt.execs.Load(), time.Since(d.start).Seconds())
	}
	p := report.Part{Name: d.part, Engine: "A:replay+fault/crash-enumeration(synctest)",
		Bound: fmt.Sprintf("sessions<=%d history-length<=%d unanswered-requests<=%d (by length: %v) + down-throughout; QueueSize in %v (0 = 64); one held answer x release points; crash before every env step + after last%s",
			d.b.maxSess, d.b.maxLen, d.b.maxDrops, d.b.dropsAtLen, d.b.queueSizes, map[bool]string{true: " + torn WriteFile {empty,half}", false: ""}[d.b.torn]),
		States: int64(len(d.sigs)), Transitions: d.cnt.ops.Load(), Executions: d.cnt.execs.Load(), Outcomes: int64(len(d.sigs)), Exhaustive: !d.capped.Load(),
		Note: fmt.Sprintf("histories=%d (history,outage) scenarios=%d crash executions=%d held-answer scenarios=%d (every request of the deviation-free execution x every later release point); states = distinct (accepted record stream, final files) outcomes", d.cnt.histories.Load(), d.cnt.scenarios.Load(), d.cnt.crashRuns.Load(), d.cnt.holds.Load())}
	if d.capped.Load() {
		p.Note += fmt.Sprintf("; wall-clock budget %v hit", d.b.budget)
	}
	return p
}

// ---------------------------------------------------------------- A6: gigaword sweep

func sweepValues() []uint64 {
	seen := map[uint64]bool{}
	var out []uint64
	add := func(v uint64) {
		if !seen[v] {
			seen[v] = true
			out = append(out, v)
		}
	}
	for k := 0; k <= 64; k++ {
		var p uint64
		if k < 64 {
			p = 1 << uint(k)
		} // 2^64 wraps to 0: its neighbours 2^64-1 and 0, 1 are covered
		add(p - 1)
		add(p)
		add(p + 1)
	}
	sort.Slice(out, func(i, j int) bool { return out[i] < out[j] })
	return out
}

func sweep(run *report.Run) {
	part := "acct/A6-gigaword-sweep"
	vals := sweepValues()
	var n, big int64
	var mu sync.Mutex
	var wg sync.WaitGroup
	workers := runtime.NumCPU()
	var next int64 = -1
	for w := 0; w < workers; w++ {
		wg.Add(1)
		go func() {
			defer wg.Done()
			host := fmt.Sprintf("sweep%d", envSeq.Add(1))
			var last *rec
			var lastErr error
			vradius.Register(host+":1813", func(ctx context.Context, p *lradius.Packet, addr string) (*lradius.Packet, error) {
				wire, err := p.Encode()
				last = &rec{}
				if err == nil {
					err = decode(wire, last)
				}
				lastErr = err
				return p.Response(lradius.CodeAccountingResponse), nil
			})
			defer vradius.Unregister(host + ":1813")
			cl, err := radius.NewClient(radius.ClientConfig{Servers: []radius.ServerConfig{{Host: host, Port: 1812, Secret: secret}}, NASID: nasID,
				RateLimit: radius.RateLimitConfig{RequestsPerSecond: 1e9, BurstSize: 1 << 30}}, zap.NewNop())
			if err != nil {
				run.HarnessError(err.Error())
				return
			}
			c := sessCfgs[0]
			for {
				j := int(atomic.AddInt64(&next, 1))
				if j >= len(vals) {
					return
				}
				in := vals[j]
				for _, out := range vals {
					for _, typ := range []radius.AcctStatusType{radius.AcctStatusStop, radius.AcctStatusInterimUpdate} {
						last = nil
						err := cl.SendAccounting(context.Background(), &radius.AcctRequest{SessionID: c.id, Username: c.user, MAC: c.mac, FramedIP: c.ip, StatusType: typ,
							InputOctets: in, OutputOctets: out, InputPackets: in, OutputPackets: out, SessionTime: 1, TerminateCause: 1, Class: c.class})
						mu.Lock()
						n++
						if in > 0xFFFFFFFF || out > 0xFFFFFFFF {
							big++
						}
						mu.Unlock()
						if err != nil || last == nil || lastErr != nil {
							run.Violation(report.Violation{Part: part, Kind: "A6-counter-split", Site: "Client.SendAccounting", Detail: fmt.Sprintf("in=%d out=%d type=%d: send failed: %v %v", in, out, typ, err, lastErr),
								Trace: []string{fmt.Sprintf("SendAccounting(type=%d,in=%d,out=%d)", typ, in, out)}, Extra: map[string]any{"sweep": true, "in": fmt.Sprint(in), "out": fmt.Sprint(out), "typ": int(typ)}})
							continue
						}
						if last.In != in || last.Out != out {
							run.Violation(report.Violation{Part: part, Kind: "A6-counter-split", Site: "Client.SendAccounting",
								Detail: fmt.Sprintf("type=%d: counters in=%d out=%d decode from the wire (low word + gigawords) as in=%d out=%d", typ, in, out, last.In, last.Out),
								Trace:  []string{fmt.Sprintf("SendAccounting(type=%d,in=%d,out=%d)", typ, in, out)}, Extra: map[string]any{"sweep": true, "in": fmt.Sprint(in), "out": fmt.Sprint(out), "typ": int(typ)}})
						}
					}
				}
			}
		}()
	}
	wg.Wait()
	run.AddPart(report.Part{Name: part, Engine: "D:complete-sweep", Bound: fmt.Sprintf("%d boundary values (2^k, 2^k+-1, k=0..64) x same for the other direction x {Stop, Interim}", len(vals)),
		Exhaustive: true, Note: fmt.Sprintf("%d sends, %d with a counter above 32 bits (counted as evaluations / distinct_nontrivial)", n, big)})
	run.AddEvals(n, big)
	fmt.Printf("part %s: %d sends (%d with a value above 2^32-1)\n", part, n, big)
}

// ---------------------------------------------------------------- entry

// classify: root-cause classes of the known findings (findings.d/C08.json).
// Predicates are evaluated on the witness execution (which requests the server
// left unanswered, in which process instance, whether the process crashed), not
// on message texts.
func classify(v *report.Violation) {
	sess, _ := v.Extra["sess"].(string)
	crashed, _ := v.Extra["crashed"].(bool)
	down, _ := v.Extra["down"].(bool)
	var unanswered []string
	switch u := v.Extra["unanswered"].(type) {
	case []string:
		unanswered = u
	case []any:
		for _, x := range u {
			unanswered = append(unanswered, fmt.Sprint(x))
		}
	}
	if sess == "" {
		return
	}
	// has(typ, beforeCrashOnly): the server left a request of this type for this session unanswered
	// (it then lives only in the sending process's in-memory retry queue)
	epochs := 0
	switch n := v.Extra["epochs"].(type) {
	case int:
		epochs = n
	case float64:
		epochs = int(n)
	}
	// has(typ, deadInstanceOnly): ... deadInstanceOnly = sent by a process instance that died later (crash or kill)
	has := func(typ int, firstInstanceOnly bool) bool {
		for _, u := range unanswered {
			var epoch int
			key := u
			if i := strings.LastIndexByte(u, '@'); i >= 0 {
				key = u[:i]
				fmt.Sscanf(u[i+1:], "%d", &epoch)
			}
			if strings.HasPrefix(key, fmt.Sprintf("%s/%d/", sess, typ)) && (!firstInstanceOnly || epoch < epochs) {
				return true
			}
		}
		return false
	}
	// informational classes of the defects repaired by fixes/C08-F1..F4 (not listed as known findings,
	// so they are reported until the fixes are applied)
	crashDesc, _ := v.Extra["crash_desc"].(string)
	crashOp, _ := v.Extra["crash_op"].(string)
	sessFile := "sessions/" + sess + ".json"
	if i := sessIndex(sess); i >= 0 && strings.HasPrefix(v.Kind, "A1-") && crashed {
		switch {
		case crashOp == fmt.Sprintf("Start(%d)", i) && !has(typStop, false) &&
			(strings.HasSuffix(crashDesc, "MkdirAll(sessions)") || strings.Contains(crashDesc, "WriteFile("+sessFile+")")):
			v.Class = "C08-F1-start-sent-before-session-file-written"
			return
		case crashOp == fmt.Sprintf("Stop(%d)", i) && strings.HasPrefix(crashDesc, "torn") && strings.Contains(crashDesc, "WriteFile("+sessFile+")"):
			v.Class = "C08-F2-session-file-torn-by-in-place-rewrite"
			return
		}
	}
	hold, _ := v.Extra["hold"].(string)
	if v.Kind == "A4-stop-retransmitted" && !crashed && epochs == 0 && hold == "" {
		ops, _ := v.Extra["ops"].([]string)
		graceful := false
		for _, op := range ops {
			graceful = graceful || op == "Restart"
		}
		if !graceful && len(unanswered) >= 3 && has(typStop, false) {
			// one process, no restart: the queued Stop was sent by the ticker scan and again from the channel
			v.Class = "C08-F5-record-sent-by-both-worker-paths"
			return
		}
		for _, op := range ops {
			if op == "Restart" {
				if has(typStop, false) {
					v.Class = "C08-F4-delivered-record-persisted-by-graceful-stop"
				} else {
					v.Class = "C08-F3-drained-session-file-left-behind"
				}
				return
			}
		}
	}
	if v.Kind == "A7-counters-backwards" {
		// the Stop was built by a later process instance from a session file that had only been written by
		// StartSession (one write): the acknowledged Interims never reached the disk
		writes := -1
		switch n := v.Extra["file_writes"].(type) {
		case int:
			writes = n
		case float64:
			writes = int(n)
		}
		rs, _ := v.Extra["recovered_stop"].(bool)
		ir, _ := v.Extra["interim_retried"].(bool)
		switch {
		case rs && writes == 1:
			v.Class = "C08-K3-recovered-stop-from-start-time-file"
		case func() bool { b, _ := v.Extra["stop_predates_interim"].(bool); return b }():
			// a Stop of the session had already been transmitted (unanswered) BEFORE the Interim it falls behind
			// was transmitted: the interim pass works on a snapshot of the session table and still sends an
			// Interim for a session whose stop has begun
			v.Class = "C08-K5-interim-sent-after-stop-began"
		case rs && ir:
			// the Interim the Stop falls behind was delivered by the retry queue; that path does not record
			// the counters as the session's last acknowledged ones, so the stop-pending file lacks them
			v.Class = "C08-K4-retried-interim-not-recorded"
		}
		return
	}
	switch v.Kind {
	case "A1-stop-missing":
		// the Stop was attempted by the process that later crashed, the server did not answer, so it
		// sat in that process's memory queue (session file / pending.json already deleted) when it died
		if (crashed || epochs > 0) && has(typStop, true) {
			v.Class = "C08-K1-stop-only-in-memory-queue"
		}
	case "A1-stop-not-durable":
		if down && has(typStop, false) {
			v.Class = "C08-K1-stop-only-in-memory-queue"
		}
	case "A2-start-after-stop":
		// the only source of a late Start is the retry queue: some Start of this session went unanswered
		if has(typStart, false) {
			v.Class = "C08-K2-queued-start-overtaken-by-stop"
		}
	}
}

func tierBounds(thorough bool) bounds {
	if thorough {
		return bounds{maxSess: 3, maxLen: 5, maxDrops: 3, dropsAtLen: map[int]int{4: 2, 5: 2}, torn: true, holdCrash: true, queueSizes: []int{0, 1, 2}, smallQueueNeedsRestart: true, budget: 16 * time.Minute}
	}
	return bounds{maxSess: 2, maxLen: 4, maxDrops: 2, dropsAtLen: map[int]int{4: 1}, torn: true, queueSizes: []int{0, 1}, smallQueueNeedsRestart: true, budget: 60 * time.Second}
}

func TestCheck(t *testing.T) {
	run := report.New("C08", "model_checking")
	run.Rule = "every (history, outage pattern, crash point) within the bounds is executed on the real AccountingManager+Client over an in-memory file system and a scripted accounting server inside a synctest bubble; after restart and settling the server-side record stream and the files are checked for A1 (Stop accepted or durable), A2 (no Start accepted after the Stop), A3 (no Stop for a never-started session), A4 (crash-free: acknowledged Stop never transmitted again), A5 (identity attributes), A6 (64-bit counters through low word + gigawords; complete boundary sweep)"
	run.Assumptions = []string{
		"crash model: at the crash step the environment freezes for the running process (file operations without effect, requests not delivered); 'after step k' equals 'before step k+1' because nothing observable happens between two environment steps",
		"WriteFile is not atomic: a crash during it may leave an empty file or the first half (torn variants); MkdirAll/Remove are atomic",
		"the server answers instantly or not at all; an unanswered request ends with the client's own 3 s timeout on the fake clock",
		"Go map iteration order and select choice inside the code under test are not controlled; requests are therefore named by (session, type, occurrence), not by position; every explored execution is a real execution",
		"A1 obligation: the session ended (StopSession returned nil, or a restart/crash happened after its StartSession) and accounting was started (StartSession returned nil, or its Start was accepted by the server)",
	}
	if *report.FlagReplay != "" {
		os.Exit(replay(t, run))
	}
	runSched(run) // Engine B first and alone: a controlled execution is process-wide
	if run.WantPart("acct/A6-gigaword-sweep") {
		sweep(run)
	}
	name := "acct/histories-x-outages-x-crashes"
	if run.WantPart(name) {
		d := &driver{t: t, run: run, part: name, b: tierBounds(run.Thorough())}
		run.AddPart(d.explore())
	}
	os.Exit(run.Finish())
}

func replay(t *testing.T, run *report.Run) int {
	v, err := report.LoadReplay(*report.FlagReplay)
	if err != nil {
		fmt.Println("HARNESS-ERROR", err)
		return 2
	}
	if strings.HasPrefix(v.Part, "sched:") {
		return replaySched(v)
	}
	if sw, _ := v.Extra["sweep"].(bool); sw {
		fmt.Println("HARNESS-ERROR sweep witnesses are replayed by running --part acct/A6-gigaword-sweep")
		return 2
	}
	var sc scenario
	toStrings := func(x any) []string {
		var out []string
		if l, ok := x.([]any); ok {
			for _, s := range l {
				out = append(out, fmt.Sprint(s))
			}
		}
		return out
	}
	sc.Ops = toStrings(v.Extra["ops"])
	sc.F.Drops = toStrings(v.Extra["drops"])
	sc.F.Down, _ = v.Extra["down"].(bool)
	at, _ := v.Extra["crash_at"].(float64)
	sc.F.Crash.At = int(at)
	sc.F.Crash.Mode, _ = v.Extra["crash_mode"].(string)
	qsz, _ := v.Extra["queue_size"].(float64)
	sc.F.QueueSize = int(qsz)
	sc.F.Hold, _ = v.Extra["hold"].(string)
	ra, _ := v.Extra["release_at"].(float64)
	sc.F.ReleaseAt = int(ra)
	out, p := bubble(t, sc)
	fmt.Printf("replay: ops=%v %s\n  crashed=%v %s during %q\n  accepted stream: %s\n", sc.Ops, sc.F.String(), out.Crashed, out.CrashDesc, out.CrashOp, out.Stream)
	if p != "" {
		fmt.Printf("VIOLATION property=C08 replay=%s\n  panic: %s\n", *report.FlagReplay, p)
		return 1
	}
	hit := false
	for _, x := range out.Viols {
		fmt.Printf("VIOLATION property=C08 replay=%s\n  kind=%s site=%s detail=%s\n", *report.FlagReplay, x.Kind, x.Site, x.Detail)
		hit = true
	}
	if hit {
		return 1
	}
	fmt.Println("replay: no violation")
	return 0
}
