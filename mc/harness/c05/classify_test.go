package c05

import (
	"strings"

	"verif/harness/pooladapt"
	"verif/report"
)

// classify: the adapter emits "[cause=...]" only when the witness is exactly
// accounted for by that cause (see pooladapt/epoch.go explain()); the class is
// further restricted to the implementation, clause and API.
func classify(v *report.Violation) {
	has := func(s string) bool { return strings.Contains(v.Detail, s) }
	epochImpl := strings.HasPrefix(v.Part, "allocator.EpochBitmapAllocator[") || (strings.HasPrefix(v.Part, "allocator.DistributedAllocator[") && strings.Contains(v.Part, " lease "))
	conserv := (v.Kind == "leak" && v.Site == "Allocate") || (v.Kind == "exhaustion" && (v.Site == "Allocate" || v.Site == "AllocateWithMAC")) || (v.Kind == "stats" && v.Site == "Stats")
	switch {
	case epochImpl && conserv && has("[cause=epoch-generation-wrap ") && advances(v.Trace) >= 2:
		v.Class = "C05-epoch-generation-wrap"
	case epochImpl && conserv && has("[cause=epoch-stamp-within-grace ") && strings.Contains(v.Part, "grace=") && !strings.Contains(v.Part, "grace=1"):
		v.Class = "C05-epoch-grace2-stamp-still-active"
	// PoolAllocator is not atomic (see C01-poolalloc-allocate-release-race): the orphan store record makes the
	// store refuse the prefix to everybody, i.e. the unit is unobtainable.
	case strings.HasPrefix(v.Part, "sched:allocator.PoolAllocator[") && v.Kind == "leak" && v.Site == "Allocate" && pooladapt.AllocVsReleaseSameSub(v.Trace):
		v.Class = "C05-poolalloc-allocate-release-race"
	// PeerPool in a cluster: an accepted Release that was served by a node other than the one whose table holds the
	// subscriber's address leaves that address stranded. The tag is emitted by pooladapt/peercluster.go only when the
	// leaked units / the count excess are EXACTLY the addresses it saw (in the real table, at the time of the Release
	// and now) stay behind such a Release; every other leak or miscount of the multi-peer part stays unclassified.
	case strings.HasPrefix(v.Part, "pool.PeerPool[x") && (conserv || (v.Kind == "exhaustion" && v.Site == "POST /pool/allocate")) && has("[cause=release-routed-away-from-holder "):
		v.Class = "C05-peerpool-release-routed-away-from-holder"
	case strings.HasPrefix(v.Part, "allocator.IPAllocator(huge)[") && v.Kind == "exhaustion" && v.Site == "Allocate" && has("[cause=unit-count-overflows-uint64]"):
		v.Class = "C05-bitmap-2pow64-units"
	}
}

func advances(tr []string) int {
	n := 0
	for _, op := range tr {
		if op == "AdvanceEpoch" {
			n++
		}
	}
	return n
}
