// C05 — Address pools neither leak nor miscount.
// Engine A with fault enumeration: the C01 histories (adapters and reference model in
// verif/harness/pooladapt) plus epoch advances beyond the 2-bit generation wrap, repeated
// identical SetAllocation/reload and "fail the i-th store call" operations.
package c05

import (
	"fmt"
	"os"
	"strings"
	"testing"
	"testing/synctest"
	"time"

	"verif/explore"
	"verif/harness/pooladapt"
	"verif/report"
)

const prop = "C05"

func models(run *report.Run, t *testing.T) []*explore.Model {
	var ms []*explore.Model
	for _, sp := range pooladapt.Specs(pooladapt.Clauses{C05: true}, run.Thorough()) {
		m := &explore.Model{Name: sp.Name, Config: sp.Config, New: sp.New, Depth: sp.Depth, NoDedupDepth: sp.NoDedup,
			Classify: classify, Budget: 4 * time.Minute}
		if sp.Bubble {
			m.Exec = func(body func()) { synctest.Test(t, func(*testing.T) { body() }) }
		}
		ms = append(ms, m)
	}
	return ms
}

func TestCheck(t *testing.T) {
	run := report.New(prop, "model_checking")
	run.Rule = "BFS over allocate/renew/release/epoch-advance/reload/store-fault histories on every real pool implementation against a plain-map reference; every state: conservation probe (live holders + units obtainable by fresh subscribers == usable units), refusal only when truly full, renewed lease kept, Stats/utilisation == truth"
	run.Assumptions = []string{
		"pools of <= 8 units (plus two 2^64-unit single-step configurations); subscribers a,b,c (thorough: d)",
		"epoch allocator only in its documented IPv4 /32 configuration",
		"Engine B: the C01 thread scenarios on allocator/dhcp/pool, preemption bound 2 (thorough 3)",
		"a store fault = the i-th store call returns an error and has no effect; one fault per history (thorough: two)",
		"units explicitly marked unavailable (dhcp.Pool.MarkUnavailable) are outside the conservation demand",
		"PeerPool: single node (all subscribers local) and as node n1 of a 2-/3-node cluster of real PeerPools over an in-memory transport (failover decided by the real checkPeer, requests forwarded by a peer, membership changes); the reference is the local node's pool: a subscriber holds from the moment n1 hands it an address until a Release for it is accepted (returns nil), wherever the cluster served it; whether Allocate is routed to the right node is C17's subject",
		"nexus.Client is not named by C05",
	}
	ms := models(run, t)
	if *report.FlagReplay != "" {
		os.Exit(replay(run, ms))
	}
	for _, m := range ms {
		if run.WantPart(m.Name + "[" + m.Config + "]") {
			m.Run(run)
		}
	}
	runSched(run)
	os.Exit(run.Finish())
}

func replay(run *report.Run, ms []*explore.Model) int {
	v, err := report.LoadReplay(*report.FlagReplay)
	if err != nil {
		fmt.Println("HARNESS-ERROR", err)
		return 2
	}
	if strings.HasPrefix(v.Part, "sched:") {
		return replaySched(run, v)
	}
	for _, m := range ms {
		if m.Name+"["+m.Config+"]" == v.Part {
			vs, p := m.Replay(v.Trace)
			if p != "" {
				fmt.Printf("VIOLATION property=%s replay=%s\n  panic: %s\n", prop, *report.FlagReplay, p)
				return 1
			}
			for _, x := range vs {
				fmt.Printf("VIOLATION property=%s replay=%s\n  kind=%s site=%s detail=%s\n", prop, *report.FlagReplay, x.Kind, x.Site, x.Detail)
			}
			if len(vs) > 0 {
				return 1
			}
			fmt.Println("replay: no violation")
			return 0
		}
	}
	fmt.Println("HARNESS-ERROR unknown part", v.Part)
	return 2
}
