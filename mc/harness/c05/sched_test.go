package c05

import (
	"verif/harness/pooladapt"
	"verif/report"
)

// Engine B (verif/harness/pooladapt/schedpart.go): the C01 scenarios on the lock-protected pools, judged at the end
// of every schedule by C05's clauses: conservation probe and Stats == truth.
func runSched(run *report.Run) { pooladapt.RunSched(run, pooladapt.Clauses{C05: true}, classify) }
func replaySched(run *report.Run, v report.Violation) int {
	return pooladapt.ReplaySched(run, v, pooladapt.Clauses{C05: true}, prop)
}
