package c05

import (
	"fmt"
	"testing"

	"verif/harness/pooladapt"
)

// TestRacePass: free-running -race pass over the Engine B scenario bodies (see sched.RunFree).
func TestRacePass(t *testing.T) {
	n, bad := pooladapt.RacePass(pooladapt.Clauses{C05: true}, 100)
	for _, b := range bad {
		t.Logf("end-state invariant failed in a free-running execution (informational; the controlled exploration decides): %s", b)
	}
	fmt.Printf("RACEPASS executions=%d\n", n)
}
