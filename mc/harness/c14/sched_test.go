package c14

import (
	"fmt"
	"sort"
	"strings"
	"time"

	"github.com/codelaboratoryltd/bng/pkg/ha"

	"verif/report"
	"verif/sched"
)

// Engine B: a failover / failback timer that has FIRED (its function is a
// runnable thread that has not yet taken the controller lock) raced against
// health events, ticks and operator commands. Time is the scheduler's virtual
// clock; it is advanced only in the sequential prefix, while every fired timer
// thread has finished ("join") — i.e. a runnable goroutine is never assumed to
// be starved across a health-check interval. The one exception are the "due in
// 1ms" scenarios: a single 1 ms step of the clock runs concurrently with an
// event handler (a goroutine may well be off the CPU, or inside a slow log
// write, for a millisecond). GracePeriod is 0 here (a virtual
// Sleep does not advance time); the grace period is Engine A's business.
//
// ops: down up tick force forceback cbfail cbok adv10 adv30 join-promoted join-attempt
type scen struct {
	name    string
	pre     []string   // run by thread P before the other threads exist
	threads [][]string // threads[0] continues on P; the others are spawned by P after the prefix
}

func scenarios(thorough bool) []scen {
	failover := []string{"down", "adv10"}
	failback := []string{"down", "adv10", "join-promoted", "up", "adv30"}
	failbackDown := []string{"down", "adv10", "join-promoted", "up", "down", "adv30"}
	s := []scen{
		{"failover-timer|up", failover, [][]string{{"up"}}},
		{"failover-timer|up|tick", failover, [][]string{{"up"}, {"tick"}}},
		{"failover-timer|force", failover, [][]string{{"force"}}},
		{"failover-timer|up|force", failover, [][]string{{"up"}, {"force"}}},
		// a promotion attempt whose callback fails, raced with a recovery; afterwards the callback works again and a further failover delay passes
		{"failover-timer(cb fails)|up;cb ok;+10s", []string{"down", "cbfail", "adv10"}, [][]string{{"up", "join-attempt", "cbok", "adv10"}}},
		// two probe results reported concurrently (periodic check and CheckNow) while a failover is pending: the monitor
		// calls its handlers after releasing its lock, so the two reports can reach the controller in either order
		{"pending|up|down (two monitor callers);+5s", []string{"down", "adv5"}, [][]string{{"up", "join-all", "adv5"}, {"down"}}},
		// The event is REPORTED strictly before the timer is due and its handler is still running (preempted for at most
		// 1 ms of virtual time, e.g. a slow log sink under the controller lock) when the timer fires: the recovery /
		// the new failure arrived in time and must win. The 1 ms clock step runs as a thread of its own.
		{"failover-timer due in 1ms|up|+1ms", []string{"down", "adv9999ms"}, [][]string{{"up"}, {"adv1ms"}}},
		{"failover-timer due in 1ms|up|+1ms|tick", []string{"down", "adv9999ms"}, [][]string{{"up"}, {"adv1ms"}, {"tick"}}},
		{"failback-timer due in 1ms|down|+1ms", []string{"down", "adv10", "join-promoted", "up", "adv29999ms"}, [][]string{{"down"}, {"adv1ms"}}},
		{"failback-timer|down", failback, [][]string{{"down"}}},
		{"failback-timer|down|tick", failback, [][]string{{"down"}, {"tick"}}},
		{"failback-timer|tick (partner down)", failbackDown, [][]string{{"tick"}}},
		{"failback-timer|forceback", failback, [][]string{{"forceback"}}},
	}
	if thorough {
		s = append(s,
			scen{"failover-timer|up|force|tick", failover, [][]string{{"up"}, {"force"}, {"tick"}}},
			scen{"failover-timer|force|force", failover, [][]string{{"force"}, {"force"}}},
			scen{"failback-timer|down|tick|forceback", failback, [][]string{{"down"}, {"tick"}, {"forceback"}}},
			scen{"failback-timer|tick|up (partner down)", failbackDown, [][]string{{"tick"}, {"up"}}},
		)
	}
	return s
}

type schedState struct {
	o         *oracle
	promoted  bool
	attempted bool // a role-change callback ran, or the controller announced a cancel
	finished  int  // spawned event threads that have run to their end
}

func (sc scen) scenario() *sched.Scenario {
	return &sched.Scenario{
		Name: sc.name,
		Setup: func(x *sched.Exec) {
			st := &schedState{}
			st.o = newOracle(0, func() time.Time { return x.Now })
			x.Data = st
			o := st.o
			// a report counts from the moment its carrier holds the controller's lock
			o.curThread, o.inflight = x.CurName, map[string]ha.HealthEventType{}
			ctlLock := o.ctl.VerifC14Lock()
			x.OnAcquire = func(m any) {
				if m == ctlLock {
					o.delivered()
				}
			}
			joinKey := new(int)
			o.onEvHook = func(e ha.FailoverEvent) {
				if e.Type == ha.FailoverEventRoleChanged && e.NewRole == ha.RoleActive {
					st.promoted = true
					x.Wake(joinKey)
				}
				if e.Type == ha.FailoverEventCanceled {
					st.attempted = true
					x.Wake(joinKey)
				}
			}
			o.onCbHook = func() {
				st.attempted = true
				x.Wake(joinKey)
			}
			do := func(who, op string) {
				switch op {
				case "down":
					o.down()
				case "up":
					o.up()
				case "tick":
					o.ctl.VerifC14Tick()
				case "force":
					before := o.ctl.State()
					if err := o.ctl.ForceFailover("operator"); err != nil {
						x.Obs("%s:force=refused", who)
						return
					}
					if before != ha.FailoverStateInProgress && o.ctl.State() == ha.FailoverStateInProgress {
						o.inProgBy = "ForceFailover@" + before.String()
					}
				case "forceback":
					_ = o.ctl.ForceFailback("operator")
				case "adv10":
					x.Advance(10 * time.Second)
				case "adv30":
					x.Advance(30 * time.Second)
				case "cbfail":
					o.cbFail = true
				case "cbok":
					o.cbFail = false
				case "adv5":
					x.Advance(5 * time.Second)
				case "adv9999ms":
					x.Advance(9999 * time.Millisecond)
				case "adv29999ms":
					x.Advance(29999 * time.Millisecond)
				case "adv1ms":
					x.Advance(time.Millisecond)
				case "join-all":
					for st.finished < len(sc.threads)-1 && !x.Aborted() {
						x.Block(joinKey, "join")
					}
				case "join-attempt":
					for !st.attempted && !x.Aborted() {
						x.Block(joinKey, "join")
					}
				case "join-promoted":
					for !st.promoted && !x.Aborted() {
						x.Block(joinKey, "join")
					}
					o.observe() // the only role change of the sequential prefix
				default:
					panic("unknown op " + op)
				}
				x.Obs("%s:%s", who, op)
			}
			x.Thread("P", func() {
				for _, op := range sc.pre {
					do("P", op)
				}
				for i := 1; i < len(sc.threads); i++ {
					i := i
					x.Go(fmt.Sprintf("E%d", i), func() {
						for _, op := range sc.threads[i] {
							do(fmt.Sprintf("E%d", i), op)
						}
						st.finished++
						x.Wake(joinKey)
					})
				}
				for _, op := range sc.threads[0] {
					do("P", op)
				}
			})
		},
		Check: func(x *sched.Exec) []sched.Viol { return checkSched(x) },
	}
}

func checkSched(x *sched.Exec) []sched.Viol {
	st := x.Data.(*schedState)
	o := st.o
	o.observe()
	if o.ctl.State() == ha.FailoverStateInProgress && x.PendingTimers() == 0 {
		site := o.inProgBy
		if site == "" {
			site = "unknown"
		}
		o.v("F6-stuck-in-progress", site, "all threads finished, no timer pending, state is in_progress; entered by %s", site)
	}
	var log []string
	for _, e := range o.log {
		log = append(log, e.s)
	}
	x.Obs("end:%s/%s healthy=%v log=%s", o.ctl.State(), o.ctl.CurrentRole(), o.mon.IsPartnerHealthy(), strings.Join(log, ","))
	var vs []sched.Viol
	for _, v := range o.viols {
		vs = append(vs, sched.Viol{Kind: v.Kind, Site: v.Site, Detail: v.Detail})
	}
	return vs
}

func runSched(run *report.Run) {
	bound := 2
	for _, sc := range scenarios(run.Thorough()) {
		name := "sched:" + sc.name
		if !run.WantPart(name) {
			continue
		}
		e := &sched.Explorer{Bound: bound, Budget: 3 * time.Minute}
		res := e.Explore(sc.scenario())
		run.AddPart(report.Part{Name: name, Engine: "B:sched-dfs", Bound: fmt.Sprintf("preemptions<=%d completed=%d maxpoints=%d", bound, res.Bound, res.MaxPoints),
			Executions: res.Executions, Outcomes: int64(len(res.Outcomes)), Exhaustive: res.Exhaustive, States: int64(len(res.Outcomes))})
		for _, f := range res.Failures {
			x1 := sched.RunOnce(sc.scenario(), f.Choices)
			checkSched(x1)
			x2 := sched.RunOnce(sc.scenario(), f.Choices)
			checkSched(x2)
			if strings.Join(x1.Log, "|") != strings.Join(x2.Log, "|") || strings.Join(x1.Log, "|") != strings.Join(f.Log, "|") {
				run.HarnessError("non-deterministic replay of schedule in " + name)
				continue
			}
			for _, v := range f.Viols {
				tr := append([]string{"pre=" + strings.Join(sc.pre, ",")}, f.Schedule...)
				rv := report.Violation{Part: name, Kind: v.Kind, Site: v.Site, Detail: v.Detail + " | observations: " + strings.Join(f.Log, " "), Config: "grace0", Trace: tr,
					Extra: map[string]any{"choices": f.Choices}}
				classify(&rv)
				run.Violation(rv)
			}
		}
		if len(res.Failures) == 0 {
			var o []string
			for k := range res.Outcomes {
				o = append(o, k)
			}
			sort.Strings(o)
			if len(o) > 4 {
				o = o[:4]
			}
			run.Sample(map[string]any{"part": name, "executions": res.Executions, "outcomes(sample)": o})
		}
	}
}

func replaySched(run *report.Run, v report.Violation) int {
	for _, sc := range scenarios(true) {
		if "sched:"+sc.name != v.Part {
			continue
		}
		var choices []int
		if cs, ok := v.Extra["choices"].([]any); ok {
			for _, c := range cs {
				choices = append(choices, int(c.(float64)))
			}
		}
		x := sched.RunOnce(sc.scenario(), choices)
		var vs []sched.Viol
		if x.PanicText != "" {
			vs = append(vs, sched.Viol{Kind: "panic", Detail: x.PanicText})
		} else if x.Deadlock {
			vs = append(vs, sched.Viol{Kind: "deadlock", Detail: strings.Join(x.Schedule(), ",")})
		} else {
			vs = checkSched(x)
		}
		for _, f := range vs {
			fmt.Printf("VIOLATION property=C14 replay=%s\n  kind=%s site=%s detail=%s\n  observations: %s\n", *report.FlagReplay, f.Kind, f.Site, f.Detail, strings.Join(x.Log, " "))
		}
		if len(vs) > 0 {
			return 1
		}
		fmt.Println("replay: no violation")
		return 0
	}
	fmt.Println("HARNESS-ERROR unknown scenario", v.Part)
	return 2
}
