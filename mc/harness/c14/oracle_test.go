package c14

import (
	"errors"
	"fmt"
	"strings"
	"time"

	"github.com/codelaboratoryltd/bng/pkg/ha"
	"go.uber.org/zap"

	"verif/explore"
)

// Configuration used by every part (the repository's defaults).
const (
	failoverDelay = 10 * time.Second
	failbackDelay = 30 * time.Second
)

type hev struct {
	t  time.Time
	up bool
}

type logEntry struct {
	t time.Time
	s string
}

// oracle holds the real controller + monitor and the monitors F1..F6. It is
// shared by Engine A (synctest time) and Engine B (sched virtual time); `now`
// abstracts the clock. All judgements are made on timestamps of the clock the
// implementation itself sees.
type oracle struct {
	grace time.Duration
	now   func() time.Time
	mon   *ha.HealthMonitor
	ctl   *ha.FailoverController

	hist      []hev // true partner-health transitions injected by the harness
	partnerUp bool
	cbFail    bool // scripted outcome of the role-change callback
	force     int  // ForceFailover commands the controller accepted (initiated event) not yet consumed by a role-change callback or voided by a canceled event

	okCb       map[ha.Role]int // callbacks that returned nil and have not yet been matched with an observed role change
	role       ha.Role         // role at the last observation
	promotions int
	completed  int // FailoverEventCompleted events
	inProgBy   string

	log      []logEntry
	viols    []explore.Viol
	voided   map[int]bool             // down periods (index into hist) whose pending failover the controller reported as canceled
	closed   bool                     // set by the epilogue: callbacks succeed immediately and nothing is recorded any more
	// Engine B: a report is "delivered" when the thread carrying it has acquired the controller's lock (before that
	// the controller cannot know of it; a timer that fires in between legitimately wins). deliverAt returns the name of
	// the running thread; inflight holds the report each thread is carrying.
	monDownAt time.Time // instant of the monitor's most recent partner_down report
	monDown   bool
	curThread func() string
	inflight  map[string]ha.HealthEventType
	onCbHook func()                   // Engine B: a role-change callback has been invoked
	onEvHook func(e ha.FailoverEvent) // Engine B: lets a thread wait for an event
}

func newOracle(grace time.Duration, now func() time.Time) *oracle {
	o := &oracle{grace: grace, now: now, partnerUp: true, okCb: map[ha.Role]int{}, role: ha.RoleStandby, voided: map[int]bool{}}
	o.hist = []hev{{now(), true}}
	o.mon = ha.NewHealthMonitor(ha.HealthConfig{CheckInterval: 5 * time.Second, Timeout: 3 * time.Second, FailureThreshold: 1, RecoveryThreshold: 1},
		&ha.PartnerInfo{NodeID: "partner", Endpoint: "partner.invalid:9000"}, zap.NewNop())
	o.ctl = ha.NewFailoverController(ha.FailoverConfig{Enabled: true, FailoverDelay: failoverDelay, FailbackDelay: failbackDelay,
		FailbackEnabled: true, GracePeriod: grace}, "node-b", ha.RoleStandby, 1, o.mon, zap.NewNop())
	o.ctl.SetRoleChangeCallback(o.callback)
	o.ctl.OnFailoverEvent(o.onEvent)
	// registered BEFORE the controller, so every report is on record before the controller reacts to it
	o.mon.OnHealthChange(o.onHealth)
	o.ctl.VerifC14Attach()
	return o
}

func (o *oracle) v(kind, site, f string, a ...any) {
	o.viols = append(o.viols, explore.Viol{Kind: kind, Site: site, Detail: fmt.Sprintf(f, a...)})
}

func (o *oracle) logf(f string, a ...any) {
	o.log = append(o.log, logEntry{o.now(), fmt.Sprintf(f, a...)})
}

// ---- inputs

func (o *oracle) down() { o.mon.VerifC14ProbeFailed(); o.delivered() }

func (o *oracle) up() { o.mon.VerifC14ProbeSucceeded(); o.delivered() }

// onHealth records what the monitor REPORTS (partner_down / partner_up), in
// the order it reports it: that is the history "the partner was reported down
// continuously" is judged on. With thresholds 1 and one probe at a time it is
// exactly the injected history; with two concurrent probe results (Engine B)
// it is the order in which the reports were delivered.
func (o *oracle) onHealth(e ha.HealthEvent) {
	if o.closed {
		return
	}
	if e.Type == ha.HealthEventPartnerDown {
		o.monDownAt, o.monDown = o.now(), true // what the MONITOR says, from this instant on (F5 consults the monitor directly)
	}
	if o.curThread != nil && (e.Type == ha.HealthEventPartnerDown || e.Type == ha.HealthEventPartnerUp) {
		o.inflight[o.curThread()] = e.Type // recorded by delivered()
		return
	}
	o.record(e.Type)
}

// delivered: the running thread has taken the controller's lock (or its monitor call has returned): the report it
// carries, if any, has reached the controller now.
func (o *oracle) delivered() {
	if o.curThread == nil {
		return
	}
	t := o.curThread()
	if ty, ok := o.inflight[t]; ok {
		delete(o.inflight, t)
		o.record(ty)
	}
}

func (o *oracle) record(ty ha.HealthEventType) {
	switch ty {
	case ha.HealthEventPartnerDown:
		if o.partnerUp {
			o.hist = append(o.hist, hev{o.now(), false})
			o.partnerUp = false
		}
	case ha.HealthEventPartnerUp:
		if !o.partnerUp {
			o.hist = append(o.hist, hev{o.now(), true})
			o.partnerUp = true
		}
	}
}

// ---- monitors

// sustained reports whether at instant T the partner had been reported down
// continuously for at least the failover delay (a recovery at exactly T does
// not count against it: both happen at the same instant of the clock).
func (o *oracle) sustained(T time.Time) bool {
	for i, h := range o.hist {
		if h.up || o.voided[i] {
			continue
		}
		if h.t.Add(failoverDelay).After(T) {
			continue
		}
		if i+1 < len(o.hist) && o.hist[i+1].t.Before(T) {
			continue // recovered strictly before T
		}
		return true
	}
	return false
}

// classifyUnsustained names the way an unjustified promotion at T came about.
func (o *oracle) classifyUnsustained(T time.Time) (kind, site string) {
	for i, h := range o.hist {
		if h.up || i+1 >= len(o.hist) {
			continue
		}
		b := o.hist[i+1].t // recovery that ended this down period
		if !b.Before(T) {
			continue
		}
		fullDelay := !h.t.Add(failoverDelay).After(b)
		if fullDelay && T.Sub(b) <= o.grace {
			return "F2-recovery-not-cancelling", "recovery-during-grace"
		}
		if T.Sub(b) < failoverDelay+o.grace {
			return "F2-recovery-not-cancelling", "recovery-during-delay"
		}
	}
	return "F1-unsustained-promotion", "early"
}

func (o *oracle) lastDown() (time.Time, bool) {
	if o.monDown {
		return o.monDownAt, true
	}
	for i := len(o.hist) - 1; i >= 0; i-- {
		if !o.hist[i].up {
			return o.hist[i].t, true
		}
	}
	return time.Time{}, false
}

// checkFailbackHealthy: F5 — a failback that completes at T while the monitor
// reports the partner unhealthy, the failure having been reported at a strictly
// earlier instant.
func (o *oracle) checkFailbackHealthy(where string) {
	T := o.now()
	if o.mon.IsPartnerHealthy() {
		return
	}
	d, ok := o.lastDown()
	if !ok || !d.Before(T) {
		return
	}
	site := "unhealthy-at-decision"
	if T.Sub(d) <= o.grace {
		site = "down-during-grace"
	}
	o.v("F5-failback-while-unhealthy", site, "%s at +%v while the monitor reports the partner unhealthy (down since +%v)", where, o.rel(T), o.rel(d))
}

func (o *oracle) rel(t time.Time) time.Duration {
	return t.Sub(o.hist[0].t).Round(time.Millisecond)
}

func (o *oracle) callback(r ha.Role) error {
	if o.closed {
		return nil // epilogue: judgement is over; let whatever is in flight finish
	}
	T := o.now()
	seen := o.ctl.CurrentRole()
	o.logf("cb(%s) seen=%s fail=%v", r, seen, o.cbFail)
	if o.onCbHook != nil {
		defer o.onCbHook()
	}
	if seen == r {
		o.v("F3-role-before-callback", "callback", "callback for role %s invoked while CurrentRole() already reports %s", r, seen)
	}
	if r == ha.RoleActive {
		forced := o.force > 0
		o.force = 0
		if !o.cbFail && !forced && !o.sustained(T) {
			kind, site := o.classifyUnsustained(T)
			o.v(kind, site, "promotion at +%v: partner was not down continuously for %v immediately before (health history: %s)", o.rel(T), failoverDelay, o.histString())
		}
	}
	if r == ha.RoleStandby && !o.cbFail {
		o.checkFailbackHealthy("failback role change")
	}
	if o.cbFail {
		return errors.New("scripted role-change failure")
	}
	o.okCb[r]++
	return nil
}

// onEvent may be invoked with the controller's lock held: it must not call the controller.
func (o *oracle) onEvent(e ha.FailoverEvent) {
	if o.closed {
		return
	}
	o.logf("event(%s %s->%s)", e.Type, e.OldRole, e.NewRole)
	if o.onEvHook != nil {
		defer o.onEvHook(e)
	}
	switch e.Type {
	case ha.FailoverEventCompleted:
		o.completed++
	case ha.FailoverEventInitiated:
		// emitted only on the operator path (ForceFailover accepted)
		o.force++
	case ha.FailoverEventCanceled:
		o.force = 0
		// The controller announced that the pending promotion is off: the down
		// period it was armed for can no longer justify a promotion.
		for i := len(o.hist) - 1; i >= 0; i-- {
			if !o.hist[i].up {
				o.voided[i] = true
				break
			}
		}
	case ha.FailoverEventFailbackCompleted:
		o.checkFailbackHealthy("failback_completed event")
	}
}

// observe is called at quiescent points (after every operation / sample).
func (o *oracle) observe() {
	r := o.ctl.CurrentRole()
	if r != o.role {
		o.logf("role %s->%s", o.role, r)
		if o.okCb[r] == 0 {
			o.v("F3-role-before-callback", "CurrentRole", "CurrentRole() changed %s->%s without a role-change callback for %s having returned nil", o.role, r, r)
		} else {
			o.okCb[r]--
		}
		if r == ha.RoleActive {
			o.promotions++
		}
		o.role = r
	}
	if o.completed != o.promotions {
		o.v("F4-completed-events", "OnFailoverEvent", "%d promotion(s) observed but %d completed event(s) emitted", o.promotions, o.completed)
	}
}

func (o *oracle) histString() string {
	var sb strings.Builder
	for i, h := range o.hist {
		if i > 0 {
			sb.WriteString(" ")
		}
		w := "down"
		if h.up {
			w = "up"
		}
		fmt.Fprintf(&sb, "%s@+%v", w, o.rel(h.t))
	}
	return sb.String()
}

// histSig: the part of the health history that can still matter to the oracle,
// relative to now (for fingerprints).
func (o *oracle) histSig() string {
	now := o.now()
	win := failoverDelay + o.grace
	var sb strings.Builder
	for i, h := range o.hist {
		last := i == len(o.hist)-1
		age := now.Sub(h.t)
		if !last && now.Sub(o.hist[i+1].t) > win {
			continue
		}
		if age > win {
			age = win + time.Second
		}
		fmt.Fprintf(&sb, "%v@-%v;", h.up, age.Round(time.Millisecond))
	}
	return sb.String()
}
