package c14

import (
	"errors"
	"fmt"
	"io"
	"net/http"
	"strings"
	"time"

	"github.com/codelaboratoryltd/bng/pkg/ha"
	"go.uber.org/zap"

	"verif/report"
)

// Part "ha.HealthMonitor-probes": where the partner-down / partner-up REPORTS
// (the history F1/F2 are judged on) come from. The real performCheck is driven
// through CheckNow with a scripted transport; every sequence of probe outcomes
// up to a depth is enumerated for several threshold configurations and each
// report is compared with the documented threshold rule:
//
//	partner_down is reported by a probe iff the partner was considered healthy
//	and that probe is the FailureThreshold-th consecutive failed probe;
//	partner_up   is reported by a probe iff the partner was considered unhealthy
//	and that probe is the RecoveryThreshold-th consecutive successful probe;
//	IsPartnerHealthy() is the state those two reports define.
//
// A probe succeeds iff the partner answers 200 with status "healthy".
type probeOutcome struct {
	name string
	ok   bool
	rt   func(*http.Request) (*http.Response, error)
}

func resp(code int, body string) func(*http.Request) (*http.Response, error) {
	return func(r *http.Request) (*http.Response, error) {
		return &http.Response{StatusCode: code, Status: fmt.Sprint(code), Proto: "HTTP/1.1", ProtoMajor: 1, ProtoMinor: 1,
			Header: http.Header{"Content-Type": {"application/json"}}, Body: io.NopCloser(strings.NewReader(body)), Request: r}, nil
	}
}

var probeOutcomes = []probeOutcome{
	{"H", true, resp(200, `{"status":"healthy","role":"active","node_id":"partner","details":{"sessions_synced":3}}`)},
	{"E", false, func(*http.Request) (*http.Response, error) { return nil, errors.New("connection refused") }},
	{"503", false, resp(503, `{"status":"healthy","role":"active","node_id":"partner"}`)},
	{"U", false, resp(200, `{"status":"degraded","role":"active","node_id":"partner"}`)},
	{"J", false, resp(200, `{"status":`)},
}

type scriptedRT struct{ cur func(*http.Request) (*http.Response, error) }

func (s *scriptedRT) RoundTrip(r *http.Request) (*http.Response, error) { return s.cur(r) }

type monCfg struct{ ft, rt int }

func runMonitor(run *report.Run) {
	const part = "ha.HealthMonitor-probes"
	if !run.WantPart(part) {
		return
	}
	depth := 6
	if run.Thorough() {
		depth = 8
	}
	cfgs := []monCfg{{3, 2}, {1, 1}, {2, 3}, {1, 3}, {3, 1}}
	var execs, probes int64
	outcomes := map[string]bool{}
	for _, c := range cfgs {
		c := c
		seq := make([]int, 0, depth)
		var rec func()
		rec = func() {
			if len(seq) > 0 {
				execs++
				probes += int64(len(seq))
				sig := monitorRun(run, part, c, seq)
				outcomes[sig] = true
			}
			if len(seq) == depth {
				return
			}
			for i := range probeOutcomes {
				seq = append(seq, i)
				rec()
				seq = seq[:len(seq)-1]
			}
		}
		rec()
	}
	run.AddPart(report.Part{Name: part, Engine: "D:bounded-exhaustive", Exhaustive: true, Executions: execs, Transitions: probes, Outcomes: int64(len(outcomes)),
		Bound: fmt.Sprintf("every sequence of <=%d probe outcomes over {healthy, conn error, 503, status!=healthy, bad JSON} x (FailureThreshold,RecoveryThreshold) in %v; real performCheck via CheckNow over a scripted transport", depth, cfgs)})
}

// monitorRun replays one outcome sequence on a fresh monitor; only the LAST
// probe is judged (every prefix is an execution of its own), so each witness
// is the shortest one.
func monitorRun(run *report.Run, part string, c monCfg, seq []int) string {
	rt := &scriptedRT{}
	m := ha.NewHealthMonitor(ha.HealthConfig{CheckInterval: 5 * time.Second, Timeout: 3 * time.Second, FailureThreshold: c.ft, RecoveryThreshold: c.rt},
		&ha.PartnerInfo{NodeID: "partner", Endpoint: "partner.invalid:9000"}, zap.NewNop())
	m.VerifC14SetTransport(rt)
	var got []ha.HealthEventType
	m.OnHealthChange(func(e ha.HealthEvent) { got = append(got, e.Type) })
	healthy, cf, cs := true, 0, 0 // reference
	var sig strings.Builder
	for i, oi := range seq {
		o := probeOutcomes[oi]
		got = got[:0]
		rt.cur = o.rt
		err := m.CheckNow()
		want := ha.HealthEventCheckSucceeded
		if o.ok {
			cs++
			cf = 0
			if !healthy && cs >= c.rt {
				healthy = true
				want = ha.HealthEventPartnerUp
			}
		} else {
			cf++
			cs = 0
			want = ha.HealthEventCheckFailed
			if healthy && cf >= c.ft {
				healthy = false
				want = ha.HealthEventPartnerDown
			}
		}
		fmt.Fprintf(&sig, "%v/%v;", got, m.IsPartnerHealthy())
		if i != len(seq)-1 {
			// keep the reference in step with what the monitor says, so that only the last probe's judgement is this execution's verdict
			healthy = m.IsPartnerHealthy()
			continue
		}
		trace := make([]string, len(seq))
		for k, x := range seq {
			trace[k] = probeOutcomes[x].name
		}
		cfg := fmt.Sprintf("FailureThreshold=%d RecoveryThreshold=%d", c.ft, c.rt)
		bad := func(kind, site, f string, a ...any) {
			run.Violation(report.Violation{Part: part, Kind: kind, Site: site, Config: cfg, Trace: trace, Detail: fmt.Sprintf(f, a...),
				Extra: map[string]any{"ft": c.ft, "rt": c.rt, "seq": append([]int(nil), seq...)}})
		}
		if (err == nil) != o.ok {
			bad("M0-probe-classification", "CheckNow", "probe outcome %s: CheckNow returned err=%v (a probe succeeds iff the partner answers 200 with status healthy)", o.name, err)
		}
		reported := ha.HealthEventType("")
		n := 0
		for _, g := range got {
			if g == ha.HealthEventPartnerDown || g == ha.HealthEventPartnerUp {
				reported = g
				n++
			}
		}
		switch {
		case n > 1:
			bad("M1-report-count", "OnHealthChange", "one probe produced %d partner_down/partner_up reports: %v", n, got)
		case reported == ha.HealthEventPartnerDown && want != ha.HealthEventPartnerDown:
			bad("M2-down-without-sustained-failure", "recordFailure", "partner_down reported by probe #%d (%s) after %d consecutive failed probe(s) with the partner considered healthy=%v; FailureThreshold is %d", i+1, o.name, cf, healthy || want == ha.HealthEventPartnerDown, c.ft)
		case reported == ha.HealthEventPartnerUp && want != ha.HealthEventPartnerUp:
			bad("M3-up-without-sustained-recovery", "recordSuccess", "partner_up reported by probe #%d (%s) after %d consecutive successful probe(s); RecoveryThreshold is %d", i+1, o.name, cs, c.rt)
		case reported == "" && want == ha.HealthEventPartnerDown:
			bad("M4-down-not-reported", "recordFailure", "probe #%d (%s) is the %d-th consecutive failure with the partner considered healthy but no partner_down was reported (events %v)", i+1, o.name, cf, got)
		case reported == "" && want == ha.HealthEventPartnerUp:
			bad("M5-up-not-reported", "recordSuccess", "probe #%d (%s) is the %d-th consecutive success with the partner considered unhealthy but no partner_up was reported (events %v): a recovery cannot cancel a pending promotion", i+1, o.name, cs, got)
		}
		if m.IsPartnerHealthy() != healthy {
			bad("M6-health-state", "IsPartnerHealthy", "IsPartnerHealthy()=%v after probe #%d, the reports imply %v", m.IsPartnerHealthy(), i+1, healthy)
		}
	}
	m.Stop()
	return sig.String()
}

func replayMonitor(run *report.Run, v report.Violation) int {
	ft, _ := v.Extra["ft"].(float64)
	rtv, _ := v.Extra["rt"].(float64)
	raw, _ := v.Extra["seq"].([]any)
	var seq []int
	for _, x := range raw {
		f, _ := x.(float64)
		seq = append(seq, int(f))
	}
	before := run.NumViolations()
	monitorRun(run, v.Part, monCfg{int(ft), int(rtv)}, seq)
	if run.NumViolations() > before {
		fmt.Printf("VIOLATION property=C14 replay=%s\n", *report.FlagReplay)
		return 1
	}
	fmt.Println("replay: no violation")
	return 0
}
