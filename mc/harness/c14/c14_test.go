// C14 — A standby promotes itself only after sustained partner failure.
//
// Engine A: BFS over {down, up, +1s/+5s/+10s/+30s, tick, ForceFailover,
// ForceFailback, toggle callback outcome} on the real ha.FailoverController +
// ha.HealthMonitor inside synctest bubbles (timers and the grace-period sleep
// run on the bubble's virtual clock). Engine B part: sched_test.go.
package c14

import (
	"fmt"
	"os"
	"strings"
	"testing"
	"testing/synctest"
	"time"

	"github.com/codelaboratoryltd/bng/pkg/ha"

	"verif/deepdump"
	"verif/explore"
	"verif/report"
)

type cfg struct {
	name       string
	grace      time.Duration
	failedOver bool // start from the reachable state "promoted, partner still down"
}

// eps keeps every harness sleep strictly off the instants at which controller
// timers are due, so "timer due exactly when the harness wakes" never depends
// on the runtime's tie-breaking.
const eps = time.Microsecond

const quietProbe = 60 // seconds of input-free time used by the F6 probe / fingerprint

type sys struct {
	c       cfg
	o       *oracle
	probed  bool
	probeFP string
}

func settle() { synctest.Wait() }

func advance(d time.Duration) {
	time.Sleep(d + eps)
	synctest.Wait()
}

func newSys(c cfg) *sys {
	s := &sys{c: c, o: newOracle(c.grace, time.Now)}
	if c.failedOver {
		s.Apply("down")
		s.Apply("+10s")
		if c.grace > 0 {
			s.Apply("+5s")
		}
		if s.o.ctl.CurrentRole() != ha.RoleActive || s.o.ctl.State() != ha.FailoverStateComplete {
			panic(fmt.Sprintf("harness: failed-over initial state not reached (role=%s state=%s)", s.o.ctl.CurrentRole(), s.o.ctl.State()))
		}
	}
	return s
}

var allOps = []string{"down", "up", "+1s", "+5s", "+10s", "+30s", "tick", "ForceFailover", "ForceFailback", "cb-toggle"}

func (s *sys) Ops() []string { return allOps }

func (s *sys) Apply(op string) string {
	o := s.o
	before := o.ctl.State()
	obs := ""
	switch op {
	case "down":
		o.down()
	case "up":
		o.up()
	case "+1s":
		advance(time.Second)
	case "+5s":
		advance(5 * time.Second)
	case "+10s":
		advance(10 * time.Second)
	case "+30s":
		advance(30 * time.Second)
	case "tick":
		o.ctl.VerifC14Tick()
	case "ForceFailover", "ForceFailback":
		// The command may legitimately block (grace period): run it on its own goroutine.
		var err error
		done := false
		go func() {
			if op == "ForceFailover" {
				err = o.ctl.ForceFailover("operator")
			} else {
				err = o.ctl.ForceFailback("operator")
			}
			done = true
		}()
		settle()
		switch {
		case !done:
			obs = "blocked "
		case err != nil:
			obs = "refused "
		default:
			obs = "accepted "
		}
	case "cb-toggle":
		o.cbFail = !o.cbFail
	default:
		panic("unknown op " + op)
	}
	settle()
	o.observe()
	after := o.ctl.State()
	if after == ha.FailoverStateInProgress && before != ha.FailoverStateInProgress {
		o.inProgBy = op + "@" + before.String()
	}
	return fmt.Sprintf("%s%s/%s", obs, after, o.ctl.CurrentRole())
}

// probe lets quietProbe seconds pass without input, running the evaluate tick and sampling once per second.
// Everything the controller does in that time (timers firing, grace periods
// ending) is judged by the same monitors; what remains in_progress afterwards
// has no transition pending (F6). The sequence of things that happened is the
// "pending transitions" component of the fingerprint.
func (s *sys) probe() {
	if s.probed {
		return
	}
	s.probed = true
	o := s.o
	t0 := time.Now()
	mark := len(o.log)
	var sb strings.Builder
	last := ""
	lastActivity := 0 // second of the probe in which the controller last did anything observable
	nlog := len(o.log)
	for i := 1; i <= quietProbe; i++ {
		advance(time.Second)
		o.ctl.VerifC14Tick() // input-free time still has controlLoop's one-second ticker running
		settle()
		o.observe()
		cur := fmt.Sprintf("%s/%s", o.ctl.State(), o.ctl.CurrentRole())
		if cur != last {
			fmt.Fprintf(&sb, "@%d:%s;", i, cur)
			if last != "" {
				lastActivity = i
			}
			last = cur
		}
		if len(o.log) != nlog {
			nlog = len(o.log)
			lastActivity = i
		}
	}
	for _, e := range o.log[mark:] {
		fmt.Fprintf(&sb, "%v:%s;", e.t.Sub(t0).Round(time.Millisecond), e.s)
	}
	s.probeFP = sb.String()
	// F6: in_progress, and for longer than any configured delay + grace period
	// (30s+5s) nothing has happened: no callback, no event, no state change —
	// so no transition is pending. (A controller that is merely busy, e.g.
	// retrying a failing callback periodically, shows activity and is not "stuck".)
	if o.ctl.State() == ha.FailoverStateInProgress && quietProbe-lastActivity >= 40 {
		site := o.inProgBy
		if site == "" {
			site = "unknown"
		}
		o.v("F6-stuck-in-progress", site, "state is still in_progress after %ds without input (no transition pending); entered by %s", quietProbe, site)
	}
	// The two waiting states (pending, failback_pending) are transitions in
	// progress as well: each exists only while its timer (<= 30s) is armed. Being
	// in one of them after 40s without any activity means the timer is not armed
	// and nothing will ever end the transition.
	if st := o.ctl.State(); (st == ha.FailoverStatePending || st == ha.FailoverStateFailbackPending) && quietProbe-lastActivity >= 40 {
		o.v("F6-stuck-in-progress", "waiting:"+st.String(), "state is still %s after %ds without input and nothing has happened for %ds: its timer is not armed, no transition is pending (role %s, partner healthy=%v)",
			st, quietProbe, quietProbe-lastActivity, o.ctl.CurrentRole(), o.mon.IsPartnerHealthy())
	}
}

func (s *sys) Fingerprint() string {
	o := s.o
	// Structural part, taken BEFORE the probe. Skipped fields:
	//  lastRoleChange, failoversInitiated/Completed/Canceled, failbacksCompleted: read only by Status()/Stats(), never by the oracle;
	//  failoverTime/failbackTime: write-only in the controller; the armed timers they describe are captured by the probe below;
	//  HealthMonitor: dumped separately (only Healthy and the two consecutive counters influence behaviour).
	st := deepdump.Dump(o.ctl, deepdump.Options{IgnoreTimes: true,
		SkipFields: map[string]bool{"FailoverController.lastRoleChange": true, "FailoverController.failoverTime": true, "FailoverController.failbackTime": true,
			"FailoverController.failoversInitiated": true, "FailoverController.failoversCompleted": true, "FailoverController.failoversCanceled": true, "FailoverController.failbacksCompleted": true},
		SkipTypes: map[string]bool{"ha.HealthMonitor": true}})
	h := o.mon.Health()
	hs := fmt.Sprintf("|healthy=%v cf=%d cs=%d", h.Healthy, min(h.ConsecutiveFailures, 1), min(h.ConsecutiveSuccesses, 1))
	mon := fmt.Sprintf("|cbFail=%v force=%v okCb=%v hist=%s", o.cbFail, o.force, o.okCb, o.histSig())
	s.probe()
	return st + hs + mon + "|probe=" + s.probeFP
}

func (s *sys) Check() []explore.Viol {
	s.probe()
	vs := s.o.viols
	s.shutdown()
	return vs
}

// shutdown is the bubble epilogue: every goroutine started in the bubble must
// have exited before the body returns (synctest does not advance time once the
// root goroutine is gone). The oracle is closed first: from here on the
// role-change callback succeeds immediately and nothing is recorded, so a
// controller that keeps re-arming timers under a failing callback comes to
// rest. Each round stops the armed timers and lets anything in flight (grace
// sleep, a timer that fires before the next Stop) run to completion.
func (s *sys) shutdown() {
	s.o.closed = true
	for round := 0; round < 4; round++ {
		s.o.ctl.Stop()
		advance(35 * time.Second)
	}
	s.o.ctl.Stop()
	settle()
}

func configs() []cfg {
	return []cfg{
		{"grace0", 0, false},
		{"grace5s", 5 * time.Second, false},
		{"grace0-failedover", 0, true},
		{"grace5s-failedover", 5 * time.Second, true},
	}
}

func models(t *testing.T, run *report.Run) []*explore.Model {
	depth, nd := 6, 3
	if run.Thorough() {
		depth, nd = 8, 4
	}
	var ms []*explore.Model
	for _, c := range configs() {
		c := c
		ms = append(ms, &explore.Model{
			Name: "ha.FailoverController", Config: c.name,
			New:   func() explore.System { return newSys(c) },
			Depth: depth, NoDedupDepth: nd, Classify: classify, Budget: 8 * time.Minute,
			Exec: func(body func()) { synctest.Test(t, func(*testing.T) { body() }) },
		})
	}
	return ms
}

func TestCheck(t *testing.T) {
	run := report.New("C14", "model_checking")
	run.Rule = "BFS over health events, time advances, ticks, operator commands and callback outcomes on the real FailoverController+HealthMonitor under a virtual clock; F1-F6 judged on every state and on 60s of input-free continuation; Engine B: fired failover/failback timer raced against health events"
	run.Assumptions = []string{
		"health is injected through HealthMonitor.recordFailure/recordSuccess with thresholds 1 (IsPartnerHealthy is the real one)",
		"controlLoop's ticker is replaced by an explicit tick event calling evaluateState",
		"a promotion that consumes an accepted ForceFailover is an operator override and is exempt from F1/F2",
		"F1 is judged at the instant the role changes: the partner must have been down for the whole failover delay up to that instant (a recovery during the grace period counts)",
	}
	ms := models(t, run)
	if *report.FlagReplay != "" {
		os.Exit(replay(run, ms))
	}
	for _, m := range ms {
		if run.WantPart(m.Name) {
			m.Run(run)
		}
	}
	runMonitor(run)
	runSched(run)
	os.Exit(run.Finish())
}

func replay(run *report.Run, ms []*explore.Model) int {
	v, err := report.LoadReplay(*report.FlagReplay)
	if err != nil {
		fmt.Println("HARNESS-ERROR", err)
		return 2
	}
	if strings.HasPrefix(v.Part, "sched:") {
		return replaySched(run, v)
	}
	if v.Part == "ha.HealthMonitor-probes" {
		return replayMonitor(run, v)
	}
	for _, m := range ms {
		if m.Name+"["+m.Config+"]" == v.Part {
			vs, p := m.Replay(v.Trace)
			if p != "" {
				fmt.Printf("VIOLATION property=C14 replay=%s\n  panic: %s\n", *report.FlagReplay, p)
				return 1
			}
			for _, x := range vs {
				fmt.Printf("VIOLATION property=C14 replay=%s\n  kind=%s site=%s detail=%s\n", *report.FlagReplay, x.Kind, x.Site, x.Detail)
			}
			if len(vs) > 0 {
				return 1
			}
			fmt.Println("replay: no violation")
			return 0
		}
	}
	fmt.Println("HARNESS-ERROR unknown part", v.Part)
	return 2
}

// classify assigns root-cause classes. Each predicate is computed by the oracle
// from the witness itself (see classifyUnsustained), not from the trace text.
func classify(v *report.Violation) {
	// The partner had been down for a full failover delay, the failover timer
	// had fired and executeFailover was sleeping in its grace period when the
	// partner recovered; the promotion completed at most GracePeriod later.
	if v.Kind == "F2-recovery-not-cancelling" && v.Site == "recovery-during-grace" {
		v.Class = "C14-recovery-during-grace"
	}
}
