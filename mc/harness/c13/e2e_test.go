package c13

import (
	"testing"

	"verif/report"
)

func runE2E(t *testing.T, run *report.Run) {}
