package c13

import (
	"testing"

	"verif/report"
)

// runE2E: placeholder for the end-to-end conformance part described in
// DESIGN.md §2 C13 (replaying BFS traces against two syncers with the real
// loops over loopback HTTP). NOT IMPLEMENTED: the two findings of this check
// were instead reproduced over loopback HTTP with the real loops/functions by
// the plain Go tests kept in plain_repro_test.go.txt. It adds no part and no
// evidence, so nothing is claimed for it.
func runE2E(t *testing.T, run *report.Run) {}
