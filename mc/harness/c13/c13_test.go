// C13 — Standby converges to the active node's session table.
//
// Engine A on the message-handling layer: a real active and a real standby
// ha.HASyncer with real InMemorySessionStores, joined in memory. The active's
// real HTTP handlers serve the full-sync GET (through an in-memory
// http.RoundTripper used by the standby's real performFullSync) and the SSE
// stream (the real handleSessionStream runs on its own goroutine against an
// in-memory ResponseWriter). The glue loops are replaced by explicit events:
//
//	Add/Update/Delete(i)  active store change + PushChange (what the session manager does)
//	Xxx(i)~overtakes      the same push, made concurrently with the immediately preceding push of another session:
//	                      it took its sequence number second but reached the queue first (PushChange numbers and
//	                      enqueues in two steps); enqueue order is the push order the property speaks of
//	BroadcastBurst        broadcastLoop takes ALL queued changes (>= 2) off the queue back to back while the stream
//	                      handler is still blocked writing to the connection (its writes stall, then resume)
//	BroadcastOne          one iteration of broadcastLoop's pendingChanges branch
//	FullSync / FullSyncErr  standbyLoop step 1 (performFullSync), optionally with a transport fault
//	Attach                standbyLoop step 2: the real connectToStream runs on its own goroutine; its request
//	                      (as the standby builds it) reaches the real handleSessionStream
//	Deliver               the next SSE frame the handler wrote is let through to connectToStream's reader -> handleSSEData
//	Detach                clean end of the stream: the standby's read ends AND the handler's request context ends
//	Break                 abrupt end: the standby's read fails with an ERROR (connection cut, io.ErrUnexpectedEOF) and the
//	                      active's handler ends
//	DropClientSide        link flap: only the standby's side ends (it goes back to FullSync/Attach); the active's
//	                      handler for the old stream is still running (half-open connection)
//	EndOldHandler         the active finally tears down the handler of the half-open old stream
//
// Per connection the order is that of standbyLoop: FullSync -> Attach -> Deliver* -> end of stream;
// at most one half-open old stream generation exists at a time.
package c13

import (
	"bytes"
	"context"
	"crypto/sha256"
	"encoding/hex"
	"encoding/json"
	"errors"
	"fmt"
	"io"
	"net/http"
	"net/http/httptest"
	"os"
	"runtime"
	"runtime/debug"
	"sort"
	"strings"
	"sync"
	"sync/atomic"
	"testing"
	"testing/synctest"
	"time"

	"github.com/codelaboratoryltd/bng/pkg/ha"
	"go.uber.org/zap"

	"verif/deepdump"
	"verif/explore"
	"verif/report"
)

type cfg struct {
	ids int
	// attached: start from the reachable state "one session replicated, stream
	// attached, everything delivered" (prefix Add(1) FullSync Attach BroadcastOne Deliver)
	attached bool
	// loop: the standby runs its REAL standbyLoop (Start()) on the bubble's virtual
	// clock: it full-syncs, opens the stream, waits out its reconnect back-off and
	// honours its timers by itself. The harness only ends streams, lets frames
	// through, advances time, and may hold a full-sync RESPONSE back in the
	// transport. Starts with one session already on the active.
	loop bool
}

const (
	loopFullSyncInterval = 60 * time.Second
	loopReconnect        = 40 * time.Second // > the largest back-off (30s + 20% jitter)
)

var attachedPrefix = []string{"Add(1)", "FullSync", "Attach", "BroadcastOne", "Deliver"}

// msgDesc mirrors one pushed change (harness bookkeeping for queues and classification).
type msgDesc struct {
	n       int // push index (1-based)
	typ     ha.SyncMessageType
	id      string
	ver     int
	applied bool // delivered to and applied by the standby
	// where the change went when broadcastLoop took it from the queue
	fate string // "" queued | "not-queued" | "stream" | "no-client(idle)" | "no-client(gap)"
}

// sseWriter is the in-memory ResponseWriter+Flusher the stream handler writes to.
type sseWriter struct {
	mu      sync.Mutex
	hdr     http.Header
	buf     bytes.Buffer
	stalled bool          // the connection does not accept data: Write blocks
	resume  chan struct{} // closed when the stall ends
}

func (w *sseWriter) stall() {
	w.mu.Lock()
	w.stalled, w.resume = true, make(chan struct{})
	w.mu.Unlock()
}

func (w *sseWriter) unstall() {
	w.mu.Lock()
	if w.stalled {
		w.stalled = false
		close(w.resume)
	}
	w.mu.Unlock()
}

func (w *sseWriter) Header() http.Header { return w.hdr }
func (w *sseWriter) WriteHeader(int)     {}
func (w *sseWriter) Flush()              {}
func (w *sseWriter) Write(p []byte) (int, error) {
	for {
		w.mu.Lock()
		if !w.stalled {
			defer w.mu.Unlock()
			return w.buf.Write(p)
		}
		ch := w.resume
		w.mu.Unlock()
		<-ch
	}
}

// frames returns the complete SSE frames ("...\n\n") written so far.
func (w *sseWriter) frames() [][]byte {
	w.mu.Lock()
	defer w.mu.Unlock()
	var out [][]byte
	parts := strings.SplitAfter(w.buf.String(), "\n\n")
	for _, p := range parts {
		if strings.HasSuffix(p, "\n\n") {
			out = append(out, []byte(p))
		}
	}
	return out
}

// frameData extracts the "data: " payload of one frame exactly as connectToStream does.
func frameData(frame []byte) []byte {
	for _, line := range strings.SplitAfter(string(frame), "\n") {
		if strings.HasPrefix(line, "data: ") && strings.HasSuffix(line, "\n") {
			return []byte(line[6 : len(line)-1])
		}
	}
	return nil
}

// memTransport carries the standby's requests to the active's real handlers.
type memTransport struct {
	h         http.Handler
	failNext  bool
	lastBody  []byte // body of the last /ha/sessions reply the active served
	onStream  func(req *http.Request) (*http.Response, error)
	fullSyncs int           // full-sync requests served so far
	holdNext  bool          // hold the next full-sync response back after the active has produced it
	held      chan struct{} // non-nil while a response is being held; closing it lets the response through
}

// stream is one generation of the SSE connection.
type stream struct {
	gen        int
	w          *sseWriter         // what the active's handler has written
	released   int                // frames already let through to the standby
	srvCancel  context.CancelFunc // ends the handler's request context
	pw         *io.PipeWriter     // standby-facing side of the connection
	opened     bool
	clientDone bool
	q          []*msgDesc // changes handed to this stream by the broadcaster, in that order
	qHead      int        // how many of them have been delivered
}

func (t *memTransport) RoundTrip(req *http.Request) (*http.Response, error) {
	if t.failNext {
		t.failNext = false
		return nil, errors.New("verif: injected connection failure")
	}
	if req.URL.Path == "/ha/sessions/stream" && t.onStream != nil {
		return t.onStream(req)
	}
	rec := httptest.NewRecorder()
	t.h.ServeHTTP(rec, req)
	if req.URL.Path == "/ha/sessions" {
		t.lastBody = append([]byte(nil), rec.Body.Bytes()...)
		t.fullSyncs++
		if t.holdNext {
			t.holdNext = false
			ch := make(chan struct{})
			t.held = ch
			<-ch // the response is on its way; the requester waits
			t.held = nil
		}
	}
	return rec.Result(), nil
}

const (
	phIdle = iota
	phSynced
	phAttached
)

type sys struct {
	c       cfg
	active  *ha.HASyncer
	standby *ha.HASyncer
	aStore  *ha.InMemorySessionStore
	sStore  *ha.InMemorySessionStore
	rt      *memTransport

	phase     int
	cur       *stream // the stream the standby is reading
	old       *stream // half-open previous generation: standby side gone, handler still registered
	attaching *stream
	conn      int

	ver       map[string]int // active's current version per id (0 = absent)
	nextVer   int
	msgs      []*msgDesc // every change pushed so far, in push order
	pending   []*msgDesc // mirror of the active's pendingChanges queue
	overtaken int        // number of ~overtakes pushes so far
	prevPush  *msgDesc   // the change pushed by the immediately preceding operation (nil if that was not a plain push)
	attachAt  int        // number of changes pushed before the current stream attached
	faults    int
	upserts   int     // updates of an absent session so far
	ticks     int     // loop mode: full-sync intervals let pass while attached
	loopNew   *stream // loop mode: a stream the standby's loop opened by itself, not yet adopted by the model
	seenSyncs int     // loop mode: rt.fullSyncs already accounted for

	viols []explore.Viol
}

var harnessErr struct {
	sync.Mutex
	msgs []string
}

func harnessError(f string, a ...any) {
	harnessErr.Lock()
	if len(harnessErr.msgs) < 5 {
		harnessErr.msgs = append(harnessErr.msgs, fmt.Sprintf(f, a...))
	}
	harnessErr.Unlock()
}

var t0 = time.Date(2026, 1, 1, 0, 0, 0, 0, time.UTC)

func sid(i int) string { return fmt.Sprintf("sess-%d", i) }

// session builds the payload of session i at version ver. Payload shapes differ
// in their OPTIONAL (omitempty) fields: odd ids are PPPoE sessions (username,
// IPv6, ISP, S/C tags, QoS profile and rates), even ids are plain IPoE sessions
// (gateway only); an even version is an update that CLEARS the QoS profile,
// rates and IPv6 (PPPoE) or the gateway (IPoE) and toggles the walled garden.
func session(i, ver int) *ha.SessionState {
	x := &ha.SessionState{
		SessionID: sid(i), SubscriberID: fmt.Sprintf("sub-%d", i), MAC: fmt.Sprintf("02:00:00:00:00:%02x", i),
		IP: fmt.Sprintf("10.0.0.%d", 10+i), VLAN: 100 + i, State: "active",
		CreatedAt: t0, LastActivity: t0.Add(time.Duration(ver) * time.Second), BytesIn: uint64(ver),
	}
	full := ver%2 == 1
	x.WalledGarden = !full
	if i%2 == 1 {
		x.SessionType = "pppoe"
		x.Username = fmt.Sprintf("user%d@isp", i)
		x.ISPID = "isp-1"
		x.STag, x.CTag = uint16(200+i), uint16(300+i)
		if full {
			x.IPv6 = fmt.Sprintf("2001:db8::%d", i)
			x.QoSProfile = "premium"
			x.DownloadRateBps, x.UploadRateBps = 100_000_000, 50_000_000
			x.BytesOut = uint64(1000 + ver)
		}
	} else {
		x.SessionType = "ipoe"
		if full {
			x.Gateway = "10.0.0.1"
		}
	}
	return x
}

func newSys(c cfg) *sys {
	s := &sys{c: c, ver: map[string]int{}}
	s.aStore = ha.NewInMemorySessionStore()
	s.sStore = ha.NewInMemorySessionStore()
	ac := ha.DefaultSyncConfig()
	ac.NodeID, ac.Role = "bng-active", ha.RoleActive
	s.active = ha.NewHASyncer(ac, s.aStore, zap.NewNop())
	sc := ha.DefaultSyncConfig()
	sc.NodeID, sc.Role = "bng-standby", ha.RoleStandby
	sc.Partner = &ha.PartnerInfo{NodeID: "bng-active", Endpoint: "active.invalid:9000"}
	if c.loop {
		sc.FullSyncInterval = loopFullSyncInterval
		sc.RequestTimeout = 24 * time.Hour // http.Client.Timeout also bounds the long-lived stream; keep it out of the explored horizon
	}
	s.standby = ha.NewHASyncer(sc, s.sStore, zap.NewNop())
	s.rt = &memTransport{h: s.active.VerifC13Handler()}
	s.rt.onStream = s.openStream
	s.standby.VerifC13SetTransport(s.rt)
	if c.loop {
		s.nextVer = 1
		s.ver[sid(1)] = 1
		s.aStore.PutSession(session(1, 1)) // a session that exists when the standby first connects
		startMu.Lock()
		err := s.standby.Start()
		startMu.Unlock()
		if err != nil {
			panic(err)
		}
		synctest.Wait()
		s.adopt()
		if s.phase != phAttached || s.sStore.GetSessionCount() != 1 {
			panic("harness: the standby's loop did not sync and attach by itself")
		}
	}
	if c.attached {
		for _, op := range attachedPrefix {
			s.Apply(op)
		}
		if s.phase != phAttached || len(s.pending) != 0 || len(s.undelivered()) != 0 || s.sStore.GetSessionCount() != 1 {
			panic("harness: attached initial state not reached")
		}
	}
	return s
}

func (s *sys) v(kind, site, f string, a ...any) {
	s.viols = append(s.viols, explore.Viol{Kind: kind, Site: site, Detail: fmt.Sprintf(f, a...)})
}

// undelivered: frames the handler of the current stream has written that have not been let through yet.
func (s *sys) undelivered() [][]byte {
	if s.phase != phAttached || s.cur == nil {
		return nil
	}
	l := s.cur.w.frames()
	return l[s.cur.released:]
}

// release lets one frame through to the standby's connectToStream and waits until it has been processed.
func (s *sys) release(frame []byte) {
	s.cur.released++
	if _, err := s.cur.pw.Write(frame); err != nil {
		harnessError("stream write: %v", err)
	}
	synctest.Wait()
}

// openStream is the transport's side of GET /ha/sessions/stream: the request the
// standby built is handed (with a server-side context and remote address) to
// the active's real handler on its own goroutine; the response body is a pipe
// fed frame by frame by Deliver.
func (s *sys) openStream(req *http.Request) (*http.Response, error) {
	st := s.attaching
	if st == nil && s.c.loop {
		s.conn++
		st = &stream{gen: s.conn}
		s.loopNew = st
	}
	if st == nil {
		return nil, errors.New("verif: unexpected stream request")
	}
	sctx, cancel := context.WithCancel(context.Background())
	sreq := req.Clone(sctx)
	// unique among the (at most two) live generations, yet not growing with the connection count
	sreq.RemoteAddr = fmt.Sprintf("standby.invalid:%d", 40000+st.gen%2)
	st.w = &sseWriter{hdr: http.Header{}}
	st.srvCancel = cancel
	pr, pw := io.Pipe()
	st.pw = pw
	st.opened = true
	h, w := s.rt.h, st.w
	go h.ServeHTTP(w, sreq)
	return &http.Response{Status: "200 OK", StatusCode: 200, Proto: "HTTP/1.1", ProtoMajor: 1, ProtoMinor: 1,
		Header: http.Header{"Content-Type": {"text/event-stream"}}, Body: pr, Request: req}, nil
}

// checkS1: immediately after a completed full sync the standby's table equals the snapshot the active served.
func (s *sys) checkS1() int {
	var snap ha.SyncMessage
	if err := json.Unmarshal(s.rt.lastBody, &snap); err != nil {
		harnessError("cannot decode served snapshot: %v", err)
	}
	want, got := tableOf(snap.Sessions), tableOf(s.sStore.GetAllSessions())
	if d := diffTables(want, got); d != "" {
		s.v("S1-fullsync", s.s1Site(want, got), "after a completed full sync the standby's table differs from the snapshot the active served: %s", d)
	}
	return len(snap.Sessions)
}

// adopt (loop mode): account for what the standby's own loop did during the last operation.
func (s *sys) adopt() {
	if s.rt.fullSyncs != s.seenSyncs && s.rt.held == nil {
		s.seenSyncs = s.rt.fullSyncs
		s.checkS1()
	}
	if st := s.loopNew; st != nil {
		s.loopNew = nil
		s.cur = st
		s.attachAt = len(s.msgs)
		s.phase = phAttached
		if l := s.undelivered(); len(l) > 0 {
			var m ha.SyncMessage
			if json.Unmarshal(frameData(l[0]), &m) == nil && m.Type == ha.SyncTypeHeartbeat {
				s.release(l[0])
			}
		}
	}
}

func (s *sys) loopOps() []string {
	var ops []string
	for i := 1; i <= s.c.ids; i++ {
		if s.ver[sid(i)] == 0 {
			ops = append(ops, fmt.Sprintf("Add(%d)", i))
			if s.upserts == 0 {
				ops = append(ops, fmt.Sprintf("Update(%d)", i))
			}
		} else {
			ops = append(ops, fmt.Sprintf("Update(%d)", i), fmt.Sprintf("Delete(%d)", i))
		}
	}
	if len(s.pending) > 0 {
		ops = append(ops, "BroadcastOne")
	}
	if s.phase == phAttached {
		if len(s.undelivered()) > 0 {
			ops = append(ops, "Deliver")
		}
		if s.rt.held == nil { // while the harness holds a response back the connection is not torn down (the requester legitimately waits for it)
			ops = append(ops, "Detach", "Break")
			if s.ticks == 0 {
				ops = append(ops, "+interval", "+interval(hold)")
			}
		}
	} else {
		ops = append(ops, "+reconnect")
	}
	if s.rt.held != nil {
		ops = append(ops, "ReleaseFullSync")
	}
	return ops
}

func (s *sys) Ops() []string {
	if s.c.loop {
		return s.loopOps()
	}
	var ops []string
	for i := 1; i <= s.c.ids; i++ {
		var push []string
		if s.ver[sid(i)] == 0 {
			push = []string{fmt.Sprintf("Add(%d)", i)}
			if s.upserts == 0 && (s.c.attached || s.c.loop) { // (not in the widest configuration: keeps the quick tier in budget)
				// PutSession + PushChange(update) is an upsert on the active: an update may be the first (or the first after a delete) message for an id
				push = append(push, fmt.Sprintf("Update(%d)", i))
			}
		} else {
			push = []string{fmt.Sprintf("Update(%d)", i), fmt.Sprintf("Delete(%d)", i)}
		}
		ops = append(ops, push...)
		// concurrent with the previous push (of another session, still queued): may overtake it in the queue
		// (at most one overtaking pair per history, like the single transport fault)
		if pp := s.prevPush; s.overtaken == 0 && pp != nil && pp.id != sid(i) && pp.fate == "" && len(s.pending) > 0 && s.pending[len(s.pending)-1] == pp {
			for _, o := range push {
				ops = append(ops, o+"~overtakes")
			}
		}
	}
	if len(s.pending) > 0 {
		ops = append(ops, "BroadcastOne")
	}
	if len(s.pending) >= 2 && s.phase == phAttached {
		ops = append(ops, "BroadcastBurst")
	}
	switch s.phase {
	case phIdle, phSynced:
		ops = append(ops, "FullSync")
		if s.faults == 0 {
			ops = append(ops, "FullSyncErr")
		}
		if s.phase == phSynced {
			ops = append(ops, "Attach")
		}
	case phAttached:
		if len(s.undelivered()) > 0 {
			ops = append(ops, "Deliver")
		}
		ops = append(ops, "Detach", "Break")
		if s.old == nil {
			ops = append(ops, "DropClientSide")
		}
	}
	if s.old != nil {
		ops = append(ops, "EndOldHandler")
	}
	return ops
}

func (s *sys) push(typ ha.SyncMessageType, i int, sess *ha.SessionState) {
	before := s.active.VerifC13PendingLen()
	err := s.active.PushChange(typ, sess)
	m := &msgDesc{n: len(s.msgs) + 1, typ: typ, id: sid(i), ver: s.ver[sid(i)]}
	s.msgs = append(s.msgs, m)
	switch {
	case err != nil:
		harnessError("PushChange: %v", err)
	case s.active.VerifC13PendingLen() == before+1:
		s.pending = append(s.pending, m)
	default:
		m.fate = "not-queued" // accepted (nil error) but not put on the queue
	}
}

// broadcastOne: one iteration of broadcastLoop's pendingChanges branch.
func (s *sys) broadcastOne() string {
	if !s.active.VerifC13BroadcastOne() {
		harnessError("BroadcastOne: queue empty but mirror has %d", len(s.pending))
	}
	m := s.pending[0]
	s.pending = s.pending[1:]
	switch s.phase {
	case phAttached:
		m.fate = "stream"
		s.cur.q = append(s.cur.q, m)
	case phSynced:
		m.fate = "no-client(gap)"
	default:
		m.fate = "no-client(idle)"
	}
	return m.fate
}

func (s *sys) Apply(op string) string {
	var i int
	obs := "ok"
	overtakes := strings.HasSuffix(op, "~overtakes")
	op = strings.TrimSuffix(op, "~overtakes")
	npushed := len(s.msgs)
	defer func() {
		// prevPush: set only by a plain push
		if len(s.msgs) == npushed+1 && !overtakes {
			s.prevPush = s.msgs[npushed]
		} else {
			s.prevPush = nil
		}
	}()
	if overtakes {
		defer func() {
			n := len(s.pending)
			if len(s.msgs) != npushed+1 || n < 2 || s.pending[n-1] != s.msgs[npushed] {
				harnessError("~overtakes: the push was not queued")
				return
			}
			if !s.active.VerifC13SwapLastTwoPending() {
				harnessError("~overtakes: real queue has fewer than two entries")
			}
			s.pending[n-1], s.pending[n-2] = s.pending[n-2], s.pending[n-1]
			s.overtaken++
		}()
	}
	switch {
	case strings.HasPrefix(op, "Add("), strings.HasPrefix(op, "Update("):
		typ := ha.SyncTypeAdd
		if op[0] == 'U' {
			typ = ha.SyncTypeUpdate
			fmt.Sscanf(op, "Update(%d)", &i)
		} else {
			fmt.Sscanf(op, "Add(%d)", &i)
		}
		if typ == ha.SyncTypeUpdate && s.ver[sid(i)] == 0 {
			s.upserts++
		}
		s.nextVer++
		s.ver[sid(i)] = s.nextVer
		sess := session(i, s.nextVer)
		s.aStore.PutSession(sess)
		s.push(typ, i, sess)
	case strings.HasPrefix(op, "Delete("):
		fmt.Sscanf(op, "Delete(%d)", &i)
		s.aStore.DeleteSession(sid(i))
		s.push(ha.SyncTypeDelete, i, &ha.SessionState{SessionID: sid(i)}) // recorded with the version it deletes
		s.ver[sid(i)] = 0
	case op == "BroadcastOne":
		obs = s.broadcastOne()
	case op == "BroadcastBurst":
		w := s.cur.w
		w.stall()
		n := 0
		for len(s.pending) > 0 {
			s.broadcastOne()
			synctest.Wait() // the handler takes what it can and blocks in Write
			n++
		}
		w.unstall()
		synctest.Wait()
		obs = fmt.Sprintf("burst=%d", n)
	case op == "FullSync", op == "FullSyncErr":
		s.rt.failNext = op == "FullSyncErr"
		err := s.standby.VerifC13FullSync()
		if op == "FullSyncErr" {
			s.faults++
			if err == nil {
				harnessError("FullSyncErr: performFullSync succeeded despite the injected fault")
			}
			obs = "err"
			break // a failed attempt: standbyLoop waits and tries the full sync again
		}
		if err != nil {
			s.v("S1-fullsync", "performFullSync", "full sync over the in-memory transport failed: %v", err)
			break
		}
		s.phase = phSynced
		obs = fmt.Sprintf("snapshot=%d", s.checkS1())
	case op == "Attach":
		s.conn++
		st := &stream{gen: s.conn}
		s.attaching = st
		standby := s.standby
		go func() {
			_ = standby.VerifC13ConnectToStream()
			st.clientDone = true
		}()
		synctest.Wait()
		s.attaching = nil
		if !st.opened || st.clientDone || !s.standby.IsConnected() {
			s.v("S2-apply", "connectToStream", "the standby could not establish the stream over the in-memory transport")
			if st.opened {
				st.pw.Close()
				st.srvCancel()
				synctest.Wait()
			}
			break
		}
		s.cur = st
		s.attachAt = len(s.msgs)
		s.phase = phAttached
		// The handler greets with a heartbeat before anything else; the standby
		// reads it as soon as it is connected (it only touches statistics).
		if l := s.undelivered(); len(l) > 0 {
			var m ha.SyncMessage
			if json.Unmarshal(frameData(l[0]), &m) == nil && m.Type == ha.SyncTypeHeartbeat {
				s.release(l[0])
			}
		}
	case op == "Deliver":
		l := s.undelivered()
		if len(l) == 0 {
			harnessError("Deliver with nothing to deliver")
			break
		}
		data := frameData(l[0])
		s.release(l[0])
		var m ha.SyncMessage
		if err := json.Unmarshal(data, &m); err != nil {
			// what the active put on the wire is not a message: the change it stood for cannot be applied
			e := "<none>"
			if st := s.cur; st.qHead < len(st.q) {
				x := st.q[st.qHead]
				st.qHead++
				e = fmt.Sprintf("push %d (%s %s v%d)", x.n, x.typ, x.id, x.ver)
			}
			s.v("S2-apply", "stream", "the frame the active wrote where %s was due is not a decodable message (%v): %.80q", e, err, data)
			obs = "garbled"
			break
		}
		obs = string(m.Type)
		s.afterDeliver(&m)
	case op == "Detach":
		s.cur.pw.Close()
		s.cur.srvCancel()
		synctest.Wait()
		s.phase = phIdle
		s.cur = nil
	case op == "Break":
		s.cur.pw.CloseWithError(io.ErrUnexpectedEOF)
		s.cur.srvCancel()
		synctest.Wait()
		s.phase = phIdle
		s.cur = nil
	case op == "DropClientSide":
		s.cur.pw.Close()
		synctest.Wait()
		s.old, s.cur = s.cur, nil
		s.phase = phIdle
	case op == "+reconnect":
		time.Sleep(loopReconnect)
		synctest.Wait()
		s.adopt()
		if s.phase != phAttached {
			s.v("S1-fullsync", "standbyLoop", "%v after the stream ended the standby's loop has not completed a full sync and re-opened the stream", loopReconnect)
		}
	case op == "+interval", op == "+interval(hold)":
		s.ticks++
		s.rt.holdNext = op == "+interval(hold)"
		time.Sleep(loopFullSyncInterval + time.Second)
		synctest.Wait()
		s.rt.holdNext = false
		s.adopt()
		if s.rt.held != nil {
			obs = "full-sync response held"
		}
	case op == "ReleaseFullSync":
		close(s.rt.held)
		synctest.Wait()
		s.adopt()
	case op == "EndOldHandler":
		s.old.srvCancel()
		synctest.Wait()
		s.old = nil
	default:
		panic("unknown op " + op)
	}
	synctest.Wait()
	if s.c.loop {
		s.adopt()
	}
	return obs
}

// afterDeliver: S2 — changes are applied, in push order.
func (s *sys) afterDeliver(m *ha.SyncMessage) {
	switch m.Type {
	case ha.SyncTypeAdd, ha.SyncTypeUpdate, ha.SyncTypeDelete:
	default:
		return
	}
	// push order = the order in which the changes were queued and handed to this stream
	if st := s.cur; st != nil && len(m.Sessions) == 1 {
		if st.qHead >= len(st.q) {
			s.v("S2-order", "stream", "%s #%d of %s delivered but the broadcaster handed no such change to this stream", m.Type, m.SequenceNum, m.Sessions[0].SessionID)
		} else {
			e := st.q[st.qHead]
			st.qHead++
			if e.typ != m.Type || e.id != m.Sessions[0].SessionID || (m.Type != ha.SyncTypeDelete && uint64(e.ver) != m.Sessions[0].BytesIn) {
				s.v("S2-order", "stream", "%s #%d of %s (v%d) delivered where push %d (%s %s v%d) was next in push order", m.Type, m.SequenceNum, m.Sessions[0].SessionID, m.Sessions[0].BytesIn, e.n, e.typ, e.id, e.ver)
			}
		}
	}
	for _, sess := range m.Sessions {
		for _, d := range s.msgs {
			if !d.applied && d.typ == m.Type && d.id == sess.SessionID && (m.Type == ha.SyncTypeDelete || uint64(d.ver) == sess.BytesIn) {
				d.applied = true
				break
			}
		}
		got, ok := s.sStore.GetSession(sess.SessionID)
		if m.Type == ha.SyncTypeDelete {
			if ok {
				s.v("S2-apply", "handleSSEData", "delete #%d of %s delivered but the standby still holds the session", m.SequenceNum, sess.SessionID)
			}
			continue
		}
		if !ok {
			s.v("S2-apply", "handleSSEData", "%s #%d of %s delivered but the standby does not hold the session", m.Type, m.SequenceNum, sess.SessionID)
		} else if a, b := canon(sess), canon(*got); a != b {
			s.v("S2-apply", "handleSSEData", "%s #%d of %s delivered but the standby holds %s instead of %s", m.Type, m.SequenceNum, sess.SessionID, b, a)
		}
	}
}

func canon(s ha.SessionState) string {
	s.CreatedAt, s.LastActivity = s.CreatedAt.UTC().Round(0), s.LastActivity.UTC().Round(0)
	b, _ := json.Marshal(s)
	return string(b)
}

func sortedCanon(l []ha.SessionState) []string {
	var out []string
	for _, x := range l {
		out = append(out, canon(x))
	}
	sort.Strings(out)
	return out
}

func fnv32(s string) uint32 {
	h := uint32(2166136261)
	for i := 0; i < len(s); i++ {
		h = (h ^ uint32(s[i])) * 16777619
	}
	return h
}

func tableOf(l []ha.SessionState) map[string]string {
	m := map[string]string{}
	for _, x := range l {
		m[x.SessionID] = canon(x)
	}
	return m
}

func short(c string) string {
	var x struct {
		BytesIn uint64 `json:"bytes_in"`
	}
	json.Unmarshal([]byte(c), &x)
	return fmt.Sprintf("v%d", x.BytesIn)
}

// diffTables describes how got differs from want ("" = equal).
func diffTables(want, got map[string]string) string {
	var d []string
	for id, w := range want {
		g, ok := got[id]
		if !ok {
			d = append(d, fmt.Sprintf("%s missing on standby (want %s)", id, short(w)))
		} else if g != w {
			if short(g) == short(w) {
				d = append(d, fmt.Sprintf("%s (%s) differs in its fields: standby %s, want %s", id, short(w), g, w))
			} else {
				d = append(d, fmt.Sprintf("%s is %s on standby, want %s", id, short(g), short(w)))
			}
		}
	}
	for id, g := range got {
		if _, ok := want[id]; !ok {
			d = append(d, fmt.Sprintf("%s (%s) present on standby only", id, short(g)))
		}
	}
	sort.Strings(d)
	return strings.Join(d, "; ")
}

func diffIDs(want, got map[string]string) []string {
	var ids []string
	for id, w := range want {
		if g, ok := got[id]; !ok || g != w {
			ids = append(ids, id)
		}
	}
	for id := range got {
		if _, ok := want[id]; !ok {
			ids = append(ids, id)
		}
	}
	sort.Strings(ids)
	return ids
}

// s1Site names the shape of an S1 divergence: "stale-not-removed" when the only
// difference is sessions the standby kept although the snapshot does not
// contain them.
func (s *sys) s1Site(want, got map[string]string) string {
	for id, w := range want {
		if g, ok := got[id]; !ok || g != w {
			return "snapshot-not-applied"
		}
	}
	return "stale-not-removed"
}

func (s *sys) lastMsgFor(id string) *msgDesc {
	for i := len(s.msgs) - 1; i >= 0; i-- {
		if s.msgs[i].id == id {
			return s.msgs[i]
		}
	}
	return nil
}

// Fingerprint returns a SHA-256 of the canonical state description: the
// description itself is several KB (two deep dumps) and the thorough tier keeps
// millions of them in the explorer's seen-set.
func (s *sys) Fingerprint() string {
	sum := sha256.Sum256([]byte(s.describe()))
	return hex.EncodeToString(sum[:])
}

func (s *sys) describe() string {
	var sb strings.Builder
	dump := func(name string, l []ha.SessionState) {
		t := tableOf(l)
		ids := make([]string, 0, len(t))
		for id := range t {
			ids = append(ids, id)
		}
		sort.Strings(ids)
		sb.WriteString(name + "{")
		for _, id := range ids {
			sb.WriteString(id + "=" + short(t[id]) + ",")
		}
		sb.WriteString("}")
	}
	dump("A", s.aStore.GetAllSessions())
	dump("S", s.sStore.GetAllSessions())
	// the standby's payloads in full (a payload is not a function of the version if a decoder mixes events)
	for _, x := range sortedCanon(s.sStore.GetAllSessions()) {
		fmt.Fprintf(&sb, "#%08x", fnv32(x))
	}
	fmt.Fprintf(&sb, " old=%v conn=%v ", s.old != nil, s.standby.IsConnected())
	var rec []ha.SessionState
	for _, r := range s.standby.GetAllReceivedSessions() {
		rec = append(rec, *r)
	}
	dump("R", rec)
	fmt.Fprintf(&sb, "ph=%d pushed=%d nextVer=%d faults=%d overtaken=%d upserts=%d ticks=%d held=%v prev=%v attachAt=%d pend=[", s.phase, len(s.msgs), s.nextVer, s.faults, s.overtaken, s.upserts, s.ticks, s.rt.held != nil, s.prevPush != nil, s.attachAt)
	for _, m := range s.pending {
		fmt.Fprintf(&sb, "%d:%s:%s:%d,", m.n, m.typ, m.id, m.ver)
	}
	sb.WriteString("]")
	if s.rt.held != nil {
		// the response in flight is part of the state
		var snap ha.SyncMessage
		json.Unmarshal(s.rt.lastBody, &snap)
		sb.WriteString(" held-snapshot=" + strings.Join(sortedCanon(snap.Sessions), ";"))
	}
	sb.WriteString(" fly=[")
	for _, l := range s.undelivered() {
		var m ha.SyncMessage
		json.Unmarshal(frameData(l), &m)
		fmt.Fprintf(&sb, "%s:%d:", m.Type, m.SequenceNum)
		for _, x := range m.Sessions {
			fmt.Fprintf(&sb, "%s/%d", x.SessionID, x.BytesIn)
		}
		sb.WriteString(",")
	}
	sb.WriteString("] fates=[")
	// fates of the latest change per id matter to classification only; include them so that dedup never merges a classified with an unclassified history
	for i := 1; i <= s.c.ids; i++ {
		if m := s.lastMsgFor(sid(i)); m != nil {
			fmt.Fprintf(&sb, "%s:%s,", m.id, m.fate)
		}
	}
	sb.WriteString("]")
	// Internal state of both syncers that is not visible through the getters
	// above (registered stream clients, decoder scratch space, ...). Skipped:
	// config/client/server (constant or harness plumbing), stats (counters read
	// only by Stats()/handleHealth, never by the oracle), backoff (only paces
	// standbyLoop, which is replaced by explicit events).
	skip := map[string]bool{"HASyncer.config": true, "HASyncer.client": true, "HASyncer.server": true, "HASyncer.stats": true,
		"HASyncer.backoff": true, "HASyncer.backoffMin": true, "HASyncer.backoffMax": true}
	sb.WriteString("|A:" + deepdump.Dump(s.active, deepdump.Options{IgnoreTimes: true, SkipFields: skip}))
	sb.WriteString("|S:" + deepdump.Dump(s.standby, deepdump.Options{IgnoreTimes: true, SkipFields: skip}))
	return sb.String()
}

func (s *sys) Check() []explore.Viol {
	// queue mirrors must agree with the real queues
	if n := s.active.VerifC13PendingLen(); n != len(s.pending) {
		harnessError("pendingChanges has %d entries, mirror %d", n, len(s.pending))
	}
	// S3: attached, nothing queued or undelivered (so no active change later than what was delivered) => tables equal
	if s.phase == phAttached && len(s.pending) == 0 && len(s.undelivered()) == 0 && s.rt.held == nil {
		want, got := tableOf(s.aStore.GetAllSessions()), tableOf(s.sStore.GetAllSessions())
		if d := diffTables(want, got); d != "" {
			s.v("S3-quiescent-divergence", s.s3Site(want, got), "stream attached, nothing queued or in flight, but the standby's table differs from the active's: %s", d)
		}
		// S2 (completeness): every change pushed while this stream was attached has been applied
		for _, m := range s.msgs {
			if m.n > s.attachAt && !m.applied {
				s.v("S2-apply", "stream", "push %d (%s %s v%d) happened while the stream was attached and everything has been delivered, but it was never applied on the standby", m.n, m.typ, m.id, m.ver)
			}
		}
	}
	// teardown: every goroutine of the bubble must exit
	if s.phase == phAttached && !s.standby.IsConnected() {
		harnessError("model says attached but the standby reports IsConnected()=false")
	}
	if s.rt.held != nil {
		close(s.rt.held)
		synctest.Wait()
	}
	for _, st := range []*stream{s.cur, s.old, s.loopNew} {
		if st != nil {
			st.pw.Close()
			st.srvCancel()
		}
	}
	s.active.Stop()
	s.standby.Stop()
	synctest.Wait()
	return s.viols
}

// s3Site: "lost-in-sync-attach-gap" when, for every session that differs, the
// latest change the active pushed for it was taken off the queue by the
// broadcaster after the standby's full sync and before its stream was attached
// (so it was sent to zero clients). Anything else is "other".
func (s *sys) s3Site(want, got map[string]string) string {
	for _, id := range diffIDs(want, got) {
		m := s.lastMsgFor(id)
		if m == nil || m.fate != "no-client(gap)" {
			return "other"
		}
	}
	return "lost-in-sync-attach-gap"
}

func classify(v *report.Violation) {
	if v.Kind == "S3-quiescent-divergence" && v.Site == "lost-in-sync-attach-gap" {
		v.Class = "C13-change-lost-between-fullsync-and-attach"
	}
}

// Go 1.25.0 toolchain workaround (loop=true configuration only). Start() does
// WaitGroup.Add inside the bubble, which makes the runtime allocate a
// "bubble special" for the WaitGroup from a fixalloc WITHOUT taking
// mheap_.speciallock (runtime/synctest.go getOrSetBubbleSpecial), while the
// sweeper frees such specials under that lock. Concurrent bubbles therefore
// corrupt the allocator and the process dies with "WaitGroup.Add called from
// multiple synctest bubbles". So: Start() calls are serialised (startMu), the
// background collector is switched off while this configuration runs, and
// collections happen at points where no bubble is executing (gcGate).
var (
	startMu   sync.Mutex
	gcGate    sync.RWMutex
	loopExecs atomic.Int64
)

func gatedExec(t *testing.T) func(body func()) {
	return func(body func()) {
		gcGate.RLock()
		synctest.Test(t, func(*testing.T) { body() })
		gcGate.RUnlock()
		if loopExecs.Add(1)%1500 == 0 {
			gcGate.Lock()
			runtime.GC()
			gcGate.Unlock()
		}
	}
}

func models(t *testing.T, run *report.Run) []*explore.Model {
	ids, depth, nd := 3, 6, 4
	if run.Thorough() {
		ids, depth, nd = 4, 7, 4
	}
	var ms []*explore.Model
	// the attached start state is there for depth, not breadth: one id fewer
	for _, c := range []cfg{{ids: ids}, {ids: ids - 1, attached: true}, {ids: 2, loop: true}} {
		c := c
		d := depth
		if c.loop || (!c.attached && !run.Thorough()) {
			d-- // the real-loop configuration, and in the quick tier the widest (empty-start) configuration: one level shallower
		}
		ms = append(ms, &explore.Model{
			Name: "ha.HASyncer-pair", Config: fmt.Sprintf("ids=%d attached=%v loop=%v", c.ids, c.attached, c.loop),
			New:   func() explore.System { return newSys(c) },
			Depth: d, NoDedupDepth: nd, Classify: classify, Budget: 10 * time.Minute,
			Exec: func(body func()) { synctest.Test(t, func(*testing.T) { body() }) },
		})
		if c.loop {
			ms[len(ms)-1].Exec = gatedExec(t)
		}
	}
	return ms
}

func TestCheck(t *testing.T) {
	run := report.New("C13", "model_checking")
	run.Rule = "BFS over active Add/Update/Delete+PushChange, BroadcastOne, FullSync(+fault), Attach, Deliver, Detach on a real active/standby HASyncer pair joined in memory; S1 after every completed full sync, S2 on every delivery, S3 in every quiescent attached state"
	run.Assumptions = []string{
		"the session manager updates the active's store and then calls PushChange (one atomic step in the model)",
		"standbyLoop and broadcastLoop are replaced by explicit single-step events calling the same functions; performFullSync, connectToStream (own goroutine, frames gated by the harness), handleGetSessions and handleSessionStream are the real code",
		"at most one half-open old stream generation at a time",
		"loop=true configuration: the standby's real standbyLoop runs on synctest's virtual clock (FullSyncInterval 60s; RequestTimeout 24h so that the HTTP client timeout, which also bounds the stream, stays outside the explored horizon); the active side is still event-driven",
		"session tables are compared as JSON-canonical SessionState values",
	}
	ms := models(t, run)
	if *report.FlagReplay != "" {
		os.Exit(replay(run, ms))
	}
	for _, m := range ms {
		if run.WantPart(m.Name) {
			if strings.Contains(m.Config, "loop=true") {
				old := debug.SetGCPercent(-1) // see gatedExec
				m.Run(run)
				debug.SetGCPercent(old)
				continue
			}
			m.Run(run)
		}
	}
	runE2E(t, run)
	harnessErr.Lock()
	for _, m := range harnessErr.msgs {
		run.HarnessError(m)
	}
	harnessErr.Unlock()
	os.Exit(run.Finish())
}

func replay(run *report.Run, ms []*explore.Model) int {
	v, err := report.LoadReplay(*report.FlagReplay)
	if err != nil {
		fmt.Println("HARNESS-ERROR", err)
		return 2
	}
	for _, m := range ms {
		if strings.HasPrefix(v.Part, m.Name+"[") {
			var c cfg
			fmt.Sscanf(v.Config, "ids=%d attached=%t loop=%t", &c.ids, &c.attached, &c.loop)
			m.New = func() explore.System { return newSys(c) }
			vs, p := m.Replay(v.Trace)
			if p != "" {
				fmt.Printf("VIOLATION property=C13 replay=%s\n  panic: %s\n", *report.FlagReplay, p)
				return 1
			}
			for _, x := range vs {
				fmt.Printf("VIOLATION property=C13 replay=%s\n  kind=%s site=%s detail=%s\n", *report.FlagReplay, x.Kind, x.Site, x.Detail)
			}
			if len(vs) > 0 {
				return 1
			}
			fmt.Println("replay: no violation")
			return 0
		}
	}
	fmt.Println("HARNESS-ERROR unknown part", v.Part)
	return 2
}
