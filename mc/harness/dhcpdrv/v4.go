//go:build verif

// Package dhcpdrv drives the REAL DHCP servers of the repository in memory:
// packets are serialised, re-parsed (as server4 would) and handed to the
// unexported packet handler through the add-only seams in
// /verif/hooks/dhcp/c02.gosrc; replies are captured from a fake PacketConn.
// Shared by C02 (and meant for C03/C16).
package dhcpdrv

import (
	"fmt"
	"net"
	"sync"
	"sync/atomic"
	"time"

	"github.com/codelaboratoryltd/bng/pkg/dhcp"
	"github.com/codelaboratoryltd/bng/pkg/ebpf"
	"github.com/insomniacslk/dhcp/dhcpv4"
	"go.uber.org/zap"
)

// V4Config describes one server + one pool.
type V4Config struct {
	Network   string        // e.g. "10.0.1.0/29"
	Gateway   string        // e.g. "10.0.1.1" (also the server identifier unless ServerIP is set)
	ServerIP  string        // optional
	Lease     time.Duration // pool lease time
	NilLoader bool          // construct the server with a nil *ebpf.Loader instead of an unloaded one
	Loader    *ebpf.Loader  // optional: a loader prepared by the harness (e.g. with kernel maps injected); overrides NilLoader
	DNS       []string      // optional: DNS servers of the pool (default 8.8.8.8)
	// RADIUSAuth sets ServerConfig.RADIUSAuthEnabled (C16; the RADIUS client itself is attached in Setup).
	RADIUSAuth bool
	// Sleep advances time by d (inside a synctest bubble: time.Sleep + synctest.Wait).
	// nil = time.Sleep.
	Sleep func(d time.Duration)
	// Now returns the current (possibly virtual) time. nil = time.Now.
	Now func() time.Time
	// Setup is called with the freshly built server before any packet (attach QoS/NAT/RADIUS...).
	Setup func(s *dhcp.Server, pm *dhcp.PoolManager, p *dhcp.Pool)
}

// Msg is one client message. Zero fields are left out of the packet.
type Msg struct {
	Type      dhcpv4.MessageType
	CHAddr    []byte // chaddr; len(CHAddr) is hlen (0..16)
	CIAddr    net.IP
	ReqIP     net.IP // option 50
	ServerID  net.IP // option 54
	GIAddr    net.IP // set => relayed
	CircuitID string // option 82 sub-option 1
	RemoteID  string // option 82 sub-option 2
	XID       uint32
	Hostname  string
}

// Reply is one datagram the server wrote.
type Reply struct {
	Type   dhcpv4.MessageType
	YIAddr net.IP
	Dest   string
	Pkt    *dhcpv4.DHCPv4
}

func (r Reply) String() string {
	if r.YIAddr == nil || r.YIAddr.IsUnspecified() {
		return r.Type.String()
	}
	return r.Type.String() + " " + r.YIAddr.String()
}

// Lease is a read-only copy of a lease-table entry.
type Lease = dhcp.VerifLease

// V4 is one server instance.
type V4 struct {
	Cfg      V4Config
	Srv      *dhcp.Server
	PoolMgr  *dhcp.PoolManager
	Pool     *dhcp.Pool
	Loader   *ebpf.Loader
	Start    time.Time
	NextTick time.Time // next firing of the emulated one-minute cleanup ticker
	LastTick time.Time // zero until the first tick
	xid      uint32
}

// CleanupPeriod is the period of Server.leaseCleanup's ticker.
const CleanupPeriod = time.Minute

// NewV4 builds a fresh, fully independent server.
func NewV4(cfg V4Config) *V4 {
	lg := zap.NewNop()
	var loader *ebpf.Loader
	if cfg.Loader != nil {
		loader = cfg.Loader
	} else if !cfg.NilLoader {
		var err error
		loader, err = ebpf.NewLoader("lo", lg) // never Load()ed: every map call returns "not loaded"
		if err != nil {
			panic(err)
		}
	}
	pm := dhcp.NewPoolManager(loader, lg)
	dns := cfg.DNS
	if dns == nil {
		dns = []string{"8.8.8.8"}
	}
	p, err := dhcp.NewPool(dhcp.PoolConfig{ID: 1, Name: "p1", Network: cfg.Network, Gateway: cfg.Gateway,
		DNSServers: dns, LeaseTime: cfg.Lease, ClientClass: dhcp.ClientClassResidential})
	if err != nil {
		panic(err)
	}
	if err := pm.AddPool(p); err != nil {
		panic(err)
	}
	sip := cfg.ServerIP
	if sip == "" {
		sip = cfg.Gateway
	}
	s, err := dhcp.NewServer(dhcp.ServerConfig{Interface: "lo", ServerIP: net.ParseIP(sip), RADIUSAuthEnabled: cfg.RADIUSAuth}, loader, pm, lg)
	if err != nil {
		panic(err)
	}
	if cfg.Setup != nil {
		cfg.Setup(s, pm, p)
	}
	d := &V4{Cfg: cfg, Srv: s, PoolMgr: pm, Pool: p, Loader: loader}
	d.Start = d.now()
	d.NextTick = d.Start.Add(CleanupPeriod)
	return d
}

func (d *V4) now() time.Time {
	if d.Cfg.Now != nil {
		return d.Cfg.Now()
	}
	return time.Now()
}

// ServerIP returns the server identifier.
func (d *V4) ServerIP() net.IP {
	if d.Cfg.ServerIP != "" {
		return net.ParseIP(d.Cfg.ServerIP).To4()
	}
	return net.ParseIP(d.Cfg.Gateway).To4()
}

type captureConn struct {
	mu   sync.Mutex
	pkts []captured
}

type captured struct {
	b    []byte
	dest string
}

func (c *captureConn) ReadFrom(p []byte) (int, net.Addr, error) { return 0, nil, net.ErrClosed }
func (c *captureConn) WriteTo(p []byte, a net.Addr) (int, error) {
	c.mu.Lock()
	c.pkts = append(c.pkts, captured{append([]byte(nil), p...), a.String()})
	c.mu.Unlock()
	return len(p), nil
}
func (c *captureConn) Close() error                       { return nil }
func (c *captureConn) LocalAddr() net.Addr                { return &net.UDPAddr{IP: net.IPv4zero, Port: 67} }
func (c *captureConn) SetDeadline(t time.Time) error      { return nil }
func (c *captureConn) SetReadDeadline(t time.Time) error  { return nil }
func (c *captureConn) SetWriteDeadline(t time.Time) error { return nil }

// Build serialises m and parses it back exactly as server4.Serve does.
func (d *V4) Build(m Msg) (*dhcpv4.DHCPv4, error) {
	p, err := dhcpv4.New()
	if err != nil {
		return nil, err
	}
	dx := atomic.AddUint32(&d.xid, 1)
	xid := m.XID
	if xid == 0 {
		xid = dx
	}
	p.TransactionID = dhcpv4.TransactionID{byte(xid >> 24), byte(xid >> 16), byte(xid >> 8), byte(xid)}
	p.OpCode = dhcpv4.OpcodeBootRequest
	p.HWType = 1
	p.ClientHWAddr = append(net.HardwareAddr(nil), m.CHAddr...)
	if m.CIAddr != nil {
		p.ClientIPAddr = m.CIAddr.To4()
	}
	if m.GIAddr != nil {
		p.GatewayIPAddr = m.GIAddr.To4()
	}
	p.UpdateOption(dhcpv4.OptMessageType(m.Type))
	if m.ReqIP != nil {
		p.UpdateOption(dhcpv4.OptRequestedIPAddress(m.ReqIP.To4()))
	}
	if m.ServerID != nil {
		p.UpdateOption(dhcpv4.OptServerIdentifier(m.ServerID.To4()))
	}
	if m.Hostname != "" {
		p.UpdateOption(dhcpv4.OptHostName(m.Hostname))
	}
	if m.CircuitID != "" || m.RemoteID != "" {
		var o []byte
		if m.CircuitID != "" {
			o = append(o, 1, byte(len(m.CircuitID)))
			o = append(o, m.CircuitID...)
		}
		if m.RemoteID != "" {
			o = append(o, 2, byte(len(m.RemoteID)))
			o = append(o, m.RemoteID...)
		}
		p.UpdateOption(dhcpv4.Option{Code: dhcpv4.OptionRelayAgentInformation, Value: dhcpv4.OptionGeneric{Data: o}})
	}
	return dhcpv4.FromBytes(p.ToBytes())
}

// Send delivers one client message to the packet handler (synchronously, in the
// calling goroutine) and returns the datagrams the server wrote in response.
func (d *V4) Send(m Msg) []Reply {
	req, err := d.Build(m)
	if err != nil {
		panic(fmt.Sprintf("dhcpdrv: cannot build %+v: %v", m, err))
	}
	return d.Deliver(req)
}

// Deliver hands an already parsed packet to the handler.
func (d *V4) Deliver(req *dhcpv4.DHCPv4) []Reply {
	conn := &captureConn{}
	var peer net.Addr = &net.UDPAddr{IP: net.IPv4bcast, Port: 68}
	if ci := req.ClientIPAddr; ci != nil && !ci.IsUnspecified() {
		peer = &net.UDPAddr{IP: ci, Port: 68}
	}
	if gi := req.GatewayIPAddr; gi != nil && !gi.IsUnspecified() {
		peer = &net.UDPAddr{IP: gi, Port: 67}
	}
	d.Srv.VerifHandlePacket(conn, peer, req)
	var out []Reply
	for _, c := range conn.pkts {
		r, err := dhcpv4.FromBytes(c.b)
		if err != nil {
			out = append(out, Reply{Type: dhcpv4.MessageTypeNone, Dest: c.dest})
			continue
		}
		out = append(out, Reply{Type: r.MessageType(), YIAddr: r.YourIPAddr, Dest: c.dest, Pkt: r})
	}
	return out
}

// Leases returns the server's lease table (copy, sorted by key).
func (d *V4) Leases() []Lease { return d.Srv.VerifLeaseTable() }

// Cleanup runs one pass of the expiry cleanup now.
func (d *V4) Cleanup() {
	d.LastTick = d.now()
	d.Srv.VerifCleanupExpired()
}

// Advance lets dur pass; the server's one-minute cleanup ticker (started with the
// server) is emulated faithfully: the cleanup runs at Start+k*60s for every k
// crossed, with the clock standing at that instant.
func (d *V4) Advance(dur time.Duration) {
	sleep := d.Cfg.Sleep
	if sleep == nil {
		sleep = time.Sleep
	}
	target := d.now().Add(dur)
	for !d.NextTick.After(target) {
		if w := d.NextTick.Sub(d.now()); w > 0 {
			sleep(w)
		}
		d.Cleanup()
		d.NextTick = d.NextTick.Add(CleanupPeriod)
	}
	if w := target.Sub(d.now()); w > 0 {
		sleep(w)
	}
}
