//go:build verif

package dhcpdrv

import (
	"fmt"
	"net"
	"os"
	"sync"
	"sync/atomic"
	"syscall"

	"github.com/codelaboratoryltd/bng/pkg/allocator"
	"github.com/codelaboratoryltd/bng/pkg/dhcpv6"
	"go.uber.org/zap"
	"golang.org/x/sys/unix"
)

// V6Config describes one DHCPv6 server.
type V6Config struct {
	AddressPool      string // CIDR ("" = none)
	PrefixPool       string // CIDR ("" = none)
	DelegationLength uint8
	Preferred, Valid uint32
	// Integrated: use allocator.PoolAllocator instances (AddressPool with /128 units,
	// PrefixPool with DelegationLength units) instead of the legacy pools.
	Integrated bool
}

// V6 is one server instance. The server writes its responses to a real
// *net.UDPConn (the field has that concrete type); the driver gives it a
// loopback socket and reads what arrives on a private 127.x.y.z:546 receiver with
// a single non-blocking recvfrom, so nothing ever blocks (safe inside a synctest
// bubble; loopback UDP delivery is synchronous).
type V6 struct {
	Cfg       V6Config
	Srv       *dhcpv6.Server
	AddrAlloc *allocator.PoolAllocator
	PfxAlloc  *allocator.PoolAllocator
	srvConn   *net.UDPConn
	rcv       *net.UDPConn
	peer      *net.UDPAddr
	xid       uint32
}

var v6seq atomic.Uint32

func init() { v6seq.Store(uint32(os.Getpid()) * 7919) }

// NewV6 builds a fresh, independent server.
func NewV6(cfg V6Config) *V6 {
	lg := zap.NewNop()
	sc := dhcpv6.ServerConfig{Interface: "lo", PreferredLifetime: cfg.Preferred, ValidLifetime: cfg.Valid}
	d := &V6{Cfg: cfg}
	if cfg.Integrated {
		store := allocator.NewMemoryAllocationStore()
		sc.AllocationStore = store
		if cfg.AddressPool != "" {
			a, err := allocator.NewPoolAllocatorWithType(allocator.PoolAllocatorConfig{PoolID: "v6addr", BaseNetwork: cfg.AddressPool, PrefixLength: 128, PoolType: allocator.PoolTypeIPv6Address, Store: store})
			if err != nil {
				panic(err)
			}
			sc.AddressAllocator, d.AddrAlloc = a, a
		}
		if cfg.PrefixPool != "" {
			a, err := allocator.NewPoolAllocatorWithType(allocator.PoolAllocatorConfig{PoolID: "v6pd", BaseNetwork: cfg.PrefixPool, PrefixLength: int(cfg.DelegationLength), PoolType: allocator.PoolTypeIPv6Prefix, Store: store})
			if err != nil {
				panic(err)
			}
			sc.PrefixAllocator, d.PfxAlloc = a, a
		}
	} else {
		sc.AddressPool, sc.PrefixPool, sc.DelegationLength = cfg.AddressPool, cfg.PrefixPool, cfg.DelegationLength
	}
	s, err := dhcpv6.NewServer(sc, lg)
	if err != nil {
		panic(err)
	}
	d.Srv = s
	d.srvConn, d.rcv, d.peer = getSockets()
	s.VerifSetConn(d.srvConn)
	return d
}

// Close returns the sockets to the free list (they carry no state once drained).
func (d *V6) Close() {
	if d.srvConn != nil {
		d.drain()
		d.Srv.VerifSetConn(nil)
		sockMu.Lock()
		sockFree = append(sockFree, sockPair{d.srvConn, d.rcv, d.peer})
		sockMu.Unlock()
		d.srvConn, d.rcv = nil, nil
	}
}

type sockPair struct {
	srv, rcv *net.UDPConn
	peer     *net.UDPAddr
}

var (
	sockMu   sync.Mutex
	sockFree []sockPair
)

// getSockets returns a (server socket, private receiver on 127.x.y.z:546, peer address) triple,
// reusing closed instances' sockets: every explored state builds a fresh server, and creating
// two sockets per state would dominate the run time.
func getSockets() (*net.UDPConn, *net.UDPConn, *net.UDPAddr) {
	sockMu.Lock()
	if n := len(sockFree); n > 0 {
		p := sockFree[n-1]
		sockFree = sockFree[:n-1]
		sockMu.Unlock()
		return p.srv, p.rcv, p.peer
	}
	sockMu.Unlock()
	srv, err := net.ListenUDP("udp4", &net.UDPAddr{IP: net.IPv4(127, 0, 0, 1)})
	if err != nil {
		panic(err)
	}
	for try := 0; ; try++ {
		n := v6seq.Add(1)
		ip := net.IPv4(127, byte(1+(n>>16)%250), byte(n>>8), byte(n))
		rcv, err := net.ListenUDP("udp4", &net.UDPAddr{IP: ip, Port: dhcpv6.DHCPv6ClientPort})
		if err == nil {
			return srv, rcv, &net.UDPAddr{IP: ip, Port: 40000}
		}
		if try > 1000 {
			panic(fmt.Sprintf("dhcpdrv: cannot bind a private loopback receiver on port 546: %v", err))
		}
	}
}

// ServerDUID returns the server's serialized DUID.
func (d *V6) ServerDUID() []byte { return d.Srv.VerifServerDUID() }

// Leases returns the lease table (copy).
func (d *V6) Leases() []dhcpv6.VerifLease { return d.Srv.VerifLeaseTable() }

// Send serialises m, parses it back as receiveLoop does, calls the handler
// synchronously and returns every response datagram (parsed).
func (d *V6) Send(m *dhcpv6.Message) []*dhcpv6.Message {
	d.xid++
	m.TransactionID = [3]byte{byte(d.xid >> 16), byte(d.xid >> 8), byte(d.xid)}
	p, err := dhcpv6.ParseMessage(m.Serialize())
	if err != nil {
		panic(fmt.Sprintf("dhcpdrv: unparsable v6 message: %v", err))
	}
	d.Srv.VerifHandleMessage(p, d.peer)
	return d.drain()
}

// marker is a datagram the driver itself sends through the server socket after the
// handler returned: everything the handler wrote is queued before it, so reading up to
// the marker collects exactly the handler's responses even if the kernel defers
// loopback delivery to ksoftirqd under load (a missed response would look like silence).
var marker = []byte("\xffverif-c02-marker")

func (d *V6) drain() []*dhcpv6.Message {
	var out []*dhcpv6.Message
	rc, err := d.rcv.SyscallConn()
	if err != nil {
		panic(err)
	}
	if _, err := d.srvConn.WriteToUDP(marker, &net.UDPAddr{IP: d.peer.IP, Port: dhcpv6.DHCPv6ClientPort}); err != nil {
		panic(fmt.Sprintf("dhcpdrv: cannot send loopback marker: %v", err))
	}
	buf := make([]byte, 4096)
	sawMarker := false
	for waits := 0; ; {
		n := -1
		var fdv int
		rc.Read(func(fd uintptr) bool {
			fdv = int(fd)
			k, _, e := syscall.Recvfrom(fdv, buf, syscall.MSG_DONTWAIT)
			if e == nil {
				n = k
			}
			return true // never park the goroutine (not durably blocking inside a bubble)
		})
		if n < 0 {
			if sawMarker {
				return out
			}
			// not delivered yet: wait in real time on the descriptor (blocks this OS thread only)
			if waits++; waits > 50 {
				panic("dhcpdrv: HARNESS failure: loopback marker datagram not received within 5 s")
			}
			pfd := []unix.PollFd{{Fd: int32(fdv), Events: unix.POLLIN}}
			unix.Poll(pfd, 100)
			continue
		}
		if string(buf[:n]) == string(marker) {
			sawMarker = true // one more non-blocking pass catches a response reordered behind the marker
			continue
		}
		r, err := dhcpv6.ParseMessage(buf[:n])
		if err != nil {
			out = append(out, &dhcpv6.Message{Type: 0})
			continue
		}
		out = append(out, r)
	}
}
