// C15 — CoA and Disconnect requests are acted on only if authentic.
//
// Bounded-exhaustive input enumeration (level "exploration") against the REAL
// CoA/Disconnect listener: radius.CoAServer's receive loop with the real
// radius.CoAProcessor installed as CoA/Disconnect handler. Every stimulus is one
// UDP datagram sent over loopback; after it the harness sends a known-good FENCE
// request on the same socket pair and reads until the fence's reply, so "no
// response" is decided by FIFO order, never by a timeout. The listener loop runs
// through the add-only seam VerifCoAServe in a goroutine owned by the harness,
// so a panic of the listener is recovered and attributed to the datagram.
//
// Oracle: an independent reference predicate written here from RFC 2865 §3,
// RFC 2866 §3 (request authenticator) and RFC 5176 §2.3/§3:
//
//	authentic(d) := len(d) >= 20 && 20 <= L <= min(len(d),4096) where L = d[2:4]
//	             && MD5(d[0:4] ++ 0^16 ++ d[20:L] ++ secret) == d[4:20]
//	             && d[20:L] is a sequence of well-formed TLVs (len>=2, exact fit)
//	             && d[0] in {40 Disconnect-Request, 43 CoA-Request}
//
// handler invoked and one response sent  <=>  authentic(d); the response carries
// d's identifier, a code of the request's family (41/42 for 40, 44/45 for 43,
// ACK iff the handler reported success), its length field equals its size and
// its Response Authenticator is MD5(code,id,len ++ d[4:20] ++ attrs ++ secret).
// Otherwise nothing is sent, no handler or session callback runs. A panic of
// the listener is a violation.
package c15

import (
	"bytes"
	"context"
	"crypto/md5"
	"encoding/binary"
	"encoding/hex"
	"fmt"
	"net"
	"os"
	"runtime"
	"sort"
	"strings"
	"sync"
	"sync/atomic"
	"testing"
	"time"

	"github.com/codelaboratoryltd/bng/pkg/radius"
	"go.uber.org/zap"
	"go.uber.org/zap/zapcore"

	"verif/report"
)

// ---------------------------------------------------------------- reference side

type attr struct {
	T byte
	V []byte
}

func encodeAttrs(as []attr) []byte {
	var b []byte
	for _, a := range as {
		b = append(b, a.T, byte(2+len(a.V)))
		b = append(b, a.V...)
	}
	return b
}

// reqAuth computes the RFC 2866/5176 request authenticator of p over its first
// `end` bytes.
func reqAuth(p []byte, end int, secret []byte) [16]byte {
	h := md5.New()
	h.Write(p[:4])
	h.Write(make([]byte, 16))
	if end > 20 {
		h.Write(p[20:end])
	}
	h.Write(secret)
	var out [16]byte
	copy(out[:], h.Sum(nil))
	return out
}

// resign recomputes the authenticator of p (len>=20) over the bytes its own
// length field covers; when the length field is not usable (<20 or beyond the
// datagram) the whole datagram is covered ("all") or exactly the header ("hdr").
func resign(p []byte, secret []byte, fallbackAll bool) {
	L := int(binary.BigEndian.Uint16(p[2:4]))
	end := L
	if L < 20 || L > len(p) {
		if fallbackAll {
			end = len(p)
		} else {
			end = 20
		}
	}
	a := reqAuth(p, end, secret)
	copy(p[4:20], a[:])
}

func buildRequest(code, id byte, as []attr, secret []byte) []byte {
	ab := encodeAttrs(as)
	p := make([]byte, 20+len(ab))
	p[0], p[1] = code, id
	binary.BigEndian.PutUint16(p[2:4], uint16(len(p)))
	copy(p[20:], ab)
	resign(p, secret, true)
	return p
}

// verdict of the reference predicate.
type verdict struct {
	OK    bool
	Stage string // why not: short | len<20 | len>n | len>4096 | auth | tlv | code ; "ok"
	Code  byte
	ID    byte
	Attrs []attr
}

func reference(d []byte, secret []byte) verdict {
	if len(d) < 20 {
		return verdict{Stage: "short"}
	}
	L := int(binary.BigEndian.Uint16(d[2:4]))
	if L < 20 {
		return verdict{Stage: "len<20"}
	}
	if L > len(d) {
		return verdict{Stage: "len>n"}
	}
	if L > 4096 {
		return verdict{Stage: "len>4096"}
	}
	want := reqAuth(d, L, secret)
	if !bytes.Equal(want[:], d[4:20]) {
		return verdict{Stage: "auth"}
	}
	var as []attr
	for off := 20; off < L; {
		if off+2 > L {
			return verdict{Stage: "tlv"}
		}
		al := int(d[off+1])
		if al < 2 || off+al > L {
			return verdict{Stage: "tlv"}
		}
		as = append(as, attr{d[off], append([]byte{}, d[off+2:off+al]...)})
		off += al
	}
	if d[0] != 40 && d[0] != 43 {
		return verdict{Stage: "code"}
	}
	return verdict{OK: true, Stage: "ok", Code: d[0], ID: d[1], Attrs: as}
}

func lastAttr(as []attr, t byte) (string, bool) {
	s, ok := "", false
	for _, a := range as {
		if a.T == t {
			s, ok = string(a.V), true
		}
	}
	return s, ok
}

// ---------------------------------------------------------------- environment

type call struct {
	Kind    string // "coa" | "dm"
	Session string
	User    string
	Attrs   []attr // coa only
	Success bool
}

// event is one entry of the in-order log of everything the listener did.
type event struct {
	Call   *call
	Effect string
	Panic  string
}

type env struct {
	secret []byte
	srv    *radius.CoAServer
	sconn  *net.UDPConn
	cconn  *net.UDPConn
	ctx    context.Context
	cancel context.CancelFunc

	mu     sync.Mutex
	log    []event
	srvLog []string // non-Info messages logged by the listener (self-test only)
	prev   [][]byte // datagrams of the previous batch (context of a mis-answered fence)

	fenceN   uint64
	stopped  atomic.Bool
	rbuf     []byte
	watchdog time.Duration
}

type audit struct{ e *env }

func (a audit) LogCoARequest(req *radius.CoARequest, resp *radius.CoAResponse, _ time.Duration) {
	c := &call{Kind: "coa", Session: req.SessionID, User: req.Username, Success: resp.Success}
	for _, x := range req.Attributes {
		c.Attrs = append(c.Attrs, attr{x.Type, append([]byte{}, x.Value...)})
	}
	a.e.mu.Lock()
	a.e.log = append(a.e.log, event{Call: c})
	a.e.mu.Unlock()
}

func (a audit) LogDisconnectRequest(req *radius.DisconnectRequest, resp *radius.DisconnectResponse, _ time.Duration) {
	a.e.mu.Lock()
	a.e.log = append(a.e.log, event{Call: &call{Kind: "dm", Session: req.SessionID, User: req.Username, Success: resp.Success}})
	a.e.mu.Unlock()
}

const liveSession = "sess-1"

// slowSession: a live session whose lookup takes handlerDelay of real time. The listener's socket is a
// concrete *net.UDPConn whose deadlines run on the real clock, so "the handler is slow" can only be
// produced with real elapsed time. The delay is part of the STIMULUS; the verdict (reply or no reply)
// is still decided by fence order, never by a timeout, and on a correct listener a longer delay (load)
// cannot change it.
const slowSession = "sess-slow"

var handlerDelay = 2500 * time.Millisecond

// logCore is a zap core that keeps the messages the listener logs (no encoding,
// no output). Only the self-test reads it: when a lone valid request gets no
// reply at all, the listener's own statement that it rejected the datagram
// ("Invalid authenticator", ...) is positive evidence of a violation, where the
// mere absence of a reply within the watchdog would only be a harness error.
type logCore struct{ e *env }

func (c logCore) Enabled(zapcore.Level) bool        { return true }
func (c logCore) With([]zapcore.Field) zapcore.Core { return c }
func (c logCore) Sync() error                       { return nil }
func (c logCore) Check(ent zapcore.Entry, ce *zapcore.CheckedEntry) *zapcore.CheckedEntry {
	if ent.Level >= zapcore.DebugLevel && ent.Level != zapcore.InfoLevel {
		return ce.AddCore(ent, c)
	}
	return ce
}
func (c logCore) Write(ent zapcore.Entry, _ []zapcore.Field) error {
	c.e.mu.Lock()
	if len(c.e.srvLog) < 64 {
		c.e.srvLog = append(c.e.srvLog, ent.Message)
	}
	c.e.mu.Unlock()
	return nil
}

func newEnv(secret []byte) (*env, error) {
	e := &env{secret: secret, rbuf: make([]byte, 8192), watchdog: watchdog}
	srv, err := radius.NewCoAServer(radius.CoAServerConfig{Address: "127.0.0.1:0", Secret: string(secret)}, zap.New(logCore{e}))
	if err != nil {
		return nil, err
	}
	e.srv = srv
	proc := radius.NewCoAProcessor(zap.NewNop())
	proc.SetSessionLookup(func(id string) (*radius.SessionInfo, bool) {
		e.effect("lookup-id:" + id)
		if id == liveSession {
			return &radius.SessionInfo{SessionID: liveSession, Username: "alice"}, true
		}
		if id == slowSession {
			time.Sleep(handlerDelay)
			return &radius.SessionInfo{SessionID: slowSession, Username: "alice"}, true
		}
		return nil, false
	})
	proc.SetSessionLookupByIP(func(ip net.IP) (*radius.SessionInfo, bool) {
		e.effect("lookup-ip")
		return nil, false
	})
	proc.SetSessionLookupByMAC(func(mac string) (*radius.SessionInfo, bool) {
		e.effect("lookup-mac")
		return nil, false
	})
	proc.SetSessionTerminator(func(ctx context.Context, id string, reason uint32) error {
		e.effect("terminate:" + id)
		return nil
	})
	proc.SetSessionPolicyUpdater(func(ctx context.Context, id string, u *radius.PolicyUpdate) error {
		e.effect("policy:" + id + ":" + u.FilterID)
		return nil
	})
	proc.SetAuditLogger(audit{e})
	srv.SetCoAHandler(proc.HandleCoA)
	srv.SetDisconnectHandler(proc.HandleDisconnect)

	e.sconn, err = net.ListenUDP("udp4", &net.UDPAddr{IP: net.IPv4(127, 0, 0, 1)})
	if err != nil {
		return nil, err
	}
	e.cconn, err = net.DialUDP("udp4", nil, e.sconn.LocalAddr().(*net.UDPAddr))
	if err != nil {
		return nil, err
	}
	e.sconn.SetReadBuffer(1 << 20)
	e.cconn.SetReadBuffer(1 << 20)
	e.ctx, e.cancel = context.WithCancel(context.Background())
	// The real receive loop, in a goroutine owned by the harness: a panic is
	// recovered, logged in order with everything else the listener did, and the
	// loop is entered again (datagrams still queued on the socket are then served).
	go func() {
		for !e.stopped.Load() {
			func() {
				defer func() {
					if r := recover(); r != nil {
						buf := make([]byte, 2048)
						n := runtime.Stack(buf, false)
						e.mu.Lock()
						e.log = append(e.log, event{Panic: fmt.Sprintf("%v\n%s", r, buf[:n])})
						e.mu.Unlock()
					}
				}()
				e.srv.VerifCoAServe(e.ctx, e.sconn)
			}()
		}
	}()
	return e, nil
}

func (e *env) effect(s string) {
	e.mu.Lock()
	e.log = append(e.log, event{Effect: s})
	e.mu.Unlock()
}

func (e *env) close() {
	e.stopped.Store(true)
	e.cancel()
	e.srv.Stop()
	e.cconn.Close()
}

type observation struct {
	Responses [][]byte
	Calls     []call
	Effects   []string
	Panic     string
}

// errStop: a verdict was reported that makes further fencing impossible; the run ends (not a harness fault).
var errStop = fmt.Errorf("stop")

var errWatchdog = fmt.Errorf("fence reply not seen within the watchdog interval")

const fenceTag = "\xfeFENCE\xfe"

const watchdog = 90 * time.Second

// run sends each datagram followed by its own fence (a known-good
// Disconnect-Request with a unique session id, hence a unique authenticator),
// then reads until the last fence's reply. The listener serves one datagram at
// a time, so replies and log entries between fence i-1 and fence i belong to
// stimulus i: attribution is by FIFO order only. The watchdog deadline can only
// turn into a harness error, never into a verdict.
// fenceErr: a datagram came back that carries the identifier of the valid request (fence) the harness
// is waiting for - not that of the stimulus before it - and does not verify against it. Whichever of
// the two requests it answers, it is a response without the request's identifier or without a
// verifying Response Authenticator. After it replies can no longer be attributed, so the run stops.
type fenceErr struct {
	idx      int
	reply    []byte
	fence    []byte
	sequence [][]byte // everything sent in the previous and the current batch up to that fence
}

func (f *fenceErr) Error() string {
	return "a valid request was answered with a reply that does not verify against it (reported as violation)"
}

func (e *env) run(ds [][]byte) ([]observation, error) { return e.runMode(ds, false) }

// runLoose: one stimulus and its fence, attribution without order: everything the listener logged that
// is not the fence's belongs to the stimulus. Used only after batch attribution failed, i.e. when the
// listener turned out not to serve datagrams one at a time.
func (e *env) runLoose(d []byte) (observation, error) {
	o, err := e.runMode([][]byte{d}, true)
	return o[0], err
}

func (e *env) runMode(ds [][]byte, loose bool) ([]observation, error) {
	obs := make([]observation, len(ds))
	e.mu.Lock()
	e.log = e.log[:0]
	e.mu.Unlock()
	fences := make([][]byte, len(ds))
	fsess := make([]string, len(ds))
	for i, d := range ds {
		if d != nil {
			if _, err := e.cconn.Write(d); err != nil {
				return obs, fmt.Errorf("send stimulus: %w", err)
			}
		}
		e.fenceN++
		fid := byte(0x5a)
		if len(d) >= 2 {
			fid = d[1] ^ 0x80
		}
		fsess[i] = fmt.Sprintf("%s%016x", fenceTag, e.fenceN)
		fences[i] = buildRequest(40, fid, []attr{{44, []byte(fsess[i])}}, e.secret)
		if _, err := e.cconn.Write(fences[i]); err != nil {
			return obs, fmt.Errorf("send fence: %w", err)
		}
	}
	e.cconn.SetReadDeadline(time.Now().Add(e.watchdog))
	for cur := 0; cur < len(ds); {
		n, err := e.cconn.Read(e.rbuf)
		if err != nil {
			if ne, ok := err.(net.Error); ok && ne.Timeout() {
				return obs, errWatchdog
			}
			return obs, fmt.Errorf("read: %w", err)
		}
		r := append([]byte{}, e.rbuf[:n]...)
		if isResponseTo(r, fences[cur], e.secret) {
			cur++
			continue
		}
		if len(r) >= 20 && r[1] == fences[cur][1] && (len(ds[cur]) < 2 || ds[cur][1] != r[1]) {
			fe := &fenceErr{idx: cur, reply: r, fence: fences[cur], sequence: append([][]byte{}, e.prev...)}
			for i := 0; i <= cur; i++ {
				if ds[i] != nil {
					fe.sequence = append(fe.sequence, ds[i])
				}
				fe.sequence = append(fe.sequence, fences[i])
			}
			return obs, fe
		}
		obs[cur].Responses = append(obs[cur].Responses, r)
	}
	e.prev = e.prev[:0]
	for i := range ds {
		if ds[i] != nil {
			e.prev = append(e.prev, ds[i])
		}
		e.prev = append(e.prev, fences[i])
	}
	// the last fence's handler has completed (its reply was sent after it): the log is complete
	e.mu.Lock()
	defer e.mu.Unlock()
	if loose {
		for _, ev := range e.log {
			switch {
			case ev.Call != nil && ev.Call.Session != fsess[0]:
				obs[0].Calls = append(obs[0].Calls, *ev.Call)
			case ev.Effect != "" && !strings.HasPrefix(ev.Effect, "lookup-id:"+fenceTag):
				obs[0].Effects = append(obs[0].Effects, ev.Effect)
			case ev.Panic != "":
				obs[0].Panic = ev.Panic
			}
		}
		return obs, nil
	}
	cur := 0
	for _, ev := range e.log {
		switch {
		case ev.Call != nil:
			if cur < len(ds) && ev.Call.Session == fsess[cur] {
				cur++
				continue
			}
			if cur >= len(ds) {
				return obs, fmt.Errorf("listener log continues after the last fence")
			}
			obs[cur].Calls = append(obs[cur].Calls, *ev.Call)
		case ev.Effect != "":
			if strings.HasPrefix(ev.Effect, "lookup-id:"+fenceTag) {
				continue // a fence's own failed session lookup
			}
			if cur >= len(ds) {
				return obs, fmt.Errorf("listener log continues after the last fence")
			}
			obs[cur].Effects = append(obs[cur].Effects, ev.Effect)
		case ev.Panic != "":
			if cur >= len(ds) {
				return obs, fmt.Errorf("listener panic after the last fence")
			}
			obs[cur].Panic = ev.Panic
		}
	}
	if cur != len(ds) {
		return obs, fmt.Errorf("only %d of %d fence handler invocations logged", cur, len(ds))
	}
	return obs, nil
}

func (e *env) run1(d []byte) (observation, error) {
	o, err := e.run([][]byte{d})
	return o[0], err
}

func respAuthOK(r, req []byte, secret []byte) bool {
	if len(r) < 20 || len(req) < 20 {
		return false
	}
	h := md5.New()
	h.Write(r[:4])
	h.Write(req[4:20])
	h.Write(r[20:])
	h.Write(secret)
	return bytes.Equal(h.Sum(nil), r[4:20])
}

func isResponseTo(r, req []byte, secret []byte) bool {
	return len(r) >= 20 && r[1] == req[1] && respAuthOK(r, req, secret)
}

// ---------------------------------------------------------------- oracle

type viol struct{ Kind, Detail string }

func judge(d []byte, secret []byte, obs observation) (verdict, []viol) {
	ref := reference(d, secret)
	var vs []viol
	add := func(k, f string, a ...any) { vs = append(vs, viol{k, fmt.Sprintf(f, a...)}) }
	if obs.Panic != "" {
		add("listener-panic", "listener goroutine panicked on a %d-byte datagram (reference: %s): %s", len(d), ref.Stage, firstLines(obs.Panic, 6))
		return ref, vs
	}
	if !ref.OK {
		if len(obs.Calls) > 0 || len(obs.Effects) > 0 {
			add("acted-on-unauthentic", "datagram rejected by the reference predicate at stage %q but handler calls=%v session callbacks=%v", ref.Stage, obs.Calls, obs.Effects)
		}
		if len(obs.Responses) > 0 {
			add("answered-unauthentic", "datagram rejected by the reference predicate at stage %q but %d response(s) sent, first=%s", ref.Stage, len(obs.Responses), hex.EncodeToString(obs.Responses[0]))
		}
		return ref, vs
	}
	want := "coa"
	if ref.Code == 40 {
		want = "dm"
	}
	if len(obs.Calls) != 1 {
		add("authentic-not-handled", "authentic %s request: %d handler invocations (want exactly 1): %v", want, len(obs.Calls), obs.Calls)
	} else {
		c := obs.Calls[0]
		sess, _ := lastAttr(ref.Attrs, 44)
		user, _ := lastAttr(ref.Attrs, 1)
		if c.Kind != want {
			add("wrong-handler", "authentic request with code %d was given to the %q handler", ref.Code, c.Kind)
		}
		if c.Session != sess || c.User != user {
			add("handler-content", "handler saw session=%q user=%q, authenticated attributes say session=%q user=%q", c.Session, c.User, sess, user)
		}
		if c.Kind == "coa" && !sameAttrs(c.Attrs, ref.Attrs) {
			add("handler-content", "handler saw attributes %v, authenticated attributes are %v", c.Attrs, ref.Attrs)
		}
	}
	if len(obs.Responses) != 1 {
		add("authentic-not-answered", "authentic %s request: %d responses (want exactly 1)", want, len(obs.Responses))
		return ref, vs
	}
	r := obs.Responses[0]
	if len(r) < 20 {
		add("bad-response", "response of %d bytes", len(r))
		return ref, vs
	}
	if r[1] != ref.ID {
		add("bad-response", "response identifier %d, request identifier %d", r[1], ref.ID)
	}
	ack, nak := byte(44), byte(45)
	if ref.Code == 40 {
		ack, nak = 41, 42
	}
	if r[0] != ack && r[0] != nak {
		add("bad-response", "response code %d to request code %d", r[0], ref.Code)
	} else if len(obs.Calls) == 1 && (r[0] == ack) != obs.Calls[0].Success {
		add("bad-response", "response code %d but handler success=%v", r[0], obs.Calls[0].Success)
	}
	if int(binary.BigEndian.Uint16(r[2:4])) != len(r) {
		add("bad-response", "response length field %d, datagram size %d", binary.BigEndian.Uint16(r[2:4]), len(r))
	}
	if !respAuthOK(r, d, secret) {
		add("bad-response", "Response Authenticator does not verify against the request (response %s)", hex.EncodeToString(r))
	}
	// an ACK must be backed by the session-changing callback, a NAK by none
	changed := false
	for _, x := range obs.Effects {
		if strings.HasPrefix(x, "terminate:") || strings.HasPrefix(x, "policy:") {
			changed = true
		}
	}
	if (r[0] == ack) != changed {
		add("bad-response", "response code %d but session callbacks were %v", r[0], obs.Effects)
	}
	return ref, vs
}

func sameAttrs(a, b []attr) bool {
	if len(a) != len(b) {
		return false
	}
	for i := range a {
		if a[i].T != b[i].T || !bytes.Equal(a[i].V, b[i].V) {
			return false
		}
	}
	return true
}

func firstLines(s string, n int) string {
	l := strings.Split(s, "\n")
	if len(l) > n {
		l = l[:n]
	}
	return strings.Join(l, " | ")
}

// ---------------------------------------------------------------- generators

type seed struct {
	name   string
	code   byte
	id     byte
	attrs  []attr
	secret int
	full   bool // complete 0..65535 length-field sweep (otherwise the reduced one)
}

var secrets = [][]byte{
	[]byte("s"),
	[]byte("0123456789abcdef"),
	func() []byte {
		b := make([]byte, 64)
		for i := range b {
			b[i] = byte(i * 7)
			if i%5 == 0 {
				b[i] = 0
			}
		}
		b[63] = 0 // leading and trailing NUL: a secret is a byte string, not a C string
		return b
	}(),
	// secrets whose edge octets are "white space" to text-minded code: the secret is an opaque octet string
	[]byte(" lead-space"),
	[]byte("trail-newline\n"),
	[]byte("\t\vboth-edges\f\r"),
	[]byte("\xc2\xa0utf8-space-edges\xc2\x85"),
}

// baseSecrets: the secrets of the full seed product; the rest are edge-octet secrets run on a reduced product.
const baseSecrets = 3

func rpt(c byte, n int) []byte { return bytes.Repeat([]byte{c}, n) }

var attrSets = [][]attr{
	nil,
	{{44, []byte(liveSession)}},
	{{1, []byte("alice")}, {44, []byte(liveSession)}, {8, []byte{10, 0, 0, 5}}, {11, []byte("gold")}},
	// unknown sessions with long identifiers: the NAK echoes them in a Reply-Message far beyond 200 bytes
	{{44, rpt('L', 190)}},
	{{1, rpt('u', 253)}, {44, rpt('S', 253)}},
}

var attrSetNames = []string{"0", "1", "4", "1x190", "2x253"}

// seeds: the full product 3 base secrets x 2 codes x {0,1,4} attributes x ids {0,1,255}; plus long-attribute
// requests and edge-octet secrets on a reduced product (quick: id 1 and, for the long ones, secret 0 only).
func seeds(thorough bool) []seed {
	var out []seed
	add := func(si int, code byte, ai int, id byte, full bool) {
		out = append(out, seed{fmt.Sprintf("code%d/attrs%s/id%d/secret%d", code, attrSetNames[ai], id, si), code, id, attrSets[ai], si, full})
	}
	ids := []byte{0, 1, 255}
	for si := 0; si < baseSecrets; si++ {
		for _, code := range []byte{43, 40} {
			for ai := 0; ai < 3; ai++ {
				for _, id := range ids {
					// quick tier: the complete length sweep runs on 2 seeds (CoA with 4 attributes, Disconnect with 1; id 1, secret 0)
					full := thorough || (id == 1 && si == 0 && ((code == 43 && ai == 2) || (code == 40 && ai == 1)))
					add(si, code, ai, id, full)
				}
			}
		}
	}
	xids := []byte{1}
	if thorough {
		xids = ids
	}
	for si := 0; si < baseSecrets; si++ {
		if !thorough && si > 0 {
			break
		}
		for _, code := range []byte{43, 40} {
			for ai := 3; ai < len(attrSets); ai++ {
				for _, id := range xids {
					add(si, code, ai, id, false)
				}
			}
		}
	}
	for si := baseSecrets; si < len(secrets); si++ {
		for _, code := range []byte{43, 40} {
			for ai := 0; ai < 3; ai++ {
				for _, id := range xids {
					add(si, code, ai, id, false)
				}
			}
		}
	}
	return out
}

type stim struct {
	desc string
	data []byte
}

// family generators: emit every stimulus of the family for one seed packet p.
type family struct {
	name string
	// perSecret families ignore the seed (run once per secret with the first seed of that secret)
	perSecret bool
	// heavy families are run on a reduced seed set in the quick tier
	chunks int
	gen    func(p []byte, secret []byte, chunk int, full bool, emit func(stim))
}

func attrPositions(p []byte) (types, lens []int) {
	for off := 20; off+2 <= len(p); {
		types = append(types, off)
		lens = append(lens, off+1)
		al := int(p[off+1])
		if al < 2 {
			break
		}
		off += al
	}
	return
}

// lenValues: the length-field values of one chunk. full: every value of
// [chunk*16384,(chunk+1)*16384). Reduced (quick tier, seeds other than the
// full-sweep ones): 0..n+40, every 2^k and 2^k+-1, both bytes swapped, and the
// neighbourhood of 4096 and 65535 - all in chunk 0.
func lenValues(n, chunk int, full bool) []int {
	var out []int
	if full {
		for v := chunk * 16384; v < (chunk+1)*16384; v++ {
			out = append(out, v)
		}
		return out
	}
	if chunk != 0 {
		return nil
	}
	seen := map[int]bool{}
	add := func(v int) {
		if v >= 0 && v <= 65535 && !seen[v] {
			seen[v] = true
			out = append(out, v)
		}
	}
	for v := 0; v <= n+40; v++ {
		add(v)
	}
	for k := 0; k <= 16; k++ {
		add(1<<k - 1)
		add(1 << k)
		add(1<<k + 1)
	}
	add(n << 8)
	add((n << 8) | n)
	for _, v := range []int{4094, 4095, 4096, 4097, 4098, 65534, 65535} {
		add(v)
	}
	sort.Ints(out)
	return out
}

func clone(p []byte) []byte { return append([]byte{}, p...) }

func families() []family {
	return []family{
		{name: "valid", chunks: 1, gen: func(p, s []byte, _ int, _ bool, emit func(stim)) {
			emit(stim{"seed unchanged", clone(p)})
		}},
		{name: "bitflip", chunks: 1, gen: func(p, s []byte, _ int, _ bool, emit func(stim)) {
			for i := 0; i < len(p)*8; i++ {
				q := clone(p)
				q[i/8] ^= 1 << (i % 8)
				emit(stim{fmt.Sprintf("flip bit %d of byte %d", i%8, i/8), q})
			}
		}},
		{name: "subst", chunks: 1, gen: func(p, s []byte, _ int, _ bool, emit func(stim)) {
			pos := []int{}
			for i := 0; i < 20; i++ {
				pos = append(pos, i)
			}
			ts, ls := attrPositions(p)
			pos = append(append(pos, ts...), ls...)
			for _, i := range pos {
				for v := 0; v < 256; v++ {
					q := clone(p)
					q[i] = byte(v)
					emit(stim{fmt.Sprintf("byte %d := %d, authenticator left", i, v), q})
				}
			}
		}},
		{name: "subst-resigned", chunks: 1, gen: func(p, s []byte, _ int, _ bool, emit func(stim)) {
			pos := []int{0, 1, 2, 3}
			ts, ls := attrPositions(p)
			pos = append(append(pos, ts...), ls...)
			for _, i := range pos {
				for v := 0; v < 256; v++ {
					for _, all := range []bool{true, false} {
						q := clone(p)
						q[i] = byte(v)
						resign(q, s, all)
						emit(stim{fmt.Sprintf("byte %d := %d, authenticator recomputed (fallback all=%v)", i, v, all), q})
					}
				}
			}
		}},
		{name: "trunc", chunks: 1, gen: func(p, s []byte, _ int, _ bool, emit func(stim)) {
			for k := 0; k < len(p); k++ {
				emit(stim{fmt.Sprintf("first %d bytes", k), clone(p[:k])})
				if k >= 20 {
					q := clone(p[:k])
					binary.BigEndian.PutUint16(q[2:4], uint16(k))
					resign(q, s, true)
					emit(stim{fmt.Sprintf("first %d bytes, length field and authenticator recomputed", k), q})
					q = clone(p[:k])
					resign(q, s, true) // length field still says len(p): claims more than was sent
					emit(stim{fmt.Sprintf("first %d bytes, authenticator recomputed, length field left", k), q})
				}
			}
		}},
		{name: "lenfield", chunks: 4, gen: func(p, s []byte, chunk int, full bool, emit func(stim)) {
			for _, v := range lenValues(len(p), chunk, full) {
				q := clone(p)
				binary.BigEndian.PutUint16(q[2:4], uint16(v))
				emit(stim{fmt.Sprintf("length field := %d, authenticator left", v), q})
			}
		}},
		{name: "lenfield-resigned", chunks: 4, gen: func(p, s []byte, chunk int, full bool, emit func(stim)) {
			for _, v := range lenValues(len(p), chunk, full) {
				for _, all := range []bool{true, false} {
					if !all && v >= 20 && v <= len(p) {
						continue // identical to the all=true variant
					}
					q := clone(p)
					binary.BigEndian.PutUint16(q[2:4], uint16(v))
					resign(q, s, all)
					emit(stim{fmt.Sprintf("length field := %d, authenticator recomputed (fallback all=%v)", v, all), q})
				}
			}
			if chunk == 0 {
				// the same on a datagram padded far beyond the packet, so that large length values are <= n
				for _, padTo := range []int{4095, 4096, 4097, 5000} {
					for _, pad := range []byte{0, 0x02, 0xa5} {
						for _, v := range []int{0, 1, 4, 19, 20, 21, 22, len(p) - 1, len(p), len(p) + 1, len(p) + 2, 255, 256, 4094, 4095, 4096, 4097, 4999, 5000, 5001, 65535} {
							q := clone(p)
							for len(q) < padTo {
								q = append(q, pad)
							}
							binary.BigEndian.PutUint16(q[2:4], uint16(v))
							resign(q, s, true)
							emit(stim{fmt.Sprintf("padded with %#x to %d bytes, length field := %d, authenticator recomputed", pad, padTo, v), q})
						}
					}
				}
			}
		}},
		{name: "trailing", chunks: 1, gen: func(p, s []byte, _ int, _ bool, emit func(stim)) {
			for _, g := range []int{1, 2, 3, 4, 5, 6, 7, 8, 19, 20, 255, 256, 4096 - len(p) - 1, 4096 - len(p), 4096 - len(p) + 1, 6000} {
				for _, fill := range []byte{0x00, 0xff, 0x2c} {
					q := clone(p)
					for i := 0; i < g; i++ {
						q = append(q, fill)
					}
					emit(stim{fmt.Sprintf("%d trailing bytes %#x outside the length field", g, fill), clone(q)})
					if len(q) <= 65535 {
						r := clone(q)
						binary.BigEndian.PutUint16(r[2:4], uint16(len(r)))
						resign(r, s, true)
						emit(stim{fmt.Sprintf("%d trailing bytes %#x inside the length field, authenticator recomputed", g, fill), r})
					}
				}
			}
		}},
		{name: "tlv-resigned", chunks: 1, gen: func(p, s []byte, _ int, _ bool, emit func(stim)) {
			// attribute regions that are not a sequence of TLVs (and a few that are), appended to the
			// seed's attributes and also alone, always with length field and authenticator recomputed
			var regions [][]byte
			for _, t := range []byte{0, 1, 44, 255} {
				regions = append(regions, []byte{t})
				for _, l := range []byte{0, 1, 2, 3, 4, 255} {
					regions = append(regions, []byte{t, l}, []byte{t, l, 'x'}, []byte{t, l, 'x', 'y'}, []byte{t, l, 'x', 'y', 'z'})
				}
			}
			regions = append(regions, []byte{44, 8, 's', 'e', 's', 's', '-', '1', 0}, []byte{44, 8, 's', 'e', 's', 's', '-', '1', 44}, []byte{44, 8, 's', 'e', 's', 's', '-', '1', 44, 0}, []byte{44, 8, 's', 'e', 's', 's', '-', '1', 44, 1}, []byte{44, 8, 's', 'e', 's', 's', '-', '1', 44, 3, 'a'}, []byte{44, 8, 's', 'e', 's', 's', '-', '1', 44, 4, 'a'})
			for _, base := range [][]byte{p[:20], p} {
				for _, reg := range regions {
					q := append(clone(base), reg...)
					binary.BigEndian.PutUint16(q[2:4], uint16(len(q)))
					resign(q, s, true)
					emit(stim{fmt.Sprintf("attributes := seed[%d:] ++ %x, length and authenticator recomputed", 20, reg), q})
				}
			}
		}},
		{name: "slow-handler", perSecret: true, chunks: 1, gen: func(p, s []byte, _ int, _ bool, emit func(stim)) {
			// authentic requests for a session whose handler takes handlerDelay of real time: they must be
			// answered like any other (the property has no "if the handler is quick" clause)
			for _, id := range []byte{1, 255} {
				emit(stim{fmt.Sprintf("CoA-Request id %d for the slow session", id), buildRequest(43, id, []attr{{44, []byte(slowSession)}, {11, []byte("gold")}}, s)})
				emit(stim{fmt.Sprintf("Disconnect-Request id %d for the slow session", id), buildRequest(40, id, []attr{{44, []byte(slowSession)}}, s)})
			}
		}},
		{name: "wrong-secret", chunks: 1, gen: func(p, s []byte, _ int, _ bool, emit func(stim)) {
			// the same request signed with keys that text-minded handling of the secret would confuse with it
			flip := clone(s)
			flip[len(flip)-1] ^= 1
			alts := [][]byte{bytes.TrimSpace(s), bytes.Trim(s, "\x00"), bytes.Trim(s, "\x00 \t\r\n\v\f"), append(clone(s), '\n'), append([]byte{' '}, s...),
				append(clone(s), 0), s[1:], s[:len(s)-1], {}, flip, bytes.ToUpper(s), bytes.ToLower(s)}
			for i, a := range alts {
				if bytes.Equal(a, s) {
					continue
				}
				q := clone(p)
				resign(q, a, true)
				emit(stim{fmt.Sprintf("signed with variant %d of the secret (%q)", i, firstBytes(a, 12)), q})
			}
		}},
		{name: "short", perSecret: true, chunks: 4, gen: func(p, s []byte, chunk int, _ bool, emit func(stim)) {
			if chunk == 0 {
				emit(stim{"empty datagram", []byte{}})
				for a := 0; a < 256; a++ {
					emit(stim{fmt.Sprintf("1 byte %02x", a), []byte{byte(a)}})
				}
			}
			for a := chunk * 64; a < (chunk+1)*64; a++ {
				for b := 0; b < 256; b++ {
					emit(stim{fmt.Sprintf("2 bytes %02x%02x", a, b), []byte{byte(a), byte(b)}})
				}
			}
		}},
	}
}

// ---------------------------------------------------------------- driver

// batchSize: stimulus+fence pairs in flight at once (small datagrams; far below the socket buffers).
const batchSize = 32

type job struct {
	fam   family
	sd    seed
	chunk int
}

type famStat struct {
	n, accepted int64
	stages      map[string]int64
	capped      bool
}

// classify assigns root-cause classes to the two defects found on the unchanged
// tree (both repaired by /verif/fixes/C15-F1, C15-F2; neither is listed as a
// known finding, so they are reported until the fixes are applied). The
// predicates are recomputed from the witness datagram, not from the message.
func classify(v *report.Violation) {
	sh, _ := v.Extra["secret_hex"].(string)
	dh, _ := v.Extra["datagram_hex"].(string)
	secret, _ := hex.DecodeString(sh)
	d, _ := hex.DecodeString(dh)
	if len(d) < 20 {
		return
	}
	ref := reference(d, secret)
	switch v.Kind {
	case "listener-panic":
		if ref.Stage == "len<20" && strings.Contains(v.Detail, "slice bounds out of range") {
			v.Class = "C15-F1-length-field-below-20-panic"
		}
	case "acted-on-unauthentic", "answered-unauthentic":
		if ref.Stage != "tlv" {
			return
		}
		// well-formed TLVs followed by exactly one leftover byte inside the length field
		L := int(binary.BigEndian.Uint16(d[2:4]))
		off := 20
		for off+2 <= L {
			al := int(d[off+1])
			if al < 2 || off+al > L {
				return
			}
			off += al
		}
		if off == L-1 {
			v.Class = "C15-F2-stray-byte-after-last-attribute"
		}
	}
}

func TestCheck(t *testing.T) {
	run := report.New("C15", "exploration")
	run.Rule = "every datagram of a finite generator (valid CoA/Disconnect seeds x bit flips, byte substitutions, truncations, all 65536 length-field values with and without re-signing, trailing bytes, malformed TLVs re-signed, all strings of <=2 bytes) is sent to the real CoAServer receive loop + CoAProcessor over loopback UDP followed by a fence; handler/response observed <=> independent RFC 5176 reference predicate; responses verified"
	run.Assumptions = []string{
		"loopback UDP delivers datagrams of one socket pair in order and without loss while at most two are in flight (fence protocol); a lost datagram ends the run as a harness error, never as a violation",
		"the listener runs through the add-only seam VerifCoAServe (same receiveLoop as Start(), socket bound by the harness) so that a panic can be recovered and attributed",
		"maximum RADIUS packet length 4096 (RFC 2865 section 3) is part of the reference predicate",
	}
	if *report.FlagReplay != "" {
		os.Exit(replay(run))
	}
	budget := 60 * time.Second
	if run.Thorough() {
		budget = 15 * time.Minute
		handlerDelay = 6 * time.Second
	}
	start := time.Now()

	var jobs []job
	for _, f := range families() {
		if !run.WantPart("coa-listener/" + f.name) {
			continue
		}
		seenSecret := map[int]bool{}
		for _, sd := range seeds(run.Thorough()) {
			if f.perSecret && sd.secret >= baseSecrets {
				continue
			}
			if f.perSecret {
				if seenSecret[sd.secret] {
					continue
				}
				seenSecret[sd.secret] = true
			}
			for c := 0; c < f.chunks; c++ {
				jobs = append(jobs, job{f, sd, c})
			}
		}
	}
	// cheap, diverse families first: an expired budget then cuts only the tail of the length sweep
	sort.SliceStable(jobs, func(i, j int) bool { return jobs[i].fam.chunks < jobs[j].fam.chunks })

	stats := map[string]*famStat{}
	var smu sync.Mutex
	var next int64 = -1
	var fatal atomic.Value
	var wg sync.WaitGroup
	workers := runtime.NumCPU()
	for w := 0; w < workers; w++ {
		wg.Add(1)
		go func() {
			defer wg.Done()
			envs := map[int]*env{}
			defer func() {
				for _, e := range envs {
					e.close()
				}
			}()
			for {
				j := atomic.AddInt64(&next, 1)
				if int(j) >= len(jobs) || fatal.Load() != nil {
					return
				}
				jb := jobs[j]
				if time.Since(start) > budget {
					smu.Lock()
					st := stats[jb.fam.name]
					if st == nil {
						st = &famStat{stages: map[string]int64{}}
						stats[jb.fam.name] = st
					}
					st.capped = true
					smu.Unlock()
					continue
				}
				e := envs[jb.sd.secret]
				if e == nil {
					var err error
					e, err = newEnv(secrets[jb.sd.secret])
					if err == nil {
						err = selfTest(run, e)
					}
					if err == errStop {
						fatal.Store("STOP")
						return
					}
					if err != nil {
						fatal.Store(err.Error())
						return
					}
					envs[jb.sd.secret] = e
				}
				local := &famStat{stages: map[string]int64{}}
				p := buildRequest(jb.sd.code, jb.sd.id, jb.sd.attrs, e.secret)
				// quick tier: the complete 0..65535 length sweep runs on 2 seeds (CoA with 4 attributes,
				// Disconnect with 1; id 1, secret 0), a reduced one on the other 52
				full := jb.sd.full
				var batch []stim
				batchBytes := 0
				flush := func() {
					if len(batch) == 0 || fatal.Load() != nil {
						batch, batchBytes = batch[:0], 0
						return
					}
					ds := make([][]byte, len(batch))
					for i := range batch {
						ds[i] = batch[i].data
					}
					all, err := e.run(ds)
					if fe, ok := err.(*fenceErr); ok {
						reportFenceErr(run, e, fe, "coa-listener/"+jb.fam.name, jb.sd.name, batch[fe.idx].desc)
						fatal.Store("STOP") // a verdict, not a harness fault: the run ends here with the violation
						return
					}
					if err != nil && err != errWatchdog {
						if _, isFence := err.(*fenceErr); !isFence {
							// attribution by order failed: the listener does not serve one datagram at a time. Re-run the
							// batch one stimulus at a time with order-free attribution; only a violation found that way
							// is reported, otherwise this stays a harness error.
							found := 0
							for _, s := range batch {
								o, err2 := e.runLoose(s.data)
								if fe, ok := err2.(*fenceErr); ok {
									reportFenceErr(run, e, fe, "coa-listener/"+jb.fam.name, jb.sd.name, s.desc)
									found++
									break
								}
								if err2 != nil {
									break
								}
								_, vs := judge(s.data, e.secret, o)
								for _, v := range vs {
									rv := report.Violation{Part: "coa-listener/" + jb.fam.name, Kind: v.Kind, Site: "CoAServer.receiveLoop",
										Detail: v.Detail + " (the listener does not serve datagrams one at a time: \"" + err.Error() + "\"; verdict from a single-stimulus re-run)",
										Config: jb.sd.name, Trace: []string{"seed " + jb.sd.name, s.desc, "datagram " + hexShort(s.data)},
										Extra: map[string]any{"secret_hex": hex.EncodeToString(e.secret), "datagram_hex": hex.EncodeToString(s.data)}}
									classify(&rv)
									run.Violation(rv)
									found++
								}
							}
							if found > 0 {
								fatal.Store("STOP")
								return
							}
						}
					}
					if err != nil {
						fatal.Store(fmt.Sprintf("%v (family %s seed %s, batch of %d starting at: %s; datagram %s)", err, jb.fam.name, jb.sd.name, len(batch), batch[0].desc, hexShort(batch[0].data)))
						return
					}
					for i, s := range batch {
						obs := all[i]
						ref, vs := judge(s.data, e.secret, obs)
						local.n++
						local.stages[ref.Stage]++
						if ref.OK {
							local.accepted++
						}
						if local.n == 1 && jb.chunk == 0 && jb.sd.id == 1 {
							run.Sample(map[string]any{"family": jb.fam.name, "seed": jb.sd.name, "stimulus": s.desc, "datagram": hexShort(s.data), "reference": ref.Stage, "responses": len(obs.Responses), "handler_calls": len(obs.Calls)})
						}
						for _, v := range vs {
							rv := report.Violation{Part: "coa-listener/" + jb.fam.name, Kind: v.Kind, Site: "CoAServer.receiveLoop", Detail: v.Detail,
								Config: jb.sd.name, Trace: []string{"seed " + jb.sd.name, s.desc, "datagram " + hexShort(s.data)},
								Extra: map[string]any{"secret_hex": hex.EncodeToString(e.secret), "datagram_hex": hex.EncodeToString(s.data)}}
							classify(&rv)
							run.Violation(rv)
						}
					}
					batch, batchBytes = batch[:0], 0
				}
				jb.fam.gen(p, e.secret, jb.chunk, full, func(s stim) {
					batch = append(batch, s)
					batchBytes += len(s.data)
					if len(batch) >= batchSize || batchBytes >= 8192 {
						flush()
					}
				})
				flush()
				smu.Lock()
				st := stats[jb.fam.name]
				if st == nil {
					st = &famStat{stages: map[string]int64{}}
					stats[jb.fam.name] = st
				}
				st.n += local.n
				st.accepted += local.accepted
				for k, v := range local.stages {
					st.stages[k] += v
				}
				smu.Unlock()
			}
		}()
	}
	wg.Wait()
	if f := fatal.Load(); f != nil && f.(string) != "STOP" {
		run.HarnessError(f.(string))
	}
	names := make([]string, 0, len(stats))
	for n := range stats {
		names = append(names, n)
	}
	sort.Strings(names)
	for _, n := range names {
		st := stats[n]
		ks := make([]string, 0, len(st.stages))
		for k := range st.stages {
			ks = append(ks, k)
		}
		sort.Strings(ks)
		note := ""
		for _, k := range ks {
			note += fmt.Sprintf("%s=%d ", k, st.stages[k])
		}
		run.AddPart(report.Part{Name: "coa-listener/" + n, Engine: "D:bounded-exhaustive-inputs+fence", Bound: fmt.Sprintf("%d seeds (3 secrets x 2 codes x {0,1,4} attrs x ids {0,1,255}; + long-attribute requests and 4 edge-octet secrets on a reduced product); stimuli=%d", len(seeds(run.Thorough())), st.n),
			Exhaustive: !st.capped, Note: "reference verdicts: " + strings.TrimSpace(note)})
		run.AddEvals(st.n, st.accepted)
		fmt.Printf("part coa-listener/%-18s stimuli=%-8d authentic=%-7d %s\n", n, st.n, st.accepted, strings.TrimSpace(note))
	}
	os.Exit(run.Finish())
}

func reportFenceErr(run *report.Run, e *env, fe *fenceErr, part, seedName, desc string) {
	seq := make([]string, len(fe.sequence))
	for i, d := range fe.sequence {
		seq[i] = hex.EncodeToString(d)
	}
	run.Violation(report.Violation{Part: part, Kind: "bad-response", Site: "CoAServer.receiveLoop",
		Detail: fmt.Sprintf("after the stimulus a valid Disconnect-Request with identifier %d was sent; a reply carrying that identifier came back that does not verify against it (reply %s). Either the valid request was answered with another request's reply, or the stimulus was answered under a foreign identifier; the listener's answers depend on earlier requests",
			fe.fence[1], hexShort(fe.reply)),
		Config: seedName, Trace: []string{"seed " + seedName, desc, fmt.Sprintf("then valid request %s", hexShort(fe.fence)), fmt.Sprintf("%d datagrams of context (previous and current batch)", len(fe.sequence))},
		Extra: map[string]any{"secret_hex": hex.EncodeToString(e.secret), "sequence_hex": seq}})
}

// selfTest: a lone fence must be answered by exactly one verifying NAK. If the
// listener cannot even do that, fencing is impossible; that is itself a
// violation on a known-good input (reported), and the run stops.
func selfTest(run *report.Run, e *env) error {
	e.watchdog = 8 * time.Second
	obs, err := e.run1(nil)
	e.watchdog = watchdog
	if fe, ok := err.(*fenceErr); ok {
		// the lone valid request was answered at once, with a reply that does not verify against it
		run.Violation(report.Violation{Part: "coa-listener/selftest", Kind: "bad-response", Site: "CoAServer.receiveLoop",
			Detail: fmt.Sprintf("a lone valid Disconnect-Request was answered by a datagram with its identifier whose Response Authenticator does not verify against it: %s", hexShort(fe.reply)),
			Trace:  []string{"valid Disconnect-Request (fence) alone"}, Extra: map[string]any{"secret_hex": hex.EncodeToString(e.secret), "selftest": true}})
		return errStop
	}
	if err == errWatchdog {
		// distinguish "nothing came back" (harness/network problem) from "something came back that does not verify"
		if len(obs.Responses) > 0 {
			run.Violation(report.Violation{Part: "coa-listener/selftest", Kind: "bad-response", Site: "CoAServer.receiveLoop",
				Detail: fmt.Sprintf("a valid Disconnect-Request was answered by %d datagram(s), none of which carries the request identifier and a verifying Response Authenticator; first=%s", len(obs.Responses), hex.EncodeToString(obs.Responses[0])),
				Trace:  []string{"valid Disconnect-Request (fence) alone"}, Extra: map[string]any{"secret_hex": hex.EncodeToString(e.secret), "selftest": true}})
			return errStop
		}
		e.mu.Lock()
		logged := append([]string{}, e.srvLog...)
		e.mu.Unlock()
		for _, m := range logged {
			if strings.Contains(m, "Invalid authenticator") || strings.Contains(m, "Failed to parse attributes") || strings.Contains(m, "Unknown RADIUS code") {
				run.Violation(report.Violation{Part: "coa-listener/selftest", Kind: "authentic-rejected", Site: "CoAServer.receiveLoop",
					Detail: fmt.Sprintf("a lone valid Disconnect-Request (secret of %d bytes, %q...) was rejected: the listener logged %q and sent nothing", len(e.secret), firstBytes(e.secret, 4), m),
					Trace:  []string{"valid Disconnect-Request (fence) alone"}, Extra: map[string]any{"secret_hex": hex.EncodeToString(e.secret), "selftest": true}})
				return errStop
			}
		}
		return fmt.Errorf("self-test: no reply to a valid request on loopback and no rejection logged by the listener")
	}
	if err != nil {
		return err
	}
	if obs.Panic != "" || len(obs.Responses) != 0 || len(obs.Calls) != 0 {
		return fmt.Errorf("self-test: unexpected activity %+v", obs)
	}
	return nil
}

func firstBytes(b []byte, n int) string {
	if len(b) > n {
		b = b[:n]
	}
	return string(b)
}

func hexShort(b []byte) string {
	if len(b) <= 96 {
		return hex.EncodeToString(b)
	}
	return fmt.Sprintf("%s...(%d bytes, tail %s)", hex.EncodeToString(b[:64]), len(b), hex.EncodeToString(b[len(b)-8:]))
}

func replay(run *report.Run) int {
	v, err := report.LoadReplay(*report.FlagReplay)
	if err != nil {
		fmt.Println("HARNESS-ERROR", err)
		return 2
	}
	sh, _ := v.Extra["secret_hex"].(string)
	dh, _ := v.Extra["datagram_hex"].(string)
	secret, err1 := hex.DecodeString(sh)
	d, err2 := hex.DecodeString(dh)
	if err1 != nil || err2 != nil || len(secret) == 0 {
		fmt.Println("HARNESS-ERROR replay file lacks secret_hex/datagram_hex")
		return 2
	}
	e, err := newEnv(secret)
	if err != nil {
		fmt.Println("HARNESS-ERROR", err)
		return 2
	}
	defer e.close()
	if sq, ok := v.Extra["sequence_hex"].([]any); ok && len(sq) > 0 {
		var ds [][]byte
		for _, h := range sq {
			b, _ := hex.DecodeString(fmt.Sprint(h))
			ds = append(ds, b)
		}
		all, err := e.run(ds)
		if _, ok := err.(*fenceErr); ok {
			fmt.Printf("VIOLATION property=C15 replay=%s\n  kind=bad-response detail=%v\n", *report.FlagReplay, err)
			return 1
		}
		if err != nil {
			fmt.Println("HARNESS-ERROR", err)
			return 2
		}
		hit := false
		for i, d := range ds {
			_, vs := judge(d, secret, all[i])
			for _, x := range vs {
				fmt.Printf("VIOLATION property=C15 replay=%s\n  kind=%s site=CoAServer.receiveLoop datagram#%d detail=%s\n", *report.FlagReplay, x.Kind, i, x.Detail)
				hit = true
			}
		}
		if hit {
			return 1
		}
		fmt.Println("replay: no violation")
		return 0
	}
	var obs observation
	if st, _ := v.Extra["selftest"].(bool); st {
		d = nil
		e.watchdog = 8 * time.Second
	}
	obs, err = e.run1(d)
	if _, ok := err.(*fenceErr); ok {
		fmt.Printf("VIOLATION property=C15 replay=%s\n  kind=bad-response detail=%v\n", *report.FlagReplay, err)
		return 1
	}
	if err != nil {
		if err == errWatchdog && len(obs.Responses) > 0 {
			fmt.Printf("VIOLATION property=C15 replay=%s\n  kind=bad-response detail=reply to a valid request does not verify: %s\n", *report.FlagReplay, hex.EncodeToString(obs.Responses[0]))
			return 1
		}
		if err == errWatchdog {
			e.mu.Lock()
			logged := append([]string{}, e.srvLog...)
			e.mu.Unlock()
			for _, m := range logged {
				if strings.Contains(m, "Invalid authenticator") || strings.Contains(m, "Failed to parse attributes") || strings.Contains(m, "Unknown RADIUS code") {
					fmt.Printf("VIOLATION property=C15 replay=%s\n  kind=authentic-rejected detail=valid request rejected, listener logged %q\n", *report.FlagReplay, m)
					return 1
				}
			}
		}
		fmt.Println("HARNESS-ERROR", err)
		return 2
	}
	ref, vs := judge(d, secret, obs)
	fmt.Printf("replay: %d-byte datagram, reference verdict %q, responses=%d handler calls=%d callbacks=%v panic=%v\n", len(d), ref.Stage, len(obs.Responses), len(obs.Calls), obs.Effects, obs.Panic != "")
	for _, x := range vs {
		fmt.Printf("VIOLATION property=C15 replay=%s\n  kind=%s site=CoAServer.receiveLoop detail=%s\n", *report.FlagReplay, x.Kind, x.Detail)
	}
	if len(vs) > 0 {
		return 1
	}
	fmt.Println("replay: no violation")
	return 0
}
